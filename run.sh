#!/bin/sh
# usage: ./run.sh <property-id> quick|thorough     (cwd = /verif)
# Rebuilds bin/geomcheck when its sources are newer, then analyses /repo's
# current working tree.  Nothing is executed from /repo; it is only read.
set -u
here=$(cd "$(dirname "$0")" && pwd)
export GOFLAGS=-mod=mod GOPROXY=off GOSUMDB=off GOTOOLCHAIN=local CGO_ENABLED=0
unset GOWORK
export VERIF_DIR="$here"
bin="$here/bin/geomcheck"
need=0
if [ ! -x "$bin" ]; then need=1; else
  for f in "$here"/checker/*.go "$here"/checker/go.mod; do
    if [ "$f" -nt "$bin" ]; then need=1; break; fi
  done
fi
if [ "$need" = 1 ]; then
  mkdir -p "$here/bin"
  (cd "$here/checker" && go build -o "$bin.tmp.$$" . && mv "$bin.tmp.$$" "$bin") || {
    echo "VIOLATION property=${1:-?} replay=-"; echo "  UNDECIDED checker build failed"; exit 1; }
fi
prop=${1:?property id}
tier=${2:-quick}
exec "$bin" check -prop "$prop" -tier "$tier"
