package main

// A ~150-line reader for the subset of JavaScript used by the bundled proj4js
// constant tables: `exports.NAME = {k: v, …};`, `exports['NAME'] = {…};`,
// `exports.NAME = number;`, `var NAME = number;` and the one-line setters of
// lib/projString.js.  Values are numbers (with an optional `a / b` quotient)
// or quoted strings.  This is a specification artefact shipped inside /repo.

import (
	"fmt"
	"os"
	"regexp"
	"strconv"
	"strings"
)

type jsVal struct {
	isNum bool
	num   float64
	str   string
}

type jsTable map[string]map[string]jsVal // export name → field → value ("" field for scalar exports)

var (
	reExportHead = regexp.MustCompile(`(?m)^exports(?:\.([A-Za-z_][A-Za-z_0-9]*)|\[['"]([^'"]+)['"]\])\s*=\s*`)
	reVarNum     = regexp.MustCompile(`(?m)^var\s+([A-Za-z_][A-Za-z_0-9]*)\s*=\s*([-+0-9.eE]+(?:\s*/\s*[-+0-9.eE]+)?)\s*;`)
	reField      = regexp.MustCompile(`^\s*([A-Za-z_][A-Za-z_0-9]*|"[^"]*"|'[^']*')\s*:\s*`)
)

func stripJSComments(s string) string {
	var b strings.Builder
	inStr := byte(0)
	for i := 0; i < len(s); i++ {
		c := s[i]
		if inStr != 0 {
			b.WriteByte(c)
			if c == '\\' && i+1 < len(s) {
				i++
				b.WriteByte(s[i])
			} else if c == inStr {
				inStr = 0
			}
			continue
		}
		if c == '"' || c == '\'' {
			inStr = c
			b.WriteByte(c)
			continue
		}
		if c == '/' && i+1 < len(s) && s[i+1] == '/' {
			for i < len(s) && s[i] != '\n' {
				i++
			}
			b.WriteByte('\n')
			continue
		}
		if c == '/' && i+1 < len(s) && s[i+1] == '*' {
			i += 2
			for i+1 < len(s) && !(s[i] == '*' && s[i+1] == '/') {
				i++
			}
			i++
			continue
		}
		b.WriteByte(c)
	}
	return b.String()
}

func parseJSValue(s string) (jsVal, string, error) {
	s = strings.TrimLeft(s, " \t\r\n")
	if s == "" {
		return jsVal{}, s, fmt.Errorf("empty value")
	}
	if s[0] == '"' || s[0] == '\'' {
		q := s[0]
		var b strings.Builder
		i := 1
		for i < len(s) && s[i] != q {
			if s[i] == '\\' && i+1 < len(s) {
				i++
			}
			b.WriteByte(s[i])
			i++
		}
		if i >= len(s) {
			return jsVal{}, s, fmt.Errorf("unterminated string")
		}
		return jsVal{str: b.String()}, s[i+1:], nil
	}
	// number [ / number ]
	num := func(t string) (float64, string, error) {
		t = strings.TrimLeft(t, " \t\r\n")
		j := 0
		for j < len(t) && strings.ContainsRune("+-0123456789.eE", rune(t[j])) {
			j++
		}
		if j == 0 {
			return 0, t, fmt.Errorf("number expected at %q", t[:min(len(t), 20)])
		}
		v, err := strconv.ParseFloat(t[:j], 64)
		return v, t[j:], err
	}
	v, rest, err := num(s)
	if err != nil {
		return jsVal{}, s, err
	}
	r2 := strings.TrimLeft(rest, " \t")
	if strings.HasPrefix(r2, "/") {
		d, rest2, err := num(r2[1:])
		if err != nil {
			return jsVal{}, s, err
		}
		return jsVal{isNum: true, num: v / d}, rest2, nil
	}
	return jsVal{isNum: true, num: v}, rest, nil
}

// parseJSExports reads every `exports.X = …;` of a file.
func parseJSExports(path string) (jsTable, error) {
	b, err := os.ReadFile(path)
	if err != nil {
		return nil, err
	}
	src := stripJSComments(string(b))
	out := jsTable{}
	locs := reExportHead.FindAllStringSubmatchIndex(src, -1)
	for _, loc := range locs {
		name := ""
		if loc[2] >= 0 {
			name = src[loc[2]:loc[3]]
		} else {
			name = src[loc[4]:loc[5]]
		}
		rest := strings.TrimLeft(src[loc[1]:], " \t\r\n")
		fields := map[string]jsVal{}
		if strings.HasPrefix(rest, "{") {
			rest = rest[1:]
			for {
				rest = strings.TrimLeft(rest, " \t\r\n,")
				if strings.HasPrefix(rest, "}") {
					break
				}
				m := reField.FindStringSubmatch(rest)
				if m == nil {
					return nil, fmt.Errorf("%s: export %s: field expected at %q", path, name, rest[:min(len(rest), 30)])
				}
				key := strings.Trim(m[1], `"'`)
				rest = rest[len(m[0]):]
				v, r, err := parseJSValue(rest)
				if err != nil {
					return nil, fmt.Errorf("%s: export %s.%s: %v", path, name, key, err)
				}
				fields[key] = v
				rest = r
			}
		} else {
			v, _, err := parseJSValue(rest)
			if err != nil {
				return nil, fmt.Errorf("%s: export %s: %v", path, name, err)
			}
			fields[""] = v
		}
		if _, dup := out[name]; dup {
			return nil, fmt.Errorf("%s: export %s defined twice", path, name)
		}
		out[name] = fields
	}
	return out, nil
}

// parseJSVarNums reads `var NAME = number;` lines of a file.
func parseJSVarNums(path string) (map[string]float64, error) {
	b, err := os.ReadFile(path)
	if err != nil {
		return nil, err
	}
	src := stripJSComments(string(b))
	out := map[string]float64{}
	for _, m := range reVarNum.FindAllStringSubmatch(src, -1) {
		v, _, err := parseJSValue(m[2])
		if err != nil || !v.isNum {
			continue
		}
		out[m[1]] = v.num
	}
	return out, nil
}

// jsParam describes one entry of the `params` table of lib/projString.js.
type jsParam struct {
	key     string
	field   string // self.<field> assigned (or the renamed key)
	degrees bool   // body applies `* D2R`
}

var (
	reParamFn  = regexp.MustCompile(`(?s)^\s*([a-z_0-9]+)\s*:\s*function\s*\([a-z]*\)\s*\{(.*?)\n\s{4}\}`)
	reParamStr = regexp.MustCompile(`^\s*([a-z_0-9]+)\s*:\s*'([A-Za-z_0-9]+)'`)
	reSelfSet  = regexp.MustCompile(`self\.([A-Za-z_0-9]+)\s*=`)
)

func parseJSParams(path string) ([]jsParam, error) {
	b, err := os.ReadFile(path)
	if err != nil {
		return nil, err
	}
	src := stripJSComments(string(b))
	i := strings.Index(src, "var params = {")
	if i < 0 {
		return nil, fmt.Errorf("%s: `var params = {` not found", path)
	}
	body := src[i+len("var params = {"):]
	end := strings.Index(body, "\n  };")
	if end < 0 {
		return nil, fmt.Errorf("%s: end of params table not found", path)
	}
	body = body[:end]
	var out []jsParam
	for len(strings.TrimSpace(body)) > 0 {
		body = strings.TrimLeft(body, " \t\r\n,")
		if m := reParamStr.FindStringSubmatch(body); m != nil {
			out = append(out, jsParam{key: m[1], field: m[2]})
			body = body[len(m[0]):]
			continue
		}
		if m := reParamFn.FindStringSubmatch(body); m != nil {
			p := jsParam{key: m[1], degrees: strings.Contains(m[2], "D2R")}
			if s := reSelfSet.FindStringSubmatch(m[2]); s != nil {
				p.field = s[1]
			}
			out = append(out, p)
			body = body[len(m[0]):]
			continue
		}
		return nil, fmt.Errorf("%s: params entry not understood at %q", path, body[:min(len(body), 40)])
	}
	return out, nil
}
