package main

// Model evaluation of the CRS parsers (C20.R1–R3, R6, R7).
//
// proj.Parse is interpreted on PROJ.4 and OGC WKT texts that describe the same reference
// system.  Every numeric parameter in the texts is a placeholder (P1, P2, …) that
// strconv.ParseFloat — modelled by the driver — turns into a symbol; the interpreter's
// symbolic arithmetic (ordersym.go) carries the symbols through unit conversions and
// DeriveConstants as normal-form polynomials.  What comes out is compared field by field:
// angular parameters must be symbol × deg2rad from either spelling, the false origin must be
// symbol × linear unit from WKT and the bare symbol from PROJ.4, ellipsoid constants and datum
// shifts must be the same terms, and both projection names must be registered for the same
// constructor.  The comparison is on values (terms), so it does not depend on how the parsers
// are written.

import (
	"fmt"
	"go/ast"
	"go/token"
	"go/types"
	"math"
	"math/big"
	"os"
	"path/filepath"
	"regexp"
	"sort"
	"strconv"
	"strings"
)

var c20placeholder = regexp.MustCompile(`^P(\d+)$`)

type c20m struct {
	c       *Ctx
	h       *shpModel // reflect and text helpers
	it      *oInterp
	err     oval
	defined map[string]string // names registered through addDef, with their definition text
	addDef  *types.Func
}

func hasNaN(p poly) bool {
	for k := range p {
		for _, f := range strings.Split(k, "*") {
			if f == "NaN" {
				return true
			}
		}
	}
	return false
}

func (m *c20m) stub(f *types.Func, recv oval, args []oval) ([]oval, bool) {
	if f == m.addDef && len(args) == 2 {
		// observed, not replaced
		name, ok1 := strOf(args[0])
		def, ok2 := strOf(args[1])
		if ok1 && ok2 {
			m.defined[name] = def
		}
		return nil, false
	}
	if m.it.p.Decl(f) != nil || f.Pkg() == nil {
		return nil, false
	}
	if f.Pkg().Path() == "gonum.org/v1/gonum/floats/scalar" || strings.HasSuffix(f.Pkg().Path(), "/floats") {
		if strings.HasPrefix(f.Name(), "EqualWithin") && len(args) >= 2 {
			// two generic values are within a few ULPs exactly when they are the same term
			eq, ok := oEqual(args[0], args[1])
			if !ok {
				p, ok1 := symOf(args[0])
				q, ok2 := symOf(args[1])
				if ok1 && ok2 {
					return []oval{oBool(p.equal(q) && !polyHasNaN(p))}, true
				}
				return []oval{oTop{"EqualWithinULP of " + showVal(args[0]) + " and " + showVal(args[1])}}, true
			}
			return []oval{oBool(eq)}, true
		}
	}
	switch f.Pkg().Path() {
	case "math":
		switch f.Name() {
		case "NaN":
			return []oval{oSym{polyVar("NaN")}}, true
		case "IsNaN":
			if p, ok := symOf(args[0]); ok {
				return []oval{oBool(hasNaN(p))}, true
			}
			if _, ok := args[0].(oFloat); ok {
				return []oval{oBool(false)}, true
			}
		case "IsInf":
			if fv, ok := args[0].(oFloat); ok {
				return []oval{oBool(fv.r >= oInf || fv.r <= -oInf)}, true
			}
			if _, ok := symOf(args[0]); ok {
				return []oval{oBool(false)}, true
			}
		case "Abs":
			// |x| of a symbolic, non-constant value: keep as an atom (handled by symMath)
		}
		return nil, false
	case "strconv":
		if f.Name() == "ParseFloat" && len(args) == 2 {
			str, ok := strOf(args[0])
			if !ok {
				return []oval{oTop{"ParseFloat of non-concrete text"}, oTop{"?"}}, true
			}
			if mm := c20placeholder.FindStringSubmatch(str); mm != nil {
				return []oval{oSym{polyVar("p" + mm[1])}, oIface{}}, true
			}
			v, err := strconv.ParseFloat(str, 64)
			if err != nil {
				return []oval{oSym{poly{}}, m.err}, true
			}
			// the float64 the text denotes (what the function returns), as an exact rational
			if r := new(big.Rat).SetFloat64(v); r != nil {
				return []oval{oSym{polyConst(r)}, oIface{}}, true
			}
			return []oval{oTop{"ParseFloat of " + str}, oTop{"?"}}, true
		}
	}
	return m.h.stub(f, recv, args)
}

// c20case: one reference system in both spellings.
type c20case struct {
	name  string
	proj4 string
	wkt   string
	// expected terms per SR field for each spelling (nil: not compared with a spec term)
	wantP, wantW map[string]poly
	// fields that must be the same term in both results
	same []string
}

func pv(n int) poly { return polyVar(fmt.Sprintf("p%d", n)) }

// newC20m prepares the interpreter for the CRS parsers: symbolic arithmetic, placeholder
// parameters, a reference valuation for the branches that depend on parameter values.
func newC20m(c *Ctx) (*c20m, *types.Func) {
	parse := c.P.Func("proj", "Parse")
	if parse == nil || c.P.Decl(parse) == nil {
		return nil, nil
	}
	h := newShpModel(c, nil)
	m := &c20m{c: c, h: h, it: h.it, defined: map[string]string{}, addDef: c.P.Func("proj", "addDef")}
	if m.addDef == nil {
		// by signature: the function of two strings (name, definition text) the init functions call
		pk := c.P.Pkg("proj")
		called := map[*types.Func]bool{}
		for _, file := range pk.Syntax {
			for _, d := range file.Decls {
				if fd, ok := d.(*ast.FuncDecl); ok && fd.Recv == nil && fd.Name.Name == "init" && fd.Body != nil {
					ast.Inspect(fd.Body, func(n ast.Node) bool {
						if call, ok := n.(*ast.CallExpr); ok {
							if g := callee(pk.TypesInfo, call); g != nil {
								called[g] = true
							}
						}
						return true
					})
				}
			}
		}
		for g := range called {
			sig := g.Type().(*types.Signature)
			if c.P.Decl(g) == nil || sig.Params().Len() != 2 {
				continue
			}
			b0, ok0 := sig.Params().At(0).Type().Underlying().(*types.Basic)
			b1, ok1 := sig.Params().At(1).Type().Underlying().(*types.Basic)
			if ok0 && ok1 && b0.Kind() == types.String && b1.Kind() == types.String {
				if m.addDef == nil || c.P.FuncName(g) < c.P.FuncName(m.addDef) {
					m.addDef = g
				}
			}
		}
	}
	m.err = oIface{opaque: &oOpaque{name: "error", isError: true}}
	m.it.symbolic = true
	m.it.maxDepth = 48
	m.it.maxLoop = 4096
	// reference valuation: chooses the branch where a comparison on parameters cannot be decided
	// symbolically (is the ellipsoid a sphere? is rf zero?): an ordinary ellipsoid and mid-latitude
	// parameters
	m.it.valuation = map[string]float64{"p1": 33, "p2": 45, "p3": 23, "p4": -96, "p5": 500000, "p6": 1e6, "p7": 6378137, "p8": 298.257223563,
		"p9": 10, "p10": 20, "p11": 30, "p12": 0.3048, "p13": 0.9996, "p14": -100, "p15": 30, "p21": 1, "p22": 2, "p23": 3, "p24": 0.1, "p25": 0.2, "p26": 0.3, "p27": 1.5}
	m.it.stub = m.stub
	return m, parse
}

func (m *c20m) run(parse *types.Func, text string) (*oStruct, string) {
	m.c.Evals(1)
	res, why := m.it.Call(parse, nil, []oval{strVal(types.Typ[types.String], text)}, 0)
	if why != "" {
		return nil, why
	}
	if eq, ok := oEqual(res[1], oNil{}); !ok || !eq {
		return nil, "Parse returns an error"
	}
	p, ok := res[0].(oPtr)
	if !ok || p.s == nil {
		return nil, "Parse returns " + showVal(res[0])
	}
	return p.s, ""
}

// c09angleModel (C09.R3): every PROJ.4 key that proj4js multiplies by D2R, given a symbolic
// value, changes exactly the float fields of the reference it is responsible for, and each
// becomes symbol × deg2rad; every other numeric key leaves the bare symbol.
func c09angleModel(c *Ctx, deg map[string]bool, numeric map[string]bool) {
	m, parse := newC20m(c)
	if m == nil {
		c.Unk("C09.R3", "proj.Parse", token.NoPos, "API anchor does not resolve")
		return
	}
	pos := c.P.Decl(parse).Pos()
	var deg2rad poly
	if o := c.P.Pkg("proj").Types.Scope().Lookup("deg2rad"); o != nil {
		if k, ok := o.(*types.Const); ok {
			deg2rad, _ = symFromConstant(k.Val())
		}
	}
	if deg2rad == nil {
		f := new(big.Rat)
		f.SetFloat64(math.Pi / 180)
		deg2rad = polyConst(f)
	}
	base, why := m.run(parse, "+proj=longlat +a=P7 +rf=P8 +no_defs")
	if why != "" {
		c.Unk("C09.R3", "proj#proj4-parser", pos, "the reference text is not interpretable: %s", why)
		return
	}
	var keys []string
	for k := range deg {
		keys = append(keys, k)
	}
	for k := range numeric {
		if !deg[k] {
			keys = append(keys, k)
		}
	}
	sort.Strings(keys)
	sym := polyVar("p1")
	for _, key := range keys {
		cons := "proj#proj4-param(" + key + ")"
		if key == "a" || key == "rf" || key == "b" {
			// part of the reference text itself: compare directly
			continue
		}
		got, why := m.run(parse, "+proj=longlat +a=P7 +rf=P8 +no_defs +"+key+"=P1")
		if why != "" {
			if deg[key] {
				c.Bad("C09.R3", cons, pos, "proj4js parses +%s (an angle) but the Go parser does not accept it: %s", key, why)
			} else {
				c.Unk("C09.R3", cons, pos, "+%s=<number> is not interpretable: %s", key, why)
			}
			continue
		}
		var changed []string
		bad := ""
		for _, f := range got.order {
			gp, ok1 := symOf(got.fields[f])
			bp, ok2 := symOf(base.fields[f])
			if _, isInt := got.fields[f].(oInt); isInt || !ok1 || !ok2 {
				continue
			}
			if gp.equal(bp) || (polyHasNaN(gp) && polyHasNaN(bp)) {
				continue
			}
			if !onlySymbol(gp, "p1") {
				continue // derived from other parameters
			}
			changed = append(changed, f)
			switch {
			case deg[key] && gp.equal(sym):
				bad = fmt.Sprintf("+%s=P stores SR.%s = P: an angle in degrees is used as radians (proj4js applies `* D2R`)", key, f)
			case deg[key] && gp.equal(symMul(symMul(sym, deg2rad), deg2rad)):
				bad = fmt.Sprintf("+%s=P stores SR.%s = P × deg2rad × deg2rad: converted twice", key, f)
			case deg[key] && !gp.equal(symMul(sym, deg2rad)):
				bad = fmt.Sprintf("+%s=P stores SR.%s = %s, want P × deg2rad", key, f, showVal(got.fields[f]))
			case !deg[key] && gp.equal(symMul(sym, deg2rad)):
				bad = fmt.Sprintf("+%s=P stores SR.%s = P × deg2rad although proj4js treats it as a plain number", key, f)
			}
		}
		if key == "pm" && bad == "" {
			// named prime meridians: the table holds degrees
			if o := c.P.Pkg("proj").Types.Scope().Lookup("primeMeridian"); o != nil {
				if cell := m.it.global(o); cell != nil {
					if mp, ok := (*cell).(oMap); ok && mp.keys != nil {
						for i, k := range *mp.keys {
							name, _ := strOf(k)
							tv, okv := symOf((*mp.vals)[i])
							if name == "" || !okv {
								continue
							}
							named, why := m.run(parse, "+proj=longlat +a=P7 +rf=P8 +no_defs +pm="+name)
							if why != "" {
								bad = fmt.Sprintf("+pm=%s is not accepted: %s", name, why)
								break
							}
							if gp, ok := symOf(named.fields["FromGreenwich"]); !ok || !gp.equal(symMul(tv, deg2rad)) {
								bad = fmt.Sprintf("+pm=%s stores SR.FromGreenwich = %s, want the table's %s degrees × deg2rad", name, showVal(named.fields["FromGreenwich"]), tv.canon())
								break
							}
						}
					}
				}
			}
		}
		switch {
		case bad != "":
			c.Bad("C09.R3", cons, pos, "%s", bad)
		case len(changed) == 0 && deg[key]:
			c.Bad("C09.R3", cons, pos, "+%s=P (an angle) changes no field of the reference", key)
		case len(changed) == 0:
			c.OK("C09.R3", cons, pos, "accepted; no float field of the reference depends on it directly")
		case deg[key]:
			c.OK("C09.R3", cons, pos, "%v = P × deg2rad", changed)
		default:
			c.OK("C09.R3", cons, pos, "%v derived from P without a degree conversion", changed)
		}
	}
}

func c20model(c *Ctx) bool {
	m, parse := newC20m(c)
	if m == nil {
		c.Unk("C20.R1", "proj.Parse", token.NoPos, "API anchor does not resolve")
		return false
	}
	pos := c.P.Decl(parse).Pos()
	strT := types.Typ[types.String]
	srT := c.P.NamedType("proj", "SR")
	if srT == nil {
		c.Unk("C20.R1", "proj.SR", token.NoPos, "type anchor does not resolve")
		return false
	}
	// deg2rad as the parsers' own constant
	var deg2rad poly
	if o := c.P.Pkg("proj").Types.Scope().Lookup("deg2rad"); o != nil {
		if k, ok := o.(*types.Const); ok {
			deg2rad, _ = symFromConstant(k.Val())
		}
	}
	if deg2rad == nil {
		c.Unk("C20.R2", "proj.deg2rad", token.NoPos, "the degree-to-radian constant does not resolve")
		return false
	}
	ang := func(n int) poly { return symMul(pv(n), deg2rad) }

	run := func(text string) (*oStruct, string) { return m.run(parse, text) }
	field := func(s *oStruct, name string) (poly, bool) {
		v, ok := s.fields[name]
		if !ok {
			return nil, false
		}
		return symOf(v)
	}
	showField := func(s *oStruct, name string) string { return showVal(s.fields[name]) }

	geog := `GEOGCS["GCS_Model",DATUM["D_Model",SPHEROID["Model_Spheroid",P7,P8],TOWGS84[P9,P10,P11]],PRIMEM["Greenwich",0],UNIT["degree",0.0174532925199433]]`
	ell := "+a=P7 +rf=P8 +towgs84=P9,P10,P11 +no_defs"
	type params struct {
		wktName, short   string
		wktParams, proj4 string
		angles           map[string]int
		linear           map[string]int
		scale            map[string]int
		names            map[string]string // SR field → WKT parameter name, where it differs from the usual one
		noRegistry       bool
	}
	conics := func(wn, sn string) params {
		return params{wn, sn,
			`PARAMETER["standard_parallel_1",P1],PARAMETER["standard_parallel_2",P2],PARAMETER["latitude_of_origin",P3],PARAMETER["central_meridian",P4],PARAMETER["false_easting",P5],PARAMETER["false_northing",P6]`,
			"+lat_1=P1 +lat_2=P2 +lat_0=P3 +lon_0=P4 +x_0=P5 +y_0=P6",
			map[string]int{"Lat1": 1, "Lat2": 2, "Lat0": 3, "Long0": 4}, map[string]int{"X0": 5, "Y0": 6}, nil, nil, false}
	}
	cyl := func(wn, sn string) params {
		return params{wn, sn,
			`PARAMETER["latitude_of_origin",P3],PARAMETER["central_meridian",P4],PARAMETER["scale_factor",P13],PARAMETER["false_easting",P5],PARAMETER["false_northing",P6]`,
			"+lat_0=P3 +lon_0=P4 +k_0=P13 +x_0=P5 +y_0=P6",
			map[string]int{"Lat0": 3, "Long0": 4}, map[string]int{"X0": 5, "Y0": 6}, map[string]int{"K0": 13}, nil, false}
	}
	var all []params
	for _, pr := range c20proj {
		switch pr[1] {
		case "merc", "tmerc":
			all = append(all, cyl(pr[0], pr[1]))
		default:
			all = append(all, conics(pr[0], pr[1]))
		}
	}
	// the remaining WKT parameter names: an oblique projection (centre and azimuth) and a conic
	// that calls its latitude of origin "central_parallel"
	all = append(all, params{"Hotine_Oblique_Mercator", "omerc",
		`PARAMETER["latitude_of_center",P3],PARAMETER["longitude_of_center",P14],PARAMETER["azimuth",P15],PARAMETER["scale_factor",P13],PARAMETER["false_easting",P5],PARAMETER["false_northing",P6]`,
		"+lat_0=P3 +lonc=P14 +alpha=P15 +k_0=P13 +x_0=P5 +y_0=P6",
		map[string]int{"Lat0": 3, "LongC": 14, "Alpha": 15}, map[string]int{"X0": 5, "Y0": 6}, map[string]int{"K0": 13},
		map[string]string{"Lat0": "latitude_of_center", "LongC": "longitude_of_center", "Alpha": "azimuth"}, true})
	all = append(all, params{"Lambert_Conformal_Conic_2SP", "lcc",
		`PARAMETER["standard_parallel_1",P1],PARAMETER["standard_parallel_2",P2],PARAMETER["central_parallel",P3],PARAMETER["central_meridian",P4],PARAMETER["false_easting",P5],PARAMETER["false_northing",P6]`,
		"+lat_1=P1 +lat_2=P2 +lat_0=P3 +lon_0=P4 +x_0=P5 +y_0=P6",
		map[string]int{"Lat1": 1, "Lat2": 2, "Lat0": 3, "Long0": 4}, map[string]int{"X0": 5, "Y0": 6}, nil,
		map[string]string{"Lat0": "central_parallel"}, true})
	derived := []string{"A", "B", "Rf", "A2", "B2", "Es", "E", "Ep2"}

	type facet struct{ bad, unk string }
	facets := map[string]*facet{}
	get := func(k string) *facet {
		if facets[k] == nil {
			facets[k] = &facet{}
		}
		return facets[k]
	}
	setBad := func(k, format string, a ...interface{}) {
		if f := get(k); f.bad == "" {
			f.bad = fmt.Sprintf(format, a...)
		}
	}
	setUnk := func(k, format string, a ...interface{}) {
		if f := get(k); f.unk == "" {
			f.unk = fmt.Sprintf(format, a...)
		}
	}
	// WKT parameter name per SR field (for messages and per-parameter obligations)
	wktNameDefault := map[string]string{"Lat1": "standard_parallel_1", "Lat2": "standard_parallel_2", "Lat0": "latitude_of_origin", "Long0": "central_meridian", "X0": "false_easting", "Y0": "false_northing", "K0": "scale_factor"}

	var projections *oMap
	for _, pr := range all {
		row := "proj(" + pr.wktName + ")"
		wktNameOf := map[string]string{}
		for k, v := range wktNameDefault {
			wktNameOf[k] = v
		}
		first := ""
		for k, v := range pr.names {
			wktNameOf[k] = v
			if first == "" || v < first {
				first = v // the label must not depend on the order a map is walked in
			}
		}
		if first != "" {
			row = "proj(" + pr.wktName + "," + first + ")"
		}
		for _, unit := range []struct {
			label, clause, p4 string
			factor            poly
		}{
			{"metre", `UNIT["metre",1]`, "+units=m", polyConst(big.NewRat(1, 1))},
			{"declared unit", `UNIT["foot",P12]`, "+to_meter=P12", pv(12)},
			{"declared unit, written before the parameters", `UNIT["foot",P12]`, "+to_meter=P12", pv(12)},
		} {
			wktText := `PROJCS["Model_Projected",` + geog + `,PROJECTION["` + pr.wktName + `"],` + pr.wktParams + `,` + unit.clause + `]`
			if strings.Contains(unit.label, "before") {
				// the clause order of the EPSG registry: UNIT right after the GEOGCS
				wktText = `PROJCS["Model_Projected",` + geog + `,` + unit.clause + `,PROJECTION["` + pr.wktName + `"],` + pr.wktParams + `]`
			}
			p4Text := "+proj=" + pr.short + " " + pr.proj4 + " " + ell + " " + unit.p4
			w, why := run(wktText)
			if why != "" {
				setUnk(row, "Parse is not interpretable on the WKT text for %s: %s", pr.wktName, why)
				continue
			}
			p, why := run(p4Text)
			if why != "" {
				setUnk(row, "Parse is not interpretable on the PROJ.4 text for %s: %s", pr.short, why)
				continue
			}
			get(row)
			// angular parameters: symbol × deg2rad from both
			for f, n := range pr.angles {
				key := "unit(" + wktNameOf[f] + ")"
				want := ang(n)
				if got, ok := field(w, f); !ok || !got.equal(want) {
					// which field did the value go to?
					if ok && hasNaN(got) {
						setBad("field("+wktNameOf[f]+")", "WKT PARAMETER[%q] of a %s does not reach SR.%s (it is still unset); PROJ.4 sets it", wktNameOf[f], pr.wktName, f)
					} else if ok && got.equal(pv(n)) {
						setBad(key, "WKT PARAMETER[%q] is an angle in degrees but SR.%s is %s: it is stored without × deg2rad", wktNameOf[f], f, showField(w, f))
					} else {
						setBad("field("+wktNameOf[f]+")", "WKT PARAMETER[%q] = P of a %s gives SR.%s = %s, want P × deg2rad", wktNameOf[f], pr.wktName, f, showField(w, f))
					}
				} else {
					get(key)
					get("field(" + wktNameOf[f] + ")")
				}
				if got, ok := field(p, f); !ok || !got.equal(want) {
					setBad("proj4("+f+")", "the PROJ.4 key for SR.%s = P gives %s, want P × deg2rad", f, showField(p, f))
				} else {
					get("proj4(" + f + ")")
				}
			}
			for f, n := range pr.scale {
				key := "unit(" + wktNameOf[f] + ")"
				if got, ok := field(w, f); !ok || !got.equal(pv(n)) {
					setBad(key, "WKT PARAMETER[%q] = P (a ratio) gives SR.%s = %s, want P", wktNameOf[f], f, showField(w, f))
				} else {
					get(key)
					get("field(" + wktNameOf[f] + ")")
				}
				if got, ok := field(p, f); !ok || !got.equal(pv(n)) {
					setBad("proj4("+f+")", "the PROJ.4 key for SR.%s = P gives %s, want P", f, showField(p, f))
				}
			}
			// false origin: WKT in the declared unit, PROJ.4 in metres
			for f, n := range pr.linear {
				key := "wkt-false-origin(" + f + ")"
				want := symMul(pv(n), unit.factor)
				if got, ok := field(w, f); !ok || !got.equal(want) {
					setBad(key, "WKT PARAMETER[%q] = P with linear unit %s gives SR.%s = %s, want %s (the false origin is in the declared unit)", wktNameOf[f], unit.label, f, showField(w, f), oSym{want}.p.canon())
				} else {
					get(key)
					get("field(" + wktNameOf[f] + ")")
				}
				if got, ok := field(p, f); !ok || !got.equal(pv(n)) {
					setBad("proj4("+f+")", "PROJ.4 +%s=P gives SR.%s = %s, want P (always metres)", strings.ToLower(f[:1])+"_0", f, showField(p, f))
				} else {
					get("proj4(" + f + ")")
				}
			}
			// linear unit factor
			if got, ok := field(w, "ToMeter"); !ok || !got.equal(unit.factor) {
				setBad("wkt-unit-factor", "a projected WKT with linear unit factor %s gives SR.ToMeter = %s", unit.factor.canon(), showField(w, "ToMeter"))
			} else {
				get("wkt-unit-factor")
			}
			if got, ok := field(p, "ToMeter"); !ok || !got.equal(unit.factor) {
				setBad("proj4(ToMeter)", "PROJ.4 %s gives SR.ToMeter = %s, want %s", unit.p4, showField(p, "ToMeter"), unit.factor.canon())
			}
			// ellipsoid and derived constants: same terms from both spellings
			for _, f := range derived {
				gw, ok1 := field(w, f)
				gp, ok2 := field(p, f)
				if !ok1 || !ok2 {
					setUnk("ellipsoid", "SR.%s is %s from WKT and %s from PROJ.4", f, showField(w, f), showField(p, f))
					continue
				}
				if !gw.equal(gp) {
					setBad("ellipsoid", "SPHEROID[a, 1/f] and +a +rf describe the same ellipsoid but SR.%s is %s from WKT and %s from PROJ.4", f, showField(w, f), showField(p, f))
				}
			}
			get("ellipsoid")
			// datum shift
			for _, s := range []struct {
				st   *oStruct
				what string
			}{{w, "WKT TOWGS84[P9,P10,P11]"}, {p, "PROJ.4 +towgs84=P9,P10,P11"}} {
				dp, ok := s.st.fields["DatumParams"].(oSlice)
				if !ok {
					setUnk("towgs84", "%s: SR.DatumParams is %s", s.what, showVal(s.st.fields["DatumParams"]))
					continue
				}
				good := dp.length() == 3
				for i := 0; good && i < 3; i++ {
					q, ok := symOf(dp.at(i))
					good = ok && q.equal(pv(9+i))
				}
				if !good {
					setBad("towgs84", "%s gives SR.DatumParams = %s, want the three values in the order written", s.what, showVal(dp))
				}
			}
			get("towgs84")
			// names → constructors
			if projections == nil {
				if o := c.P.Pkg("proj").Types.Scope().Lookup("projections"); o != nil {
					if cell := m.it.global(o); cell != nil {
						if mp, ok := (*cell).(oMap); ok {
							projections = &mp
						}
					}
				}
			}
			wn, _ := strOf(w.fields["Name"])
			pn, _ := strOf(p.fields["Name"])
			if pr.noRegistry {
				// parameter names only; the projection name is not one of the five WKT names
			} else if projections == nil {
				setUnk("registry("+pr.wktName+")", "the constructor registry is not a package-level map")
			} else {
				i := projections.find(strVal(strT, strings.ToLower(wn)))
				j := projections.find(strVal(strT, strings.ToLower(pn)))
				switch {
				case i < 0:
					setBad("registry("+pr.wktName+")", "the projection name %q that the WKT parser stores is not registered", wn)
				case j < 0:
					setBad("registry("+pr.wktName+")", "the projection name %q that the PROJ.4 parser stores is not registered", pn)
				default:
					a, b := (*projections.vals)[i], (*projections.vals)[j]
					fa, oka := a.(oFuncRef)
					fb, okb := b.(oFuncRef)
					if !oka || !okb {
						setUnk("registry("+pr.wktName+")", "registered constructors are %s and %s", showVal(a), showVal(b))
					} else if fa.f != fb.f {
						setBad("registry("+pr.wktName+")", "%q is registered for %s but %q for %s: the two spellings get different projections", wn, fa.f.Name(), pn, fb.f.Name())
					} else {
						get("registry(" + pr.wktName + ")")
					}
				}
			}
		}
	}
	// seven-parameter shifts, both spellings, in order: a full one, a rotation-free one with a scale,
	// one without a scale
	var w7, p7 *oStruct
	for _, lv := range []struct {
		facet string
		vals  [7]string
	}{
		{"towgs84(7)", [7]string{"P21", "P22", "P23", "P24", "P25", "P26", "P27"}},
		{"towgs84(7,no rotation)", [7]string{"P21", "P22", "P23", "0", "0", "0", "P27"}},
		{"towgs84(7,no scale)", [7]string{"P21", "P22", "P23", "P24", "P25", "P26", "0"}},
	} {
		list := strings.Join(lv.vals[:], ",")
		w, why1 := run(`GEOGCS["GCS_Model",DATUM["D_Model",SPHEROID["Model_Spheroid",P7,P8],TOWGS84[` + list + `]],PRIMEM["Greenwich",0],UNIT["degree",0.0174532925199433]]`)
		p, why2 := run("+proj=longlat +a=P7 +rf=P8 +towgs84=" + list + " +no_defs")
		if lv.facet == "towgs84(7)" {
			w7, p7 = w, p
		}
		for _, s := range []struct {
			st   *oStruct
			why  string
			what string
		}{{w, why1, "WKT TOWGS84[" + list + "]"}, {p, why2, "PROJ.4 +towgs84=" + list}} {
			if s.why != "" {
				setUnk(lv.facet, "%s: %s", s.what, s.why)
				continue
			}
			dp, ok := s.st.fields["DatumParams"].(oSlice)
			good := ok && dp.length() == 7
			for i := 0; good && i < 7; i++ {
				// element i is the i-th value written, possibly converted (arc seconds to radians,
				// parts per million to a factor): a non-constant function of that symbol alone, or a
				// constant where a number was written
				q, ok := symOf(dp.at(i))
				if strings.HasPrefix(lv.vals[i], "P") {
					good = ok && onlySymbol(q, "p"+lv.vals[i][1:])
				} else {
					good = ok && !regexp.MustCompile(`p\d+`).MatchString(q.canon())
				}
			}
			if !good {
				setBad(lv.facet, "%s gives SR.DatumParams = %s, want the seven values (or their unit conversions) in the order written", s.what, showVal(s.st.fields["DatumParams"]))
			}
		}
		if w != nil && p != nil {
			a, ok1 := w.fields["DatumParams"].(oSlice)
			b, ok2 := p.fields["DatumParams"].(oSlice)
			if ok1 && ok2 && a.length() == b.length() {
				for i := 0; i < a.length(); i++ {
					x, okx := symOf(a.at(i))
					y, oky := symOf(b.at(i))
					if okx && oky && !x.equal(y) {
						setBad(lv.facet, "datum shift value %d is %s from WKT and %s from PROJ.4", i, showVal(a.at(i)), showVal(b.at(i)))
					}
				}
			}
		}
		get(lv.facet)
	}
	// datum names the WKT reader does rewrite (proj4js wkt.js): the reference is the one the table
	// entry gives, as +datum=<entry> does
	for _, nm := range []struct{ wkt, entry, spheroid string }{
		{"D_WGS_1984", "wgs84", `SPHEROID["WGS_1984",6378137,298.257223563]`},
		{"WGS_1984", "wgs84", `SPHEROID["WGS_1984",6378137,298.257223563]`},
		{"New_Zealand_Geodetic_Datum_1949", "nzgd49", `SPHEROID["International_1924",6378388,297]`},
		{"D_New_Zealand_1949", "nzgd49", `SPHEROID["International_1924",6378388,297]`},
	} {
		facet := "named datum(" + nm.wkt + ")"
		w, why1 := run(`GEOGCS["GCS_Model",DATUM["` + nm.wkt + `",` + nm.spheroid + `],PRIMEM["Greenwich",0],UNIT["degree",0.0174532925199433]]`)
		p, why2 := run("+proj=longlat +datum=" + nm.entry + " +no_defs")
		if why1 != "" || why2 != "" {
			setUnk(facet, "DATUM[%q] / +datum=%s: %s%s", nm.wkt, nm.entry, why1, why2)
			continue
		}
		a, ok1 := w.fields["DatumParams"].(oSlice)
		b, ok2 := p.fields["DatumParams"].(oSlice)
		same := ok1 && ok2 && a.length() == b.length()
		for i := 0; same && i < a.length(); i++ {
			x, okx := symOf(a.at(i))
			y, oky := symOf(b.at(i))
			same = okx && oky && x.equal(y)
		}
		if !same {
			setBad(facet, "a WKT whose datum is named %q stores the shift %s; +datum=%s, the table entry that name stands for, stores %s", nm.wkt, showVal(w.fields["DatumParams"]), nm.entry, showVal(p.fields["DatumParams"]))
		}
		for _, f := range []string{"A", "B"} {
			x, okx := symOf(w.fields[f])
			y, oky := symOf(p.fields[f])
			if okx && oky && !x.equal(y) {
				setBad(facet, "a WKT whose datum is named %q has SR.%s = %s, +datum=%s has %s", nm.wkt, f, x.canon(), nm.entry, y.canon())
			}
		}
		get(facet)
	}
	// datum names that merely resemble a name the WKT reader rewrites (proj4js rewrites exactly
	// wgs_1984, new_zealand_1949 and new_zealand_geodetic_datum_1949, after dropping a leading d_):
	// the shift written in the text is the one stored, as from the PROJ.4 spelling
	for _, name := range []string{"WGS_1972", "D_WGS_1972", "WGS_1966", "World_Geodetic_System_1972", "New_Zealand_1950", "D_Model_1984"} {
		facet := "towgs84(3,datum name " + name + ")"
		w, why := run(`GEOGCS["GCS_Model",DATUM["` + name + `",SPHEROID["Model_Spheroid",P7,P8],TOWGS84[P9,P10,P11]],PRIMEM["Greenwich",0],UNIT["degree",0.0174532925199433]]`)
		if why != "" {
			setUnk(facet, "WKT with DATUM[%q, …, TOWGS84[P9,P10,P11]]: %s", name, why)
			continue
		}
		dp, ok := w.fields["DatumParams"].(oSlice)
		good := ok && dp.length() == 3
		for i := 0; good && i < 3; i++ {
			q, ok := symOf(dp.at(i))
			good = ok && q.equal(polyVar(fmt.Sprintf("p%d", 9+i)))
		}
		if !good {
			setBad(facet, "a WKT whose datum is named %q and carries TOWGS84[P9,P10,P11] gives SR.DatumParams = %s: the shift written in the text is lost (+towgs84=P9,P10,P11 keeps it; only the exact names the reader rewrites stand for a table entry)", name, showVal(w.fields["DatumParams"]))
		}
		get(facet)
	}
	{
		if w7 != nil && p7 != nil {
			wn, _ := strOf(w7.fields["Name"])
			pn, _ := strOf(p7.fields["Name"])
			if wn != pn {
				setBad("geographic", "a plain GEOGCS is named %q, +proj=longlat %q", wn, pn)
			}
			for _, f := range derived {
				gw, ok1 := field(w7, f)
				gp, ok2 := field(p7, f)
				if ok1 && ok2 && !gw.equal(gp) {
					setBad("geographic", "SR.%s is %s from the GEOGCS and %s from +proj=longlat", f, showField(w7, f), showField(p7, f))
				}
			}
			get("geographic")
		}
	}

	c20names(c, m, run, pos)
	c20order(c, m, parse, pos)
	c20equal(c, m, run, pos)

	// ---- obligations
	var keys []string
	for k := range facets {
		keys = append(keys, k)
	}
	sort.Strings(keys)
	ruleOf := func(k string) string {
		switch {
		case strings.HasPrefix(k, "field("), strings.HasPrefix(k, "proj4("), k == "geographic", strings.HasPrefix(k, "proj("):
			return "C20.R1"
		case strings.HasPrefix(k, "unit("), strings.HasPrefix(k, "wkt-"), k == "ellipsoid":
			return "C20.R2"
		case strings.HasPrefix(k, "registry("):
			return "C20.R3"
		case strings.HasPrefix(k, "towgs84"):
			return "C20.R7"
		}
		return "C20.R1"
	}
	anyUnk := ""
	for _, k := range keys {
		if facets[k].unk != "" && strings.HasPrefix(k, "proj(") {
			anyUnk = facets[k].unk
		}
	}
	okAll := true
	for _, k := range keys {
		f := facets[k]
		cons := "proj#" + k
		switch {
		case f.bad != "":
			c.Bad(ruleOf(k), cons, pos, "%s", f.bad)
			okAll = false
		case f.unk != "":
			c.Unk(ruleOf(k), cons, pos, "%s", f.unk)
			okAll = false
		case anyUnk != "":
			c.Unk(ruleOf(k), cons, pos, "%s", anyUnk)
			okAll = false
		default:
			c.OK(ruleOf(k), cons, pos, "the value parsed from either spelling is the expected term")
		}
	}
	return okAll
}

// onlySymbol: p mentions the parameter symbol want and no other parameter symbol.
func onlySymbol(p poly, want string) bool {
	seen := false
	for k := range p {
		for _, f := range strings.Split(k, "*") {
			for _, m := range regexp.MustCompile(`p\d+`).FindAllString(f, -1) {
				if m != want {
					return false
				}
				seen = true
			}
		}
	}
	return seen
}

// c20names: registered names and aliases (C20.R3), read from the definition registry after the
// package's init functions have been interpreted.  addDef calls are observed (not replaced)
// to know which names are definitions; every other name must be the identical *SR of one.
func c20names(c *Ctx, m *c20m, run func(string) (*oStruct, string), pos token.Pos) {
	pk := c.P.Pkg("proj")
	strT := types.Typ[types.String]
	var defsMap *oMap
	regVar := pk.Types.Scope().Lookup("defs")
	if regVar == nil {
		// by type: the package-level map from names to spatial references
		for _, n := range pk.Types.Scope().Names() {
			v, ok := pk.Types.Scope().Lookup(n).(*types.Var)
			if !ok {
				continue
			}
			if mt, ok := v.Type().Underlying().(*types.Map); ok {
				if kb, ok := mt.Key().Underlying().(*types.Basic); ok && kb.Kind() == types.String {
					if pt, ok := mt.Elem().(*types.Pointer); ok && named(pt.Elem()) == c.P.NamedType("proj", "SR") {
						regVar = v
					}
				}
			}
		}
	}
	if o := regVar; o != nil {
		if cell := m.it.global(o); cell != nil {
			if mp, ok := (*cell).(oMap); ok {
				defsMap = &mp
			}
		}
	}
	if defsMap == nil || defsMap.keys == nil {
		c.Unk("C20.R3", "proj#names", pos, "the definition registry is not a package-level map filled at start-up")
		return
	}
	if len(m.defined) == 0 {
		// no registering function was seen (the registry is filled some other way): the definition
		// texts are those of the bundled proj4js global.js, which the package's registry ports
		js, err := os.ReadFile(filepath.Join(c.P.Root, "proj", "proj4js-2.3.12", "lib", "global.js"))
		if err == nil {
			for _, mm := range regexp.MustCompile(`defs\('([^']+)',\s*"([^"]*)"\)`).FindAllStringSubmatch(string(js), -1) {
				m.defined[mm[1]] = mm[2]
			}
		}
	}
	byPtr := map[*oStruct][]string{}
	for i, k := range *defsMap.keys {
		name, _ := strOf(k)
		p, ok := (*defsMap.vals)[i].(oPtr)
		if !ok || p.s == nil {
			c.Bad("C20.R3", "proj#name("+name+")", pos, "the registered name %q is bound to %s", name, showVal((*defsMap.vals)[i]))
			continue
		}
		byPtr[p.s] = append(byPtr[p.s], name)
	}
	for _, need := range []string{"WGS84", "EPSG:4326", "EPSG:3857"} {
		if defsMap.find(strVal(strT, need)) < 0 {
			c.Bad("C20.R3", "proj#name("+need+")", pos, "the name %q is not registered", need)
		}
	}
	for s, names := range byPtr {
		sort.Strings(names)
		var defined []string
		for _, n := range names {
			if _, ok := m.defined[n]; ok {
				defined = append(defined, n)
			}
		}
		for _, n := range names {
			cons := "proj#alias(" + n + ")"
			if _, isDef := m.defined[n]; isDef {
				cons = "proj#definition(" + n + ")"
				// the registered reference is what parsing the definition gives
				fresh, why := run(m.defined[n])
				switch {
				case why != "":
					c.Unk("C20.R3", cons, pos, "the definition text is not interpretable: %s", why)
				default:
					if d := diffSR(fresh, s); d != "" {
						c.Bad("C20.R3", cons, pos, "the reference registered as %q differs from what parsing its definition gives: %s", n, d)
					} else {
						c.OK("C20.R3", cons, pos, "registered reference equals the parsed definition")
					}
				}
				continue
			}
			if len(defined) == 0 {
				c.Bad("C20.R3", cons, pos, "the name %q is bound to a reference that no definition registered: it does not denote the same reference as any definition", n)
			} else {
				c.OK("C20.R3", cons, pos, "bound to the identical *SR of %q", defined[0])
			}
		}
	}
	// WGS84 and EPSG:4326 must be one reference, the web-mercator aliases another
	same := func(a, b string) {
		i, j := defsMap.find(strVal(strT, a)), defsMap.find(strVal(strT, b))
		if i < 0 || j < 0 {
			return
		}
		x, _ := (*defsMap.vals)[i].(oPtr)
		y, _ := (*defsMap.vals)[j].(oPtr)
		if x.s != y.s {
			c.Bad("C20.R3", "proj#alias("+a+")", pos, "%q and %q are different references", a, b)
		}
	}
	same("WGS84", "EPSG:4326")
	for _, a := range []string{"GOOGLE", "EPSG:3785", "EPSG:900913", "EPSG:102113"} {
		same(a, "EPSG:3857")
	}
}

// diffSR: the first field in which two spatial references differ ("" when none does).
func diffSR(a, b *oStruct) string {
	for _, k := range a.order {
		x, y := a.fields[k], b.fields[k]
		switch xv := x.(type) {
		case oSlice:
			yv, ok := y.(oSlice)
			if !ok || xv.length() != yv.length() {
				return k
			}
			for i := 0; i < xv.length(); i++ {
				if eq, ok := sameTerm(xv.at(i), yv.at(i)); ok && !eq {
					if p, ok := symOf(xv.at(i)); ok && polyHasNaN(p) {
						continue
					}
					return fmt.Sprintf("%s[%d]", k, i)
				}
			}
		case oPtr:
			yv, ok := y.(oPtr)
			if !ok || (xv.s == nil) != (yv.s == nil) {
				return k
			}
			if xv.s != nil {
				if d := diffSR(xv.s, yv.s); d != "" {
					return k + "." + d
				}
			}
		default:
			if p, ok := symOf(x); ok && polyHasNaN(p) {
				if q, ok := symOf(y); ok && polyHasNaN(q) {
					continue
				}
				return k
			}
			if eq, ok := sameTerm(x, y); ok && !eq {
				return k
			}
		}
	}
	return ""
}

// sameTerm: two dumped values are the same term — symbolic values by their normal form (whether
// p12 = p13 holds for some parameter values is not the question), anything else by oEqual.
func sameTerm(x, y oval) (bool, bool) {
	_, sx := x.(oSym)
	_, sy := y.(oSym)
	if sx || sy {
		p, ok1 := symOf(x)
		q, ok2 := symOf(y)
		if ok1 && ok2 {
			return p.canon() == q.canon(), true
		}
	}
	return oEqual(x, y)
}

// c20equal: SR.Equal evaluated on parsed references (C20.R5): equal to itself and to a second
// parse of the same text; unequal — without panicking — when one float, string, flag, datum-shift
// value, the length of the datum-shift list, a NaN (unset) marker or a nested pointer differs.
func c20equal(c *Ctx, m *c20m, run func(string) (*oStruct, string), pos token.Pos) {
	eq := c.P.Method("proj", "SR", "Equal")
	if eq == nil || c.P.Decl(eq) == nil {
		c.Unk("C20.R5", "proj.(*SR).Equal", token.NoPos, "API anchor does not resolve")
		return
	}
	text := "+proj=lcc +lat_1=P1 +lat_2=P2 +lat_0=P3 +lon_0=P4 +x_0=P5 +y_0=P6 +a=P7 +rf=P8 +towgs84=P9,P10,P11 +no_defs"
	mk := func() *oStruct {
		s, why := run(text)
		if why != "" {
			return nil
		}
		return s
	}
	base := mk()
	if base == nil {
		c.Unk("C20.R5", "proj.(*SR).Equal#model", pos, "the reference text is not interpretable")
		return
	}
	// a == b on two generic values is decided as EqualWithinULP is: the same term (and not the
	// unset marker) is the same number, two different terms are two different numbers
	savedOracle := m.it.cmpOracle
	defer func() { m.it.cmpOracle = savedOracle }()
	m.it.cmpOracle = func(op token.Token, a, b poly) (bool, bool) {
		if op != token.EQL && op != token.NEQ {
			return false, false
		}
		same := a.equal(b) && !polyHasNaN(a) && !polyHasNaN(b)
		return same == (op == token.EQL), true
	}
	call := func(a, b *oStruct) (bool, string) {
		c.Evals(1)
		m.h.problems = map[string][]string{}
		res, why := m.it.Call(eq, oPtr{a}, []oval{oPtr{b}, oInt(3)}, 0)
		for _, msgs := range m.h.problems {
			for _, msg := range msgs {
				return false, "panic: " + msg
			}
		}
		if why != "" {
			return false, why
		}
		b2, ok := res[0].(oBool)
		if !ok {
			return false, "Equal returns " + showVal(res[0])
		}
		return bool(b2), ""
	}
	type tcase struct {
		name string
		mut  func(s *oStruct) bool // false: not applicable to this struct
		want bool
	}
	floatField := func(s *oStruct, pred func(poly) bool) string {
		for _, k := range s.order {
			if p, ok := symOf(s.fields[k]); ok {
				if _, isInt := s.fields[k].(oInt); !isInt && pred(p) {
					return k
				}
			}
		}
		return ""
	}
	cases := []tcase{
		{"same-parse", func(s *oStruct) bool { return true }, true},
		{"float-differs", func(s *oStruct) bool {
			k := floatField(s, func(p poly) bool { return !polyHasNaN(p) })
			if k == "" {
				return false
			}
			s.fields[k] = oSym{polyVar("q1")}
			return true
		}, false},
		{"last-float-differs", func(s *oStruct) bool {
			last := ""
			for _, k := range s.order {
				if p, ok := symOf(s.fields[k]); ok {
					if _, isInt := s.fields[k].(oInt); !isInt && !polyHasNaN(p) {
						last = k
					}
				}
			}
			if last == "" {
				return false
			}
			s.fields[last] = oSym{polyVar("q2")}
			return true
		}, false},
		{"set-vs-unset", func(s *oStruct) bool {
			k := floatField(s, polyHasNaN)
			if k == "" {
				return false
			}
			s.fields[k] = oSym{polyVar("q3")}
			return true
		}, false},
		{"unset-vs-set", func(s *oStruct) bool {
			k := floatField(s, func(p poly) bool { return !polyHasNaN(p) })
			if k == "" {
				return false
			}
			s.fields[k] = oSym{polyVar("NaN")}
			return true
		}, false},
		{"string-differs", func(s *oStruct) bool {
			if _, ok := s.fields["Name"].(oSlice); !ok {
				return false
			}
			s.fields["Name"] = strVal(types.Typ[types.String], "other")
			return true
		}, false},
		{"shift-value-differs", func(s *oStruct) bool {
			dp, ok := s.fields["DatumParams"].(oSlice)
			if !ok || dp.length() == 0 {
				return false
			}
			cp := deepCopy(dp).(oSlice)
			cp.set(cp.length()-1, oSym{polyVar("q4")})
			s.fields["DatumParams"] = cp
			return true
		}, false},
		{"shift-list-longer", func(s *oStruct) bool {
			dp, ok := s.fields["DatumParams"].(oSlice)
			if !ok {
				return false
			}
			s.fields["DatumParams"] = appendVals(deepCopy(dp).(oSlice), []oval{oSym{polyVar("q5")}})
			return true
		}, false},
		{"shift-list-shorter", func(s *oStruct) bool {
			dp, ok := s.fields["DatumParams"].(oSlice)
			if !ok || dp.length() < 2 {
				return false
			}
			cp := deepCopy(dp).(oSlice)
			cp.hi--
			s.fields["DatumParams"] = cp
			return true
		}, false},
		{"nested-pointer-nil", func(s *oStruct) bool {
			for _, k := range s.order {
				if p, ok := s.fields[k].(oPtr); ok && p.s != nil {
					s.fields[k] = oPtr{nil}
					return true
				}
			}
			return false
		}, false},
		{"nested-float-differs", func(s *oStruct) bool {
			for _, k := range s.order {
				if p, ok := s.fields[k].(oPtr); ok && p.s != nil {
					for _, kk := range p.s.order {
						if q, ok := symOf(p.s.fields[kk]); ok && !polyHasNaN(q) {
							if _, isInt := p.s.fields[kk].(oInt); !isInt {
								p.s.fields[kk] = oSym{polyVar("q6")}
								return true
							}
						}
					}
				}
			}
			return false
		}, false},
		{"flag-differs", func(s *oStruct) bool {
			for _, k := range s.order {
				if b, ok := s.fields[k].(oBool); ok {
					s.fields[k] = !b
					return true
				}
			}
			return false
		}, false},
	}
	nilNested := func(s *oStruct) bool {
		done := false
		for _, k := range s.order {
			if p, ok := s.fields[k].(oPtr); ok && p.s != nil {
				s.fields[k] = oPtr{nil}
				done = true
			}
		}
		return done
	}
	cases = append(cases, tcase{"both-nested-pointers-nil", nilNested, true})
	n := 0
	for _, tc := range cases {
		cons := "proj.(*SR).Equal#" + tc.name
		other := mk()
		if other == nil || !tc.mut(other) {
			continue
		}
		base := base
		if tc.name == "both-nested-pointers-nil" {
			base = mk()
			nilNested(base)
		}
		n++
		for dir := 0; dir < 2; dir++ {
			a, b := base, other
			if dir == 1 {
				a, b = other, base
			}
			got, why := call(a, b)
			switch {
			case strings.HasPrefix(why, "panic:"):
				c.Bad("C20.R5", cons, pos, "Equal panics instead of answering (%s)", strings.TrimPrefix(why, "panic: "))
			case why != "":
				c.Unk("C20.R5", cons, pos, "Equal is not interpretable: %s", why)
			case got != tc.want:
				c.Bad("C20.R5", cons, pos, "Equal answers %v for two references that %s", got, map[bool]string{true: "come from the same text", false: "differ (" + tc.name + ")"}[tc.want])
			default:
				if dir == 1 {
					c.OK("C20.R5", cons, pos, "Equal answers %v in both argument orders", tc.want)
				}
				continue
			}
			break
		}
	}
	if n == 0 {
		c.Unk("C20.R5", "proj.(*SR).Equal#model", pos, "no comparison case could be built")
	}
}

// c09datumModel (C09.R9): how a +towgs84 list is classified and converted.  proj4js (bundled)
// calls a list whose first three values are not all zero a 3-parameter shift, a seven-value list
// whose last four are not all zero a 7-parameter shift — whatever the first three are — and
// converts the rotations from arc seconds to radians and the scale from parts per million to a
// factor.  The Go parser is interpreted on such lists with symbolic values.
func c09datumModel(c *Ctx, jsDir string) {
	m, parse := newC20m(c)
	if m == nil {
		c.Unk("C09.R9", "proj.Parse", token.NoPos, "API anchor does not resolve")
		return
	}
	pos := c.P.Decl(parse).Pos()
	// proj4js' numbering of the datum kinds
	kinds := map[string]int64{}
	if b, err := os.ReadFile(filepath.Join(jsDir, "datum.js")); err == nil {
		for _, mm := range regexp.MustCompile(`var (PJD_[A-Z0-9_]+) = (\d+);`).FindAllStringSubmatch(string(b), -1) {
			n, _ := strconv.ParseInt(mm[2], 10, 64)
			kinds[mm[1]] = n
		}
	}
	if len(kinds) < 4 {
		c.Unk("C09.R9", "proj4js#datum.js", pos, "the datum kinds PJD_* were not found in the bundled proj4js source")
		return
	}
	secToRad := poly(nil)
	if o := c.P.Pkg("proj").Types.Scope().Lookup("secToRad"); o != nil {
		if k, ok := o.(*types.Const); ok {
			secToRad, _ = symFromConstant(k.Val())
		}
	}
	if secToRad == nil {
		f := new(big.Rat)
		f.SetFloat64(4.84813681109535993589914102357e-6)
		secToRad = polyConst(f)
	}
	kindOf := func(sr *oStruct) (int64, bool) {
		// the pointer field of SR whose struct has a field of a named integer type
		for _, k := range sr.order {
			p, ok := sr.fields[k].(oPtr)
			if !ok || p.s == nil {
				continue
			}
			st, ok := p.s.typ.Underlying().(*types.Struct)
			if !ok {
				continue
			}
			for i := 0; i < st.NumFields(); i++ {
				ft := st.Field(i).Type()
				if _, named := ft.(*types.Named); !named {
					continue
				}
				if b, ok := ft.Underlying().(*types.Basic); ok && b.Info()&types.IsInteger != 0 {
					if v, ok := p.s.fields[st.Field(i).Name()].(oInt); ok {
						return int64(v), true
					}
				}
			}
		}
		return 0, false
	}
	p1 := polyVar("p1")
	one := polyConst(big.NewRat(1, 1))
	ppm := func(p poly) poly { return p.scale(big.NewRat(1, 1000000)).add(one, 1) }
	cases := []struct {
		name, list string
		kind       string
		want       map[int]poly
	}{
		{"translation-only", "P1,0,0", "PJD_3PARAM", map[int]poly{0: p1}},
		{"second translation only", "0,P1,0", "PJD_3PARAM", map[int]poly{1: p1}},
		{"third translation only", "0,0,P1", "PJD_3PARAM", map[int]poly{2: p1}},
		{"second rotation only", "0,0,0,0,P1,0,0", "PJD_7PARAM", map[int]poly{4: symMul(p1, secToRad), 6: one}},
		{"third rotation only", "0,0,0,0,0,P1,0", "PJD_7PARAM", map[int]poly{5: symMul(p1, secToRad), 6: one}},
		{"all-zero(3)", "0,0,0", "PJD_WGS84", nil},
		{"rotation-only", "0,0,0,P1,0,0,0", "PJD_7PARAM", map[int]poly{3: symMul(p1, secToRad), 6: one}},
		{"scale-only", "0,0,0,0,0,0,P1", "PJD_7PARAM", map[int]poly{6: ppm(p1), 3: {}}},
		{"translation+rotation", "P21,P22,P23,P24,P25,P26,P27", "PJD_7PARAM", map[int]poly{0: pv(21), 3: symMul(pv(24), secToRad), 4: symMul(pv(25), secToRad), 5: symMul(pv(26), secToRad), 6: ppm(pv(27))}},
		{"seven-zeros", "0,0,0,0,0,0,0", "PJD_WGS84", nil},
	}
	for _, tc := range cases {
		cons := "proj#towgs84(" + tc.name + ")"
		sr, why := m.run(parse, "+proj=longlat +a=P7 +rf=P8 +towgs84="+tc.list+" +no_defs")
		if why != "" {
			c.Unk("C09.R9", cons, pos, "+towgs84=%s is not interpretable: %s", tc.list, why)
			continue
		}
		k, ok := kindOf(sr)
		if !ok {
			c.Unk("C09.R9", cons, pos, "the datum kind of the parsed reference was not found")
			continue
		}
		bad := ""
		// no datum named and nothing to shift: the port deliberately uses "no datum" where proj4js
		// uses the WGS84 kind; neither applies a shift
		noShift := tc.kind == "PJD_WGS84" && (k == kinds["PJD_WGS84"] || k == kinds["PJD_NODATUM"])
		if k != kinds[tc.kind] && !noShift {
			name := fmt.Sprint(k)
			for n, v := range kinds {
				if v == k {
					name = n
				}
			}
			bad = fmt.Sprintf("+towgs84=%s is classified %s, proj4js makes it %s: the datum shift is %s", tc.list, name, tc.kind, map[bool]string{true: "not applied", false: "applied with the wrong parameters"}[strings.Contains(name, "WGS84") || strings.Contains(name, "3PARAM")])
		}
		if dp, ok := sr.fields["DatumParams"].(oSlice); ok && bad == "" {
			for i, w := range tc.want {
				if i >= dp.length() {
					bad = fmt.Sprintf("+towgs84=%s keeps %d values", tc.list, dp.length())
					break
				}
				g, ok := symOf(dp.at(i))
				if !ok || !g.equal(w) {
					bad = fmt.Sprintf("+towgs84=%s: value %d becomes %s, proj4js makes it %s", tc.list, i, showVal(dp.at(i)), w.canon())
					break
				}
			}
		}
		if bad != "" {
			c.Bad("C09.R9", cons, pos, "%s", bad)
		} else {
			c.OK("C09.R9", cons, pos, "classified %s with the values converted as in proj4js", tc.kind)
		}
	}
}
