package main

// C12 — nearest-neighbour queries (thin).
//
// R1 only a universal lower bound (MINDIST) may prune without k.
// R2 leaves are scanned completely.
// R3 the 1-NN exclusion by MINMAXDIST is non-strict.

import (
	"fmt"
	"go/ast"
	"go/token"
	"go/types"
	"os"
)

func init() { register("C12", false, checkC12) }

type c12 struct {
	c       *Ctx
	info    *types.Info
	bounds  []*types.Func // (geom.Point, *geom.Bounds) float64
	mindist *types.Func
	class   map[types.Object]int // 1 = MINDIST-derived, 2 = other-bound-derived, 3 = both
	ret     map[*types.Func][]int
	funcs   []*types.Func
}

func checkC12(c *Ctx) {
	c.Rule("C12.R1", "below NearestNeighbors(k, p), a comparison that excludes an entry from the descent and depends on a point-to-box bound other than MINDIST (which only promises one object within that distance) must also depend on k")
	c.Rule("C12.R2", "at a leaf every entry's MINDIST from the query point is offered to the result accumulator (full range, no early exit); the 1-NN variant keeps the strict minimum")
	c.Rule("C12.R3", "where the single-neighbour search excludes entries by the MINMAXDIST bound, an entry is excluded only if its MINDIST is strictly greater than the bound")
	c.Rule("C12.R4", "distances are compared like with like: the point-to-box bounds return squared distances, math.Sqrt makes them linear, and no ordering comparison (pruning test, accumulator insertion, minimum update) has a squared value on one side and a linear one on the other")
	c.Rule("C12.R5", "premise of the MINMAXDIST bound and of every prune: each entry's box is the exact envelope of its subtree — the envelope-maintenance obligations of C11.R3 (every mutation followed by an upward pass that reaches the root) hold")
	p := c.P.Pkg("index/rtree")
	if p == nil {
		c.Unk("C12.R1", "index/rtree", token.NoPos, "package not loaded")
		return
	}
	a := &c12{c: c, info: p.TypesInfo, class: map[types.Object]int{}, ret: map[*types.Func][]int{}}
	for _, fn := range c.P.RepoFuncs() {
		if c.P.DeclPkg(fn) != p {
			continue
		}
		a.funcs = append(a.funcs, fn)
		sig := fn.Type().(*types.Signature)
		if sig.Recv() == nil && sig.Params().Len() == 2 && sig.Results().Len() == 1 &&
			isNamed(sig.Params().At(0).Type(), modPath, "Point") && isNamed(sig.Params().At(1).Type(), modPath, "Bounds") && isFloat64(sig.Results().At(0).Type()) {
			a.bounds = append(a.bounds, fn)
		}
	}
	knn := c.P.Method("index/rtree", "Rtree", "NearestNeighbors")
	nn := c.P.Method("index/rtree", "Rtree", "NearestNeighbor")
	if c.P.Decl(knn) == nil || c.P.Decl(nn) == nil {
		c.Unk("C12.R1", "index/rtree.(*Rtree).NearestNeighbor(s)", token.NoPos, "API anchors do not resolve")
		return
	}
	// MINDIST: the bound whose result is offered at leaves of the k-NN search
	a.leaves(knn, nn)
	if a.mindist == nil {
		c.Unk("C12.R1", "index/rtree#MINDIST", token.NoPos, "could not identify the bound offered to the accumulator at leaves")
		return
	}
	a.classify()
	if os.Getenv("C12DEBUG") != "" {
		for o, cl := range a.class {
			fmt.Println("class", o.Name(), c.P.Position(o.Pos()), cl)
		}
	}
	a.r1(knn)
	a.r3(nn)
	a.r4()
	// R5: exact envelopes (shared with C11)
	if t := (&c11{c: c, info: p.TypesInfo, pure: map[*types.Func]int{}, r3name: "C12.R5"}); t.discover() {
		t.r3()
	}
	c.Floor("C12.R4", 3)
	c.Floor("C12.R5", 5)
	c.Floor("C12.R1", 1)
	c.Floor("C12.R2", 2)
	c.Floor("C12.R3", 1)
}

func (a *c12) reach(root *types.Func) []*types.Func {
	seen := map[*types.Func]bool{}
	var out []*types.Func
	var visit func(f *types.Func)
	visit = func(f *types.Func) {
		if f == nil || seen[f] || a.c.P.Decl(f) == nil {
			return
		}
		seen[f] = true
		out = append(out, f)
		ast.Inspect(a.c.P.Decl(f).Body, func(n ast.Node) bool {
			if call, ok := n.(*ast.CallExpr); ok {
				if g := callee(a.info, call); g != nil && g.Pkg() == root.Pkg() {
					visit(g)
				}
			}
			return true
		})
	}
	visit(root)
	return out
}

func (a *c12) isBound(f *types.Func) bool {
	for _, b := range a.bounds {
		if b == f {
			return true
		}
	}
	return false
}

// ---------------------------------------------------------------- R2 (+ MINDIST discovery)

func (a *c12) leaves(knn, nn *types.Func) {
	c := a.c
	for _, root := range []*types.Func{knn, nn} {
		found := false
		for _, f := range a.reach(root) {
			fd := c.P.Decl(f)
			sig := f.Type().(*types.Signature)
			if sig.Recv() == nil {
				continue
			}
			// the query point parameter
			var pt types.Object
			for _, pv := range paramVars(a.info, fd.Type) {
				if pv != nil && isNamed(pv.Type(), modPath, "Point") {
					pt = pv
				}
			}
			// `if n.leaf { for … range n.entries {…} }`
			ast.Inspect(fd.Body, func(nd ast.Node) bool {
				is, ok := nd.(*ast.IfStmt)
				if !ok {
					return true
				}
				sel, ok := unparen(is.Cond).(*ast.SelectorExpr)
				if !ok || sel.Sel.Name != "leaf" {
					return true
				}
				found = true
				name := c.P.FuncName(f) + "#leaf-scan"
				sc := newFnScope(a.info, fd.Body)
				msg := "no loop over the leaf's entries"
				for _, st := range is.Body.List {
					l := sc.loopOf(st)
					if l == nil || l.Hi.Of == nil {
						continue
					}
					if es, ok := unparen(l.Hi.Of).(*ast.SelectorExpr); !ok || es.Sel.Name != "entries" || !sameExpr(a.info, es.X, sel.X) {
						continue
					}
					msg = ""
					if !(l.Lo.K == 0 && l.Lo.Of == nil && l.Hi.K == 0) {
						msg = "leaf loop " + l.String() + " does not visit every entry"
					}
					brk, cont, rets := earlyExits(l.Body)
					if len(brk)+len(cont)+len(rets) > 0 {
						msg = "leaf loop has an early exit: an entry may never be offered"
					}
					// the distance: bound(p, e.bb), possibly through math.Sqrt
					var distVar types.Object
					var bound *types.Func
					for _, bs := range l.Body.List {
						as, ok := bs.(*ast.AssignStmt)
						if !ok || len(as.Lhs) != 1 || len(as.Rhs) != 1 {
							continue
						}
						e := unparen(as.Rhs[0])
						if call, ok := e.(*ast.CallExpr); ok && isFuncIn(callee(a.info, call), "math", "Sqrt") {
							e = unparen(call.Args[0])
						}
						if call, ok := e.(*ast.CallExpr); ok && a.isBound(callee(a.info, call)) {
							okArgs := objOf(a.info, call.Args[0]) == pt
							if bsel, ok := unparen(call.Args[1]).(*ast.SelectorExpr); !ok || bsel.Sel.Name != "bb" || (l.Val != nil && objOf(a.info, bsel.X) != l.Val) {
								okArgs = false
							}
							if !okArgs {
								msg = "the distance is not computed from the query point and the current entry's box"
							}
							distVar = objOf(a.info, as.Lhs[0])
							bound = callee(a.info, call)
						}
					}
					if distVar == nil {
						if msg == "" {
							msg = "no point-to-box distance is computed for the entries"
						}
						continue
					}
					// offered: accumulator call with (dist, e.obj), or strict-min update
					offered := false
					ast.Inspect(l.Body, func(m ast.Node) bool {
						switch x := m.(type) {
						case *ast.CallExpr:
							g := callee(a.info, x)
							if g != nil && c.P.Decl(g) != nil && !a.isBound(g) {
								hasDist, hasObj := false, false
								for _, arg := range x.Args {
									if objOf(a.info, arg) == distVar {
										hasDist = true
									}
									if osel, ok := unparen(arg).(*ast.SelectorExpr); ok && osel.Sel.Name == "obj" && l.Val != nil && objOf(a.info, osel.X) == l.Val {
										hasObj = true
									}
								}
								if hasDist && hasObj {
									offered = true
								}
							}
						case *ast.IfStmt:
							b, ok := unparen(x.Cond).(*ast.BinaryExpr)
							if ok && objOf(a.info, b.X) == distVar && (b.Op == token.LSS || b.Op == token.LEQ) {
								// d = dist; nearest = e.obj
								setD, setObj := false, false
								for _, s2 := range x.Body.List {
									if as, ok := s2.(*ast.AssignStmt); ok && len(as.Lhs) == 1 && len(as.Rhs) == 1 {
										if objOf(a.info, as.Rhs[0]) == distVar && objOf(a.info, as.Lhs[0]) == objOf(a.info, b.Y) {
											setD = true
										}
										if osel, ok := unparen(as.Rhs[0]).(*ast.SelectorExpr); ok && osel.Sel.Name == "obj" {
											setObj = true
										}
									}
								}
								if setD && setObj {
									offered = true
								}
							}
						}
						return true
					})
					if !offered && msg == "" {
						msg = "the entry's distance and object are not offered to the result accumulator"
					}
					if msg == "" {
						if a.mindist == nil {
							a.mindist = bound
						} else if a.mindist != bound {
							msg = "the k-nearest and the single-neighbour leaf scans measure with different bounds (" + a.mindist.Name() + " vs " + bound.Name() + "): one of them does not report the distance to the box"
						}
					}
				}
				if msg == "" {
					c.OK("C12.R2", name, is.Pos(), "every entry's distance and object are offered")
				} else {
					c.Bad("C12.R2", name, is.Pos(), "%s", msg)
				}
				return false
			})
		}
		if !found {
			c.Unk("C12.R2", c.P.FuncName(root)+"#leaf-scan", token.NoPos, "leaf branch not found below this query")
		}
	}
}

// ---------------------------------------------------------------- bound derivation

// classify computes, for local variables, parameters and results of package
// functions, whether their value derives from MINDIST (1), another bound (2) or both.
func (a *c12) classify() {
	c := a.c
	classOfCall := func(f *types.Func) int {
		if f == a.mindist {
			return 1
		}
		if a.isBound(f) {
			return 2
		}
		return 0
	}
	exprClass := a.exprClass
	_ = classOfCall
	for changed := true; changed; {
		changed = false
		set := func(o types.Object, cl int) {
			if o != nil && cl != 0 && a.class[o]|cl != a.class[o] {
				a.class[o] |= cl
				changed = true
			}
		}
		for _, fn := range a.funcs {
			if a.isBound(fn) {
				continue
			}
			fd := c.P.Decl(fn)
			ast.Inspect(fd.Body, func(n ast.Node) bool {
				switch x := n.(type) {
				case *ast.AssignStmt:
					if len(x.Lhs) == len(x.Rhs) {
						for i, l := range x.Lhs {
							set(rootObj(a.info, l), exprClass(x.Rhs[i]))
						}
					} else if len(x.Rhs) == 1 {
						if call, ok := unparen(x.Rhs[0]).(*ast.CallExpr); ok {
							if f := callee(a.info, call); f != nil {
								for i, l := range x.Lhs {
									if r := a.ret[f]; i < len(r) {
										set(rootObj(a.info, l), r[i])
									}
								}
							}
						}
					}
				case *ast.CallExpr:
					// arguments → parameters
					if f := callee(a.info, x); f != nil && c.P.Decl(f) != nil {
						ps := paramVars(a.info, c.P.Decl(f).Type)
						for i, arg := range x.Args {
							if i < len(ps) && ps[i] != nil {
								set(ps[i], exprClass(arg))
							}
						}
					}
				case *ast.ReturnStmt:
					r := a.ret[fn]
					for len(r) < len(x.Results) {
						r = append(r, 0)
					}
					for i, e := range x.Results {
						if cl := exprClass(e); r[i]|cl != r[i] {
							r[i] |= cl
							changed = true
						}
					}
					a.ret[fn] = r
				}
				return true
			})
		}
	}
}

func (a *c12) exprClass(e ast.Expr) int {
	switch x := unparen(e).(type) {
	case *ast.Ident:
		if o := objOf(a.info, x); o != nil {
			return a.class[o]
		}
	case *ast.SelectorExpr:
		return a.exprClass(x.X)
	case *ast.IndexExpr:
		return a.exprClass(x.X)
	case *ast.SliceExpr:
		return a.exprClass(x.X)
	case *ast.StarExpr:
		return a.exprClass(x.X)
	case *ast.UnaryExpr:
		return a.exprClass(x.X)
	case *ast.BinaryExpr:
		return a.exprClass(x.X) | a.exprClass(x.Y)
	case *ast.CallExpr:
		if f := callee(a.info, x); f != nil {
			if f == a.mindist {
				return 1 | unitSq
			}
			if a.isBound(f) {
				return 2 | unitSq
			}
			if isFuncIn(f, "math", "Sqrt") && len(x.Args) == 1 {
				if cl := a.exprClass(x.Args[0]); cl != 0 {
					return cl&3 | unitLin
				}
				return 0
			}
			if a.c.P.Decl(f) != nil {
				if r := a.ret[f]; len(r) == 1 {
					return r[0]
				}
				return 0
			}
		}
		// builtins, conversions and external pure functions (math.Sqrt, append, …): from the arguments
		cl := 0
		for _, arg := range x.Args {
			cl |= a.exprClass(arg)
		}
		return cl
	}
	return 0
}

// unit bits carried next to the derivation class: the bounds return squared
// distances; math.Sqrt turns a squared value into a linear one.
const (
	unitSq  = 4
	unitLin = 8
)

// r4: no ordering comparison between a squared and a linear distance.
func (a *c12) r4() {
	c := a.c
	unitName := func(cl int) string {
		switch cl & (unitSq | unitLin) {
		case unitSq:
			return "squared"
		case unitLin:
			return "linear"
		case unitSq | unitLin:
			return "squared on some paths and linear on others"
		}
		return "-"
	}
	for _, fn := range a.funcs {
		if a.isBound(fn) {
			continue
		}
		fd := c.P.Decl(fn)
		n := 0
		ast.Inspect(fd.Body, func(nd ast.Node) bool {
			b, ok := nd.(*ast.BinaryExpr)
			if !ok {
				return true
			}
			switch b.Op {
			case token.LSS, token.LEQ, token.GTR, token.GEQ, token.EQL, token.NEQ:
			default:
				return true
			}
			lc, rc := a.exprClass(b.X)&(unitSq|unitLin), a.exprClass(b.Y)&(unitSq|unitLin)
			if lc == 0 || rc == 0 {
				return true
			}
			n++
			cons := fmt.Sprintf("%s#cmp:%s", c.P.FuncName(fn), src(b))
			if lc == rc && (lc == unitSq || lc == unitLin) {
				c.OK("C12.R4", cons, b.Pos(), "both sides %s", unitName(lc))
			} else {
				c.Bad("C12.R4", cons, b.Pos(), "`%s` compares a %s distance (%s) with a %s one (%s): for values below 1 the order of d and d² is reversed, so an entry is pruned or ranked against the wrong threshold", src(b), unitName(lc), src(b.X), unitName(rc), src(b.Y))
			}
			return true
		})
	}
}

// comparisons in if-conditions involving an other-bound-derived operand
type boundCmp struct {
	fn   *types.Func
	cmp  *ast.BinaryExpr
	stmt *ast.IfStmt
}

func (a *c12) boundComparisons(fns []*types.Func) []boundCmp {
	var out []boundCmp
	for _, fn := range fns {
		fd := a.c.P.Decl(fn)
		ast.Inspect(fd.Body, func(n ast.Node) bool {
			is, ok := n.(*ast.IfStmt)
			if !ok {
				return true
			}
			ast.Inspect(is.Cond, func(m ast.Node) bool {
				b, ok := m.(*ast.BinaryExpr)
				if !ok {
					return true
				}
				switch b.Op {
				case token.LSS, token.LEQ, token.GTR, token.GEQ:
					lc, rc := a.exprClass(b.X), a.exprClass(b.Y)
					// a filter: one side MINDIST-derived, the other other-bound-derived
					if (lc&1 != 0 && rc&2 != 0) || (lc&2 != 0 && rc&1 != 0) {
						out = append(out, boundCmp{fn, b, is})
					}
				}
				return true
			})
			return true
		})
	}
	return out
}

func (a *c12) r1(knn *types.Func) {
	c := a.c
	fns := a.reach(knn)
	// k-derived objects: the k parameter of the entry point and every int parameter it is passed to
	kfd := c.P.Decl(knn)
	kDerived := map[types.Object]bool{}
	for _, pv := range paramVars(a.info, kfd.Type) {
		if pv != nil {
			if b, ok := pv.Type().Underlying().(*types.Basic); ok && b.Info()&types.IsInteger != 0 {
				kDerived[pv] = true
			}
		}
	}
	for changed := true; changed; {
		changed = false
		for _, fn := range fns {
			ast.Inspect(c.P.Decl(fn).Body, func(n ast.Node) bool {
				switch x := n.(type) {
				case *ast.CallExpr:
					if f := callee(a.info, x); f != nil && c.P.Decl(f) != nil {
						ps := paramVars(a.info, c.P.Decl(f).Type)
						for i, arg := range x.Args {
							if i < len(ps) && ps[i] != nil && !kDerived[ps[i]] {
								dep := false
								ast.Inspect(arg, func(m ast.Node) bool {
									if id, ok := m.(*ast.Ident); ok && kDerived[objOf(a.info, id)] {
										dep = true
									}
									return true
								})
								// slices whose length is k (make([]T, k)) carry k too
								if dep {
									kDerived[ps[i]] = true
									changed = true
								}
							}
						}
					}
				case *ast.AssignStmt:
					if len(x.Lhs) == len(x.Rhs) {
						for i, l := range x.Lhs {
							o := objOf(a.info, l)
							if o == nil || kDerived[o] {
								continue
							}
							dep := false
							ast.Inspect(x.Rhs[i], func(m ast.Node) bool {
								if id, ok := m.(*ast.Ident); ok && kDerived[objOf(a.info, id)] {
									dep = true
								}
								return true
							})
							if dep {
								kDerived[o] = true
								changed = true
							}
						}
					}
				}
				return true
			})
		}
	}
	cmps := a.boundComparisons(fns)
	if len(cmps) == 0 {
		c.OK("C12.R1", c.P.FuncName(knn)+"#pruning", kfd.Pos(), "no entry is excluded by a bound other than MINDIST on the k-nearest path (%d functions below the query)", len(fns))
		return
	}
	for _, bc := range cmps {
		dep := false
		ast.Inspect(bc.stmt.Cond, func(m ast.Node) bool {
			if id, ok := m.(*ast.Ident); ok && kDerived[objOf(a.info, id)] {
				dep = true
			}
			return true
		})
		cons := c.P.FuncName(bc.fn) + "#filter:" + src(bc.cmp)
		if dep {
			c.OK("C12.R1", cons, bc.cmp.Pos(), "the exclusion depends on k")
		} else {
			c.Bad("C12.R1", cons, bc.cmp.Pos(), "reachable from NearestNeighbors(k, p): `%s` excludes branches using a bound that only guarantees ONE object within that distance (MINMAXDIST) without regard to k, so for k > 1 subtrees holding the 2nd..k-th nearest objects are skipped", src(bc.cmp))
		}
	}
}

func (a *c12) r3(nn *types.Func) {
	c := a.c
	fns := a.reach(nn)
	cmps := a.boundComparisons(fns)
	// a bound that is not MINDIST must not decide anything except through a comparison this rule
	// can read: handing it to a library search/sort hides the boundary case MINDIST == bound
	hidden := false
	for _, fn := range fns {
		if a.isBound(fn) {
			continue
		}
		ast.Inspect(c.P.Decl(fn).Body, func(n ast.Node) bool {
			call, ok := n.(*ast.CallExpr)
			if !ok {
				return true
			}
			f := callee(a.info, call)
			if f == nil || c.P.Decl(f) != nil || f.Pkg() == nil || f.Pkg().Path() == "math" {
				return true
			}
			for _, arg := range call.Args {
				if a.exprClass(arg)&2 != 0 {
					hidden = true
					c.Unk("C12.R3", fmt.Sprintf("%s#filter:%s", c.P.FuncName(fn), src(call)), call.Pos(), "entries are selected by `%s`, which receives the MINMAXDIST-derived bound `%s`: whether an entry whose MINDIST equals the bound survives (it must: for a degenerate box MINDIST = MINMAXDIST and the entry holds the nearest object) depends on that function's boundary convention, which is not decided here", src(call), src(arg))
				}
			}
			return true
		})
	}
	if len(cmps) == 0 {
		if !hidden {
			c.OK("C12.R3", c.P.FuncName(nn)+"#pruning", c.P.Decl(nn).Pos(), "the single-neighbour search does not prune by MINMAXDIST")
		}
		return
	}
	for _, bc := range cmps {
		cons := c.P.FuncName(bc.fn) + "#filter:" + src(bc.cmp)
		// normalise to  MINDIST op BOUND
		op := bc.cmp.Op
		if a.exprClass(bc.cmp.X)&1 == 0 {
			switch op {
			case token.LSS:
				op = token.GTR
			case token.GTR:
				op = token.LSS
			case token.LEQ:
				op = token.GEQ
			case token.GEQ:
				op = token.LEQ
			}
		}
		// what does the true branch do: keep (append) or drop (continue)?
		keeps, drops := false, false
		for _, s := range bc.stmt.Body.List {
			switch x := s.(type) {
			case *ast.BranchStmt:
				if x.Tok == token.CONTINUE || x.Tok == token.BREAK {
					drops = true
				}
			case *ast.AssignStmt:
				if call, ok := unparen(x.Rhs[0]).(*ast.CallExpr); ok && builtinName(a.info, call) == "append" {
					keeps = true
				}
			}
		}
		switch {
		case keeps && (op == token.LEQ):
			c.OK("C12.R3", cons, bc.cmp.Pos(), "kept when MINDIST ≤ bound: excluded only if strictly greater")
		case drops && (op == token.GTR):
			c.OK("C12.R3", cons, bc.cmp.Pos(), "dropped only when MINDIST > bound")
		case keeps && op == token.LSS, drops && op == token.GEQ:
			c.Bad("C12.R3", cons, bc.cmp.Pos(), "`%s` also excludes entries whose MINDIST equals the bound; for stored points MINDIST = MINMAXDIST, so the entry holding the nearest object is dropped", src(bc.cmp))
		default:
			c.Unk("C12.R3", cons, bc.cmp.Pos(), "filter shape not recognised")
		}
	}
}
