package main

// C12 — nearest-neighbour queries (thin).
//
// R1 only a universal lower bound (MINDIST) may prune without k.
// R2 leaves are scanned completely.
// R3 the 1-NN exclusion by MINMAXDIST is non-strict.

import (
	"go/ast"
	"go/token"
	"go/types"
)

func init() { register("C12", false, checkC12) }

type c12 struct {
	c       *Ctx
	info    *types.Info
	bounds  []*types.Func // (geom.Point, *geom.Bounds) float64
	mindist *types.Func
	class   map[types.Object]int // 1 = MINDIST-derived, 2 = other-bound-derived, 3 = both
	ret     map[*types.Func][]int
	funcs   []*types.Func
}

func checkC12(c *Ctx) {
	c12run(c, true)
}

// c12run: the C12 analyses; withTree also runs the envelope premise and the vacuity floors (the
// property's own check), without it only the query models (another property's premise).
func c12run(c *Ctx, withTree bool) {
	c.Rule("C12.R1", "model evaluation of NearestNeighbors(k, p) on hand-built trees (one leaf; two and three leaves; two inner nodes over three leaves) with the two point-to-box bounds replaced by tables: for every weak ordering of the object distances, every admissible choice of inner MINDIST (tight, lower, zero) and MINMAXDIST (tight, largest in the subtree, beyond everything) and k ∈ {1, 2, n, n+1}, the result has k slots, the first min(k, n) hold distinct stored objects whose distances are the smallest ones in non-decreasing order, the rest are nil")
	c.Rule("C12.R2", "model evaluation of NearestNeighbor(p) on the same trees and bound tables, distance orderings without ties: the object returned is the one at the least distance (every leaf entry is looked at, no subtree holding the nearest object is skipped)")
	c.Rule("C12.R3", "the same with ties (several objects, possibly in different subtrees, at the same distance): an object at the least distance is returned — exclusion by the MINMAXDIST bound must not be strict")
	c.Rule("C12.R4", "distances are compared like with like, observed as scale invariance: on a tree of 13 point-like objects built through Insert, NearestNeighbor and NearestNeighbors(4) — interpreted with the package's own MINDIST / MINMAXDIST arithmetic — return what a linear scan finds for 36 query points whether the coordinates are valued on a grid of spacing 1/64, 1 or 64 (a squared distance compared with a linear one orders differently below and above 1)")
	c.Rule("C12.R5", "premise of the MINMAXDIST bound and of every prune: each entry's box is the exact envelope of its subtree and parent links follow entries after every Insert/Delete — the envelope and link facets of the C11 model evaluation")
	p := c.P.Pkg("index/rtree")
	if p == nil {
		c.Unk("C12.R1", "index/rtree", token.NoPos, "package not loaded")
		return
	}
	a := &c12{c: c, info: p.TypesInfo, class: map[types.Object]int{}, ret: map[*types.Func][]int{}}
	for _, fn := range c.P.RepoFuncs() {
		if c.P.DeclPkg(fn) != p {
			continue
		}
		a.funcs = append(a.funcs, fn)
		sig := fn.Type().(*types.Signature)
		if sig.Recv() == nil && sig.Params().Len() == 2 && sig.Results().Len() == 1 &&
			isNamed(sig.Params().At(0).Type(), modPath, "Point") && isNamed(sig.Params().At(1).Type(), modPath, "Bounds") && isFloat64(sig.Results().At(0).Type()) {
			a.bounds = append(a.bounds, fn)
		}
	}
	knn := c.P.Method("index/rtree", "Rtree", "NearestNeighbors")
	nn := c.P.Method("index/rtree", "Rtree", "NearestNeighbor")
	if c.P.Decl(knn) == nil || c.P.Decl(nn) == nil {
		c.Unk("C12.R1", "index/rtree.(*Rtree).NearestNeighbor(s)", token.NoPos, "API anchors do not resolve")
		return
	}
	c.Rule("C12.R6", "each point-to-box function of the package equals, as a polynomial in symbolic coordinates and for all 16 placements of the point relative to the box, either MINDIST² or MINMAXDIST² (Roussopoulos, Kelley, Vincent 1995, definition 4)")
	fMin, fMM := c12formulas(c, p, a.bounds)
	c12model(c, p, fMin, fMM)
	c12scales(c, "C12.R4")
	if !withTree {
		return
	}
	// R5: exact envelopes (shared with C11)
	c11model(c, map[string]string{"envelopes": "C12.R5", "parent-links": "C12.R5", "no-panic": "C12.R5"})
	premiseBounds(c, "C12.R7", "distances to stored objects are distances to the boxes their Bounds() returns")
	c.Floor("C12.R7", 16)
	c.Floor("C12.R4", 1)
	c.Floor("C12.R5", 3)
	c.Floor("C12.R1", 4)
	c.Floor("C12.R2", 4)
	c.Floor("C12.R3", 3)
	c.Floor("C12.R6", 2)
}

// ---------------------------------------------------------------- R2 (+ MINDIST discovery)

// unit bits carried next to the derivation class: the bounds return squared
// distances; math.Sqrt turns a squared value into a linear one.
const (
	unitSq  = 4
	unitLin = 8
)

// comparisons in if-conditions involving an other-bound-derived operand
type boundCmp struct {
	fn   *types.Func
	cmp  *ast.BinaryExpr
	stmt *ast.IfStmt
}
