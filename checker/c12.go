package main

// C12 — nearest-neighbour queries (thin).
//
// R1 only a universal lower bound (MINDIST) may prune without k.
// R2 leaves are scanned completely.
// R3 the 1-NN exclusion by MINMAXDIST is non-strict.

import (
	"fmt"
	"go/ast"
	"go/token"
	"go/types"
	"os"
)

func init() { register("C12", false, checkC12) }

type c12 struct {
	c       *Ctx
	info    *types.Info
	bounds  []*types.Func // (geom.Point, *geom.Bounds) float64
	mindist *types.Func
	class   map[types.Object]int // 1 = MINDIST-derived, 2 = other-bound-derived, 3 = both
	ret     map[*types.Func][]int
	funcs   []*types.Func
}

func checkC12(c *Ctx) {
	c.Rule("C12.R1", "model evaluation of NearestNeighbors(k, p) on hand-built trees (one leaf; two and three leaves; two inner nodes over three leaves) with the two point-to-box bounds replaced by tables: for every weak ordering of the object distances, every admissible choice of inner MINDIST (tight, lower, zero) and MINMAXDIST (tight, largest in the subtree, beyond everything) and k ∈ {1, 2, n, n+1}, the result has k slots, the first min(k, n) hold distinct stored objects whose distances are the smallest ones in non-decreasing order, the rest are nil")
	c.Rule("C12.R2", "model evaluation of NearestNeighbor(p) on the same trees and bound tables, distance orderings without ties: the object returned is the one at the least distance (every leaf entry is looked at, no subtree holding the nearest object is skipped)")
	c.Rule("C12.R3", "the same with ties (several objects, possibly in different subtrees, at the same distance): an object at the least distance is returned — exclusion by the MINMAXDIST bound must not be strict")
	c.Rule("C12.R4", "distances are compared like with like: the point-to-box bounds return squared distances, math.Sqrt makes them linear, and no ordering comparison (pruning test, accumulator insertion, minimum update) has a squared value on one side and a linear one on the other")
	c.Rule("C12.R5", "premise of the MINMAXDIST bound and of every prune: each entry's box is the exact envelope of its subtree and parent links follow entries after every Insert/Delete — the envelope and link facets of the C11 model evaluation")
	p := c.P.Pkg("index/rtree")
	if p == nil {
		c.Unk("C12.R1", "index/rtree", token.NoPos, "package not loaded")
		return
	}
	a := &c12{c: c, info: p.TypesInfo, class: map[types.Object]int{}, ret: map[*types.Func][]int{}}
	for _, fn := range c.P.RepoFuncs() {
		if c.P.DeclPkg(fn) != p {
			continue
		}
		a.funcs = append(a.funcs, fn)
		sig := fn.Type().(*types.Signature)
		if sig.Recv() == nil && sig.Params().Len() == 2 && sig.Results().Len() == 1 &&
			isNamed(sig.Params().At(0).Type(), modPath, "Point") && isNamed(sig.Params().At(1).Type(), modPath, "Bounds") && isFloat64(sig.Results().At(0).Type()) {
			a.bounds = append(a.bounds, fn)
		}
	}
	knn := c.P.Method("index/rtree", "Rtree", "NearestNeighbors")
	nn := c.P.Method("index/rtree", "Rtree", "NearestNeighbor")
	if c.P.Decl(knn) == nil || c.P.Decl(nn) == nil {
		c.Unk("C12.R1", "index/rtree.(*Rtree).NearestNeighbor(s)", token.NoPos, "API anchors do not resolve")
		return
	}
	c.Rule("C12.R6", "each point-to-box function of the package equals, as a polynomial in symbolic coordinates and for all 16 placements of the point relative to the box, either MINDIST² or MINMAXDIST² (Roussopoulos, Kelley, Vincent 1995, definition 4)")
	fMin, fMM := c12formulas(c, p, a.bounds)
	c12model(c, p, fMin, fMM)
	a.mindist = fMin
	if a.mindist == nil {
		c.Unk("C12.R4", "index/rtree#MINDIST", token.NoPos, "no point-to-box function of the package equals MINDIST²: the unit rule has nothing to classify")
		return
	}
	a.classify()
	if os.Getenv("C12DEBUG") != "" {
		for o, cl := range a.class {
			fmt.Println("class", o.Name(), c.P.Position(o.Pos()), cl)
		}
	}
	a.r4()
	// R5: exact envelopes (shared with C11)
	c11model(c, map[string]string{"envelopes": "C12.R5", "parent-links": "C12.R5", "no-panic": "C12.R5"})
	c.Floor("C12.R4", 3)
	c.Floor("C12.R5", 3)
	c.Floor("C12.R1", 4)
	c.Floor("C12.R2", 4)
	c.Floor("C12.R3", 3)
	c.Floor("C12.R6", 2)
}

func (a *c12) isBound(f *types.Func) bool {
	for _, b := range a.bounds {
		if b == f {
			return true
		}
	}
	return false
}

// ---------------------------------------------------------------- R2 (+ MINDIST discovery)

// classify computes, for local variables, parameters and results of package
// functions, whether their value derives from MINDIST (1), another bound (2) or both.
func (a *c12) classify() {
	c := a.c
	classOfCall := func(f *types.Func) int {
		if f == a.mindist {
			return 1
		}
		if a.isBound(f) {
			return 2
		}
		return 0
	}
	exprClass := a.exprClass
	_ = classOfCall
	for changed := true; changed; {
		changed = false
		set := func(o types.Object, cl int) {
			if o != nil && cl != 0 && a.class[o]|cl != a.class[o] {
				a.class[o] |= cl
				changed = true
			}
		}
		for _, fn := range a.funcs {
			if a.isBound(fn) {
				continue
			}
			fd := c.P.Decl(fn)
			ast.Inspect(fd.Body, func(n ast.Node) bool {
				switch x := n.(type) {
				case *ast.AssignStmt:
					if len(x.Lhs) == len(x.Rhs) {
						for i, l := range x.Lhs {
							set(rootObj(a.info, l), exprClass(x.Rhs[i]))
						}
					} else if len(x.Rhs) == 1 {
						if call, ok := unparen(x.Rhs[0]).(*ast.CallExpr); ok {
							if f := callee(a.info, call); f != nil {
								for i, l := range x.Lhs {
									if r := a.ret[f]; i < len(r) {
										set(rootObj(a.info, l), r[i])
									}
								}
							}
						}
					}
				case *ast.CallExpr:
					// arguments → parameters
					if f := callee(a.info, x); f != nil && c.P.Decl(f) != nil {
						ps := paramVars(a.info, c.P.Decl(f).Type)
						for i, arg := range x.Args {
							if i < len(ps) && ps[i] != nil {
								set(ps[i], exprClass(arg))
							}
						}
					}
				case *ast.ReturnStmt:
					r := a.ret[fn]
					for len(r) < len(x.Results) {
						r = append(r, 0)
					}
					for i, e := range x.Results {
						if cl := exprClass(e); r[i]|cl != r[i] {
							r[i] |= cl
							changed = true
						}
					}
					a.ret[fn] = r
				}
				return true
			})
		}
	}
}

func (a *c12) exprClass(e ast.Expr) int {
	switch x := unparen(e).(type) {
	case *ast.Ident:
		if o := objOf(a.info, x); o != nil {
			return a.class[o]
		}
	case *ast.SelectorExpr:
		return a.exprClass(x.X)
	case *ast.IndexExpr:
		return a.exprClass(x.X)
	case *ast.SliceExpr:
		return a.exprClass(x.X)
	case *ast.StarExpr:
		return a.exprClass(x.X)
	case *ast.UnaryExpr:
		return a.exprClass(x.X)
	case *ast.BinaryExpr:
		return a.exprClass(x.X) | a.exprClass(x.Y)
	case *ast.CallExpr:
		if f := callee(a.info, x); f != nil {
			if f == a.mindist {
				return 1 | unitSq
			}
			if a.isBound(f) {
				return 2 | unitSq
			}
			if isFuncIn(f, "math", "Sqrt") && len(x.Args) == 1 {
				if cl := a.exprClass(x.Args[0]); cl != 0 {
					return cl&3 | unitLin
				}
				return 0
			}
			if a.c.P.Decl(f) != nil {
				if r := a.ret[f]; len(r) == 1 {
					return r[0]
				}
				return 0
			}
		}
		// builtins, conversions and external pure functions (math.Sqrt, append, …): from the arguments
		cl := 0
		for _, arg := range x.Args {
			cl |= a.exprClass(arg)
		}
		return cl
	}
	return 0
}

// unit bits carried next to the derivation class: the bounds return squared
// distances; math.Sqrt turns a squared value into a linear one.
const (
	unitSq  = 4
	unitLin = 8
)

// r4: no ordering comparison between a squared and a linear distance.
func (a *c12) r4() {
	c := a.c
	unitName := func(cl int) string {
		switch cl & (unitSq | unitLin) {
		case unitSq:
			return "squared"
		case unitLin:
			return "linear"
		case unitSq | unitLin:
			return "squared on some paths and linear on others"
		}
		return "-"
	}
	for _, fn := range a.funcs {
		if a.isBound(fn) {
			continue
		}
		fd := c.P.Decl(fn)
		n := 0
		ast.Inspect(fd.Body, func(nd ast.Node) bool {
			b, ok := nd.(*ast.BinaryExpr)
			if !ok {
				return true
			}
			switch b.Op {
			case token.LSS, token.LEQ, token.GTR, token.GEQ, token.EQL, token.NEQ:
			default:
				return true
			}
			lc, rc := a.exprClass(b.X)&(unitSq|unitLin), a.exprClass(b.Y)&(unitSq|unitLin)
			if lc == 0 || rc == 0 {
				return true
			}
			n++
			cons := fmt.Sprintf("%s#cmp:%s", c.P.FuncName(fn), src(b))
			if lc == rc && (lc == unitSq || lc == unitLin) {
				c.OK("C12.R4", cons, b.Pos(), "both sides %s", unitName(lc))
			} else {
				c.Bad("C12.R4", cons, b.Pos(), "`%s` compares a %s distance (%s) with a %s one (%s): for values below 1 the order of d and d² is reversed, so an entry is pruned or ranked against the wrong threshold", src(b), unitName(lc), src(b.X), unitName(rc), src(b.Y))
			}
			return true
		})
	}
}

// comparisons in if-conditions involving an other-bound-derived operand
type boundCmp struct {
	fn   *types.Func
	cmp  *ast.BinaryExpr
	stmt *ast.IfStmt
}
