package main

// C11.R3 (continuity half): the upward pass really reaches the root.
//
// r3() shows that every mutation of a node's entries is followed by a call of
// an upward pass U.  This file checks U itself: starting at the changed node
// the pass must visit *every* ancestor up to the root and, at each one, either
// store the node's recomputed envelope into its own entry of the parent or
// remove that entry.  A pass that stops below the root leaves the ancestors'
// boxes un-tightened ("exact envelope" is part of the property) and, after an
// insertion, too small (SearchIntersect then misses entries).

import (
	"fmt"
	"go/ast"
	"go/token"
	"go/types"
)

// rootGuard classifies an atomic condition known to have the given truth value:
// "identity" when it states v == X.root, "parent-nil" when it states v.parent == nil.
func (a *c11) rootGuard(at condAtom, v types.Object) string {
	be, ok := unparen(at.E).(*ast.BinaryExpr)
	if !ok {
		return ""
	}
	if !((be.Op == token.EQL && at.Truth) || (be.Op == token.NEQ && !at.Truth)) {
		return ""
	}
	for _, pr := range [][2]ast.Expr{{be.X, be.Y}, {be.Y, be.X}} {
		l, r := unparen(pr[0]), unparen(pr[1])
		if id, ok := l.(*ast.Ident); ok && a.info.ObjectOf(id) == v && a.fieldSel(r, a.root) != nil {
			return "identity"
		}
		if X := a.fieldSel(l, a.parent); X != nil {
			if id, ok := unparen(X).(*ast.Ident); ok && a.info.ObjectOf(id) == v {
				if tv, ok := a.info.Types[r]; ok && tv.IsNil() {
					return "parent-nil"
				}
			}
		}
	}
	return ""
}

// rootParentAlwaysNil: every store of an existing node into the root field is
// paired, in the same function, with clearing that node's parent link.  Needed
// only when some pass recognises the root by `parent == nil`.
func (a *c11) rootParentAlwaysNil() (bool, token.Pos, string) {
	for _, fn := range a.pkgFuncs {
		fd := a.c.P.Decl(fn)
		var bad *ast.AssignStmt
		ast.Inspect(fd.Body, func(n ast.Node) bool {
			as, ok := n.(*ast.AssignStmt)
			if !ok || len(as.Lhs) != 1 || len(as.Rhs) != 1 || bad != nil {
				return true
			}
			if a.fieldSel(as.Lhs[0], a.root) == nil {
				return true
			}
			if a.isNewNodeAbove(unparen(as.Rhs[0])) || isFreshNodeLit(as.Rhs[0]) {
				return true
			}
			cleared := false
			ast.Inspect(fd.Body, func(m ast.Node) bool {
				as2, ok := m.(*ast.AssignStmt)
				if !ok || len(as2.Lhs) != 1 || len(as2.Rhs) != 1 || as2.Pos() < as.Pos() {
					return true
				}
				X := a.fieldSel(as2.Lhs[0], a.parent)
				if X == nil {
					return true
				}
				if tv, ok := a.info.Types[as2.Rhs[0]]; !ok || !tv.IsNil() {
					return true
				}
				if sameExpr(a.info, X, as.Lhs[0]) || sameExpr(a.info, X, as.Rhs[0]) {
					cleared = true
				}
				return true
			})
			if !cleared {
				bad = as
			}
			return true
		})
		if bad != nil {
			return false, bad.Pos(), fmt.Sprintf("%s: `%s` makes an existing node the root without clearing its parent link", a.c.P.FuncName(fn), src(bad))
		}
	}
	return true, token.NoPos, ""
}

func isFreshNodeLit(e ast.Expr) bool {
	if u, ok := unparen(e).(*ast.UnaryExpr); ok && u.Op == token.AND {
		_, isLit := unparen(u.X).(*ast.CompositeLit)
		return isLit
	}
	return false
}

// ownEntryLookup: m is a method on node returning *entry which returns the
// address of the element of recv.parent.entries whose child is recv.
func (a *c11) ownEntryLookup(m *types.Func) bool {
	sig := m.Type().(*types.Signature)
	if sig.Recv() == nil || named(sig.Recv().Type()) != a.nodeT || sig.Results().Len() != 1 {
		return false
	}
	pt, ok := sig.Results().At(0).Type().(*types.Pointer)
	if !ok || pt.Elem() != types.Type(a.entryT) {
		return false
	}
	fd := a.c.P.Decl(m)
	if fd == nil || fd.Recv == nil || len(fd.Recv.List) == 0 || len(fd.Recv.List[0].Names) == 0 {
		return false
	}
	recv := a.info.ObjectOf(fd.Recv.List[0].Names[0])
	cmp, addr := false, false
	ast.Inspect(fd.Body, func(n ast.Node) bool {
		switch x := n.(type) {
		case *ast.BinaryExpr:
			if x.Op == token.EQL {
				for _, pr := range [][2]ast.Expr{{x.X, x.Y}, {x.Y, x.X}} {
					if a.fieldSel(pr[0], a.child) != nil {
						if id, ok := unparen(pr[1]).(*ast.Ident); ok && a.info.ObjectOf(id) == recv {
							cmp = true
						}
					}
				}
			}
		case *ast.UnaryExpr:
			if x.Op == token.AND {
				if ix, ok := unparen(x.X).(*ast.IndexExpr); ok {
					if X := a.fieldSel(ix.X, a.entries); X != nil {
						if P := a.fieldSel(X, a.parent); P != nil {
							if id, ok := unparen(P).(*ast.Ident); ok && a.info.ObjectOf(id) == recv {
								addr = true
							}
						}
					}
				}
			}
		}
		return true
	})
	return cmp && addr
}

// fixesNode reports whether statement n stores fold(v) into v's own entry, or
// replaces v.parent.entries (removal of v's entry).
func (a *c11) fixesNode(n ast.Node, v types.Object, sc *fnScope) bool {
	as, ok := n.(*ast.AssignStmt)
	if !ok || len(as.Lhs) != 1 || len(as.Rhs) != 1 {
		return false
	}
	isV := func(e ast.Expr) bool {
		id, ok := unparen(e).(*ast.Ident)
		return ok && a.info.ObjectOf(id) == v
	}
	if X := a.fieldSel(as.Lhs[0], a.entries); X != nil {
		if P := a.fieldSel(X, a.parent); P != nil && isV(P) {
			return true
		}
	}
	E := a.fieldSel(as.Lhs[0], a.bb)
	if E == nil {
		return false
	}
	call, ok := unparen(as.Rhs[0]).(*ast.CallExpr)
	if !ok || callee(a.info, call) != a.fold {
		return false
	}
	if sel, ok := unparen(call.Fun).(*ast.SelectorExpr); !ok || !isV(sel.X) {
		return false
	}
	// E must be v's own entry: v.<ownEntryLookup>() directly or through a local
	own := func(e ast.Expr) bool {
		c2, ok := unparen(e).(*ast.CallExpr)
		if !ok {
			return false
		}
		f := callee(a.info, c2)
		if f == nil || !a.ownEntryLookup(f) {
			return false
		}
		sel, ok := unparen(c2.Fun).(*ast.SelectorExpr)
		return ok && isV(sel.X)
	}
	if own(E) {
		return true
	}
	if o := objOf(a.info, E); o != nil {
		ds := sc.defs[o]
		if len(ds) == 0 {
			return false
		}
		for _, d := range ds {
			if d == nil || !own(d) {
				return false
			}
		}
		return true
	}
	return false
}

func (a *c11) r3pass(fn *types.Func) {
	c := a.c
	fd := c.P.Decl(fn)
	sc := newFnScope(a.info, fd.Body)
	cons := c.P.FuncName(fn) + "#reaches-root"
	needNil := func(pos token.Pos) bool {
		ok, p, why := a.rootParentAlwaysNil()
		if !ok {
			c.Bad(a.r3name, cons, pos, "the pass recognises the root by `parent == nil`, but %s: after that store the root has a non-nil parent, the pass climbs into the detached node above it and the real root's bookkeeping (split, height) is skipped (store at %s)", why, c.P.Position(p))
		}
		return ok
	}
	// ---- loop form: for v != root { …; v = v.parent }
	var loop *ast.ForStmt
	var lv types.Object
	var climb ast.Stmt
	ast.Inspect(fd.Body, func(n ast.Node) bool {
		fs, ok := n.(*ast.ForStmt)
		if !ok || loop != nil {
			return true
		}
		cands := append([]ast.Stmt{}, fs.Body.List...)
		if fs.Post != nil {
			cands = append(cands, fs.Post)
		}
		for _, st := range cands {
			as, ok := st.(*ast.AssignStmt)
			if !ok || as.Tok != token.ASSIGN || len(as.Lhs) != 1 || len(as.Rhs) != 1 {
				continue
			}
			id, ok := unparen(as.Lhs[0]).(*ast.Ident)
			if !ok {
				continue
			}
			if X := a.fieldSel(as.Rhs[0], a.parent); X != nil {
				if id2, ok := unparen(X).(*ast.Ident); ok && a.info.ObjectOf(id2) == a.info.ObjectOf(id) {
					loop, lv, climb = fs, a.info.ObjectOf(id), st
				}
			}
		}
		return true
	})
	if loop != nil {
		if loop.Cond == nil {
			c.Unk(a.r3name, cons, loop.Pos(), "upward loop without a condition: cannot tell where it stops")
			return
		}
		kind := ""
		for _, at := range conjuncts(loop.Cond, false) { // facts that hold when the loop exits normally
			if k := a.rootGuard(at, lv); k != "" {
				kind = k
			}
		}
		if kind == "" || len(conjuncts(loop.Cond, false)) != 1 {
			c.Bad(a.r3name, cons, loop.Pos(), "the upward loop `for %s` can stop at a node that is not the root: the envelopes of the remaining ancestors are not recomputed", src(loop.Cond))
			return
		}
		if kind == "parent-nil" && !needNil(loop.Pos()) {
			return
		}
		// no early exit
		var exit ast.Node
		var walk func(n ast.Node, brk, cont int)
		walk = func(n ast.Node, brk, cont int) {
			ast.Inspect(n, func(m ast.Node) bool {
				if exit != nil || m == nil {
					return false
				}
				switch x := m.(type) {
				case *ast.FuncLit:
					return false
				case *ast.ReturnStmt:
					exit = x
				case *ast.BranchStmt:
					switch x.Tok {
					case token.GOTO:
						exit = x
					case token.BREAK:
						if x.Label != nil || brk == 0 {
							exit = x
						}
					case token.CONTINUE:
						if (x.Label != nil || cont == 0) && climb != loop.Post {
							exit = x
						}
					}
				case *ast.ForStmt:
					walk(x.Body, brk+1, cont+1)
					return false
				case *ast.RangeStmt:
					walk(x.Body, brk+1, cont+1)
					return false
				case *ast.SwitchStmt:
					walk(x.Body, brk+1, cont)
					return false
				case *ast.TypeSwitchStmt:
					walk(x.Body, brk+1, cont)
					return false
				case *ast.SelectStmt:
					walk(x.Body, brk+1, cont)
					return false
				}
				return true
			})
		}
		walk(loop.Body, 0, 0)
		if exit != nil {
			c.Bad(a.r3name, cons, exit.Pos(), "`%s` leaves the upward pass of %s below the root: every ancestor above that node keeps the box computed before the change (no longer the exact envelope; SearchIntersect and the nearest-neighbour bounds use it)", src(exit), fn.Name())
			return
		}
		if climb != loop.Post && climb != loop.Body.List[len(loop.Body.List)-1] {
			c.Unk(a.r3name, cons, climb.Pos(), "the climb `%s` is not the last statement of the loop body", src(climb))
			return
		}
		// every iteration repairs the current node
		all := true
		cl := &FactsClient{}
		cl.OnStmt = func(n ast.Node, s Facts) Facts {
			if a.fixesNode(n, lv, sc) {
				s["fixed"] = true
			}
			return s
		}
		cl.OnReturn = func(r *ast.ReturnStmt, s Facts) {
			if !s["fixed"] {
				all = false
			}
		}
		fl := &Flow[Facts]{C: cl, Info: a.info}
		fl.Run(loop.Body, Facts{})
		if len(fl.Unsupported) > 0 {
			c.Unk(a.r3name, cons, fl.Unsupported[0].Pos(), "unsupported control flow in the upward loop")
			return
		}
		if !all {
			c.Bad(a.r3name, cons, loop.Pos(), "an iteration of the upward loop of %s can climb past a node without storing its recomputed envelope into its own entry (or removing that entry)", fn.Name())
			return
		}
		c.OK(a.r3name, cons, loop.Pos(), "loop form: runs until %s is the root (%s test), no early exit, each iteration stores the node's envelope into its own entry or removes the entry, then climbs", lv.Name(), kind)
		return
	}
	// ---- recursion form
	sig := fn.Type().(*types.Signature)
	var pv types.Object
	if sig.Params().Len() > 0 && named(sig.Params().At(0).Type()) == a.nodeT {
		pv = sig.Params().At(0)
	}
	recursive := false
	ast.Inspect(fd.Body, func(n ast.Node) bool {
		if call, ok := n.(*ast.CallExpr); ok && callee(a.info, call) == fn {
			recursive = true
		}
		return true
	})
	if pv == nil || !recursive {
		c.Unk(a.r3name, cons, fd.Pos(), "shape of the upward pass not recognised (neither `for n != root { …; n = n.parent }` nor recursion on the parent)")
		return
	}
	nRet, bad := 0, false
	cl := &FactsClient{}
	cl.OnBranch = func(cond ast.Expr, truth bool, s Facts) Facts {
		for _, at := range conjuncts(cond, truth) {
			if k := a.rootGuard(at, pv); k != "" {
				s["root:"+k] = true
			}
		}
		return s
	}
	cl.OnStmt = func(n ast.Node, s Facts) Facts {
		if a.fixesNode(n, pv, sc) {
			s["fixed"] = true
		}
		return s
	}
	cl.OnReturn = func(r *ast.ReturnStmt, s Facts) {
		if bad {
			return
		}
		nRet++
		pos := fd.End()
		if r != nil {
			pos = r.Pos()
		}
		if s["root:identity"] {
			return
		}
		if s["root:parent-nil"] {
			if !needNil(pos) {
				bad = true
			}
			return
		}
		// must recurse on the parent
		rec := false
		if r != nil {
			for _, e := range r.Results {
				ast.Inspect(e, func(m ast.Node) bool {
					call, ok := m.(*ast.CallExpr)
					if !ok || callee(a.info, call) != fn || len(call.Args) == 0 {
						return true
					}
					arg := call.Args[0]
					up := false
					ast.Inspect(arg, func(k ast.Node) bool {
						if e, ok := k.(ast.Expr); ok {
							if X := a.fieldSel(e, a.parent); X != nil {
								if id, ok := unparen(X).(*ast.Ident); ok && a.info.ObjectOf(id) == pv {
									up = true
								}
							}
						}
						return true
					})
					if up {
						rec = true
					}
					return true
				})
			}
		}
		if !rec {
			bad = true
			c.Bad(a.r3name, cons, pos, "%s returns below the root without recursing on %s.parent: the ancestors' envelopes are not recomputed", fn.Name(), pv.Name())
			return
		}
		if !s["fixed"] {
			bad = true
			c.Bad(a.r3name, cons, pos, "%s climbs to the parent on a path that did not store %s's recomputed envelope into its own entry", fn.Name(), pv.Name())
		}
	}
	fl := &Flow[Facts]{C: cl, Info: a.info}
	fl.Run(fd.Body, Facts{})
	if len(fl.Unsupported) > 0 {
		c.Unk(a.r3name, cons, fl.Unsupported[0].Pos(), "unsupported control flow in the upward pass")
		return
	}
	if !bad {
		c.OK(a.r3name, cons, fd.Pos(), "recursion form: %d returns; each is either the root case (identity test against the root field) or recurses on %s.parent after storing the node's envelope into its own entry", nRet, pv.Name())
	}
}
