package main

// C11.R3 (continuity half): the upward pass really reaches the root.
//
// r3() shows that every mutation of a node's entries is followed by a call of
// an upward pass U.  This file checks U itself: starting at the changed node
// the pass must visit *every* ancestor up to the root and, at each one, either
// store the node's recomputed envelope into its own entry of the parent or
// remove that entry.  A pass that stops below the root leaves the ancestors'
// boxes un-tightened ("exact envelope" is part of the property) and, after an
// insertion, too small (SearchIntersect then misses entries).

import ()
