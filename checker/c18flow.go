package main

// Flow of a "request another pass" boolean through a function body (C18.R3, C18.R6).  A request
// is the value of a call (a producer's result) or of the flag itself; it travels through
// assignments, `a || b`, `x |= …`-style accumulation written as `x = x || e`, through
// `if request { y = true }`, `if request { return true }` and `if request { obj.mark() }` where
// the method stores true into a bool field.  Where it ends decides what the caller does with it.

import (
	"fmt"
	"go/ast"
	"go/token"
	"go/types"
	"strings"
)

type boolFlow struct {
	tainted  map[types.Object]bool
	ownIdx   map[int]bool // indices of the function's results the request reaches
	loopCond bool         // reaches the condition of a loop of this function
	loop     *ast.ForStmt
	field    bool // stored into a bool field (directly or through a method)
}

// followBool: where the values of the seed expressions (and of the seed objects) go inside fd.
func (a *c18) followBool(fd *ast.FuncDecl, seedCalls map[*ast.CallExpr]int, seedObjs map[types.Object]bool) *boolFlow {
	info := a.info
	bf := &boolFlow{tainted: map[types.Object]bool{}, ownIdx: map[int]bool{}}
	for o := range seedObjs {
		bf.tainted[o] = true
	}
	results := resultVars(info, fd.Type)
	lhsObj := func(e ast.Expr) types.Object {
		if sel, ok := unparen(e).(*ast.SelectorExpr); ok {
			return info.Uses[sel.Sel]
		}
		return objOf(info, e)
	}
	var isReq func(e ast.Expr) bool
	isReq = func(e ast.Expr) bool {
		e = unparen(e)
		switch x := e.(type) {
		case *ast.CallExpr:
			if _, ok := seedCalls[x]; ok {
				return true
			}
			// a helper that hands out the value of a seed object (takeRequest() returning the flag)
			if len(seedObjs) > 0 {
				if g := callee(info, x); g != nil && a.c.P.Decl(g) != nil && a.c.P.Decl(g) != fd && a.returnsSeed(g, seedObjs) {
					return true
				}
			}
		case *ast.Ident:
			return bf.tainted[info.Uses[x]] || bf.tainted[info.Defs[x]]
		case *ast.SelectorExpr:
			return bf.tainted[info.Uses[x.Sel]]
		case *ast.BinaryExpr:
			if x.Op == token.LOR {
				return isReq(x.X) || isReq(x.Y)
			}
			// an integer flag read as a condition: flag != 0, load(&flag) == 1 …
			if x.Op == token.NEQ || x.Op == token.EQL || x.Op == token.GTR {
				if c := constOf(info, x.Y); c != nil && isReq(x.X) {
					return true
				}
			}
		}
		if call, ok := e.(*ast.CallExpr); ok && len(seedObjs) > 0 {
			if o := a.atomicTarget(call, false); o != nil && seedObjs[o] {
				return true
			}
		}
		return false
	}
	setsFieldTrue := func(call *ast.CallExpr) bool {
		f := callee(info, call)
		if f == nil || a.c.P.Decl(f) == nil || len(call.Args) != 0 {
			return false
		}
		found := false
		ast.Inspect(a.c.P.Decl(f).Body, func(k ast.Node) bool {
			if as, ok := k.(*ast.AssignStmt); ok && len(as.Rhs) == 1 && len(as.Lhs) == 1 {
				if v := constOf(info, as.Rhs[0]); v != nil && v.String() == "true" {
					if _, isSel := unparen(as.Lhs[0]).(*ast.SelectorExpr); isSel {
						found = true
					}
				}
			}
			return true
		})
		return found
	}
	taint := func(o types.Object) bool {
		if o == nil || bf.tainted[o] {
			return false
		}
		bf.tainted[o] = true
		if v, ok := o.(*types.Var); ok && v.IsField() {
			bf.field = true
		}
		return true
	}
	for changed := true; changed; {
		changed = false
		ast.Inspect(fd.Body, func(n ast.Node) bool {
			switch x := n.(type) {
			case *ast.FuncLit:
				return true
			case *ast.AssignStmt:
				if len(x.Rhs) == 1 && len(x.Lhs) >= 1 {
					if call, ok := unparen(x.Rhs[0]).(*ast.CallExpr); ok {
						if idx, ok := seedCalls[call]; ok && idx < len(x.Lhs) {
							if taint(lhsObj(x.Lhs[idx])) {
								changed = true
							}
							return true
						}
					}
				}
				for i, r := range x.Rhs {
					if i < len(x.Lhs) && isReq(r) {
						if taint(lhsObj(x.Lhs[i])) {
							changed = true
						}
					}
				}
			case *ast.IfStmt:
				if !isReq(x.Cond) {
					return true
				}
				ast.Inspect(x.Body, func(m ast.Node) bool {
					switch y := m.(type) {
					case *ast.AssignStmt:
						if len(y.Rhs) == 1 && len(y.Lhs) == 1 {
							if v := constOf(info, y.Rhs[0]); v != nil && v.String() == "true" {
								if taint(lhsObj(y.Lhs[0])) {
									changed = true
								}
							}
						}
					case *ast.ReturnStmt:
						for i, r := range y.Results {
							if v := constOf(info, r); v != nil && v.String() == "true" && !bf.ownIdx[i] {
								bf.ownIdx[i] = true
								changed = true
							}
						}
					case *ast.CallExpr:
						if (setsFieldTrue(y) || a.atomicTarget(y, true) != nil) && !bf.field {
							bf.field = true
							changed = true
						}
					}
					return true
				})
			case *ast.ReturnStmt:
				for i, r := range x.Results {
					if isReq(r) && !bf.ownIdx[i] {
						bf.ownIdx[i] = true
						changed = true
					}
				}
			case *ast.ForStmt:
				if x.Cond != nil && isReq(x.Cond) && !bf.loopCond {
					bf.loopCond, bf.loop = true, x
					changed = true
				}
				// `for { …; if !request { return/break } }`: the loop goes on exactly while requested
				if x.Cond == nil && !bf.loopCond {
					ast.Inspect(x.Body, func(m ast.Node) bool {
						is, ok := m.(*ast.IfStmt)
						if !ok || bf.loopCond {
							return true
						}
						un, ok := unparen(is.Cond).(*ast.UnaryExpr)
						if !ok || un.Op != token.NOT || !isReq(un.X) || len(is.Body.List) == 0 {
							return true
						}
						switch last := is.Body.List[len(is.Body.List)-1].(type) {
						case *ast.ReturnStmt:
							bf.loopCond, bf.loop = true, x
							changed = true
						case *ast.BranchStmt:
							if last.Tok == token.BREAK {
								bf.loopCond, bf.loop = true, x
								changed = true
							}
						}
						return true
					})
				}
			}
			return true
		})
		for i, r := range results {
			if r != nil && bf.tainted[r] && !bf.ownIdx[i] {
				bf.ownIdx[i] = true
				changed = true
			}
		}
	}
	return bf
}

// returnsSeed: g's result carries the value of one of the seed objects.
func (a *c18) returnsSeed(g *types.Func, seedObjs map[types.Object]bool) bool {
	if a.seedBusy == nil {
		a.seedBusy = map[*types.Func]bool{}
		a.seedMemo = map[*types.Func]bool{}
	}
	if v, ok := a.seedMemo[g]; ok {
		return v
	}
	if a.seedBusy[g] {
		return false
	}
	a.seedBusy[g] = true
	bf := a.followBool(a.c.P.Decl(g), nil, seedObjs)
	a.seedBusy[g] = false
	a.seedMemo[g] = len(bf.ownIdx) > 0
	return a.seedMemo[g]
}

// joinedUnlessErr teaches a "joined" flow the idiom
//
//	if err == nil { err = eg.Wait() }
//	if err != nil { return … }
//
// — after the first statement the workers are joined or err is non-nil; on the path where err is
// then found nil they are joined.  The disjunction is kept as a fact of its own across the merge.
func (a *c18) joinedUnlessErr(cl *FactsClient) {
	errName := func(e ast.Expr) (string, bool) {
		b, ok := unparen(e).(*ast.BinaryExpr)
		if !ok || (b.Op != token.EQL && b.Op != token.NEQ) {
			return "", false
		}
		x, y := b.X, b.Y
		if isNilConst(a.info, x) {
			x, y = y, x
		}
		if !isNilConst(a.info, y) {
			return "", false
		}
		o := objOf(a.info, x)
		if o == nil || !isErrorType(o.Type()) {
			return "", false
		}
		return o.Name() + "@" + fmt.Sprint(int(o.Pos())), b.Op == token.NEQ
	}
	innerBranch, innerStmt := cl.OnBranch, cl.OnStmt
	cl.OnBranch = func(cond ast.Expr, truth bool, s Facts) Facts {
		if innerBranch != nil {
			s = innerBranch(cond, truth, s)
		}
		for _, at := range conjuncts(cond, truth) {
			name, isNeq := errName(at.E)
			if name == "" {
				continue
			}
			nonNil := isNeq == at.Truth
			if nonNil {
				s["errnn:"+name] = true
			} else {
				delete(s, "errnn:"+name)
				if s["joinedUnless:"+name] {
					s["joined"] = true
				}
			}
		}
		return s
	}
	cl.OnStmt = func(n ast.Node, s Facts) Facts {
		// an assignment to the error variable ends what was known about it
		if as, ok := n.(*ast.AssignStmt); ok {
			for _, l := range as.Lhs {
				if o := objOf(a.info, l); o != nil && isErrorType(o.Type()) {
					name := o.Name() + "@" + fmt.Sprint(int(o.Pos()))
					delete(s, "errnn:"+name)
					delete(s, "joinedUnless:"+name)
				}
			}
		}
		if innerStmt != nil {
			s = innerStmt(n, s)
		}
		return s
	}
	cl.OnJoin = func(x, y Facts) Facts {
		m := x.Meet(y)
		for _, pq := range [][2]Facts{{x, y}, {y, x}} {
			p, q := pq[0], pq[1]
			if !p["joined"] {
				continue
			}
			for k := range q {
				if strings.HasPrefix(k, "errnn:") {
					m["joinedUnless:"+k[len("errnn:"):]] = true
				}
				if strings.HasPrefix(k, "joinedUnless:") {
					m[k] = true
				}
			}
		}
		return m
	}
}
