package main

// C08 — every supported projection inverts.
//
// R1 outputs depend on inputs (SSA backward dependence).
// R2 pipeline mirror in the NewTransform closure.
// R3 registry completeness.  R4 which result is the longitude.

import (
	"fmt"
	"go/ast"
	"go/token"
	"go/types"
	"sort"
	"strings"

	"golang.org/x/tools/go/ssa"
)

func init() { register("C08", true, checkC08) }

var c08names = []string{"longlat", "merc", "lcc", "aea", "eqdc", "tmerc", "utm", "krovak"}

type projReg struct {
	names map[string]*types.Func // lower-cased registered name → constructor
	ctors []*types.Func
}

var projRegMemo = map[*Ctx]*projReg{}

// projRegistry: the registered projections, name → constructor.  Read from the package as it
// stands after initialisation — every package-level map from strings to functions of a reference
// that return two members and an error, whatever fills it (init functions, a var initialiser, a
// function that builds the table) — through the interpreter; the registerTrans(F, "name", …)
// calls of the init functions are read from the syntax only when that finds nothing.
func projRegistry(c *Ctx) *projReg {
	if r, ok := projRegMemo[c]; ok {
		return r
	}
	r := projRegistryUncached(c)
	projRegMemo[c] = r
	return r
}

func projRegistryUncached(c *Ctx) *projReg {
	p := c.P.Pkg("proj")
	r := &projReg{names: map[string]*types.Func{}}
	if p == nil {
		return r
	}
	isCtorSig := func(t types.Type) bool {
		sig, ok := t.Underlying().(*types.Signature)
		if !ok || sig.Params().Len() != 1 || sig.Results().Len() != 3 {
			return false
		}
		_, ptr := sig.Params().At(0).Type().(*types.Pointer)
		return ptr && types.Identical(sig.Results().At(2).Type(), types.Universe.Lookup("error").Type())
	}
	if m, _ := newC20m(c); m != nil {
		seen := map[*types.Func]bool{}
		sc := p.Types.Scope()
		for _, n := range sc.Names() {
			v, ok := sc.Lookup(n).(*types.Var)
			if !ok {
				continue
			}
			mt, ok := v.Type().Underlying().(*types.Map)
			if !ok || !isCtorSig(mt.Elem()) {
				continue
			}
			if b, ok := mt.Key().Underlying().(*types.Basic); !ok || b.Kind() != types.String {
				continue
			}
			cell := m.it.global(v)
			if cell == nil {
				continue
			}
			mp, ok := (*cell).(oMap)
			if !ok || mp.keys == nil {
				continue
			}
			for i, k := range *mp.keys {
				name, ok := strOf(k)
				if !ok {
					continue
				}
				var ctor *types.Func
				switch fv := (*mp.vals)[i].(type) {
				case oFuncRef:
					ctor = fv.f
				case oBound:
					ctor = fv.f
				}
				if ctor == nil || c.P.Decl(ctor) == nil {
					continue
				}
				r.names[strings.ToLower(name)] = ctor
				if !seen[ctor] {
					seen[ctor] = true
					r.ctors = append(r.ctors, ctor)
				}
			}
		}
		if len(r.names) > 0 {
			// by name: positions of different files are not ordered the same way in every run
			sort.Slice(r.ctors, func(i, j int) bool { return c.P.FuncName(r.ctors[i]) < c.P.FuncName(r.ctors[j]) })
			return r
		}
	}
	info := p.TypesInfo
	seen := map[*types.Func]bool{}
	for _, f := range p.Syntax {
		for _, d := range f.Decls {
			fd, ok := d.(*ast.FuncDecl)
			if !ok || fd.Name.Name != "init" || fd.Recv != nil || fd.Body == nil {
				continue
			}
			ast.Inspect(fd.Body, func(n ast.Node) bool {
				call, ok := n.(*ast.CallExpr)
				if !ok || len(call.Args) < 2 {
					return true
				}
				g := callee(info, call)
				if g == nil || c.P.Decl(g) == nil {
					return true
				}
				sig := g.Type().(*types.Signature)
				if sig.Params().Len() < 1 || !isNamed(sig.Params().At(0).Type(), modPath+"/proj", "TransformerFunc") {
					return true
				}
				ctor, _ := objOf(info, call.Args[0]).(*types.Func)
				if ctor == nil {
					return true
				}
				for _, a := range call.Args[1:] {
					if s, ok := constString(info, a); ok {
						r.names[strings.ToLower(s)] = ctor
					}
				}
				if !seen[ctor] {
					seen[ctor] = true
					r.ctors = append(r.ctors, ctor)
				}
				return true
			})
		}
	}
	sort.Slice(r.ctors, func(i, j int) bool { return c.P.FuncName(r.ctors[i]) < c.P.FuncName(r.ctors[j]) })
	return r
}

// closuresOf returns the functions that can flow into result #idx of ctor.
func closuresOf(c *Ctx, f *ssa.Function, idx int, depth int) []*ssa.Function {
	if f == nil || depth > 4 {
		return nil
	}
	set := map[*ssa.Function]bool{}
	var trace func(v ssa.Value, d int)
	trace = func(v ssa.Value, d int) {
		if d > 20 {
			return
		}
		switch x := v.(type) {
		case *ssa.MakeClosure:
			if fn, ok := x.Fn.(*ssa.Function); ok {
				set[fn] = true
			}
		case *ssa.Function:
			set[x] = true
		case *ssa.ChangeType:
			trace(x.X, d+1)
		case *ssa.MakeInterface:
			trace(x.X, d+1)
		case *ssa.Phi:
			for _, e := range x.Edges {
				trace(e, d+1)
			}
		case *ssa.UnOp:
			if x.Op == token.MUL {
				if al, ok := x.X.(*ssa.Alloc); ok {
					for _, r := range *al.Referrers() {
						if st, ok := r.(*ssa.Store); ok && st.Addr == al {
							trace(st.Val, d+1)
						}
					}
				}
			}
		case *ssa.Extract:
			if call, ok := x.Tuple.(*ssa.Call); ok {
				if g := call.Call.StaticCallee(); g != nil {
					for _, h := range closuresOf(c, g, x.Index, depth+1) {
						set[h] = true
					}
				}
			}
		}
	}
	for _, b := range f.Blocks {
		for _, in := range b.Instrs {
			if r, ok := in.(*ssa.Return); ok && idx < len(r.Results) {
				trace(r.Results[idx], 0)
			}
		}
	}
	var out []*ssa.Function
	for fn := range set {
		out = append(out, fn)
	}
	sort.Slice(out, func(i, j int) bool { return c.P.PosLess(out[i].Pos(), out[j].Pos()) })
	return out
}

// depInfo: what a value depends on.
type depInfo struct {
	params map[*ssa.Parameter]bool
	fields map[string]bool // SR fields read through a free variable / parameter of type *SR
}

type depAn struct {
	memo  map[ssa.Value]*depInfo
	busy  map[ssa.Value]bool
	depth int
}

func newDepAn() *depAn { return &depAn{memo: map[ssa.Value]*depInfo{}, busy: map[ssa.Value]bool{}} }

func (d *depAn) deps(v ssa.Value) *depInfo {
	if r, ok := d.memo[v]; ok {
		return r
	}
	out := &depInfo{params: map[*ssa.Parameter]bool{}, fields: map[string]bool{}}
	if d.busy[v] {
		return out
	}
	d.busy[v] = true
	add := func(o *depInfo) {
		for k := range o.params {
			out.params[k] = true
		}
		for k := range o.fields {
			out.fields[k] = true
		}
	}
	switch x := v.(type) {
	case *ssa.Parameter:
		out.params[x] = true
	case *ssa.Const, *ssa.FreeVar, *ssa.Global, *ssa.Function, *ssa.Builtin:
	case *ssa.UnOp:
		if x.Op == token.MUL {
			// load: from a field address of an SR, or from an alloc (all stores)
			switch a := x.X.(type) {
			case *ssa.FieldAddr:
				if st, ok := a.X.Type().Underlying().(*types.Pointer); ok {
					if s, ok := st.Elem().Underlying().(*types.Struct); ok {
						out.fields[s.Field(a.Field).Name()] = true
					}
				}
				add(d.deps(a.X))
			case *ssa.Alloc:
				for _, r := range *a.Referrers() {
					if stv, ok := r.(*ssa.Store); ok && stv.Addr == a {
						add(d.deps(stv.Val))
					}
				}
			case *ssa.IndexAddr:
				add(d.deps(a.X))
				add(d.deps(a.Index))
				d.memDeps(x, add)
			default:
				add(d.deps(x.X))
			}
		} else {
			add(d.deps(x.X))
		}
	case *ssa.BinOp:
		add(d.deps(x.X))
		add(d.deps(x.Y))
	case *ssa.Phi:
		for _, e := range x.Edges {
			add(d.deps(e))
		}
	case *ssa.Convert:
		add(d.deps(x.X))
	case *ssa.ChangeType:
		add(d.deps(x.X))
	case *ssa.Extract:
		if call, ok := x.Tuple.(*ssa.Call); ok {
			if r := d.calleeResult(call, x.Index); r != nil {
				add(r)
				break
			}
		}
		add(d.deps(x.Tuple))
	case *ssa.Call:
		if r := d.calleeResult(x, 0); r != nil && x.Call.Signature().Results().Len() == 1 {
			add(r)
			break
		}
		for _, a := range x.Call.Args {
			add(d.deps(a))
		}
		if !x.Call.IsInvoke() {
			if _, isFn := x.Call.Value.(*ssa.Function); !isFn {
				add(d.deps(x.Call.Value))
			}
		}
	case *ssa.FieldAddr:
		add(d.deps(x.X))
	case *ssa.IndexAddr:
		add(d.deps(x.X))
	case *ssa.Index:
		add(d.deps(x.X))
	case *ssa.Field:
		add(d.deps(x.X))
	case *ssa.Slice:
		add(d.deps(x.X))
	case *ssa.MakeInterface:
		add(d.deps(x.X))
	case *ssa.Alloc:
		for _, r := range *x.Referrers() {
			if stv, ok := r.(*ssa.Store); ok && stv.Addr == x {
				add(d.deps(stv.Val))
			}
		}
	}
	d.busy[v] = false
	d.memo[v] = out
	return out
}

// calleeResult: what result idx of a static call to a repository helper depends on — the
// spatial-reference fields the helper reads on the way to that result, and the dependencies of
// the actual arguments standing for the parameters it uses.  nil when the callee has no body
// here (library functions: every argument counts, handled by the caller).
func (d *depAn) calleeResult(call *ssa.Call, idx int) *depInfo {
	callee := call.Call.StaticCallee()
	if callee == nil || len(callee.Blocks) == 0 || callee.Pkg == nil || !strings.HasPrefix(callee.Pkg.Pkg.Path(), modPath) || d.depth > 4 {
		return nil
	}
	out := &depInfo{params: map[*ssa.Parameter]bool{}, fields: map[string]bool{}}
	d.depth++
	defer func() { d.depth-- }()
	for _, b := range callee.Blocks {
		for _, in := range b.Instrs {
			r, ok := in.(*ssa.Return)
			if !ok || idx >= len(r.Results) {
				continue
			}
			inner := d.deps(r.Results[idx])
			for f := range inner.fields {
				out.fields[f] = true
			}
			for p := range inner.params {
				for i, cp := range callee.Params {
					if cp == p && i < len(call.Call.Args) {
						a := d.deps(call.Call.Args[i])
						for f := range a.fields {
							out.fields[f] = true
						}
						for q := range a.params {
							out.params[q] = true
						}
					}
				}
			}
		}
	}
	return out
}

// memDeps: a load through an element address also depends on every value stored, in the same
// function, through an address with the same root (index-insensitive).
func (d *depAn) memDeps(load *ssa.UnOp, add func(*depInfo)) {
	root := rootAddr(load.X)
	fn := load.Parent()
	if fn == nil {
		return
	}
	for _, b := range fn.Blocks {
		for _, in := range b.Instrs {
			if st, ok := in.(*ssa.Store); ok && st.Addr != load.X || ok && st.Addr == load.X {
				if rootAddr(st.Addr) == root {
					if _, isIdx := st.Addr.(*ssa.IndexAddr); isIdx {
						add(d.deps(st.Val))
					}
				}
			}
		}
	}
}

// defNonNil: the error operand of a return is certainly non-nil.
func defNonNil(v ssa.Value, at *ssa.BasicBlock) bool {
	switch x := v.(type) {
	case *ssa.Const:
		return !x.IsNil()
	case *ssa.MakeInterface:
		return true
	case *ssa.Call:
		if g := x.Call.StaticCallee(); g != nil && g.Pkg != nil && (g.Pkg.Pkg.Path() == "fmt" || g.Pkg.Pkg.Path() == "errors") {
			return true
		}
	}
	// dominated by the non-nil side of a comparison of v with nil
	for _, b := range at.Parent().Blocks {
		if len(b.Instrs) == 0 {
			continue
		}
		ifi, ok := b.Instrs[len(b.Instrs)-1].(*ssa.If)
		if !ok {
			continue
		}
		cmp, ok := ifi.Cond.(*ssa.BinOp)
		if !ok || (cmp.Op != token.NEQ && cmp.Op != token.EQL) {
			continue
		}
		var other ssa.Value
		if cmp.X == v {
			other = cmp.Y
		} else if cmp.Y == v {
			other = cmp.X
		} else {
			continue
		}
		if k, ok := other.(*ssa.Const); !ok || !k.IsNil() {
			continue
		}
		side := 0
		if cmp.Op == token.EQL {
			side = 1
		}
		s := b.Succs[side]
		if len(s.Preds) == 1 && s.Dominates(at) {
			return true
		}
	}
	return false
}

func checkC08(c *Ctx) {
	c.Rule("C08.R1", "model evaluation: for each of the eight registered projections the forward member is interpreted on a symbolic position and the inverse member on a symbolic projected position; every coordinate they return mentions an input symbol (a member returning a constant, a parameter or the zero value of an unassigned result cannot be one half of a bijection)")
	c.Rule("C08.R2", "model evaluation with symbolic parameters and positions, the projection members and the datum shift left as named operations: for eleven pairs of references (units, prime meridians, axis orders, geographic and projected systems, a datum shift on one or both sides) the term NewTransform computes for (x, y) equals the stages mirrored around the shift — source unit multiplies, source inverse member, source prime meridian added, datum shift (through WGS84 in two legs where the code takes that route), destination prime meridian subtracted, destination forward member, destination unit divides, geographic systems convert degrees and radians, axis flips on their own side")
	c.Rule("C08.R3", "each of longlat, merc, lcc, aea, eqdc, tmerc, utm, krovak is registered, and its constructor, run on a reference parsed from symbolic parameters, returns a forward and an inverse member and no error")
	c.Rule("C08.R4", "model evaluation, same runs: in every inverse other than the identity the longitude mentions the central meridian (or the zone it is derived from) and the latitude does not")
	c.Rule("C08.R5", "model evaluation: the inverse member of every registered projection is interpreted on a symbolic projected position for standard parallels in the northern and in the southern hemisphere; where the longitude contains a polar angle atan2(a, b) scaled by a quantity that follows the standard parallels, the arguments for southern parallels are those for northern ones mirrored through the apex (a and b change sign together with the cone constant)")
	p := c.P.Pkg("proj")
	if p == nil {
		c.Unk("C08.R1", "proj", token.NoPos, "package not loaded")
		return
	}
	c08members(c)
	c08pipeModel(c, "C08.R2", "", "")
	c08coneModel(c, "C08.R5")
	premiseEqual(c, "C08.R8", "a transformation between references that Equal wrongly holds equal is the identity, and inverse(forward(p)) then goes wrong silently")
	c.Floor("C08.R8", 9)
	c.Floor("C08.R5", 3)
	c.Floor("C08.R1", 32)
	c.Floor("C08.R2", 4)
	c.Floor("C08.R3", 8)
	c.Rule("C08.R7", "model evaluation: for the projections whose inverse longitude is in closed form (longlat, merc, lcc, aea, eqdc; the conics for northern and southern standard parallels) the forward member is interpreted on a symbolic position (λ, φ) and the inverse member on the two terms it returns; with the polar angle resolved (atan2(a, b) = t + kπ when a·cos t − b·sin t vanishes identically) the longitude equals λ as a rational term — false origin, scale factor, cone constant and central meridian cancel exactly")
	c08lonRoundTrip(c, "C08.R7")
	c.Floor("C08.R7", 5)
	c.Rule("C08.R6", "angle-normalising helpers of package proj (found by behaviour among the float→float functions the projection constructors reach: identity near zero, not further out), interpreted with a symbolic argument placed inside the principal interval and up to one period outside it on either side: the result is the argument plus a whole number of periods (2π for longitudes, π for latitudes) and lies within half a period of zero")
	c08wrap(c)
	c.Floor("C08.R6", 1)
	c.Floor("C08.R4", 7)
}

func c08closure(c *Ctx, cl *ssa.Function, name, role string) {
	if len(cl.Params) != 2 || cl.Signature.Results().Len() != 3 {
		c.Unk("C08.R1", name, cl.Pos(), "closure does not have the Transformer signature")
		return
	}
	d := newDepAn()
	bad := ""
	var badPos token.Pos
	isIdentity := true
	lonHas, latHas := false, false
	rets := 0
	for _, b := range cl.Blocks {
		for _, in := range b.Instrs {
			r, ok := in.(*ssa.Return)
			if !ok || len(r.Results) != 3 {
				continue
			}
			if defNonNil(r.Results[2], b) {
				continue
			}
			rets++
			for i := 0; i < 2; i++ {
				di := d.deps(r.Results[i])
				if len(di.params) == 0 && bad == "" {
					which := []string{"first", "second"}[i]
					bad = fmt.Sprintf("on a return that can report success the %s coordinate result does not depend on either input coordinate (it is a constant or the zero value of an unassigned result): every input maps to the same output, which cannot be the %s of an injective map", which, map[string]string{"forward": "projection", "inverse": "inverse"}[role])
					badPos = r.Pos()
				}
				if _, isParam := r.Results[i].(*ssa.Parameter); !isParam {
					isIdentity = false
				}
				if i == 0 && di.fields["Long0"] {
					lonHas = true
				}
				if i == 1 && di.fields["Long0"] {
					latHas = true
				}
			}
		}
	}
	switch {
	case rets == 0:
		c.Bad("C08.R1", name, cl.Pos(), "the closure has no return that can report success")
	case bad != "":
		c.Bad("C08.R1", name, badPos, "%s", bad)
	default:
		c.OK("C08.R1", name, cl.Pos(), "both results depend on the inputs on all %d success returns", rets)
	}
	if role == "inverse" && !isIdentity && rets > 0 && bad == "" {
		switch {
		case !lonHas:
			c.Bad("C08.R4", name, cl.Pos(), "the first result of the inverse (longitude) does not depend on the central meridian Long0: the pair is swapped or the longitude is computed from the wrong expression")
		case latHas:
			c.Bad("C08.R4", name, cl.Pos(), "the second result of the inverse (latitude) depends on the central meridian Long0: these projections are symmetric about the axis, latitude cannot depend on lon_0 (results swapped?)")
		default:
			c.OK("C08.R4", name, cl.Pos(), "longitude depends on Long0, latitude does not")
		}
	}
}

// ---------------------------------------------------------------- R2

type stage struct {
	what string // ToMeter FromGreenwich angle transformer axis datum
	side string // source | dest
	op   string
	pos  token.Pos
}
