package main

// Byte-level view of the WKB stream model.
//
// A codec may move whole typed values through encoding/binary.Read/Write (items), or fetch raw
// bytes (io.ReadFull, Reader.Read) and assemble them with ByteOrder.Uint32/Uint64 and
// math.Float64frombits — and the mirror image when writing.  Both describe the same wire
// format, so the model lets them meet: every multi-byte item of the stream can be taken apart
// into abstract bytes (oByte: "wire byte idx of item id"), and a run of abstract bytes handed
// to a Write is put together again.  ByteOrder.UintNN on the complete, in-order bytes of one
// item gives the item's value, and says so when the order differs from the one the item
// travels in; PutUintNN produces the bytes of a fresh item in the receiver's order.

import (
	"fmt"
	"go/types"
)

// oByte is wire byte idx of a multi-byte item.
type oByte struct {
	kind  string // U16 U32 U64 F64
	val   int64
	order string
	idx   int
	id    int
}

// oBits is the IEEE bit pattern of the float of rank r (math.Float64bits and back).
type oBits struct{ r int64 }

func itemWidth(kind string) int {
	switch kind {
	case "U8":
		return 1
	case "U16":
		return 2
	case "U32":
		return 4
	}
	return 8
}

func (w *wkbModel) bytesLeft() int {
	n := -w.sub
	for _, it := range w.stream[w.pos:] {
		n += itemWidth(it.kind)
	}
	if n < 0 {
		n = 0
	}
	return n
}

// readBytes takes up to n bytes off the stream.
func (w *wkbModel) readBytes(n int) []oval {
	var out []oval
	for len(out) < n && w.pos < len(w.stream) {
		it := w.stream[w.pos]
		if it.kind == "U8" {
			out = append(out, oInt(it.val))
			w.pos++
			continue
		}
		out = append(out, oByte{it.kind, it.val, it.order, w.sub, w.pos})
		w.sub++
		if w.sub == itemWidth(it.kind) {
			w.pos, w.sub = w.pos+1, 0
		}
	}
	return out
}

// writeBytes appends raw bytes to the stream, putting items together again.
func (w *wkbModel) writeBytes(bs []oval) bool {
	for _, b := range bs {
		switch x := b.(type) {
		case oInt:
			if len(w.pending) > 0 {
				w.problem("the bytes of %s are interrupted by the byte %d", w.pending[0].item(), int64(x))
				return false
			}
			w.stream = append(w.stream, wkbItem{"U8", int64(x), ""})
		case oByte:
			if x.idx != len(w.pending) || (x.idx > 0 && w.pending[0].id != x.id) {
				w.problem("byte %d of %s is written out of place", x.idx, x.item())
				return false
			}
			w.pending = append(w.pending, x)
			if len(w.pending) == itemWidth(x.kind) {
				w.stream = append(w.stream, x.item())
				w.pending = nil
			}
		default:
			w.problem("Write of the byte %s", showVal(b))
			return false
		}
	}
	return true
}

func (b oByte) item() wkbItem { return wkbItem{b.kind, b.val, b.order} }

// assemble is ByteOrder.UintNN: the value of the item whose bytes these are.
func (w *wkbModel) assemble(sl oSlice, width int, order string) oval {
	if sl.length() < width {
		return nil // the real call panics; let the caller say so
	}
	first, ok := sl.at(0).(oByte)
	if !ok {
		if _, isInt := sl.at(0).(oInt); isInt {
			w.problem("reads a %d-byte value where the stream holds single bytes (U8(%d) …)", width, int64(sl.at(0).(oInt)))
			return oTop{"bytes of different items read as one value"}
		}
		return oTop{"ByteOrder.Uint on " + showVal(sl.at(0))}
	}
	if itemWidth(first.kind) != width || first.idx != 0 {
		w.problem("reads a %d-byte value starting at byte %d of %s", width, first.idx, first.item())
		return oTop{"misaligned read"}
	}
	for i := 1; i < width; i++ {
		b, ok := sl.at(i).(oByte)
		if !ok || b.id != first.id || b.idx != i {
			w.problem("reads a %d-byte value across the end of %s", width, first.item())
			return oTop{"misaligned read"}
		}
	}
	if first.order != order {
		w.problem("reads %s in byte order %s, but it was written in %s", first.item(), order, first.order)
	}
	if first.kind == "F64" {
		return oBits{first.val}
	}
	return oInt(first.val)
}

// disassemble is ByteOrder.PutUintNN / AppendUintNN: the bytes of a fresh item.
func (w *wkbModel) disassemble(v oval, width int, order string) ([]oval, bool) {
	kind := map[int]string{2: "U16", 4: "U32", 8: "U64"}[width]
	var val int64
	switch x := v.(type) {
	case oInt:
		val = int64(x)
	case oBits:
		if width != 8 {
			return nil, false
		}
		kind, val = "F64", x.r
	default:
		return nil, false
	}
	w.nextID--
	out := make([]oval, width)
	for i := range out {
		out[i] = oByte{kind, val, order, i, w.nextID}
	}
	return out, true
}

// byteStub handles the byte-level calls; ok=false when the call is none of them.
func (w *wkbModel) byteStub(f *types.Func, recv oval, args []oval, eof, errV oval) ([]oval, bool) {
	full := f.FullName()
	isStream := func(v oval) bool {
		iv, ok := v.(oIface)
		return ok && iv.opaque != nil && iv.opaque.name == "stream"
	}
	readInto := func(sl oSlice, atLeast int) []oval {
		{
			got := w.readBytes(sl.length())
			for i, b := range got {
				sl.set(i, b)
			}
			switch {
			case len(got) >= atLeast:
				return []oval{oInt(len(got)), oNil{}}
			default:
				return []oval{oInt(len(got)), eof}
			}
		}
	}
	switch {
	case full == "io.ReadFull" && len(args) == 2 && isStream(args[0]):
		if sl, ok := args[1].(oSlice); ok {
			return readInto(sl, sl.length()), true
		}
	case full == "io.ReadAtLeast" && len(args) == 3 && isStream(args[0]):
		if sl, ok := args[1].(oSlice); ok {
			if n, ok := args[2].(oInt); ok {
				return readInto(sl, int(n)), true
			}
		}
	case f.Name() == "Read" && len(args) == 1 && isStream(recv):
		if sl, ok := args[0].(oSlice); ok {
			if sl.length() > 0 && w.bytesLeft() == 0 {
				return []oval{oInt(0), eof}, true
			}
			return readInto(sl, 0), true
		}
	case f.Name() == "ReadByte" && len(args) == 0 && isStream(recv):
		got := w.readBytes(1)
		if len(got) == 0 {
			return []oval{oInt(0), eof}, true
		}
		return []oval{got[0], oNil{}}, true
	case f.Name() == "Write" && len(args) == 1 && isStream(recv):
		if sl, ok := args[0].(oSlice); ok {
			bs := make([]oval, sl.length())
			for i := range bs {
				bs[i] = sl.at(i)
			}
			if !w.writeBytes(bs) {
				return []oval{oInt(0), errV}, true
			}
			return []oval{oInt(len(bs)), oNil{}}, true
		}
	case f.Name() == "WriteByte" && len(args) == 1 && isStream(recv):
		if !w.writeBytes(args[:1]) {
			return []oval{errV}, true
		}
		return []oval{oNil{}}, true
	case full == "math.Float64bits" && len(args) == 1:
		if x, ok := args[0].(oFloat); ok {
			return []oval{oBits{x.r}}, true
		}
		return []oval{oTop{"bits of " + showVal(args[0])}}, true
	case full == "math.Float64frombits" && len(args) == 1:
		if x, ok := args[0].(oBits); ok {
			return []oval{oFloat{x.r}}, true
		}
		return []oval{oTop{"float of the bits " + showVal(args[0])}}, true
	case f.Pkg() != nil && f.Pkg().Path() == "encoding/binary" && recv != nil && orderName(recv) != "?":
		order := orderName(recv)
		width := map[string]int{"Uint16": 2, "Uint32": 4, "Uint64": 8, "PutUint16": 2, "PutUint32": 4, "PutUint64": 8, "AppendUint16": 2, "AppendUint32": 4, "AppendUint64": 8}[f.Name()]
		switch {
		case width == 0:
		case f.Name()[0] == 'U' && len(args) == 1:
			if sl, ok := args[0].(oSlice); ok {
				if v := w.assemble(sl, width, order); v != nil {
					return []oval{v}, true
				}
				return []oval{oTop{fmt.Sprintf("%s of %d bytes", f.Name(), sl.length())}}, true
			}
		case f.Name()[0] == 'P' && len(args) == 2:
			if sl, ok := args[0].(oSlice); ok && sl.length() >= width {
				if bs, ok := w.disassemble(args[1], width, order); ok {
					for i, b := range bs {
						sl.set(i, b)
					}
					return []oval{}, true
				}
			}
		case f.Name()[0] == 'A' && len(args) == 2:
			if sl, ok := args[0].(oSlice); ok {
				if bs, ok := w.disassemble(args[1], width, order); ok {
					return []oval{appendVals(sl, bs)}, true
				}
			}
		}
	}
	return nil, false
}

// reset starts a run on the given stream.
func (w *wkbModel) reset(stream []wkbItem) {
	w.stream, w.pos, w.sub, w.pending, w.problems = stream, 0, 0, nil, nil
}

// written is the stream a writer produced; bytes of an item left incomplete show as such.
func (w *wkbModel) written() []wkbItem {
	if len(w.pending) == 0 {
		return w.stream
	}
	it := w.pending[0].item()
	it.kind = fmt.Sprintf("%d-of-%d-bytes-of-%s", len(w.pending), itemWidth(it.kind), it.kind)
	return append(append([]wkbItem{}, w.stream...), it)
}
