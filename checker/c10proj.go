package main

// C10 (projection side): a Transformer is a function of its arguments only.
//
// R1a no rebinding of a captured variable inside a Transformer closure.
// R1b no argument-dependent value stored into a persistent location.
// R1c every other store to a spatial reference on the per-call path is
//     idempotent: lazy initialisation, normalising overwrite, or save/restore.
// R2  a constant index into the coordinate slice needs a length guard.

import (
	"fmt"
	"go/ast"
	"go/token"
	"go/types"
	"sort"
	"strings"

	"golang.org/x/tools/go/ssa"
)

func c10proj(c *Ctx) {
	c.Rule("C10.R1", "no per-call state survives in a Transformer: (a) a closure that becomes a Transformer never assigns to a captured variable; (b) never stores a value that depends on its arguments into a captured or package-level location; model evaluation with symbolic parameters: for eleven pairs of references the same position gives the same term after the transformer was used for another position and neither reference changes; for every registered projection the members rebuilt and reused give the same terms and leave the reference as the first construction left it; a datum shift leaves both datums as they were")
	c.Rule("C10.R2", "an index expression s[k] with constant k on the coordinate slice is dominated by a guard implying len(s) > k, or k is below the length of the literal every caller passes")
	p := c.P.Pkg("proj")
	if p == nil {
		c.Unk("C10.R1", "proj", token.NoPos, "package not loaded")
		return
	}
	info := p.TypesInfo
	nt := c.P.Method("proj", "SR", "NewTransform")
	if c.P.Decl(nt) == nil {
		c.Unk("C10.R1", "proj.(*SR).NewTransform", token.NoPos, "API anchor does not resolve")
		return
	}
	reg := projRegistry(c)
	type clo struct {
		fn   *ssa.Function
		name string
	}
	var clos []clo
	for i, f := range closuresOf(c, c.P.SSAFunc(nt), 0, 0) {
		clos = append(clos, clo{f, fmt.Sprintf("proj.(*SR).NewTransform$%d", i+1)})
	}
	seen := map[*ssa.Function]bool{}
	for _, ctor := range reg.ctors {
		for idx, role := range []string{"forward", "inverse"} {
			for _, f := range closuresOf(c, c.P.SSAFunc(ctor), idx, 0) {
				if !seen[f] {
					seen[f] = true
					clos = append(clos, clo{f, c.P.FuncName(ctor) + "#" + role})
				}
			}
		}
	}
	for _, cl := range clos {
		var rebind, leak *ssa.Store
		d := newDepAn()
		for _, b := range cl.fn.Blocks {
			for _, in := range b.Instrs {
				st, ok := in.(*ssa.Store)
				if !ok {
					continue
				}
				if _, isFV := st.Addr.(*ssa.FreeVar); isFV && rebind == nil {
					rebind = st
					continue
				}
				root := rootAddr(st.Addr)
				persistent := false
				switch r := root.(type) {
				case *ssa.Global:
					persistent = true
				case *ssa.UnOp:
					// *freevar (captured pointer) → field
					if _, isFV := r.X.(*ssa.FreeVar); isFV && r.Op == token.MUL {
						persistent = true
					}
				case *ssa.FreeVar:
					persistent = true
				}
				if persistent && len(d.deps(st.Val).params) > 0 && leak == nil {
					leak = st
				}
			}
		}
		if rebind != nil {
			fv := rebind.Addr.(*ssa.FreeVar)
			c.Bad("C10.R1", cl.name+"#a-rebinding", rebind.Pos(), "the Transformer closure assigns to its captured variable `%s`: the first call changes what every later call (and every interleaved use of the same closure) sees, so the same input no longer gives the same output", fv.Name())
		} else {
			c.OK("C10.R1", cl.name+"#a-rebinding", cl.fn.Pos(), "no captured variable is assigned")
		}
		if leak != nil {
			c.Bad("C10.R1", cl.name+"#b-argument-leak", leak.Pos(), "a value computed from the call's arguments is stored into a captured or package-level location: the next call can observe this call's coordinates")
		} else {
			c.OK("C10.R1", cl.name+"#b-argument-leak", cl.fn.Pos(), "no argument-dependent store to captured or package-level state")
		}
	}
	c10indexGuard(c, p)
	_ = info
}

// ---------------------------------------------------------------- R1c

// ---------------------------------------------------------------- R2

func c10indexGuard(c *Ctx, p *pkgT) {
	info := p.TypesInfo
	// the axis adjustment: a package function given a coordinate slice together with the reference
	// (or its axis string) that answers an unknown axis letter with an error — found by behaviour
	var target *types.Func
	for _, fn := range c.P.RepoFuncs() {
		if c.P.DeclPkg(fn) != p {
			continue
		}
		if _, ok := c10axisArgs(c, fn, "enu", false, 2, 0); ok && c10isAxisAdjuster(c, fn) {
			if target == nil || c.P.FuncName(fn) < c.P.FuncName(target) {
				target = fn
			}
		}
	}
	if target == nil {
		c.Unk("C10.R2", "proj#axis-adjustment", token.NoPos, "the axis adjustment function was not found")
		return
	}
	if c10axisModel(c, target) {
		return
	}
	fd := c.P.Decl(target)
	ps := paramVars(info, fd.Type)
	if len(ps) != 3 {
		c.Unk("C10.R2", c.P.FuncName(target)+"#index-model", fd.Pos(), "the axis adjustment is not interpretable and does not have the (reference, flag, slice) form the syntactic rule reads")
		return
	}
	pt := ps[2]
	// minimum literal length over callers
	minLen := int64(1 << 30)
	unknownLen := false
	for _, fn := range c.P.RepoFuncs() {
		if c.P.DeclPkg(fn) != p {
			continue
		}
		gfd := c.P.Decl(fn)
		sc := newFnScope(info, gfd.Body)
		ast.Inspect(gfd.Body, func(n ast.Node) bool {
			call, ok := n.(*ast.CallExpr)
			if !ok || callee(info, call) != target {
				return true
			}
			o := objOf(info, call.Args[2])
			l := int64(-1)
			if o != nil {
				for _, d := range sc.defs[o] {
					if d == nil {
						continue
					}
					n := int64(-1)
					switch x := unparen(d).(type) {
					case *ast.CompositeLit:
						n = int64(len(x.Elts))
					case *ast.CallExpr:
						if builtinName(info, x) == "make" && len(x.Args) >= 2 {
							if k, ok := constInt(info, x.Args[1]); ok {
								n = k
							}
						} else if callee(info, x) == target {
							continue // the function's own result: same slice
						}
					case *ast.SliceExpr:
						if x.High != nil {
							if k, ok := constInt(info, x.High); ok {
								lo := int64(0)
								if x.Low != nil {
									lo, _ = constInt(info, x.Low)
								}
								n = k - lo
							}
						}
					}
					if n < 0 {
						unknownLen = true
					} else if l < 0 || n < l {
						l = n
					}
				}
			} else {
				unknownLen = true
			}
			if l >= 0 && l < minLen {
				minLen = l
			}
			return true
		})
	}
	if minLen == 1<<30 {
		minLen = 0
	}
	if unknownLen {
		minLen = 0
		c.Note("C10.R2: a caller passes a coordinate slice whose length is not a literal, make(…, const) or x[a:b] with constants; every constant index then needs an explicit guard")
	}
	type acc struct {
		ix *ast.IndexExpr
		k  int64
		ok bool
	}
	accs := map[*ast.IndexExpr]*acc{}
	scan := func(n ast.Node, s Facts) {
		ast.Inspect(n, func(m ast.Node) bool {
			if _, isLit := m.(*ast.FuncLit); isLit {
				return false
			}
			ix, ok := m.(*ast.IndexExpr)
			if !ok || objOf(info, ix.X) != pt {
				return true
			}
			k, isConst := constInt(info, ix.Index)
			if !isConst {
				return true
			}
			a := accs[ix]
			if a == nil {
				a = &acc{ix: ix, k: k, ok: true}
				accs[ix] = a
			}
			guarded := k < minLen
			for f := range s {
				var g int64
				if _, err := fmt.Sscanf(f, "len>=%d", &g); err == nil && g > k {
					guarded = true
				}
			}
			if !guarded {
				a.ok = false
			}
			return true
		})
	}
	cl := &FactsClient{}
	cl.OnStmt = func(n ast.Node, s Facts) Facts {
		if rs, ok := n.(*ast.RangeStmt); ok {
			scan(rs.X, s)
			return s
		}
		scan(n, s)
		if as, ok := n.(*ast.AssignStmt); ok {
			for _, l := range as.Lhs {
				if objOf(info, l) == pt {
					for f := range s {
						delete(s, f)
					}
				}
			}
		}
		return s
	}
	cl.OnBranch = func(cond ast.Expr, truth bool, s Facts) Facts {
		scan(cond, s)
		for _, at := range conjuncts(cond, truth) {
			b, ok := unparen(at.E).(*ast.BinaryExpr)
			if !ok {
				continue
			}
			la := lenArg(info, b.X)
			k, kok := constInt(info, b.Y)
			if la == nil || !kok || objOf(info, la) != pt {
				continue
			}
			op := b.Op
			if !at.Truth {
				switch op {
				case token.LSS:
					op = token.GEQ
				case token.LEQ:
					op = token.GTR
				case token.GTR:
					op = token.LEQ
				case token.GEQ:
					op = token.LSS
				case token.EQL:
					op = token.NEQ
				case token.NEQ:
					op = token.EQL
				}
			}
			switch op {
			case token.GEQ:
				s[fmt.Sprintf("len>=%d", k)] = true
			case token.GTR:
				s[fmt.Sprintf("len>=%d", k+1)] = true
			case token.EQL:
				s[fmt.Sprintf("len>=%d", k)] = true
			}
		}
		return s
	}
	cl.OnReturn = func(r *ast.ReturnStmt, s Facts) {
		if r != nil {
			for _, e := range r.Results {
				scan(e, s)
			}
		}
	}
	fl := &Flow[Facts]{C: cl, Info: info}
	fl.Run(fd.Body, Facts{})
	if len(fl.Unsupported) > 0 {
		c.Unk("C10.R2", c.P.FuncName(target), fl.Unsupported[0].Pos(), "unsupported control flow")
		return
	}
	var list []*acc
	for _, a := range accs {
		list = append(list, a)
	}
	sort.Slice(list, func(i, j int) bool { return list[i].ix.Pos() < list[j].ix.Pos() })
	perK := map[int64]int{}
	for _, a := range list {
		perK[a.k]++
		cons := fmt.Sprintf("%s#%s[%d]", c.P.FuncName(target), pt.Name(), a.k)
		if perK[a.k] > 1 {
			cons = fmt.Sprintf("%s#%d", cons, perK[a.k])
		}
		if a.ok {
			c.OK("C10.R2", cons, a.ix.Pos(), "index %d is below the callers' literal length (%d) or behind a length guard", a.k, minLen)
		} else {
			c.Bad("C10.R2", cons, a.ix.Pos(), "`%s` is reached on a path with no guard implying len(%s) > %d, and callers pass a %d-element slice: a spatial reference with a non-default axis order makes every transformer call panic", src(a.ix), pt.Name(), a.k, minLen)
		}
	}
	if len(list) == 0 {
		c.Unk("C10.R2", c.P.FuncName(target), fd.Pos(), "no constant index into the coordinate slice found")
	}
}

// c10axisModel interprets the axis adjustment for every 3-letter axis string over
// {e,w,n,s,u,d} plus an invalid letter, denorm true/false and coordinate slices of length 2 and
// 3 (what the transformer passes): it must never index outside the slice, and an unknown letter
// must give an error.  Returns false when the function is outside the interpreter's fragment
// (the syntactic rule then decides).
func c10axisModel(c *Ctx, target *types.Func) bool {
	srT := c.P.NamedType("proj", "SR")
	if srT == nil {
		return false
	}
	it := &oInterp{p: c.P, maxDepth: 6}
	errV := oIface{opaque: &oOpaque{name: "error", isError: true}}
	it.stub = func(f *types.Func, recv oval, args []oval) ([]oval, bool) {
		if f.FullName() == "fmt.Errorf" || f.FullName() == "errors.New" {
			return []oval{errV}, true
		}
		if f.Pkg() != nil && f.Pkg().Path() == "fmt" {
			return []oval{oTop{"fmt"}}, true
		}
		return nil, false
	}
	letters := []byte("ewnsudx")
	runs := 0
	name := c.P.FuncName(target) + "#index-model"
	pos := c.P.Decl(target).Pos()
	for _, a := range letters {
		for _, b := range letters {
			for _, d := range letters {
				axis := string([]byte{a, b, d})
				for _, n := range []int{2, 3} {
					for _, denorm := range []bool{false, true} {
						args, _ := c10axisArgs(c, target, axis, denorm, n, c10axisStringOrder[target])
						runs++
						res, why := it.Call(target, nil, args, 0)
						if why != "" {
							if strings.HasPrefix(why, "panic:") {
								c.Bad("C10.R2", name, pos, "axis %q, denorm=%v, a %d-element coordinate slice (the transformer passes two ordinates): %s", axis, denorm, n, why)
								c.Evals(runs)
								return true
							}
							return false // outside the fragment: let the syntactic rule decide
						}
						// the third letter is only looked at when there is a third ordinate
						invalid := axis[0] == 'x' || axis[1] == 'x' || (axis[2] == 'x' && n == 3)
						if axis[2] == 'x' && n == 2 {
							continue
						}
						if eq, ok := oEqual(res[len(res)-1], oNil{}); ok && eq == invalid {
							if invalid {
								c.Bad("C10.R2", name, pos, "axis %q contains an unknown letter but no error is returned", axis)
							} else {
								c.Bad("C10.R2", name, pos, "axis %q is valid but an error is returned", axis)
							}
							c.Evals(runs)
							return true
						}
					}
				}
			}
		}
	}
	c.Evals(runs)
	c.OK("C10.R2", name, pos, "%d model runs (all 3-letter axis strings over e,w,n,s,u,d and an invalid letter × denorm × slices of 2 and 3 ordinates): no index leaves the slice; unknown letters give an error", runs)
	return true
}

// c10axisStringOrder: for an adjuster that takes strings, which of them is the axis (0: the first).
var c10axisStringOrder = map[*types.Func]int{}

// c10axisArgs: arguments for a candidate axis adjuster, by parameter type: a *SR with the axis and
// a name set, a bool (the direction flag), strings (the axis and a name, in the given order) and
// the coordinate slice.  ok=false when the signature has anything else, no slice, or no way to
// receive the axis, or does not end in an error result.
func c10axisArgs(c *Ctx, fn *types.Func, axis string, denorm bool, n int, axisString int) ([]oval, bool) {
	sig := fn.Type().(*types.Signature)
	if sig.Recv() != nil || c.P.Decl(fn) == nil || sig.Results().Len() == 0 || sig.Params().Len() > 4 {
		return nil, false
	}
	if !types.Identical(sig.Results().At(sig.Results().Len()-1).Type(), types.Universe.Lookup("error").Type()) {
		return nil, false
	}
	srT := c.P.NamedType("proj", "SR")
	it := &oInterp{p: c.P}
	strT := types.Typ[types.String]
	var args []oval
	slices, axes, strs := 0, 0, 0
	for i := 0; i < sig.Params().Len(); i++ {
		t := sig.Params().At(i).Type()
		switch u := t.Underlying().(type) {
		case *types.Slice:
			if b, ok := u.Elem().Underlying().(*types.Basic); !ok || b.Kind() != types.Float64 {
				return nil, false
			}
			vals := make([]oval, n)
			for k := range vals {
				vals[k] = oFloat{int64(10 + 2*k)}
			}
			args = append(args, oSlice{typ: t, arr: &vals, lo: 0, hi: n, capEnd: n})
			slices++
		case *types.Pointer:
			if srT == nil || !types.Identical(u.Elem(), srT) {
				return nil, false
			}
			st := it.zero(srT).(*oStruct)
			st.fields["Axis"] = strVal(strT, axis)
			st.fields["Name"] = strVal(strT, "model")
			args = append(args, oPtr{st})
			axes++
		case *types.Basic:
			switch {
			case u.Kind() == types.Bool:
				args = append(args, oBool(denorm))
			case u.Kind() == types.String:
				if strs == axisString {
					args = append(args, strVal(t, axis))
					axes++
				} else {
					args = append(args, strVal(t, "model"))
				}
				strs++
			default:
				return nil, false
			}
		default:
			return nil, false
		}
	}
	return args, slices == 1 && axes >= 1
}

// c10isAxisAdjuster: the candidate accepts "enu" and answers an unknown letter with an error.
func c10isAxisAdjuster(c *Ctx, fn *types.Func) bool {
	it := &oInterp{p: c.P, maxDepth: 6}
	errV := oIface{opaque: &oOpaque{name: "error", isError: true}}
	it.stub = func(f *types.Func, recv oval, args []oval) ([]oval, bool) {
		if f.FullName() == "fmt.Errorf" || f.FullName() == "errors.New" {
			return []oval{errV}, true
		}
		if f.Pkg() != nil && f.Pkg().Path() == "fmt" {
			return []oval{oTop{"fmt"}}, true
		}
		return nil, false
	}
	for order := 0; order < 2; order++ {
		good, ok1 := c10axisArgs(c, fn, "enu", false, 2, order)
		bad, ok2 := c10axisArgs(c, fn, "xnu", false, 2, order)
		if !ok1 || !ok2 {
			continue
		}
		r1, why1 := it.Call(fn, nil, good, 0)
		r2, why2 := it.Call(fn, nil, bad, 0)
		if why1 != "" || why2 != "" || len(r1) == 0 || len(r2) == 0 {
			continue
		}
		e1, okA := oEqual(r1[len(r1)-1], oNil{})
		e2, okB := oEqual(r2[len(r2)-1], oNil{})
		if okA && okB && e1 && !e2 {
			c10axisStringOrder[fn] = order
			return true
		}
	}
	return false
}
