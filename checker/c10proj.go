package main

func c10proj(c *Ctx) {}
