package main

// Model evaluation of the R-tree (C11.R1–R6).
//
// NewTree, Insert, Delete and SearchIntersect are interpreted on histories of small boxes whose
// coordinates are abstract ranks.  Envelopes are computed by the repository's own min/max code
// on the ranks, so they are exact.  The quantities the insertion heuristics compare — areas,
// enlargements, wasted space — are arithmetic on the ranks and stay symbolic; the comparisons
// between them are not decided by the abstract domain.  They are resolved either by the
// reference valuation (ranks read as integer coordinates: the geometry the history describes)
// or by a seeded stream of arbitrary answers: the structural guarantees of the property do not
// depend on which subtree the heuristics pick or how a split distributes the entries, so they
// must hold for every stream.
//
// After every operation the whole tree is inspected from the root: parent links, exact
// envelopes, equal leaf depth = Depth(), fan-out ≤ MaxChildren, Size() = number of stored
// objects; SearchIntersect is compared with a scan over the stored boxes for a grid of query
// boxes (disjoint, touching, overlapping, degenerate); Delete of an absent object must return
// false and leave the tree as it was.

import (
	"fmt"
	"go/token"
	"go/types"
	"os"
	"sort"
	"strings"
)

type c11box struct{ minx, miny, maxx, maxy int64 }

func (b c11box) intersects(o c11box) bool {
	return b.minx <= o.maxx && o.minx <= b.maxx && b.miny <= o.maxy && o.miny <= b.maxy
}

type c11op struct {
	del bool
	obj int // index into the object table
}

type c11m struct {
	c       *Ctx
	it      *oInterp
	cm      *clipModel
	p       *pkgT
	useVal  bool
	objs    []*oStruct // the *Bounds objects
	boxes   []c11box
	stored  map[int]int // object → multiplicity
	nodeT   types.Type
	entryT  types.Type
	maxCh   int
	minCh   int
	problem string
}

// c11model files its findings under the C11 rules, or — when only is given — files the named
// facets under the rule ids of another property (shared premises).
func c11model(c *Ctx, only map[string]string) {
	p := c.P.Pkg("index/rtree")
	newTree := c.P.Func("index/rtree", "NewTree")
	ins := c.P.Method("index/rtree", "Rtree", "Insert")
	del := c.P.Method("index/rtree", "Rtree", "Delete")
	search := c.P.Method("index/rtree", "Rtree", "SearchIntersect")
	size := c.P.Method("index/rtree", "Rtree", "Size")
	depth := c.P.Method("index/rtree", "Rtree", "Depth")
	for _, f := range []*types.Func{newTree, ins, del, search, size, depth} {
		if f == nil || c.P.Decl(f) == nil {
			c.Unk("C11.R1", "index/rtree#model", token.NoPos, "NewTree, Insert, Delete, SearchIntersect, Size or Depth do not resolve")
			return
		}
	}
	pos := c.P.Decl(ins).Pos()
	cm := newClipModel(c)
	m := &c11m{c: c, it: cm.it, cm: cm, p: p}
	m.it.symbolic = true
	m.it.valuation = map[string]float64{"__ranks": 1}
	m.it.maxDepth = 40
	m.it.maxLoop = 512
	geomI := c.P.NamedType("geom", "Geom")
	// a spread of boxes: disjoint, nested, overlapping, touching, coincident, degenerate
	m.boxes = []c11box{
		{10, 12, 30, 34}, {50, 52, 70, 74}, {14, 16, 26, 28}, {30, 34, 50, 52}, {90, 92, 110, 114},
		{10, 12, 30, 34}, {60, 20, 80, 40}, {20, 60, 40, 80}, {100, 10, 100, 10}, {64, 64, 66, 96},
		{0, 100, 120, 102}, {44, 44, 46, 46},
	}
	// … and a grid of further boxes, enough for trees of height three
	for i := 0; i < 24; i++ {
		x, y := int64(200+(i%6)*37+(i/6)*5), int64(200+(i/6)*41+(i%6)*3)
		m.boxes = append(m.boxes, c11box{x, y, x + 20 + int64(i%3)*9, y + 18 + int64(i%4)*7})
	}
	// … and points in a column and a row: their envelopes have no area, so a deletion at the end of
	// the column shrinks a box whose area does not change
	degenerate := len(m.boxes)
	for _, q := range [][2]int64{{600, 600}, {600, 610}, {600, 620}, {600, 900}, {930, 901}, {940, 901}, {600, 630}, {600, 640}, {950, 901}, {600, 650}} {
		m.boxes = append(m.boxes, c11box{q[0], q[1], q[0], q[1]})
	}
	for _, b := range m.boxes {
		m.objs = append(m.objs, m.it.bounds(cm.bt, cm.ptT, b.minx, b.miny, b.maxx, b.maxy))
	}
	type verdictT struct{ bad, unk string }
	verdicts := map[string]*verdictT{}
	keys := []string{"parent-links", "envelopes", "balance", "fan-out", "size", "search", "delete", "no-panic"}
	for _, k := range keys {
		verdicts[k] = &verdictT{}
	}
	bad := func(k, format string, a ...interface{}) {
		if verdicts[k].bad == "" {
			verdicts[k].bad = fmt.Sprintf(format, a...)
		}
	}
	histories := [][]c11op{}
	// insert all, delete all in another order, refill
	var h []c11op
	for i := 0; i < degenerate; i++ {
		h = append(h, c11op{false, i})
	}
	for _, i := range []int{3, 0, 7, 11, 5, 1, 9, 2, 10, 4, 8, 6} {
		h = append(h, c11op{true, i})
	}
	for _, i := range []int{4, 2, 0, 6} {
		h = append(h, c11op{false, i})
	}
	histories = append(histories, h)
	// interleaved with deletes of absent objects and a duplicate insert
	histories = append(histories, []c11op{{false, 0}, {false, 1}, {true, 2}, {false, 2}, {false, 3}, {false, 0}, {true, 0}, {false, 4}, {false, 5}, {true, 9}, {false, 6}, {true, 1}, {false, 7}, {false, 8}, {true, 0}, {true, 0}, {false, 9}, {false, 10}, {true, 3}, {true, 4}, {false, 11}})
	// a long history: fill to height three, drain in a scattered order (underflows at every level,
	// reinsertion of inner entries), refill
	{
		var h []c11op
		for i := 0; i < 36; i++ {
			h = append(h, c11op{false, i})
		}
		for i := 0; i < 36; i++ {
			h = append(h, c11op{true, (i*7 + 3) % 36})
		}
		for i := 0; i < 10; i++ {
			h = append(h, c11op{false, (i * 5) % 36})
		}
		histories = append(histories, h)
	}
	// points in a column and a row: delete the far end of the column (no underflow), then more
	{
		d := degenerate
		histories = append(histories, []c11op{{false, d + 4}, {false, d + 5}, {false, d}, {false, d + 1}, {false, d + 2}, {false, d + 3}, {true, d + 3},
			{false, d + 6}, {false, d + 7}, {false, d + 8}, {false, d + 9}, {false, d + 3}, {true, d + 3}, {true, d}, {true, d + 8}, {false, d}, {true, d + 9}, {true, d + 4}})
	}
	params := [][2]int{{2, 4}, {2, 5}}
	if c.Thorough {
		params = append(params, [2]int{3, 6}, [2]int{2, 8})
	}
	streams := 6
	coarse := 4 // further streams that answer with three values only: ties, so that the tie-breaks of the heuristics run
	if c.Thorough {
		streams = 24
	}
	runs := 0
	for _, pr := range params {
		for hi, hist := range histories {
			for sidx := 0; sidx <= streams+coarse; sidx++ {
				if done := verdicts["no-panic"].unk != ""; done {
					break
				}
				m.useVal = sidx == 0
				m.it.cmpOracle = nil
				if !m.useVal {
					salt := uint64(sidx)*0x9E3779B97F4A7C15 + 12345
					value := func(p poly) float64 {
						if c, ok := symConst(p); ok {
							f, _ := c.Float64()
							return f
						}
						if v, ok := symVal(p).(oFloat); ok {
							return float64(v.r)
						}
						// any other term: an arbitrary but fixed position in the order
						h := salt
						for _, ch := range []byte(p.canon()) {
							h = (h ^ uint64(ch)) * 1099511628211
						}
						if sidx > streams {
							return float64(int(h%3) - 1) // −1, 0 or 1: many ties, also with zero
						}
						return float64(h%1000003) + 0.5
					}
					m.it.cmpOracle = func(op token.Token, a, b poly) (bool, bool) {
						x, y := value(a), value(b)
						switch op {
						case token.LSS:
							return x < y, true
						case token.LEQ:
							return x <= y, true
						case token.GTR:
							return x > y, true
						case token.GEQ:
							return x >= y, true
						case token.EQL:
							return x == y, true
						case token.NEQ:
							return x != y, true
						}
						return false, false
					}
				}
				runs++
				where := fmt.Sprintf("branching (%d,%d), history %d, %s", pr[0], pr[1], hi, map[bool]string{true: "heuristic comparisons by the boxes' geometry", false: fmt.Sprintf("heuristic comparisons answered by stream %d", sidx)}[m.useVal])
				m.minCh, m.maxCh = pr[0], pr[1]
				c.Evals(1)
				res, why := m.it.Call(newTree, nil, []oval{oInt(pr[0]), oInt(pr[1])}, 0)
				if why != "" {
					verdicts["no-panic"].unk = "NewTree is not interpretable: " + why
					break
				}
				tree, ok := res[0].(oPtr)
				if !ok || tree.s == nil {
					verdicts["no-panic"].unk = "NewTree returns " + showVal(res[0])
					break
				}
				m.stored = map[int]int{}
				for step, op := range hist {
					obj := oIface{dyn: oPtr{m.objs[op.obj]}, styp: geomI}
					at := fmt.Sprintf("%s, step %d (%s box %d)", where, step, map[bool]string{true: "Delete", false: "Insert"}[op.del], op.obj)
					c.Evals(1)
					if !op.del {
						_, why := m.it.Call(ins, tree, []oval{obj}, 0)
						if why != "" {
							if strings.HasPrefix(why, "panic:") {
								bad("no-panic", "%s: Insert panics (%s)", at, why)
							} else if verdicts["no-panic"].unk == "" {
								verdicts["no-panic"].unk = at + ": Insert is not interpretable: " + why
							}
							break
						}
						m.stored[op.obj]++
					} else {
						if os.Getenv("C11DEBUG") != "" && sidx == 3 && hi == 2 && step >= 69 && pr[1] == 4 {
							fmt.Println("before step", step, "delete", op.obj, m.dump(tree.s))
						}
						var snapshot string
						present := m.stored[op.obj] > 0
						if !present {
							snapshot = m.dump(tree.s)
						}
						res, why := m.it.Call(del, tree, []oval{obj}, 0)
						if why != "" {
							if strings.HasPrefix(why, "panic:") {
								bad("no-panic", "%s: Delete panics (%s)", at, why)
							} else if verdicts["no-panic"].unk == "" {
								verdicts["no-panic"].unk = at + ": Delete is not interpretable: " + why
							}
							break
						}
						ok, _ := res[0].(oBool)
						switch {
						case present && !bool(ok):
							bad("delete", "%s: Delete of a stored object returns false", at)
						case !present && bool(ok):
							bad("delete", "%s: Delete of an absent object returns true", at)
						case !present && m.dump(tree.s) != snapshot:
							bad("delete", "%s: Delete of an absent object changes the tree", at)
						}
						if present && bool(ok) {
							m.stored[op.obj]--
						}
					}
					// inspect
					m.inspect(tree.s, at, bad)
					// Size / Depth
					total := 0
					for _, n := range m.stored {
						total += n
					}
					if r, why := m.it.Call(size, tree, nil, 0); why == "" {
						if n, ok := r[0].(oInt); !ok || int(n) != total {
							bad("size", "%s: Size() is %s with %d objects stored", at, showVal(r[0]), total)
						}
					}
					if r, why := m.it.Call(depth, tree, nil, 0); why == "" {
						if d, ok := r[0].(oInt); ok {
							if ld := m.leafDepth(tree.s); ld > 0 && int(d) != ld {
								bad("balance", "%s: Depth() is %d but the leaves are at depth %d", at, int(d), ld)
							}
						}
					}
					// searches
					if step%3 == 2 || step == len(hist)-1 {
						for _, q := range []c11box{{0, 0, 200, 200}, {0, 0, 500, 500}, {230, 240, 300, 290}, {30, 34, 30, 34}, {31, 35, 49, 51}, {26, 28, 50, 52}, {70, 74, 90, 92}, {71, 75, 89, 91}, {100, 10, 100, 10}, {64, 10, 66, 120}, {300, 300, 310, 310}} {
							qb := oPtr{m.it.bounds(cm.bt, cm.ptT, q.minx, q.miny, q.maxx, q.maxy)}
							c.Evals(1)
							r, why := m.it.Call(search, tree, []oval{qb}, 0)
							if why != "" {
								if strings.HasPrefix(why, "panic:") {
									bad("no-panic", "%s: SearchIntersect panics (%s)", at, why)
								} else if verdicts["search"].unk == "" {
									verdicts["search"].unk = at + ": SearchIntersect is not interpretable: " + why
								}
								break
							}
							got := map[int]int{}
							okAll := true
							if sl, ok := r[0].(oSlice); ok {
								for i := 0; i < sl.length(); i++ {
									idx := -1
									if iv, ok := sl.at(i).(oIface); ok {
										if pp, ok := iv.dyn.(oPtr); ok {
											for k, o := range m.objs {
												if o == pp.s {
													idx = k
												}
											}
										}
									}
									if idx < 0 {
										okAll = false
									}
									got[idx]++
								}
							} else if _, isNil := r[0].(oNil); !isNil {
								okAll = false
							}
							want := map[int]int{}
							for k, n := range m.stored {
								if n > 0 && m.boxes[k].intersects(q) {
									want[k] = n
								}
							}
							if !okAll || fmt.Sprint(sortedCounts(got)) != fmt.Sprint(sortedCounts(want)) {
								bad("search", "%s: SearchIntersect(%v) returns objects %v, the stored boxes sharing a point with it are %v", at, q, sortedCounts(got), sortedCounts(want))
							}
						}
					}
				}
			}
		}
	}
	// the count does not depend on how large it already is: on a tree whose counter (the integer
	// field that follows Size() through two insertions) is preset to 2^40, six insertions and three
	// deletions are counted exactly
	if verdicts["size"].bad == "" && verdicts["no-panic"].unk == "" {
		m.useVal = true
		m.it.cmpOracle = nil
		m.minCh, m.maxCh = 2, 4
		mk := func() (oPtr, bool) {
			res, why := m.it.Call(newTree, nil, []oval{oInt(2), oInt(4)}, 0)
			if why != "" {
				return oPtr{}, false
			}
			t, ok := res[0].(oPtr)
			return t, ok && t.s != nil
		}
		sizeOf := func(t oPtr) (int64, bool) {
			r, why := m.it.Call(size, t, nil, 0)
			if why != "" {
				return 0, false
			}
			n, ok := r[0].(oInt)
			return int64(n), ok
		}
		obj := func(k int) oval { return oIface{dyn: oPtr{m.objs[k]}, styp: geomI} }
		probe, ok := mk()
		var counter []string
		if ok {
			track := map[string]bool{}
			for _, f := range probe.s.order {
				if _, isInt := probe.s.fields[f].(oInt); isInt {
					track[f] = true
				}
			}
			for step := 0; step <= 2 && ok; step++ {
				n, okn := sizeOf(probe)
				ok = okn
				for f := range track {
					if v, isInt := probe.s.fields[f].(oInt); !isInt || int64(v) != n {
						delete(track, f)
					}
				}
				if step < 2 {
					if _, why := m.it.Call(ins, probe, []oval{obj(step)}, 0); why != "" {
						ok = false
					}
				}
			}
			for f := range track {
				counter = append(counter, f)
			}
		}
		if ok && len(counter) == 1 {
			const big = int64(1) << 40
			t, ok := mk()
			if ok {
				t.s.fields[counter[0]] = oInt(big)
				want := big
				c.Evals(9)
				for k := 0; k < 6 && ok; k++ {
					if _, why := m.it.Call(ins, t, []oval{obj(k)}, 0); why != "" {
						ok = false
					}
					want++
				}
				for k := 0; k < 3 && ok; k++ {
					if r, why := m.it.Call(del, t, []oval{obj(2 * k)}, 0); why != "" {
						ok = false
					} else if b, isB := r[0].(oBool); isB && bool(b) {
						want--
					}
				}
				if n, okn := sizeOf(t); ok && okn && n != want {
					bad("size", "a tree whose object count starts at 2^40 reports %d + 2^40 after six insertions and three deletions, not %d + 2^40: the count stops following the insertions at some size", n-big, want-big)
				}
			}
		}
	}
	ruleOf := map[string]string{"parent-links": "C11.R2", "envelopes": "C11.R3", "balance": "C11.R1", "fan-out": "C11.R5", "size": "C11.R4", "delete": "C11.R4", "search": "C11.R6", "no-panic": "C11.R1"}
	if only != nil {
		ruleOf = only
	}
	anyUnk := verdicts["no-panic"].unk
	for _, k := range keys {
		if _, wanted := ruleOf[k]; !wanted {
			continue
		}
		v := verdicts[k]
		cons := "index/rtree#model(" + k + ")"
		switch {
		case v.bad != "":
			c.Bad(ruleOf[k], cons, pos, "%s", v.bad)
		case v.unk != "":
			c.Unk(ruleOf[k], cons, pos, "%s", v.unk)
		case anyUnk != "":
			c.Unk(ruleOf[k], cons, pos, "%s", anyUnk)
		default:
			c.OK(ruleOf[k], cons, pos, "holds after every operation of %d runs (%d histories × branching parameters × the geometric resolution, %d arbitrary resolutions of the heuristic comparisons and %d tie-prone ones)", runs, len(histories), streams, coarse)
		}
	}
}

func sortedCounts(m map[int]int) []string {
	var out []string
	for k, n := range m {
		out = append(out, fmt.Sprintf("%d×%d", k, n))
	}
	sort.Strings(out)
	return out
}

func c11entries(n *oStruct) []*oStruct {
	var out []*oStruct
	if sl, ok := n.fields["entries"].(oSlice); ok {
		for i := 0; i < sl.length(); i++ {
			if e, ok := sl.at(i).(*oStruct); ok {
				out = append(out, e)
			}
		}
	}
	return out
}

func c11boxOf(v oval) (c11box, bool) {
	p, ok := v.(oPtr)
	if !ok || p.s == nil {
		return c11box{}, false
	}
	b, ok := boxOf(p.s)
	if !ok {
		return c11box{}, false
	}
	return c11box{b.minx, b.miny, b.maxx, b.maxy}, true
}

func (m *c11m) rootOf(tree *oStruct) *oStruct {
	if p, ok := tree.fields["root"].(oPtr); ok {
		return p.s
	}
	return nil
}

// dump renders the tree (shape and boxes) for before/after comparison.
func (m *c11m) dump(tree *oStruct) string {
	var sb strings.Builder
	var rec func(n *oStruct, d int)
	rec = func(n *oStruct, d int) {
		if n == nil || d > 12 {
			return
		}
		fmt.Fprintf(&sb, "(%v", n.fields["leaf"])
		for _, e := range c11entries(n) {
			b, _ := c11boxOf(e.fields["bb"])
			fmt.Fprintf(&sb, " %v", b)
			if ch, ok := e.fields["child"].(oPtr); ok && ch.s != nil {
				rec(ch.s, d+1)
			} else {
				fmt.Fprintf(&sb, "@%s", showVal(e.fields["obj"]))
			}
		}
		sb.WriteString(")")
	}
	rec(m.rootOf(tree), 0)
	fmt.Fprintf(&sb, " size=%v height=%v", tree.fields["size"], tree.fields["height"])
	return sb.String()
}

func (m *c11m) leafDepth(tree *oStruct) int {
	d, n := 1, m.rootOf(tree)
	for n != nil && d < 16 {
		if lf, _ := n.fields["leaf"].(oBool); bool(lf) {
			return d
		}
		es := c11entries(n)
		if len(es) == 0 {
			return d
		}
		ch, _ := es[0].fields["child"].(oPtr)
		n = ch.s
		d++
	}
	return -1
}

// inspect walks the tree from the root and checks the structural guarantees.
func (m *c11m) inspect(tree *oStruct, at string, bad func(k, format string, a ...interface{})) {
	root := m.rootOf(tree)
	if root == nil {
		bad("balance", "%s: the tree has no root", at)
		return
	}
	leafDepths := map[int]bool{}
	count := map[int]int{}
	var rec func(n *oStruct, d int) (c11box, bool)
	rec = func(n *oStruct, d int) (c11box, bool) {
		var env c11box
		have := false
		if d > 14 {
			bad("balance", "%s: the tree is deeper than 14 levels (a cycle?)", at)
			return env, false
		}
		es := c11entries(n)
		if len(es) > m.maxCh {
			bad("fan-out", "%s: a node at depth %d holds %d entries, MaxChildren is %d", at, d, len(es), m.maxCh)
		}
		leaf, _ := n.fields["leaf"].(oBool)
		if bool(leaf) {
			leafDepths[d] = true
		}
		for _, e := range es {
			eb, ok := c11boxOf(e.fields["bb"])
			if !ok {
				bad("envelopes", "%s: an entry at depth %d has no box", at, d)
				continue
			}
			ch, _ := e.fields["child"].(oPtr)
			if bool(leaf) {
				if ch.s != nil {
					bad("balance", "%s: a leaf entry has a child node", at)
				}
				idx := -1
				if iv, ok := e.fields["obj"].(oIface); ok {
					if pp, ok := iv.dyn.(oPtr); ok {
						for k, o := range m.objs {
							if o == pp.s {
								idx = k
							}
						}
					}
				}
				if idx < 0 {
					bad("envelopes", "%s: a leaf entry holds %s, not a stored object", at, showVal(e.fields["obj"]))
				} else {
					count[idx]++
					if eb != m.boxes[idx] {
						bad("envelopes", "%s: the leaf entry of object %d has box %v, the object's box is %v", at, idx, eb, m.boxes[idx])
					}
				}
			} else {
				if ch.s == nil {
					bad("balance", "%s: an inner entry at depth %d has no child", at, d)
					continue
				}
				if pp, ok := ch.s.fields["parent"].(oPtr); !ok || pp.s != n {
					bad("parent-links", "%s: a node at depth %d is not parent-linked to the node whose entry points to it", at, d+1)
				}
				sub, ok := rec(ch.s, d+1)
				if ok && sub != eb {
					bad("envelopes", "%s: an entry at depth %d has box %v, the envelope of its subtree is %v", at, d, eb, sub)
				}
				if !ok && len(c11entries(ch.s)) == 0 {
					bad("balance", "%s: an empty node is linked at depth %d", at, d+1)
				}
			}
			if !have {
				env, have = eb, true
			} else {
				if eb.minx < env.minx {
					env.minx = eb.minx
				}
				if eb.miny < env.miny {
					env.miny = eb.miny
				}
				if eb.maxx > env.maxx {
					env.maxx = eb.maxx
				}
				if eb.maxy > env.maxy {
					env.maxy = eb.maxy
				}
			}
		}
		return env, have
	}
	rec(root, 1)
	if len(leafDepths) > 1 {
		bad("balance", "%s: leaves at different depths %v", at, leafDepths)
	}
	for k, n := range m.stored {
		if count[k] != n {
			bad("size", "%s: object %d is stored %d times in the tree, the history holds it %d times", at, k, count[k], n)
		}
	}
	for k, n := range count {
		if m.stored[k] != n {
			bad("size", "%s: object %d is stored %d times in the tree, the history holds it %d times", at, k, n, m.stored[k])
		}
	}
}
