package main

// Point-to-segment distance by model evaluation (C03.R4, and C13.R5 whose deviation test uses
// it).  Every function of packages geom and op of signature (Point, Point, Point) float64 that
// behaves like a distance (never negative on the model positions; orientation predicates share
// the signature and are not) is evaluated with symbolic coordinates under valuations that put the
// query point in each region: behind the start, beyond the end, beside the interior (near either
// end and in the middle), exactly on the two perpendiculars through the ends, on an end, and
// against a degenerate segment whose ends coincide.  The square of the result must equal, as a
// rational term in the coordinates,
//
//	|p − s|²                    when (p − s)·(e − s) ≤ 0
//	|p − e|²                    when (e − s)·(e − s) ≤ (p − s)·(e − s)
//	|p − s − b·(e − s)|²        otherwise, b = (p − s)·(e − s) / (e − s)·(e − s)
//
// so a missing clamp, a swapped end, a foot point computed with the wrong ratio and a 0/0 on a
// degenerate segment all differ from the specification, however the function is written.

import (
	"fmt"
	"go/ast"
	"go/token"
	"go/types"
	"math"
	"sort"

	"golang.org/x/tools/go/types/typeutil"
)

type segCase struct {
	what    string
	p, s, e symPt
}

var segCases = []segCase{
	{"a point behind the start", symPt{80, 91}, symPt{100, 110}, symPt{160, 141}},
	{"a point beyond the end", symPt{190, 171}, symPt{100, 110}, symPt{160, 141}},
	{"a point beside the middle", symPt{121, 150}, symPt{100, 110}, symPt{160, 141}},
	{"a point beside the first tenth", symPt{98, 131}, symPt{100, 110}, symPt{160, 141}},
	{"a point beside the last tenth", symPt{149, 162}, symPt{100, 110}, symPt{160, 141}},
	{"a point on the other side", symPt{135, 104}, symPt{100, 110}, symPt{160, 141}},
	{"a point on the perpendicular through the start", symPt{85, 140}, symPt{100, 110}, symPt{160, 140}},
	{"a point on the perpendicular through the end", symPt{145, 170}, symPt{100, 110}, symPt{160, 140}},
	{"the start itself", symPt{100, 110}, symPt{100, 110}, symPt{160, 141}},
	{"the end itself", symPt{160, 141}, symPt{100, 110}, symPt{160, 141}},
	{"a point on the segment", symPt{120, 120}, symPt{100, 110}, symPt{160, 140}},
	{"a segment whose ends coincide", symPt{130, 151}, symPt{100, 110}, symPt{100, 110}},
	{"a segment running the other way", symPt{121, 150}, symPt{160, 141}, symPt{100, 110}},
	{"a vertical segment", symPt{80, 133}, symPt{100, 110}, symPt{100, 170}},
}

// segSpec2: the squared distance as a term (on a boundary between two regions both regions'
// terms, which agree in value there), and its value.
func segSpec2(k segCase) ([]poly, float64) {
	sub := func(a, b poly) poly { return a.add(b, -1) }
	px, py, sx, sy, ex, ey := k.p.X(), k.p.Y(), k.s.X(), k.s.Y(), k.e.X(), k.e.Y()
	vx, vy := sub(ex, sx), sub(ey, sy)
	wx, wy := sub(px, sx), sub(py, sy)
	sq := func(a, b poly) poly { return symMul(a, a).add(symMul(b, b), 1) }
	fvx, fvy := float64(k.e.x-k.s.x), float64(k.e.y-k.s.y)
	fwx, fwy := float64(k.p.x-k.s.x), float64(k.p.y-k.s.y)
	c1, c2 := fwx*fvx+fwy*fvy, fvx*fvx+fvy*fvy
	toStart, toEnd := sq(wx, wy), sq(sub(px, ex), sub(py, ey))
	foot := func() poly {
		pc1 := symMul(wx, vx).add(symMul(wy, vy), 1)
		inv, _ := symInv(sq(vx, vy))
		b := symMul(pc1, inv)
		return sq(sub(wx, symMul(b, vx)), sub(wy, symMul(b, vy)))
	}
	dx, dy := float64(k.p.x-k.e.x), float64(k.p.y-k.e.y)
	switch {
	case c2 == 0:
		return []poly{toStart}, fwx*fwx + fwy*fwy
	case c1 < 0:
		return []poly{toStart}, fwx*fwx + fwy*fwy
	case c1 == 0:
		return []poly{toStart, foot()}, fwx*fwx + fwy*fwy
	case c2 < c1:
		return []poly{toEnd}, dx*dx + dy*dy
	case c2 == c1:
		return []poly{toEnd, foot()}, dx*dx + dy*dy
	}
	fb := c1 / c2
	fx, fy := fwx-fb*fvx, fwy-fb*fvy
	return []poly{foot()}, fx*fx + fy*fy
}

func segEval(c *Ctx, fn *types.Func, k segCase) (poly, float64, string) {
	m := newClipModel(c)
	it := m.it
	it.symbolic = true
	it.maxDepth = 48
	it.maxLoop = 64
	val := map[string]float64{"__ranks": 1}
	it.valuation = val
	c.Evals(1)
	// the point and the two ends, in the form the function takes them: three points, or a point
	// and a value of two point fields (in either order)
	pts := []oval{it.point(m.ptT, k.p.x, k.p.y), it.point(m.ptT, k.s.x, k.s.y), it.point(m.ptT, k.e.x, k.e.y)}
	var args []oval
	sig := fn.Type().(*types.Signature)
	if sig.Params().Len() == 3 {
		args = pts
	} else {
		for i := 0; i < sig.Params().Len(); i++ {
			t := sig.Params().At(i).Type()
			if types.Identical(t, m.ptT) {
				args = append(args, pts[0])
				continue
			}
			st, ok := it.zero(t).(*oStruct)
			if !ok || len(st.order) != 2 {
				return nil, 0, "parameter form"
			}
			st.fields[st.order[0]], st.fields[st.order[1]] = pts[1], pts[2]
			args = append(args, st)
		}
	}
	res, why := it.Call(fn, nil, args, 0)
	if why != "" {
		return nil, 0, why
	}
	if len(res) != 1 {
		return nil, 0, "result count"
	}
	got, ok := symOf(res[0])
	if !ok {
		return nil, 0, "the result is " + showVal(res[0])
	}
	v, ok := symEval(got, val)
	if !ok {
		return nil, 0, "the result " + short(got.canon()) + " has no value at the model position"
	}
	return got, v, ""
}

// segDistFamily: the distance routines, by signature and behaviour.
func segDistFamily(c *Ctx) []*types.Func {
	ptT := c.P.NamedType("geom", "Point")
	if ptT == nil {
		return nil
	}
	var out []*types.Func
	for _, fn := range c.P.RepoFuncs() {
		pk := c.P.DeclPkg(fn)
		if pk != c.P.Pkg("geom") && pk != c.P.Pkg("op") {
			continue
		}
		sig := fn.Type().(*types.Signature)
		if sig.Recv() != nil || sig.Results().Len() != 1 || !isFloat64(sig.Results().At(0).Type()) {
			continue
		}
		// three points in all: (Point, Point, Point), or a Point and a value of two Point fields
		n, ok := 0, true
		for i := 0; i < sig.Params().Len(); i++ {
			t := sig.Params().At(i).Type()
			if types.Identical(t, ptT) {
				n++
				continue
			}
			st, isSt := t.Underlying().(*types.Struct)
			if !isSt || st.NumFields() != 2 || !types.Identical(st.Field(0).Type(), ptT) || !types.Identical(st.Field(1).Type(), ptT) {
				ok = false
				break
			}
			n += 2
		}
		if !ok || n != 3 {
			continue
		}
		// a distance is never negative; an orientation test changes sign with the side
		nonneg, unknown := true, false
		for _, k := range []segCase{segCases[2], segCases[5], segCases[0], segCases[1], segCases[12]} {
			_, v, why := segEval(c, fn, k)
			if why != "" {
				unknown = true
				continue
			}
			if v < 0 {
				nonneg = false
			}
		}
		if nonneg || unknown {
			out = append(out, fn)
		}
	}
	sort.Slice(out, func(i, j int) bool { return c.P.FuncName(out[i]) < c.P.FuncName(out[j]) })
	return out
}

func segDistModel(c *Ctx, rule string) {
	fns := segDistFamily(c)
	if len(fns) == 0 {
		c.Unk(rule, "geom#point-to-segment-distance", token.NoPos, "no (Point, Point, Point) float64 function that behaves like a distance found")
		return
	}
	cases := segCases
	if c.Thorough {
		// a grid of positions around segments in eight directions
		for di, dir := range [][2]int64{{60, 31}, {-60, 29}, {58, -33}, {-62, -27}, {0, 64}, {66, 0}, {0, -61}, {-63, 0}} {
			s0 := symPt{1000 + int64(di)*400, 1100 + int64(di)*400}
			e0 := symPt{s0.x + dir[0], s0.y + dir[1]}
			for gx := int64(-2); gx <= 4; gx++ {
				for gy := int64(-2); gy <= 2; gy++ {
					// along the segment in thirds of its length, across it in steps of 17
					px := s0.x + gx*dir[0]/3 - gy*dir[1]/3 + gy
					py := s0.y + gx*dir[1]/3 + gy*dir[0]/3 - gx
					cases = append(cases, segCase{fmt.Sprintf("direction %d, position (%d/3 along, %d across)", di, gx, gy), symPt{px, py}, s0, e0})
				}
			}
		}
	}
	// a member of the family returns the distance — or, as a helper of one that does, its square
	type famRes struct {
		fn       *types.Func
		sq       bool
		bad, unk string
	}
	var results []*famRes
	for _, fn := range fns {
		r := &famRes{fn: fn}
		results = append(results, r)
		mode := "" // "dist" or "sq", fixed by the first position that tells them apart
		for _, k := range cases {
			got, v, why := segEval(c, fn, k)
			if why != "" {
				if len(why) > 6 && why[:6] == "panic:" {
					r.bad = fmt.Sprintf("%s: the function panics (%s)", k.what, why)
				} else {
					r.unk = fmt.Sprintf("%s: not interpretable: %s", k.what, why)
				}
				break
			}
			wants, wv := segSpec2(k)
			if polyHasNaN(got) {
				r.bad = fmt.Sprintf("%s (p = (%d, %d), segment (%d, %d)–(%d, %d)): the result is not a number (a division of zero by zero), the distance is %.6g", k.what, k.p.x, k.p.y, k.s.x, k.s.y, k.e.x, k.e.y, math.Sqrt(wv))
				break
			}
			asDist, asSq := false, false
			for _, w := range wants {
				if symRationalEqual(symMul(got, got), w) {
					asDist = true
				}
				if symRationalEqual(got, w) {
					asSq = true
				}
			}
			matches := false
			switch {
			case mode == "" && asDist && asSq:
				matches = true // 0 or 1: both readings agree here
			case mode == "" && asDist:
				mode, matches = "dist", true
			case mode == "" && asSq:
				mode, matches = "sq", true
			case mode == "dist":
				matches = asDist
			case mode == "sq":
				matches = asSq
			}
			want := wants[0]
			if !matches {
				what := "the distance to the segment is the root of"
				if mode == "sq" {
					what = "the squared distance to the segment (what the function returned elsewhere) is"
				}
				r.bad = fmt.Sprintf("%s (p = (%d, %d), segment (%d, %d)–(%d, %d)): the result is %s (%.6g at these coordinates); %s %s (%.6g): the projection on the line is not clamped to the segment, or the foot point is not start + ((p−start)·(end−start) / |end−start|²)·(end−start)", k.what, k.p.x, k.p.y, k.s.x, k.s.y, k.e.x, k.e.y, short(got.canon()), v, what, short(want.canon()), math.Sqrt(wv))
				break
			}
		}
		r.sq = mode == "sq"
	}
	// a function that returns the square is accepted as the helper of a member that returns the
	// distance itself and calls it; on its own it is not a distance
	calls := func(caller, callee *types.Func) bool {
		fd, pk := c.P.Decl(caller), c.P.DeclPkg(caller)
		if fd == nil || fd.Body == nil || pk == nil {
			return false
		}
		found := false
		ast.Inspect(fd.Body, func(n ast.Node) bool {
			if ce, ok := n.(*ast.CallExpr); ok {
				if f, _ := typeutil.Callee(pk.TypesInfo, ce).(*types.Func); f == callee {
					found = true
				}
			}
			return !found
		})
		return found
	}
	for _, r := range results {
		if r.sq && r.bad == "" && r.unk == "" {
			helper := false
			for _, o := range results {
				if o != r && !o.sq && o.bad == "" && o.unk == "" && calls(o.fn, r.fn) {
					helper = true
				}
			}
			if !helper {
				r.bad = "the function returns the square of the distance to the segment in every position, and no function of the family that returns the distance itself calls it: as a distance it is wrong by a square"
			}
		}
		okText := fmt.Sprintf("the squared result equals the squared distance to the nearest point of the segment as a rational term, in %d positions of the point relative to the segment (both ends, both perpendiculars, the interior, a degenerate segment)", len(cases))
		if r.sq {
			okText = fmt.Sprintf("the result equals the squared distance to the nearest point of the segment as a rational term in %d positions, and a member of the family that returns the distance itself calls it", len(cases))
		}
		report3(c, rule, c.P.FuncName(r.fn)+"#clamped-projection", c.P.Decl(r.fn).Pos(), r.bad, r.unk, okText)
	}
}
