package main

// C01 — polygon boolean operations (geom-side plumbing + rectangle shortcuts).
//
// R1 op table, R2 operand roles and completeness, R3 ring closing,
// R4 rectangle shortcuts (order domain, exhaustive), R5 trivial-case table of
// the external clipper (dependency source).

import (
	"fmt"
	"go/ast"
	"go/token"
	"go/types"
	"sort"
	"strings"
)

func init() { register("C01", false, checkC01) }

const polyclipPath = "github.com/ctessum/polyclip-go"

var c01ops = map[string]string{"Intersection": "INTERSECTION", "Union": "UNION", "XOr": "XOR", "Difference": "DIFFERENCE"}

func checkC01(c *Ctx) {
	c.Rule("C01.R1", "for Polygon, MultiPolygon and *Bounds receivers, the polyclip.Op constant that reaches Construct from Intersection/Union/XOr/Difference is INTERSECTION/UNION/XOR/DIFFERENCE respectively (directly, through an op helper, or by delegation to the same-named method)")
	c.Rule("C01.R2", "in every function that calls Construct: the subject is built from the receiver only and the clipping operand from the parameter only, every member polygon is converted (full range), and the converter copies every ring and vertex (identity index map)")
	c.Rule("C01.R3", "the converter back from the clipper allocates len+1 vertices per ring and stores vertex 0 into the last slot (closed rings)")
	c.Rule("C01.R4", "rectangle shortcuts of (*Bounds).Intersection and (*Bounds).Within(*Bounds) agree with the box relation that guards them, for every weak ordering of the coordinates; (*Bounds).Polygons is the rectangle ring")
	c.Rule("C01.R5", "the external clipper's trivial-case switches (an operand empty / bounding boxes disjoint) give XOR the same result as UNION")
	a := &c01{c: c, info: c.P.Pkg("geom").TypesInfo}
	if m := newClipModel(c); m.ok() {
		m.runSetOps("C01.R1", "C01.R2", "C01.R3")
	} else {
		c.Unk("C01.R1", "geom#clip-model", token.NoPos, "geometry or clipper types do not resolve")
	}
	a.r4()
	a.r5()
	c.exhaust = true
	c.Floor("C01.R1", 12)
	c.Floor("C01.R2", 12)
	c.Floor("C01.R3", 12)
	c.Floor("C01.R4", 7)
	c.Floor("C01.R5", 2)
}

type c01 struct {
	c    *Ctx
	info *types.Info
}

func isPolyclipOp(t types.Type) bool { return isNamed(t, polyclipPath, "Op") }

func isConstruct(f *types.Func) bool {
	if f == nil || f.Name() != "Construct" || f.Pkg() == nil || f.Pkg().Path() != polyclipPath {
		return false
	}
	return f.Type().(*types.Signature).Recv() != nil
}

// opsReaching returns the set of polyclip.Op constant names that can reach
// Construct from fn's returns, with opBind giving the binding of fn's own
// Op-typed parameter (if any).
func (a *c01) opsReaching(fn *types.Func, bind string, meth string, depth int, out map[string]bool, why *[]string) {
	fd := a.c.P.Decl(fn)
	if fd == nil || depth > 5 {
		*why = append(*why, "cannot follow "+fn.Name())
		return
	}
	info := a.c.P.InfoOf(fn)
	var opParam types.Object
	for _, p := range paramVars(info, fd.Type) {
		if p != nil && isPolyclipOp(p.Type()) {
			opParam = p
		}
	}
	opOf := func(e ast.Expr) string {
		e = unparen(e)
		if o := objOf(info, e); o != nil {
			if o == opParam {
				return bind
			}
		}
		// any constant expression of type polyclip.Op: name it by value
		if tv, ok := info.Types[e]; ok && tv.Value != nil && isPolyclipOp(tv.Type) {
			if dep := a.c.P.Dep(polyclipPath); dep != nil {
				for _, nm := range dep.Types.Scope().Names() {
					if cst, ok := dep.Types.Scope().Lookup(nm).(*types.Const); ok && isPolyclipOp(cst.Type()) && cst.Val().ExactString() == tv.Value.ExactString() {
						return cst.Name()
					}
				}
			}
		}
		return ""
	}
	ast.Inspect(fd.Body, func(n ast.Node) bool {
		call, ok := n.(*ast.CallExpr)
		if !ok {
			return true
		}
		f := callee(info, call)
		if f == nil {
			return true
		}
		if isConstruct(f) {
			if len(call.Args) >= 1 {
				if op := opOf(call.Args[0]); op != "" {
					out[op] = true
				} else {
					*why = append(*why, "operation argument `"+src(call.Args[0])+"` of Construct is not a constant or the op parameter")
				}
			}
			return true
		}
		if a.c.P.Decl(f) == nil {
			return true
		}
		sig := f.Type().(*types.Signature)
		// helper with an Op parameter
		for i := 0; i < sig.Params().Len(); i++ {
			if isPolyclipOp(sig.Params().At(i).Type()) && i < len(call.Args) {
				if op := opOf(call.Args[i]); op != "" {
					a.opsReaching(f, op, meth, depth+1, out, why)
				} else {
					*why = append(*why, "operation argument `"+src(call.Args[i])+"` is not a constant")
				}
				return true
			}
		}
		// delegation to a Polygonal set-operation method
		if sig.Recv() != nil {
			if _, isOp := c01ops[f.Name()]; isOp {
				if isNilTest(info, fd.Body, call) && isNamed(sig.Recv().Type(), modPath, "Bounds") {
					return true // a box-vs-box emptiness test, judged by the shortcut rules (C01.R4 / C14.R4), not a delegation
				}
				if f.Name() != meth {
					*why = append(*why, "delegates to "+f.Name()+", not "+meth)
					out["via-"+f.Name()] = true
					return true
				}
				if f != fn {
					a.opsReaching(f, "", meth, depth+1, out, why)
				}
			}
		}
		return true
	})
}

func (a *c01) r1() {
	c := a.c
	for _, tn := range []string{"Polygon", "MultiPolygon", "Bounds"} {
		var meths []string
		for m := range c01ops {
			meths = append(meths, m)
		}
		sort.Strings(meths)
		for _, mn := range meths {
			m := c.P.Method("geom", tn, mn)
			label := "geom." + tn + "." + mn
			if m == nil || c.P.Decl(m) == nil {
				c.Unk("C01.R1", label, token.NoPos, "API anchor does not resolve")
				continue
			}
			label = c.P.FuncName(m)
			out := map[string]bool{}
			var why []string
			a.opsReaching(m, "", mn, 0, out, &why)
			var got []string
			for k := range out {
				got = append(got, k)
			}
			sort.Strings(got)
			want := c01ops[mn]
			switch {
			case len(why) > 0:
				c.Bad("C01.R1", label, c.P.Decl(m).Pos(), "%s", why[0])
			case len(got) == 1 && got[0] == want:
				c.OK("C01.R1", label, c.P.Decl(m).Pos(), "reaches Construct with polyclip.%s", want)
			case len(got) == 0:
				c.Bad("C01.R1", label, c.P.Decl(m).Pos(), "no call path reaches the clipper")
			default:
				c.Bad("C01.R1", label, c.P.Decl(m).Pos(), "reaches Construct with polyclip.%s, want polyclip.%s: a different set operation is computed", strings.Join(got, ","), want)
			}
		}
	}
}

// ---------------------------------------------------------------- R2/R3

func (a *c01) r2r3() {
	c := a.c
	pk := c.P.Pkg("geom")
	info := pk.TypesInfo
	var converters = map[*types.Func]bool{}
	var backConv = map[*types.Func]bool{}
	n := 0
	for _, fn := range c.P.RepoFuncs() {
		if c.P.DeclPkg(fn) != pk {
			continue
		}
		fd := c.P.Decl(fn)
		var cons *ast.CallExpr
		ast.Inspect(fd.Body, func(nd ast.Node) bool {
			if call, ok := nd.(*ast.CallExpr); ok && isConstruct(callee(info, call)) {
				cons = call
			}
			return true
		})
		if cons == nil {
			continue
		}
		n++
		name := c.P.FuncName(fn)
		recv := receiverVar(info, fd)
		var param types.Object
		for _, p := range paramVars(info, fd.Type) {
			if p != nil && !isPolyclipOp(p.Type()) {
				param = p
			}
		}
		sc := newFnScope(info, fd.Body)
		sel, _ := unparen(cons.Fun).(*ast.SelectorExpr)
		msg := ""
		if sel == nil || len(cons.Args) != 2 || recv == nil || param == nil {
			c.Unk("C01.R2", name, cons.Pos(), "Construct call shape not recognised")
			continue
		}
		if m := a.builtFrom(info, sc, fd, sel.X, recv, false, converters); m != "" {
			msg = "subject operand `" + src(sel.X) + "`: " + m
		} else if m := a.builtFrom(info, sc, fd, cons.Args[1], param, true, converters); m != "" {
			msg = "clipping operand `" + src(cons.Args[1]) + "`: " + m
		}
		if msg != "" {
			c.Bad("C01.R2", name, cons.Pos(), "%s", msg)
		} else {
			c.OK("C01.R2", name, cons.Pos(), "subject from the receiver only, clipping operand from every polygon of the parameter")
		}
		// the result goes through the back-converter
		path := enclosing(fd.Body, cons)
		for i := len(path) - 1; i >= 0; i-- {
			if call, ok := path[i].(*ast.CallExpr); ok && call != cons {
				if f := callee(info, call); f != nil && c.P.Decl(f) != nil {
					backConv[f] = true
				}
				break
			}
		}
	}
	if n == 0 {
		c.Unk("C01.R2", "geom#Construct-callers", token.NoPos, "no function calls polyclip Construct")
	}
	for f := range converters {
		fd := c.P.Decl(f)
		name := c.P.FuncName(f)
		src0 := receiverVar(info, fd)
		sc := newFnScope(info, fd.Body)
		var problems []string
		var ppos token.Pos = fd.Pos()
		prob := func(pos token.Pos, m string) {
			if len(problems) == 0 {
				ppos = pos
			}
			problems = append(problems, m)
		}
		if src0 == nil {
			prob(fd.Pos(), "converter has no receiver")
		} else {
			copyLoops(info, sc, src0, fd, false, prob)
			a.checkResultAlloc(info, sc, fd, src0, prob)
		}
		if len(problems) > 0 {
			c.Bad("C01.R2", name, ppos, "%s", problems[0])
		} else {
			c.OK("C01.R2", name, fd.Pos(), "copies every ring and every vertex at the same index")
		}
	}
	if len(backConv) == 0 {
		c.Unk("C01.R3", "geom#back-converter", token.NoPos, "the clipper's result is not passed through a converter")
	}
	for f := range backConv {
		fd := c.P.Decl(f)
		name := c.P.FuncName(f)
		ps := paramVars(info, fd.Type)
		var problems []string
		var ppos token.Pos = fd.Pos()
		prob := func(pos token.Pos, m string) {
			if len(problems) == 0 {
				ppos = pos
			}
			problems = append(problems, m)
		}
		if len(ps) != 1 || ps[0] == nil {
			c.Unk("C01.R3", name, fd.Pos(), "unexpected signature")
			continue
		}
		sc := newFnScope(info, fd.Body)
		closed := copyLoops(info, sc, ps[0], fd, true, prob)
		a.checkResultAlloc(info, sc, fd, ps[0], prob)
		if !closed && len(problems) == 0 {
			prob(fd.Pos(), "no store of the first vertex into the ring's last slot: result rings are not closed")
		}
		if len(problems) > 0 {
			c.Bad("C01.R3", name, ppos, "%s", problems[0])
		} else {
			c.OK("C01.R3", name, fd.Pos(), "len+1 vertices per ring, last = first, all contours and vertices copied")
		}
	}
}

// checkResultAlloc: the returned structure is make(T, len(src)).
func (a *c01) checkResultAlloc(info *types.Info, sc *fnScope, fd *ast.FuncDecl, src0 types.Object, prob func(token.Pos, string)) {
	ast.Inspect(fd.Body, func(n ast.Node) bool {
		r, ok := n.(*ast.ReturnStmt)
		if !ok || len(r.Results) != 1 {
			return true
		}
		o := objOf(info, r.Results[0])
		if o == nil {
			prob(r.Pos(), "result is not a local")
			return true
		}
		okMake := false
		for _, d := range sc.defs[o] {
			if call, ok := unparen(d).(*ast.CallExpr); ok && d != nil && builtinName(info, call) == "make" && len(call.Args) >= 2 {
				af := sc.aff(call.Args[1])
				if af.ok && af.K == 0 && af.Of != nil && objOf(info, af.Of) == src0 {
					okMake = true
				} else {
					prob(call.Pos(), "result allocated with length `"+src(call.Args[1])+"`, not the number of rings of the operand")
				}
			}
		}
		if !okMake {
			prob(r.Pos(), "result is not allocated with one entry per ring")
		}
		return true
	})
}

// builtFrom: expression e (a polyclip.Polygon) is built completely and only from
// source: src.conv(), or appended in a full-range loop over src / src.Polygons().
func (a *c01) builtFrom(info *types.Info, sc *fnScope, fd *ast.FuncDecl, e ast.Expr, source types.Object, viaPolygons bool, convs map[*types.Func]bool) string {
	o := objOf(info, e)
	if o == nil {
		return "not a local variable"
	}
	isConvOf := func(x ast.Expr, of func(ast.Expr) bool) bool {
		call, ok := unparen(x).(*ast.CallExpr)
		if !ok || len(call.Args) != 0 {
			return false
		}
		sel, ok := unparen(call.Fun).(*ast.SelectorExpr)
		if !ok || !of(sel.X) {
			return false
		}
		f := callee(info, call)
		if f == nil || a.c.P.Decl(f) == nil {
			return false
		}
		convs[f] = true
		return true
	}
	built := false
	var msg string
	// direct definition
	for _, d := range sc.defs[o] {
		if d == nil {
			continue
		}
		if isConvOf(d, func(x ast.Expr) bool { return objOf(info, x) == source }) {
			built = true
			continue
		}
		if call, ok := unparen(d).(*ast.CallExpr); ok && builtinName(info, call) == "append" {
			continue // checked below in loop context
		}
		msg = "assigned `" + src(d) + "`"
	}
	// appends inside loops
	ast.Inspect(fd.Body, func(n ast.Node) bool {
		var loopStmt ast.Stmt
		switch n.(type) {
		case *ast.RangeStmt, *ast.ForStmt:
			loopStmt = n.(ast.Stmt)
		default:
			return true
		}
		l := sc.loopOf(loopStmt)
		var body *ast.BlockStmt
		if rs, ok := loopStmt.(*ast.RangeStmt); ok {
			body = rs.Body
		} else {
			body = loopStmt.(*ast.ForStmt).Body
		}
		appendsHere := false
		for _, st := range body.List {
			as, ok := st.(*ast.AssignStmt)
			if !ok || len(as.Lhs) != 1 || objOf(info, as.Lhs[0]) != o {
				continue
			}
			call, ok := unparen(as.Rhs[0]).(*ast.CallExpr)
			if !ok || builtinName(info, call) != "append" || len(call.Args) != 2 || objOf(info, call.Args[0]) != o || !call.Ellipsis.IsValid() {
				msg = "updated by `" + src(as) + "`"
				continue
			}
			appendsHere = true
			// the loop must be over the source (or source.Polygons()) in full
			rs, isRange := loopStmt.(*ast.RangeStmt)
			okSrc := false
			var elem types.Object
			if isRange && rs.Value != nil {
				elem = objOf(info, rs.Value)
				x := unparen(rs.X)
				if objOf(info, x) == source {
					okSrc = true
				} else if pc, ok := x.(*ast.CallExpr); ok && len(pc.Args) == 0 {
					if s2, ok := unparen(pc.Fun).(*ast.SelectorExpr); ok && s2.Sel.Name == "Polygons" && objOf(info, s2.X) == source {
						okSrc = true
					}
				}
			} else if l != nil && l.Hi.Of != nil && objOf(info, l.Hi.Of) == source && l.Lo.K == 0 && l.Hi.K == 0 {
				okSrc = true
			}
			if !okSrc {
				msg = "appended in a loop that does not range over all polygons of the operand"
				continue
			}
			if !isConvOf(call.Args[1], func(x ast.Expr) bool {
				x = unparen(x)
				if elem != nil && objOf(info, x) == elem {
					return true
				}
				return l != nil && isRecvElem(info, x, source, l.Idx)
			}) {
				msg = "appended value `" + src(call.Args[1]) + "` is not the conversion of the current member"
				continue
			}
			built = true
		}
		if appendsHere {
			brk, cont, rets := earlyExits(body)
			if len(brk)+len(cont)+len(rets) > 0 {
				msg = "conversion loop has an early exit: some member polygons are not converted"
			}
		}
		return true
	})
	if msg != "" {
		return msg
	}
	if !built {
		return "is not built from the operand"
	}
	return ""
}

// ---------------------------------------------------------------- R4

func (a *c01) r4() {
	c := a.c
	e := newC04E2(c)
	m := c.P.Method("geom", "Bounds", "Intersection")
	if m == nil || c.P.Decl(m) == nil {
		c.Unk("C01.R4", "geom.(*Bounds).Intersection", token.NoPos, "API anchor does not resolve")
		return
	}
	boxBoxIntersection(c, e, m, "C01.R4")
	// general Polygonal argument: an opaque polygon whose Bounds() is pb; anything the code asks
	// about its shape (point-in-polygon of a corner, Within, …) is answered in every possible way
	for _, opn := range []string{"Difference", "Intersection", "Union", "XOr"} {
		om := c.P.Method("geom", "Bounds", opn)
		if om == nil || c.P.Decl(om) == nil {
			c.Unk("C01.R4", "geom.(*Bounds)."+opn, token.NoPos, "API anchor does not resolve")
			continue
		}
		a.r4polygonal(e, om, opn)
	}
	// Within(*Bounds)
	if w := c.P.Method("geom", "Bounds", "Within"); w != nil && c.P.Decl(w) != nil {
		wname, wpos := c.P.FuncName(w)+"#box", c.P.Decl(w).Pos()
		sc := c.P.Pkg("geom").Types.Scope()
		val := func(nm string) int64 { k, _ := constInt64Obj(sc.Lookup(nm)); return k }
		n, bad := 0, false
		for _, bp := range e.boxPairs(false) {
			n++
			res, why := e.it.Call(w, oPtr{e.mk(bp.a)}, []oval{oIface{dyn: oPtr{e.mk(bp.b)}}}, 0)
			if why != "" {
				c.Unk("C01.R4", wname, wpos, "outside the order fragment: %s", why)
				bad = true
				break
			}
			want := val("Outside")
			if bp.a == bp.b {
				want = val("OnEdge")
			} else if bp.a.minx >= bp.b.minx && bp.a.miny >= bp.b.miny && bp.a.maxx <= bp.b.maxx && bp.a.maxy <= bp.b.maxy {
				want = val("Inside")
			}
			if got, ok := res[0].(oInt); !ok || int64(got) != want {
				c.Bad("C01.R4", wname, wpos, "ordering b=%s other=%s: Within = %s, want %d (OnEdge when equal, Inside when contained, else Outside)", bp.a, bp.b, showVal(res[0]), want)
				bad = true
				break
			}
		}
		c.Evals(n)
		if !bad {
			c.OK("C01.R4", wname, wpos, "equal→OnEdge, contained→Inside, else Outside in all %d orderings", n)
		}
	}
	// Polygons(): the rectangle ring — evaluated abstractly on a box with four distinct ranks, so
	// any way of writing it (literal, helper, locals) is judged by its value
	if pm := c.P.Method("geom", "Bounds", "Polygons"); pm != nil && c.P.Decl(pm) != nil {
		fd := c.P.Decl(pm)
		pname := c.P.FuncName(pm)
		box := oBox{0, 1, 2, 3}
		res, why := e.it.Call(pm, oPtr{e.mk(box)}, nil, 0)
		msg := ""
		switch {
		case why != "":
			c.Unk("C01.R4", pname, fd.Pos(), "outside the order fragment: %s", why)
			msg = "-"
		default:
			msg = rectangleValue(res[0], box)
		}
		if msg == "" {
			c.OK("C01.R4", pname, fd.Pos(), "one polygon, one ring, the four corners in ring order (value computed on a box with distinct coordinates)")
		} else if msg != "-" {
			c.Bad("C01.R4", pname, fd.Pos(), "%s", msg)
		}
	}
}

// rectangleValue: v is [][][]Point = one polygon of one ring listing the corners of box in
// ring order (either direction, any start, optionally closed).
func rectangleValue(v oval, box oBox) string {
	polys, ok := v.(oSlice)
	if !ok || polys.length() != 1 {
		return "Polygons() does not return exactly one polygon: " + showVal(v)
	}
	poly, ok := polys.at(0).(oSlice)
	if !ok || poly.length() != 1 {
		return "the rectangle polygon does not have exactly one ring: " + showVal(polys.at(0))
	}
	ring, ok := poly.at(0).(oSlice)
	if !ok || ring.length() < 4 || ring.length() > 5 {
		return "the rectangle ring does not list 4 (or 5, closed) corners: " + showVal(poly.at(0))
	}
	type pt struct{ x, y int64 }
	var got []pt
	for i := 0; i < ring.length(); i++ {
		st, ok := ring.at(i).(*oStruct)
		if !ok {
			return "ring element is not a point"
		}
		x, okx := st.fields["X"].(oFloat)
		y, oky := st.fields["Y"].(oFloat)
		if !okx || !oky {
			return "corner " + showVal(st) + " is not made of the box's coordinates"
		}
		got = append(got, pt{x.r, y.r})
	}
	if len(got) == 5 {
		if got[4] != got[0] {
			return "five corners but the last does not repeat the first"
		}
		got = got[:4]
	}
	want := []pt{{box.minx, box.miny}, {box.maxx, box.miny}, {box.maxx, box.maxy}, {box.minx, box.maxy}}
	for _, dir := range []int{1, -1} {
		for start := 0; start < 4; start++ {
			okAll := true
			for k := 0; k < 4; k++ {
				if got[k] != want[((start+dir*k)%4+4)%4] {
					okAll = false
				}
			}
			if okAll {
				return ""
			}
		}
	}
	return fmt.Sprintf("the ring %v is not the box's four corners in ring order (want (minx,miny),(maxx,miny),(maxx,maxy),(minx,maxy) up to rotation/direction)", showVal(ring))
}

// ---------------------------------------------------------------- R5

func (a *c01) r5() {
	c := a.c
	dep := c.P.Dep(polyclipPath)
	if dep == nil || len(dep.Syntax) == 0 {
		c.Unk("C01.R5", "polyclip#compute", token.NoPos, "dependency source not loaded")
		return
	}
	info := dep.TypesInfo
	var compute *ast.FuncDecl
	for _, f := range dep.Syntax {
		for _, d := range f.Decls {
			fd, ok := d.(*ast.FuncDecl)
			if !ok || fd.Recv == nil || fd.Body == nil {
				continue
			}
			// the method with one Op parameter returning Polygon that Construct calls
			ps := paramVars(info, fd.Type)
			if len(ps) == 1 && ps[0] != nil && isPolyclipOp(ps[0].Type()) && fd.Name.Name == "compute" {
				compute = fd
			}
		}
	}
	if compute == nil {
		c.Unk("C01.R5", "polyclip#compute", token.NoPos, "clipper entry with an Op parameter not found")
		return
	}
	opParam := paramVars(info, compute.Type)[0]
	k := 0
	for _, st := range compute.Body.List {
		is, ok := st.(*ast.IfStmt)
		if !ok {
			continue
		}
		var sw *ast.SwitchStmt
		for _, bs := range is.Body.List {
			if s, ok := bs.(*ast.SwitchStmt); ok && objOf(info, s.Tag) == opParam {
				sw = s
			}
		}
		if sw == nil {
			continue
		}
		k++
		cons := fmt.Sprintf("polyclip.(*clipper).compute#trivial-case-%d", k)
		caseOf := map[string]*ast.CaseClause{}
		for _, cl := range sw.Body.List {
			cc := cl.(*ast.CaseClause)
			for _, e := range cc.List {
				if o, ok := objOf(info, e).(*types.Const); ok {
					caseOf[o.Name()] = cc
				}
			}
		}
		pos := c.P.Fset.Position(is.Pos())
		where := fmt.Sprintf("%s:%d", strings.TrimPrefix(pos.Filename, "/root/go/pkg/mod/"), pos.Line)
		if caseOf["UNION"] != nil && caseOf["XOR"] != caseOf["UNION"] {
			// XOR falls to whatever follows the switch; acceptable only if identical to UNION's body
			same := caseOf["XOR"] != nil && src(&ast.BlockStmt{List: caseOf["XOR"].Body}) == src(&ast.BlockStmt{List: caseOf["UNION"].Body})
			if !same {
				c.Bad("C01.R5", cons, token.NoPos, "%s: when `%s`, UNION returns the operands but XOR falls through to the empty result; for disjoint A, B the true A xor B equals A ∪ B and has area", where, src(is.Cond))
				continue
			}
		}
		c.OK("C01.R5", cons, token.NoPos, "%s: XOR treated like UNION", where)
	}
	if k == 0 {
		c.Unk("C01.R5", "polyclip#compute", token.NoPos, "no trivial-case switch found")
	}
}

// isNilTest: the call's value is used only as an operand of ==/!= nil.
func isNilTest(info *types.Info, root ast.Node, call *ast.CallExpr) bool {
	anc := enclosing(root, call)
	for i := len(anc) - 1; i >= 0; i-- {
		switch x := anc[i].(type) {
		case *ast.ParenExpr:
			continue
		case *ast.BinaryExpr:
			if x.Op != token.EQL && x.Op != token.NEQ {
				return false
			}
			other := x.Y
			if containsNode(x.Y, call) {
				other = x.X
			}
			tv, ok := info.Types[other]
			return ok && tv.IsNil()
		default:
			if anc[i] == ast.Node(call) {
				continue
			}
			return false
		}
	}
	return false
}

// r4polygonal: shortcut results of (*Bounds).<op>(opaque polygon) must follow from the box relation alone.
func (a *c01) r4polygonal(e *c04e2, m *types.Func, opn string) {
	c := a.c
	name, pos := c.P.FuncName(m)+"#polygonal", c.P.Decl(m).Pos()
	wsT := c.P.NamedType("geom", "WithinStatus")
	n, general, runs := 0, 0, 0
	var script []int
	var doms []int
	qpos := 0
	e.it.oracle = func(f *types.Func, res types.Type) (oval, bool) {
		dom := 0
		if b, ok := res.Underlying().(*types.Basic); ok && b.Kind() == types.Bool {
			dom = 2
		} else if wsT != nil && types.Identical(res, wsT) {
			dom = 3
		}
		if dom == 0 {
			return nil, false
		}
		if qpos >= len(script) {
			script = append(script, 0)
			doms = append(doms, dom)
		}
		v := script[qpos]
		qpos++
		if dom == 2 {
			return oBool(v == 1), true
		}
		return oInt(v), true
	}
	defer func() { e.it.oracle = nil }()
	bad := false
	for _, bp := range e.boxPairs(false) {
		n++
		within := bp.b.minx >= bp.a.minx && bp.b.miny >= bp.a.miny && bp.b.maxx <= bp.a.maxx && bp.b.maxy <= bp.a.maxy // bounds(p) ⊆ b
		noArea := max64(bp.a.minx, bp.b.minx) >= min64(bp.a.maxx, bp.b.maxx) || max64(bp.a.miny, bp.b.miny) >= min64(bp.a.maxy, bp.b.maxy)
		script, doms = nil, nil
		for {
			qpos = 0
			runs++
			recv := e.mk(bp.a)
			op := &oOpaque{name: "p", bounds: e.mk(bp.b)}
			res, why := e.it.Call(m, oPtr{recv}, []oval{oIface{opaque: op}}, 0)
			answers := fmt.Sprint(script[:min(qpos, len(script))])
			kind := "general"
			if why == "" {
				switch v := res[0].(type) {
				case oTop:
				case oNil:
					kind = "empty"
				case oIface:
					switch {
					case v.opaque == op:
						kind = "p"
					case v.opaque == nil && v.dyn == nil:
						kind = "empty"
					default:
						if pp, ok := v.dyn.(oPtr); ok && pp.s == recv {
							kind = "b"
						} else {
							kind = "other:" + showVal(v)
						}
					}
				case oPtr:
					if v.s == recv {
						kind = "b"
					} else if v.s == nil {
						kind = "empty"
					} else {
						kind = "other:" + showVal(v)
					}
				default:
					kind = "other:" + showVal(res[0])
				}
			}
			just, want := true, ""
			switch kind {
			case "general":
				general++
			case "empty":
				switch opn {
				case "Intersection":
					just, want = noArea, "the boxes share no area"
				default:
					just, want = false, "never: an empty "+opn+" cannot follow from the boxes (a polygon need not cover the rectangle it was tested against at two corners)"
				}
			case "p":
				switch opn {
				case "Intersection":
					just, want = within, "bounds(p) ⊆ b"
				default:
					just, want = false, "never"
				}
			case "b":
				switch opn {
				case "Difference":
					just, want = noArea, "the boxes share no area"
				case "Union":
					just, want = within, "bounds(p) ⊆ b"
				default:
					just, want = false, "never: the polygon's shape is unknown"
				}
			default:
				just, want = false, "an unrecognised shortcut value"
			}
			if !just {
				c.Bad("C01.R4", name, pos, "ordering b=%s bounds(p)=%s, shape queries answered %s: (*Bounds).%s returns %s without clipping; that result is justified only when %s", bp.a, bp.b, answers, opn, map[string]string{"empty": "nil/empty", "p": "p itself", "b": "the box itself"}[kind]+strings.TrimPrefix(kind, map[string]string{"empty": "empty", "p": "p", "b": "b"}[kind]), want)
				bad = true
				break
			}
			// next script (odometer over the answers actually consumed)
			script, doms = script[:min(qpos, len(script))], doms[:min(qpos, len(doms))]
			i := len(script) - 1
			for i >= 0 && script[i] == doms[i]-1 {
				i--
			}
			if i < 0 {
				break
			}
			script[i]++
			script, doms = script[:i+1], doms[:i+1]
		}
		if bad {
			break
		}
	}
	c.Evals(runs)
	if bad {
		return
	}
	if general == 0 {
		c.Bad("C01.R4", name, pos, "no ordering reaches the general clip: overlapping operands are never clipped")
		return
	}
	c.OK("C01.R4", name, pos, "%d box orderings × every answer to shape queries (%d runs): shortcuts fire only where the box relation alone implies them; %d runs reach the general clip", n, runs, general)
}
