package main

// C01 — polygon boolean operations (geom-side plumbing + rectangle shortcuts).
//
// R1 op table, R2 operand roles and completeness, R3 ring closing,
// R4 rectangle shortcuts (order domain, exhaustive), R5 trivial-case table of
// the external clipper (dependency source).

import (
	"fmt"
	"go/ast"
	"go/token"
	"go/types"
	"strings"
)

func init() { register("C01", false, checkC01) }

const polyclipPath = "github.com/ctessum/polyclip-go"

var c01ops = map[string]string{"Intersection": "INTERSECTION", "Union": "UNION", "XOr": "XOR", "Difference": "DIFFERENCE"}

func checkC01(c *Ctx) {
	c.Rule("C01.R1", "model evaluation with the external clipper replaced by a recorder: for Polygon, MultiPolygon and *Bounds receivers and arguments (1–2 members, 1–2 rings), Intersection/Union/XOr/Difference hand Construct the operation constant INTERSECTION/UNION/XOR/DIFFERENCE respectively — directly, through helpers, or by delegation")
	c.Rule("C01.R2", "model evaluation, same runs: the subject handed to the clipper holds exactly the receiver's rings and the clipping operand exactly the argument's rings, every ring and vertex in its own position (no member skipped, none taken from the other operand)")
	c.Rule("C01.R3", "model evaluation, same runs: every ring of the geometry built from the clipper's answer is closed by one repetition of its first vertex and carries the clipper's vertices in order")
	c.Rule("C01.R4", "rectangle shortcuts of (*Bounds).Intersection and (*Bounds).Within(*Bounds) agree with the box relation that guards them, for every weak ordering of the coordinates; (*Bounds).Polygons is the rectangle ring")
	c.Rule("C01.R5", "the external clipper's trivial-case switches (an operand empty / bounding boxes disjoint) give XOR the same result as UNION")
	a := &c01{c: c, info: c.P.Pkg("geom").TypesInfo}
	if m := newClipModel(c); m.ok() {
		m.runSetOps("C01.R1", "C01.R2", "C01.R3")
	} else {
		c.Unk("C01.R1", "geom#clip-model", token.NoPos, "geometry or clipper types do not resolve")
	}
	a.r4()
	a.r5()
	c.exhaust = true
	premiseBounds(c, "C01.R6", "the rectangle shortcuts of the four *Bounds operations decide by the polygon's Bounds()")
	c.Floor("C01.R6", 16)
	c.Floor("C01.R1", 12)
	c.Floor("C01.R2", 12)
	c.Floor("C01.R3", 12)
	c.Floor("C01.R4", 4)
	c.Floor("C01.R5", 2)
}

type c01 struct {
	c    *Ctx
	info *types.Info
}

func isPolyclipOp(t types.Type) bool { return isNamed(t, polyclipPath, "Op") }

func isConstruct(f *types.Func) bool {
	if f == nil || f.Name() != "Construct" || f.Pkg() == nil || f.Pkg().Path() != polyclipPath {
		return false
	}
	return f.Type().(*types.Signature).Recv() != nil
}

// ---------------------------------------------------------------- R2/R3

// ---------------------------------------------------------------- R4

func (a *c01) r4() {
	c := a.c
	e := newC04E2(c)
	m := c.P.Method("geom", "Bounds", "Intersection")
	if m == nil || c.P.Decl(m) == nil {
		c.Unk("C01.R4", "geom.(*Bounds).Intersection", token.NoPos, "API anchor does not resolve")
		return
	}
	boxBoxIntersection(c, e, m, "C01.R4")
	// general Polygonal argument: an opaque polygon whose Bounds() is pb; anything the code asks
	// about its shape (point-in-polygon of a corner, Within, …) is answered in every possible way
	for _, opn := range []string{"Difference", "Intersection", "Union", "XOr"} {
		om := c.P.Method("geom", "Bounds", opn)
		if om == nil || c.P.Decl(om) == nil {
			c.Unk("C01.R4", "geom.(*Bounds)."+opn, token.NoPos, "API anchor does not resolve")
			continue
		}
		a.r4polygonal(e, om, opn)
	}
	// Within(*Bounds)
	if w := c.P.Method("geom", "Bounds", "Within"); w != nil && c.P.Decl(w) != nil {
		wname, wpos := c.P.FuncName(w)+"#box", c.P.Decl(w).Pos()
		sc := c.P.Pkg("geom").Types.Scope()
		val := func(nm string) int64 { k, _ := constInt64Obj(sc.Lookup(nm)); return k }
		n, bad := 0, false
		for _, bp := range e.boxPairs(false) {
			n++
			res, why := e.it.Call(w, oPtr{e.mk(bp.a)}, []oval{oIface{dyn: oPtr{e.mk(bp.b)}}}, 0)
			if why != "" {
				c.Unk("C01.R4", wname, wpos, "outside the order fragment: %s", why)
				bad = true
				break
			}
			want := val("Outside")
			if bp.a == bp.b {
				want = val("OnEdge")
			} else if bp.a.minx >= bp.b.minx && bp.a.miny >= bp.b.miny && bp.a.maxx <= bp.b.maxx && bp.a.maxy <= bp.b.maxy {
				want = val("Inside")
			}
			if got, ok := res[0].(oInt); !ok || int64(got) != want {
				c.Bad("C01.R4", wname, wpos, "ordering b=%s other=%s: Within = %s, want %d (OnEdge when equal, Inside when contained, else Outside)", bp.a, bp.b, showVal(res[0]), want)
				bad = true
				break
			}
		}
		c.Evals(n)
		if !bad {
			c.OK("C01.R4", wname, wpos, "equal→OnEdge, contained→Inside, else Outside in all %d orderings", n)
		}
	}
	// Polygons(): the rectangle ring — evaluated abstractly on a box with four distinct ranks, so
	// any way of writing it (literal, helper, locals) is judged by its value
	if pm := c.P.Method("geom", "Bounds", "Polygons"); pm != nil && c.P.Decl(pm) != nil {
		fd := c.P.Decl(pm)
		pname := c.P.FuncName(pm)
		box := oBox{0, 1, 2, 3}
		res, why := e.it.Call(pm, oPtr{e.mk(box)}, nil, 0)
		msg := ""
		switch {
		case why != "":
			c.Unk("C01.R4", pname, fd.Pos(), "outside the order fragment: %s", why)
			msg = "-"
		default:
			msg = rectangleValue(res[0], box)
		}
		if msg == "" {
			c.OK("C01.R4", pname, fd.Pos(), "one polygon, one ring, the four corners in ring order (value computed on a box with distinct coordinates)")
		} else if msg != "-" {
			c.Bad("C01.R4", pname, fd.Pos(), "%s", msg)
		}
	}
}

// rectangleValue: v is [][][]Point = one polygon of one ring listing the corners of box in
// ring order (either direction, any start, optionally closed).
func rectangleValue(v oval, box oBox) string {
	polys, ok := v.(oSlice)
	if !ok || polys.length() != 1 {
		return "Polygons() does not return exactly one polygon: " + showVal(v)
	}
	poly, ok := polys.at(0).(oSlice)
	if !ok || poly.length() != 1 {
		return "the rectangle polygon does not have exactly one ring: " + showVal(polys.at(0))
	}
	ring, ok := poly.at(0).(oSlice)
	if !ok || ring.length() < 4 || ring.length() > 5 {
		return "the rectangle ring does not list 4 (or 5, closed) corners: " + showVal(poly.at(0))
	}
	type pt struct{ x, y int64 }
	var got []pt
	for i := 0; i < ring.length(); i++ {
		st, ok := ring.at(i).(*oStruct)
		if !ok {
			return "ring element is not a point"
		}
		x, okx := st.fields["X"].(oFloat)
		y, oky := st.fields["Y"].(oFloat)
		if !okx || !oky {
			return "corner " + showVal(st) + " is not made of the box's coordinates"
		}
		got = append(got, pt{x.r, y.r})
	}
	if len(got) == 5 {
		if got[4] != got[0] {
			return "five corners but the last does not repeat the first"
		}
		got = got[:4]
	}
	want := []pt{{box.minx, box.miny}, {box.maxx, box.miny}, {box.maxx, box.maxy}, {box.minx, box.maxy}}
	for _, dir := range []int{1, -1} {
		for start := 0; start < 4; start++ {
			okAll := true
			for k := 0; k < 4; k++ {
				if got[k] != want[((start+dir*k)%4+4)%4] {
					okAll = false
				}
			}
			if okAll {
				return ""
			}
		}
	}
	return fmt.Sprintf("the ring %v is not the box's four corners in ring order (want (minx,miny),(maxx,miny),(maxx,maxy),(minx,maxy) up to rotation/direction)", showVal(ring))
}

// ---------------------------------------------------------------- R5

func (a *c01) r5() {
	c := a.c
	dep := c.P.Dep(polyclipPath)
	if dep == nil || len(dep.Syntax) == 0 {
		c.Unk("C01.R5", "polyclip#compute", token.NoPos, "dependency source not loaded")
		return
	}
	info := dep.TypesInfo
	var compute *ast.FuncDecl
	for _, f := range dep.Syntax {
		for _, d := range f.Decls {
			fd, ok := d.(*ast.FuncDecl)
			if !ok || fd.Recv == nil || fd.Body == nil {
				continue
			}
			// the method with one Op parameter returning Polygon that Construct calls
			ps := paramVars(info, fd.Type)
			if len(ps) == 1 && ps[0] != nil && isPolyclipOp(ps[0].Type()) && fd.Name.Name == "compute" {
				compute = fd
			}
		}
	}
	if compute == nil {
		c.Unk("C01.R5", "polyclip#compute", token.NoPos, "clipper entry with an Op parameter not found")
		return
	}
	opParam := paramVars(info, compute.Type)[0]
	k := 0
	for _, st := range compute.Body.List {
		is, ok := st.(*ast.IfStmt)
		if !ok {
			continue
		}
		var sw *ast.SwitchStmt
		for _, bs := range is.Body.List {
			if s, ok := bs.(*ast.SwitchStmt); ok && objOf(info, s.Tag) == opParam {
				sw = s
			}
		}
		if sw == nil {
			continue
		}
		k++
		cons := fmt.Sprintf("polyclip.(*clipper).compute#trivial-case-%d", k)
		caseOf := map[string]*ast.CaseClause{}
		for _, cl := range sw.Body.List {
			cc := cl.(*ast.CaseClause)
			for _, e := range cc.List {
				if o, ok := objOf(info, e).(*types.Const); ok {
					caseOf[o.Name()] = cc
				}
			}
		}
		pos := c.P.Fset.Position(is.Pos())
		where := fmt.Sprintf("%s:%d", strings.TrimPrefix(pos.Filename, "/root/go/pkg/mod/"), pos.Line)
		if caseOf["UNION"] != nil && caseOf["XOR"] != caseOf["UNION"] {
			// XOR falls to whatever follows the switch; acceptable only if identical to UNION's body
			same := caseOf["XOR"] != nil && src(&ast.BlockStmt{List: caseOf["XOR"].Body}) == src(&ast.BlockStmt{List: caseOf["UNION"].Body})
			if !same {
				c.Bad("C01.R5", cons, token.NoPos, "%s: when `%s`, UNION returns the operands but XOR falls through to the empty result; for disjoint A, B the true A xor B equals A ∪ B and has area", where, src(is.Cond))
				continue
			}
		}
		c.OK("C01.R5", cons, token.NoPos, "%s: XOR treated like UNION", where)
	}
	if k == 0 {
		c.Unk("C01.R5", "polyclip#compute", token.NoPos, "no trivial-case switch found")
	}
}

// r4polygonal: shortcut results of (*Bounds).<op>(opaque polygon) must follow from the box relation alone.
func (a *c01) r4polygonal(e *c04e2, m *types.Func, opn string) {
	c := a.c
	name, pos := c.P.FuncName(m)+"#polygonal", c.P.Decl(m).Pos()
	wsT := c.P.NamedType("geom", "WithinStatus")
	n, general, runs := 0, 0, 0
	var script []int
	var doms []int
	qpos := 0
	e.it.oracle = func(f *types.Func, res types.Type) (oval, bool) {
		dom := 0
		if b, ok := res.Underlying().(*types.Basic); ok && b.Kind() == types.Bool {
			dom = 2
		} else if wsT != nil && types.Identical(res, wsT) {
			dom = 3
		}
		if dom == 0 {
			return nil, false
		}
		if qpos >= len(script) {
			script = append(script, 0)
			doms = append(doms, dom)
		}
		v := script[qpos]
		qpos++
		if dom == 2 {
			return oBool(v == 1), true
		}
		return oInt(v), true
	}
	defer func() { e.it.oracle = nil }()
	bad := false
	for _, bp := range e.boxPairs(false) {
		n++
		within := bp.b.minx >= bp.a.minx && bp.b.miny >= bp.a.miny && bp.b.maxx <= bp.a.maxx && bp.b.maxy <= bp.a.maxy // bounds(p) ⊆ b
		noArea := max64(bp.a.minx, bp.b.minx) >= min64(bp.a.maxx, bp.b.maxx) || max64(bp.a.miny, bp.b.miny) >= min64(bp.a.maxy, bp.b.maxy)
		script, doms = nil, nil
		for {
			qpos = 0
			runs++
			recv := e.mk(bp.a)
			op := &oOpaque{name: "p", bounds: e.mk(bp.b)}
			res, why := e.it.Call(m, oPtr{recv}, []oval{oIface{opaque: op}}, 0)
			answers := fmt.Sprint(script[:min(qpos, len(script))])
			kind := "general"
			if why == "" {
				switch v := res[0].(type) {
				case oTop:
				case oNil:
					kind = "empty"
				case oIface:
					switch {
					case v.opaque == op:
						kind = "p"
					case v.opaque == nil && v.dyn == nil:
						kind = "empty"
					default:
						if pp, ok := v.dyn.(oPtr); ok && pp.s == recv {
							kind = "b"
						} else {
							kind = "other:" + showVal(v)
						}
					}
				case oPtr:
					if v.s == recv {
						kind = "b"
					} else if v.s == nil {
						kind = "empty"
					} else {
						kind = "other:" + showVal(v)
					}
				default:
					kind = "other:" + showVal(res[0])
				}
			}
			just, want := true, ""
			switch kind {
			case "general":
				general++
			case "empty":
				switch opn {
				case "Intersection":
					just, want = noArea, "the boxes share no area"
				default:
					just, want = false, "never: an empty "+opn+" cannot follow from the boxes (a polygon need not cover the rectangle it was tested against at two corners)"
				}
			case "p":
				switch opn {
				case "Intersection":
					just, want = within, "bounds(p) ⊆ b"
				default:
					just, want = false, "never"
				}
			case "b":
				switch opn {
				case "Difference":
					just, want = noArea, "the boxes share no area"
				case "Union":
					just, want = within, "bounds(p) ⊆ b"
				default:
					just, want = false, "never: the polygon's shape is unknown"
				}
			default:
				just, want = false, "an unrecognised shortcut value"
			}
			if !just {
				c.Bad("C01.R4", name, pos, "ordering b=%s bounds(p)=%s, shape queries answered %s: (*Bounds).%s returns %s without clipping; that result is justified only when %s", bp.a, bp.b, answers, opn, map[string]string{"empty": "nil/empty", "p": "p itself", "b": "the box itself"}[kind]+strings.TrimPrefix(kind, map[string]string{"empty": "empty", "p": "p", "b": "b"}[kind]), want)
				bad = true
				break
			}
			// next script (odometer over the answers actually consumed)
			script, doms = script[:min(qpos, len(script))], doms[:min(qpos, len(doms))]
			i := len(script) - 1
			for i >= 0 && script[i] == doms[i]-1 {
				i--
			}
			if i < 0 {
				break
			}
			script[i]++
			script, doms = script[:i+1], doms[:i+1]
		}
		if bad {
			break
		}
	}
	c.Evals(runs)
	if bad {
		return
	}
	if general == 0 {
		c.Bad("C01.R4", name, pos, "no ordering reaches the general clip: overlapping operands are never clipped")
		return
	}
	c.OK("C01.R4", name, pos, "%d box orderings × every answer to shape queries (%d runs): shortcuts fire only where the box relation alone implies them; %d runs reach the general clip", n, runs, general)
}
