package main

// E1: loading of /repo's current working tree into a type-checked program
// (syntax, types, SSA), and symbol resolution for API anchors.

import (
	"fmt"
	"go/ast"
	"go/token"
	"go/types"
	"os"
	"os/exec"
	"path/filepath"
	"sort"
	"strings"

	"golang.org/x/tools/go/callgraph"
	"golang.org/x/tools/go/packages"
	"golang.org/x/tools/go/ssa"
	"golang.org/x/tools/go/ssa/ssautil"
)

const modPath = "github.com/ctessum/geom"

// excluded packages, with the reason printed on every run.
var excludedPkgs = map[string]string{
	modPath + "/carto": "does not type-check against the pinned gonum.org/v1/plot v0.9.0 (colormap.go: vg.Font vs font.Font); absent from the 129-test baseline; anchored by no property",
}

// Prog is the loaded program.
type Prog struct {
	Root    string
	GOARCH  string
	Fset    *token.FileSet
	All     map[string]*packages.Package // every package incl. dependencies, by import path
	Repo    []*packages.Package          // in-scope repo packages, sorted by path
	SSA     *ssa.Program
	decls   map[*types.Func]*ast.FuncDecl
	declPkg map[*types.Func]*packages.Package
	cgCHA   *callgraph.Graph
	cgVTA   *callgraph.Graph
	nFuncs  int
}

func goEnv(goarch string) []string {
	env := []string{}
	for _, e := range os.Environ() {
		k := e
		if i := strings.IndexByte(e, '='); i >= 0 {
			k = e[:i]
		}
		switch k {
		case "GOFLAGS", "GOPROXY", "GOSUMDB", "GOTOOLCHAIN", "GOWORK", "GOARCH", "GOOS", "CGO_ENABLED":
			continue
		}
		env = append(env, e)
	}
	env = append(env, "GOFLAGS=", "GOPROXY=off", "GOSUMDB=off", "GOTOOLCHAIN=local", "GOWORK=off", "CGO_ENABLED=0")
	if goarch != "" {
		env = append(env, "GOARCH="+goarch)
	}
	return env
}

// Load loads the in-scope packages of the repository rooted at root.
func Load(root, goarch string, needSSA bool) (*Prog, error) {
	cmd := exec.Command("go", "list", "./...")
	cmd.Dir = root
	cmd.Env = goEnv(goarch)
	out, err := cmd.Output()
	if err != nil {
		msg := ""
		if ee, ok := err.(*exec.ExitError); ok {
			msg = string(ee.Stderr)
		}
		return nil, fmt.Errorf("go list ./... in %s: %v %s", root, err, msg)
	}
	var patterns []string
	for _, l := range strings.Fields(string(out)) {
		if _, ex := excludedPkgs[l]; ex {
			continue
		}
		if !strings.HasPrefix(l, modPath) {
			return nil, fmt.Errorf("unexpected package %q (module path changed?)", l)
		}
		patterns = append(patterns, l)
	}
	if len(patterns) < 11 {
		return nil, fmt.Errorf("only %d in-scope packages listed (need >= 11)", len(patterns))
	}
	cfg := &packages.Config{
		Mode:  packages.LoadAllSyntax,
		Dir:   root,
		Env:   goEnv(goarch),
		Tests: false,
	}
	pkgs, err := packages.Load(cfg, patterns...)
	if err != nil {
		return nil, fmt.Errorf("packages.Load: %v", err)
	}
	p := &Prog{Root: root, GOARCH: goarch, All: map[string]*packages.Package{},
		decls: map[*types.Func]*ast.FuncDecl{}, declPkg: map[*types.Func]*packages.Package{}}
	var errs []string
	packages.Visit(pkgs, nil, func(pk *packages.Package) {
		p.All[pk.PkgPath] = pk
		if strings.HasPrefix(pk.PkgPath, modPath) {
			for _, e := range pk.Errors {
				errs = append(errs, e.Error())
			}
		}
	})
	if len(errs) > 0 {
		return nil, fmt.Errorf("in-scope packages have errors: %s", strings.Join(errs, "; "))
	}
	for _, pk := range pkgs {
		if pk.Types == nil || pk.TypesInfo == nil || len(pk.Syntax) == 0 {
			return nil, fmt.Errorf("package %s not fully loaded", pk.PkgPath)
		}
		p.Repo = append(p.Repo, pk)
		p.Fset = pk.Fset
	}
	sort.Slice(p.Repo, func(i, j int) bool { return p.Repo[i].PkgPath < p.Repo[j].PkgPath })
	if len(p.Repo) < 11 {
		return nil, fmt.Errorf("only %d in-scope packages loaded", len(p.Repo))
	}
	for _, pk := range p.Repo {
		for _, f := range pk.Syntax {
			for _, d := range f.Decls {
				if fd, ok := d.(*ast.FuncDecl); ok {
					if obj, ok := pk.TypesInfo.Defs[fd.Name].(*types.Func); ok {
						p.decls[obj] = fd
						p.declPkg[obj] = pk
						p.nFuncs++
					}
				}
			}
		}
	}
	if needSSA {
		prog, _ := ssautil.AllPackages(pkgs, ssa.BuilderMode(0))
		prog.Build()
		p.SSA = prog
	}
	return p, nil
}

// short package names: "" or "geom" is the root package; otherwise the path
// below the module root, e.g. "encoding/wkb".
func (p *Prog) Pkg(short string) *packages.Package {
	path := modPath
	if short != "" && short != "geom" {
		path = modPath + "/" + short
	}
	for _, pk := range p.Repo {
		if pk.PkgPath == path {
			return pk
		}
	}
	return nil
}

// Dep returns a dependency package (any import path), or nil.
func (p *Prog) Dep(path string) *packages.Package { return p.All[path] }

// Func resolves a package-level function.
func (p *Prog) Func(pkg, name string) *types.Func {
	pk := p.Pkg(pkg)
	if pk == nil {
		return nil
	}
	f, _ := pk.Types.Scope().Lookup(name).(*types.Func)
	return f
}

// NamedType resolves a named type in a repo package.
func (p *Prog) NamedType(pkg, name string) *types.Named {
	pk := p.Pkg(pkg)
	if pk == nil {
		return nil
	}
	tn, _ := pk.Types.Scope().Lookup(name).(*types.TypeName)
	if tn == nil {
		return nil
	}
	n, _ := tn.Type().(*types.Named)
	return n
}

// Method resolves method `name` on named type `typ` (value or pointer receiver).
func (p *Prog) Method(pkg, typ, name string) *types.Func {
	n := p.NamedType(pkg, typ)
	if n == nil {
		return nil
	}
	for i := 0; i < n.NumMethods(); i++ {
		if m := n.Method(i); m.Name() == name {
			return m
		}
	}
	return nil
}

// Decl returns the syntax of a repo function (nil for dependencies).
func (p *Prog) Decl(f *types.Func) *ast.FuncDecl {
	if f == nil {
		return nil
	}
	return p.decls[f.Origin()]
}

// DeclPkg returns the package holding a repo function.
func (p *Prog) DeclPkg(f *types.Func) *packages.Package {
	if f == nil {
		return nil
	}
	return p.declPkg[f.Origin()]
}

// SSAFunc returns the SSA function for a types.Func.
func (p *Prog) SSAFunc(f *types.Func) *ssa.Function {
	if p.SSA == nil || f == nil {
		return nil
	}
	return p.SSA.FuncValue(f)
}

// Position formats a position relative to the repository root.
func (p *Prog) Position(pos token.Pos) string {
	if !pos.IsValid() {
		return "-"
	}
	ps := p.Fset.Position(pos)
	rel, err := filepath.Rel(p.Root, ps.Filename)
	if err != nil || strings.HasPrefix(rel, "..") {
		rel = ps.Filename
	}
	return fmt.Sprintf("%s:%d", rel, ps.Line)
}

// FuncName gives a stable symbol path for a function: pkg.Func or pkg.(Recv).Method.
func (p *Prog) FuncName(f *types.Func) string {
	if f == nil {
		return "<nil>"
	}
	pkg := ""
	if f.Pkg() != nil {
		pkg = strings.TrimPrefix(strings.TrimPrefix(f.Pkg().Path(), modPath), "/")
		if pkg == "" {
			pkg = "geom"
		}
	}
	sig := f.Type().(*types.Signature)
	if r := sig.Recv(); r != nil {
		t := r.Type()
		star := ""
		if pt, ok := t.(*types.Pointer); ok {
			t = pt.Elem()
			star = "*"
		}
		name := t.String()
		if n, ok := t.(*types.Named); ok {
			name = n.Obj().Name()
		}
		return fmt.Sprintf("%s.(%s%s).%s", pkg, star, name, f.Name())
	}
	return pkg + "." + f.Name()
}

// RepoFuncs iterates the repo's declared functions in a stable order.
func (p *Prog) RepoFuncs() []*types.Func {
	var fs []*types.Func
	for f := range p.decls {
		fs = append(fs, f)
	}
	// by file name and offset, not by token.Pos: packages are parsed concurrently, so the file
	// bases in the FileSet (and with them the relative order of two files) vary from run to run
	type key struct {
		file string
		off  int
	}
	ks := map[*types.Func]key{}
	for _, f := range fs {
		ps := p.Fset.Position(p.decls[f].Pos())
		ks[f] = key{ps.Filename, ps.Offset}
	}
	sort.Slice(fs, func(i, j int) bool {
		a, b := ks[fs[i]], ks[fs[j]]
		if a.file != b.file {
			return a.file < b.file
		}
		return a.off < b.off
	})
	return fs
}

// PosLess orders two positions by file name and offset.  token.Pos values of different files
// are not comparable across runs: packages are parsed concurrently, so file bases vary.
func (p *Prog) PosLess(a, b token.Pos) bool {
	pa, pb := p.Fset.Position(a), p.Fset.Position(b)
	if pa.Filename != pb.Filename {
		return pa.Filename < pb.Filename
	}
	return pa.Offset < pb.Offset
}
