package main

// C09.R7 — first eccentricity e versus its square e².
//
// Both are dimensionless float64 values, so nothing in Go's types separates
// them, yet the series helpers (e0fn…e3fn) take e² and the closed-form helpers
// (msfnz, tsfnz, qsfnz, phi2z, …) take e.  A small two-point type system:
//
//	SR.Es : e²        SR.E : e           (anchored: some assignment X.E = math.Sqrt(X.Es))
//	math.Sqrt(e²) : e    e*e, math.Pow(e,2) : e²
//	1 − r*r, 1 − math.Pow(r,2) with r = X.B/X.A : e²
//
// types are propagated through single-typed locals (including variables
// captured by the projection closures).  Obligation, per helper parameter:
// all call sites that pass a typed argument pass the same type.  A parameter
// that receives e at one site and e² at another is wrong at one of them
// whatever the helper computes (Engler's contradiction rule); the report names
// the minority sites.

import (
	"fmt"
	"go/ast"
	"go/token"
	"go/types"
	"sort"
	"strings"
)

const (
	tyNone = iota
	tyE
	tyES
	tyMixed
)

func tyName(t int) string { return [...]string{"untyped", "e", "e²", "both"}[t] }

func (a *c09) eccentricity() {
	c := a.c
	info := a.info
	srT := c.P.NamedType("proj", "SR")
	if srT == nil {
		c.Unk("C09.R7", "proj.SR", token.NoPos, "type anchor does not resolve")
		return
	}
	field := func(name string) *types.Var {
		st := srT.Underlying().(*types.Struct)
		for i := 0; i < st.NumFields(); i++ {
			if st.Field(i).Name() == name {
				return st.Field(i)
			}
		}
		return nil
	}
	fE, fEs, fA, fB := field("E"), field("Es"), field("A"), field("B")
	if fE == nil || fEs == nil || fA == nil || fB == nil {
		c.Unk("C09.R7", "proj.SR#fields", token.NoPos, "fields E, Es, A, B not all present")
		return
	}
	fieldOf := func(e ast.Expr) *types.Var {
		if sel, ok := unparen(e).(*ast.SelectorExpr); ok {
			if sl := info.Selections[sel]; sl != nil && sl.Kind() == types.FieldVal {
				v, _ := sl.Obj().(*types.Var)
				return v
			}
		}
		return nil
	}
	// anchor: X.E = math.Sqrt(X.Es) somewhere
	anchored := false
	for _, fn := range c.P.RepoFuncs() {
		if c.P.DeclPkg(fn) != a.p {
			continue
		}
		ast.Inspect(c.P.Decl(fn).Body, func(n ast.Node) bool {
			if as, ok := n.(*ast.AssignStmt); ok && len(as.Lhs) == 1 && len(as.Rhs) == 1 && fieldOf(as.Lhs[0]) == fE {
				if call, ok := unparen(as.Rhs[0]).(*ast.CallExpr); ok && isFuncIn(callee(info, call), "math", "Sqrt") && fieldOf(call.Args[0]) == fEs {
					anchored = true
				}
			}
			return true
		})
	}
	if !anchored {
		c.Unk("C09.R7", "proj.SR#E=sqrt(Es)", token.NoPos, "no assignment X.E = math.Sqrt(X.Es) found: the meaning of the two fields is not established")
		return
	}
	type site struct {
		pos token.Pos
		fn  *types.Func
		ty  int
		arg string
	}
	sites := map[*types.Func]map[int][]site{}
	for _, fn := range c.P.RepoFuncs() {
		if c.P.DeclPkg(fn) != a.p {
			continue
		}
		fd := c.P.Decl(fn)
		sc := newFnScope(info, fd.Body)
		memo := map[types.Object]int{}
		var ty func(e ast.Expr, depth int) int
		isRatio := func(e ast.Expr) bool { // X.B / X.A, directly or via a single-def local
			e = unparen(e)
			if o := objOf(info, e); o != nil {
				if ds := sc.defs[o]; len(ds) == 1 && ds[0] != nil {
					e = unparen(ds[0])
				}
			}
			b, ok := e.(*ast.BinaryExpr)
			return ok && b.Op == token.QUO && fieldOf(b.X) == fB && fieldOf(b.Y) == fA
		}
		square := func(e ast.Expr) ast.Expr { // x*x or math.Pow(x, 2) → x
			e = unparen(e)
			if b, ok := e.(*ast.BinaryExpr); ok && b.Op == token.MUL && sameExpr(info, b.X, b.Y) {
				return b.X
			}
			if call, ok := e.(*ast.CallExpr); ok && isFuncIn(callee(info, call), "math", "Pow") && len(call.Args) == 2 {
				if v := constOf(info, call.Args[1]); v != nil && v.String() == "2" {
					return call.Args[0]
				}
			}
			return nil
		}
		ty = func(e ast.Expr, depth int) int {
			e = unparen(e)
			if depth > 6 {
				return tyNone
			}
			switch f := fieldOf(e); f {
			case fE:
				return tyE
			case fEs:
				return tyES
			}
			if id, ok := e.(*ast.Ident); ok {
				o := objOf(info, id)
				if o == nil {
					return tyNone
				}
				if t, ok := memo[o]; ok {
					return t
				}
				memo[o] = tyNone
				t := tyNone
				for i, d := range sc.defs[o] {
					dt := tyNone
					if d != nil {
						dt = ty(d, depth+1)
					}
					if i == 0 {
						t = dt
					} else if dt != t {
						t = tyMixed
					}
				}
				if t == tyMixed {
					t = tyNone
				}
				memo[o] = t
				return t
			}
			if call, ok := e.(*ast.CallExpr); ok && isFuncIn(callee(info, call), "math", "Sqrt") && len(call.Args) == 1 {
				if ty(call.Args[0], depth+1) == tyES {
					return tyE
				}
				return tyNone
			}
			if x := square(e); x != nil && ty(x, depth+1) == tyE {
				return tyES
			}
			if b, ok := e.(*ast.BinaryExpr); ok && b.Op == token.SUB {
				if v := constOf(info, b.X); v != nil && v.String() == "1" {
					if x := square(b.Y); x != nil && isRatio(x) {
						return tyES
					}
				}
			}
			return tyNone
		}
		ast.Inspect(fd.Body, func(n ast.Node) bool {
			call, ok := n.(*ast.CallExpr)
			if !ok {
				return true
			}
			g := callee(info, call)
			if g == nil || c.P.Decl(g) == nil || c.P.DeclPkg(g) != a.p {
				return true
			}
			// only helpers that compute a number from their arguments give a parameter a meaning;
			// a generic comparison or printing helper takes e here and e² there without harm
			computes := false
			if rs := g.Type().(*types.Signature).Results(); rs != nil {
				for k := 0; k < rs.Len(); k++ {
					if isFloat64(rs.At(k).Type()) {
						computes = true
					}
				}
			}
			if !computes {
				return true
			}
			for i, arg := range call.Args {
				if t := ty(arg, 0); t == tyE || t == tyES {
					if sites[g] == nil {
						sites[g] = map[int][]site{}
					}
					sites[g][i] = append(sites[g][i], site{arg.Pos(), fn, t, src(arg)})
				}
			}
			return true
		})
	}
	var helpers []*types.Func
	for g := range sites {
		helpers = append(helpers, g)
	}
	sort.Slice(helpers, func(i, j int) bool { return c.P.FuncName(helpers[i]) < c.P.FuncName(helpers[j]) })
	for _, g := range helpers {
		var idxs []int
		for i := range sites[g] {
			idxs = append(idxs, i)
		}
		sort.Ints(idxs)
		gps := paramVars(info, c.P.Decl(g).Type)
		for _, i := range idxs {
			ss := sites[g][i]
			pname := fmt.Sprintf("#%d", i)
			if i < len(gps) && gps[i] != nil {
				pname = gps[i].Name()
			}
			cons := fmt.Sprintf("%s#param:%s", c.P.FuncName(g), pname)
			nE, nES := 0, 0
			for _, s := range ss {
				if s.ty == tyE {
					nE++
				} else {
					nES++
				}
			}
			if nE == 0 || nES == 0 {
				c.OK("C09.R7", cons, c.P.Decl(g).Pos(), "%d typed call sites, all pass %s", len(ss), tyName(ss[0].ty))
				continue
			}
			minor := tyE
			if nES < nE {
				minor = tyES
			}
			var where []string
			var pos token.Pos
			for _, s := range ss {
				if s.ty == minor {
					where = append(where, fmt.Sprintf("%s in %s (`%s`)", c.P.Position(s.pos), s.fn.Name(), s.arg))
					pos = s.pos
				}
			}
			c.Bad("C09.R7", cons, pos, "parameter %s of %s receives the eccentricity e at %d call sites and its square e² at %d: it cannot mean both; the deviating site(s): %s", pname, g.Name(), nE, nES, strings.Join(where, ", "))
		}
	}
	if len(helpers) == 0 {
		c.Unk("C09.R7", "proj#eccentricity-arguments", token.NoPos, "no call site passes a typed eccentricity")
	}
}
