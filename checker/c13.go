package main

// C13 — Simplify: terminates, keeps endpoints, subsequence of the input, vets
// every skipping segment, treats members independently.

import (
	"fmt"
	"go/ast"
	"go/token"
	"go/types"
	"strings"
)

func init() { register("C13", false, checkC13) }

type c13 struct {
	c     *Ctx
	info  *types.Info
	curve *types.Func // the curve simplifier reached from the Simplify methods
}

func checkC13(c *Ctx) {
	c.Rule("C13.R1", "no stutter path in the curve simplifier: no header-to-header path of an outer loop that leaves every variable its conditions read unchanged and is feasible on the first iteration (definite non-termination)")
	c.Rule("C13.R2", "the output is a fresh slice; every vertex appended to it is an element of the input curve, which is never written; the first append is the curve's first vertex; the exit flag is only raised right after appending the curve's last vertex and is the only way out of the scan")
	c.Rule("C13.R3", "every vertex appended after skipping input vertices is dominated by the simplicity test of the replacing segment against kept output, remaining input and the other curves, or by adjacency to the previous kept vertex")
	c.Rule("C13.R5", "the deviation of a skipped vertex is its distance to the replacing *segment*: the point-to-segment distance clamps the projection parameter to [0,1] and never divides 0 by 0")
	c.Rule("C13.R6", "the segment-intersection routine behind the simplicity test is exact: a tolerance that multiplies the squared segment lengths in its parallel/collinear tests is the constant 0 (a positive one classifies a shallow crossing as parallel and reports no intersection)")
	c.Rule("C13.R4", "Multi* Simplify methods simplify member i into index i of a fresh result over the full range; Polygon.Simplify passes the whole polygon as the other curves")
	a := &c13{c: c, info: c.P.Pkg("geom").TypesInfo}
	a.members()
	if a.curve == nil {
		c.Unk("C13.R1", "geom#curve-simplifier", token.NoPos, "the function simplifying one curve was not found below the Simplify methods")
		return
	}
	a.termination()
	a.subsequence()
	a.vetting()
	checkSegmentDistance(c, "C13.R5")
	a.exactCrossing()
	c.Floor("C13.R6", 1)
	c.Floor("C13.R5", 1)
	c.Floor("C13.R1", 1)
	c.Floor("C13.R2", 1)
	c.Floor("C13.R3", 1)
	c.Floor("C13.R4", 4)
}

// ---------------------------------------------------------------- R4 (+ discovery)

func (a *c13) members() {
	c := a.c
	for _, tn := range []string{"LineString", "MultiLineString", "Polygon", "MultiPolygon"} {
		m := c.P.Method("geom", tn, "Simplify")
		fd := c.P.Decl(m)
		if fd == nil {
			c.Unk("C13.R4", "geom."+tn+".Simplify", token.NoPos, "API anchor does not resolve")
			continue
		}
		name := c.P.FuncName(m)
		recv := receiverVar(a.info, fd)
		tol := paramVars(a.info, fd.Type)[0]
		sc := newFnScope(a.info, fd.Body)
		msg := ""
		var pos token.Pos = fd.Pos()
		prob := func(p token.Pos, s string) {
			if msg == "" {
				msg, pos = s, p
			}
		}
		// calls into the curve simplifier: a repo function ([]Point-like, []Path, float64) []Point
		ast.Inspect(fd.Body, func(n ast.Node) bool {
			call, ok := n.(*ast.CallExpr)
			if !ok {
				return true
			}
			f := callee(a.info, call)
			if f == nil || c.P.Decl(f) == nil || f.Type().(*types.Signature).Recv() != nil || len(call.Args) != 3 {
				return true
			}
			a.curve = f
			if objOf(a.info, call.Args[2]) != tol {
				prob(call.Pos(), "tolerance is not passed through")
			}
			switch tn {
			case "LineString":
				if objOf(a.info, sc.canon(call.Args[0])) != recv {
					prob(call.Pos(), "the receiver is not the curve being simplified")
				}
				if lit, ok := unparen(call.Args[1]).(*ast.CompositeLit); !ok || len(lit.Elts) != 0 {
					if !isNilConst(a.info, call.Args[1]) {
						prob(call.Pos(), "a lone line string has no other curves")
					}
				}
			case "Polygon":
				if objOf(a.info, call.Args[1]) != recv {
					prob(call.Pos(), "the whole polygon must be passed as the other curves (rings must not be made to cross each other)")
				}
			}
			return true
		})
		if tn != "LineString" {
			copyLoops(a.info, sc, recv, fd, false, prob)
			// result allocation
			ast.Inspect(fd.Body, func(n ast.Node) bool {
				r, ok := n.(*ast.ReturnStmt)
				if !ok || len(r.Results) != 1 {
					return true
				}
				o := objOf(a.info, r.Results[0])
				okMake := false
				if o != nil {
					for _, d := range sc.defs[o] {
						if call, ok := unparen(d).(*ast.CallExpr); ok && d != nil && builtinName(a.info, call) == "make" && len(call.Args) >= 2 {
							af := sc.aff(call.Args[1])
							okMake = af.ok && af.K == 0 && af.Of != nil && objOf(a.info, af.Of) == recv
						}
					}
				}
				if !okMake {
					prob(r.Pos(), "result is not a fresh collection with one entry per member")
				}
				return true
			})
			// member simplification: elem.Simplify(tol) or curve(elem, …)
			found := false
			ast.Inspect(fd.Body, func(n ast.Node) bool {
				call, ok := n.(*ast.CallExpr)
				if !ok {
					return true
				}
				if sel, ok := unparen(call.Fun).(*ast.SelectorExpr); ok && sel.Sel.Name == "Simplify" && len(call.Args) == 1 {
					found = true
					if objOf(a.info, call.Args[0]) != tol {
						prob(call.Pos(), "tolerance is not passed through")
					}
				}
				if f := callee(a.info, call); f != nil && f == a.curve {
					found = true
				}
				return true
			})
			if !found {
				prob(fd.Pos(), "members are not simplified")
			}
		}
		if msg != "" {
			c.Bad("C13.R4", name, pos, "%s", msg)
		} else {
			c.OK("C13.R4", name, fd.Pos(), "member i → index i of a fresh result, full range")
		}
	}
}

// ---------------------------------------------------------------- R1

func (a *c13) termination() {
	c := a.c
	fd := c.P.Decl(a.curve)
	name := c.P.FuncName(a.curve)
	n := 0
	bad := false
	// outer loops = for statements at the top level of the body
	for _, st := range fd.Body.List {
		loop, ok := st.(*ast.ForStmt)
		if !ok {
			continue
		}
		n++
		entry := collectEntry(a.info, fd.Body.List, loop)
		for _, p := range stutterPaths(a.info, loop) {
			ef := entry.clone()
			understood := true
			for _, cd := range p.conds {
				if !ef.constrain(a.info, cd.e, cd.truth) {
					understood = false
				}
			}
			if !understood {
				continue
			}
			if ok, wit := ef.feasible(); ok {
				var cs []string
				for _, cd := range p.conds {
					neg := ""
					if !cd.truth {
						neg = "not "
					}
					cs = append(cs, neg+"("+src(cd.e)+")")
				}
				c.Bad("C13.R1", name, loop.Pos(), "the loop has a path back to its header that changes no variable its conditions read (%s); it is taken on the very first iteration when %s, so Simplify never returns for such inputs", strings.Join(cs, ", "), wit)
				bad = true
				break
			}
		}
	}
	c.Evals(n)
	if n == 0 {
		c.OK("C13.R1", name, fd.Pos(), "no top-level scan loop")
	} else if !bad {
		c.OK("C13.R1", name, fd.Pos(), "%d outer loop(s): no stutter path feasible on the first iteration", n)
	}
}

// ---------------------------------------------------------------- R2

func (a *c13) subsequence() {
	c := a.c
	fd := c.P.Decl(a.curve)
	name := c.P.FuncName(a.curve)
	ps := paramVars(a.info, fd.Type)
	curve := ps[0]
	sc := newFnScope(a.info, fd.Body)
	msg := ""
	var pos token.Pos = fd.Pos()
	prob := func(p token.Pos, s string) {
		if msg == "" {
			msg, pos = s, p
		}
	}
	// output variable: the one returned
	var out types.Object
	ast.Inspect(fd.Body, func(n ast.Node) bool {
		if r, ok := n.(*ast.ReturnStmt); ok && len(r.Results) == 1 {
			if o := objOf(a.info, r.Results[0]); o != nil {
				out = o
			} else if !isNilConst(a.info, r.Results[0]) {
				prob(r.Pos(), "returns `"+src(r.Results[0])+"`")
			}
		}
		return true
	})
	if out == nil {
		c.Unk("C13.R2", name, fd.Pos(), "output variable not found")
		return
	}
	// fresh: first def is make(T, 0, …)
	fresh := false
	if ds := sc.defs[out]; len(ds) > 0 && ds[0] != nil {
		if call, ok := unparen(ds[0]).(*ast.CallExpr); ok && builtinName(a.info, call) == "make" && len(call.Args) >= 2 {
			if k, ok := constInt(a.info, call.Args[1]); ok && k == 0 {
				fresh = true
			}
		}
	}
	if !fresh {
		prob(fd.Pos(), "output is not a fresh empty slice (it may alias the input)")
	}
	// every write to out is out = append(out, curve[e]); curve is never written
	var appends []*ast.AssignStmt
	ast.Inspect(fd.Body, func(n ast.Node) bool {
		switch s := n.(type) {
		case *ast.AssignStmt:
			for i, l := range s.Lhs {
				if rootObj(a.info, l) == curve {
					prob(s.Pos(), "the input curve is written: `"+src(s)+"`")
				}
				if objOf(a.info, l) == out {
					if i == 0 && len(s.Rhs) == 1 {
						if call, ok := unparen(s.Rhs[0]).(*ast.CallExpr); ok {
							if builtinName(a.info, call) == "make" {
								continue
							}
							if builtinName(a.info, call) == "append" && len(call.Args) == 2 && objOf(a.info, call.Args[0]) == out {
								if ix, ok := unparen(call.Args[1]).(*ast.IndexExpr); ok && objOf(a.info, ix.X) == curve {
									appends = append(appends, s)
									continue
								}
								if call.Ellipsis.IsValid() && objOf(a.info, call.Args[1]) == curve {
									continue // the whole curve copied: trivially an order-preserving subsequence with both endpoints
								}
								prob(s.Pos(), "`"+src(call.Args[1])+"` is appended to the output but is not a vertex of the input curve")
								continue
							}
						}
					}
					prob(s.Pos(), "output modified by `"+src(s)+"`")
				} else if rootObj(a.info, l) == out && objOf(a.info, l) != out {
					prob(s.Pos(), "output element overwritten by `"+src(s)+"`")
				}
			}
		case *ast.IncDecStmt:
			if rootObj(a.info, s.X) == curve {
				prob(s.Pos(), "the input curve is written")
			}
		}
		return true
	})
	if len(appends) == 0 {
		prob(fd.Pos(), "nothing is appended to the output")
	}
	// first vertex: the first statement of the top-level scan loop appends curve[i] with i == 0 at entry
	for _, st := range fd.Body.List {
		loop, ok := st.(*ast.ForStmt)
		if !ok {
			continue
		}
		entry := collectEntry(a.info, fd.Body.List, loop)
		okFirst := false
		if len(loop.Body.List) > 0 {
			if as, ok := loop.Body.List[0].(*ast.AssignStmt); ok && len(appends) > 0 && as == appends[0] {
				ix := unparen(unparen(as.Rhs[0]).(*ast.CallExpr).Args[1]).(*ast.IndexExpr)
				if l := entry.lin(a.info, ix.Index); l.ok && l.k == 0 && l.c == 0 {
					okFirst = true
				}
			}
		}
		if !okFirst {
			prob(loop.Pos(), "the scan does not start by keeping the curve's first vertex")
		}
		// exit discipline
		a.exitDiscipline(loop, curve, out, prob)
	}
	if msg != "" {
		c.Bad("C13.R2", name, pos, "%s", msg)
	} else {
		c.OK("C13.R2", name, fd.Pos(), "%d append sites, all input vertices; first vertex kept; exit only after the last vertex", len(appends))
	}
}

// exitDiscipline: every break of the scan loop is `if flag { break }`; every
// `flag = true` directly follows `out = append(out, curve[E])` inside an if
// whose condition establishes E == len(curve)-1.
func (a *c13) exitDiscipline(loop *ast.ForStmt, curve, out types.Object, prob func(token.Pos, string)) {
	brk, _, rets := earlyExits(loop.Body)
	flags := map[types.Object]bool{}
	for _, r := range rets {
		prob(r.Pos(), "return inside the scan loop bypasses the last-vertex append")
	}
	if loop.Cond != nil {
		prob(loop.Pos(), "scan loop has a condition: it can exit without keeping the last vertex")
	}
	for _, b := range brk {
		path := enclosing(loop.Body, b)
		okGuard := false
		for i := len(path) - 1; i >= 0; i-- {
			if is, ok := path[i].(*ast.IfStmt); ok {
				if o := objOf(a.info, is.Cond); o != nil && len(is.Body.List) == 1 && is.Body.List[0] == ast.Stmt(b) {
					flags[o] = true
					okGuard = true
				}
				break
			}
		}
		if !okGuard {
			prob(b.Pos(), "the scan loop is left by a break that is not guarded by the exit flag")
		}
	}
	if len(brk) == 0 {
		prob(loop.Pos(), "the scan loop has no exit")
	}
	// assignments flag = true
	ast.Inspect(loop.Body, func(n ast.Node) bool {
		blk, ok := n.(*ast.BlockStmt)
		if !ok {
			return true
		}
		for i, st := range blk.List {
			as, ok := st.(*ast.AssignStmt)
			if !ok || len(as.Lhs) != 1 || !flags[objOf(a.info, as.Lhs[0])] {
				continue
			}
			if v := constOf(a.info, as.Rhs[0]); v == nil || v.String() != "true" {
				continue
			}
			okPrev := false
			if i > 0 {
				if prev, ok := blk.List[i-1].(*ast.AssignStmt); ok && len(prev.Rhs) == 1 {
					if call, ok := unparen(prev.Rhs[0]).(*ast.CallExpr); ok && builtinName(a.info, call) == "append" && len(call.Args) == 2 && objOf(a.info, call.Args[0]) == out {
						if ix, ok := unparen(call.Args[1]).(*ast.IndexExpr); ok && objOf(a.info, ix.X) == curve {
							// enclosing if establishes index == len(curve)-1
							path := enclosing(loop.Body, blk)
							for k := len(path) - 1; k >= 0; k-- {
								if is, ok := path[k].(*ast.IfStmt); ok && is.Body == blk {
									if b, ok := unparen(is.Cond).(*ast.BinaryExpr); ok && b.Op == token.EQL {
										sc := newFnScope(a.info, loop)
										for _, pr := range [][2]ast.Expr{{b.X, b.Y}, {b.Y, b.X}} {
											af := sc.aff(pr[1])
											if sameExpr(a.info, pr[0], ix.Index) && af.ok && af.K == -1 && af.Of != nil && objOf(a.info, af.Of) == curve {
												okPrev = true
											}
										}
									}
									break
								}
							}
						}
					}
				}
			}
			if !okPrev {
				prob(as.Pos(), "the exit flag is raised without having just appended the curve's last vertex: the simplified curve may lose its endpoint")
			}
		}
		return true
	})
}

// ---------------------------------------------------------------- R3

func (a *c13) vetting() {
	c := a.c
	fd := c.P.Decl(a.curve)
	name := c.P.FuncName(a.curve)
	ps := paramVars(a.info, fd.Type)
	curve, others := ps[0], ps[1]
	var out types.Object
	ast.Inspect(fd.Body, func(n ast.Node) bool {
		if r, ok := n.(*ast.ReturnStmt); ok && len(r.Results) == 1 {
			if o := objOf(a.info, r.Results[0]); o != nil {
				out = o
			}
		}
		return true
	})
	// facts:  "vet|<iVar>|<E src>"  segment (curve[i], curve[E]) is adjacent-or-vetted for current values
	//         "ok|<var>"            curve[var] is adjacent-or-vetted relative to the previous kept vertex
	//         "anchor|<var>"        curve[var] is the current kept vertex (already in the output)
	type site struct {
		as  *ast.AssignStmt
		idx ast.Expr
		ok  bool
	}
	sites := map[*ast.AssignStmt]*site{}
	kill := func(s Facts, v types.Object) {
		for f := range s {
			parts := strings.Split(f, "|")
			for _, p := range parts[1:] {
				for _, tok := range strings.FieldsFunc(p, func(r rune) bool {
					return !(r == '_' || r >= '0' && r <= '9' || r >= 'a' && r <= 'z' || r >= 'A' && r <= 'Z')
				}) {
					if tok == v.Name() {
						delete(s, f)
					}
				}
			}
		}
	}
	cl := &FactsClient{}
	cl.OnBranch = func(cond ast.Expr, truth bool, s Facts) Facts {
		if truth {
			return s
		}
		// cond false with cond = A && (T1 || T2 || T3): !A (adjacency) or all tests false
		b, ok := unparen(cond).(*ast.BinaryExpr)
		if !ok || b.Op != token.LAND {
			return s
		}
		iv, e := a.adjacencyAtom(b.X)
		if iv == nil {
			return s
		}
		var tests []*ast.CallExpr
		var collect func(x ast.Expr) bool
		collect = func(x ast.Expr) bool {
			x = unparen(x)
			if bb, ok := x.(*ast.BinaryExpr); ok && bb.Op == token.LOR {
				return collect(bb.X) && collect(bb.Y)
			}
			if call, ok := x.(*ast.CallExpr); ok {
				tests = append(tests, call)
				return true
			}
			return false
		}
		if !collect(b.Y) {
			return s
		}
		// each test: T(curve[i], curve[E], set); sets must include kept output, remaining input, other curves
		var T *types.Func
		cover := map[string]bool{}
		for _, t := range tests {
			f := callee(a.info, t)
			if f == nil || c.P.Decl(f) == nil || len(t.Args) != 3 {
				return s
			}
			if T == nil {
				T = f
			} else if T != f {
				return s
			}
			a0, ok0 := unparen(t.Args[0]).(*ast.IndexExpr)
			a1, ok1 := unparen(t.Args[1]).(*ast.IndexExpr)
			if !ok0 || !ok1 || objOf(a.info, a0.X) != curve || objOf(a.info, a1.X) != curve || objOf(a.info, a0.Index) != iv || src(a1.Index) != src(e) {
				return s
			}
			if objOf(a.info, t.Args[2]) == others {
				cover["others"] = true
			} else if mentions(a.info, t.Args[2], out) {
				cover["kept"] = true
			} else if mentions(a.info, t.Args[2], curve) {
				cover["remaining"] = true
			}
		}
		if cover["others"] && cover["kept"] && cover["remaining"] {
			s[fmt.Sprintf("vet|%s|%s", iv.Name(), src(e))] = true
		}
		return s
	}
	cl.OnStmt = func(n ast.Node, s Facts) Facts {
		switch st := n.(type) {
		case *ast.AssignStmt:
			// append sites
			if len(st.Lhs) == 1 && len(st.Rhs) == 1 && objOf(a.info, st.Lhs[0]) == out && out != nil {
				if call, ok := unparen(st.Rhs[0]).(*ast.CallExpr); ok && builtinName(a.info, call) == "append" && len(call.Args) == 2 {
					if ix, ok := unparen(call.Args[1]).(*ast.IndexExpr); ok && objOf(a.info, ix.X) == curve {
						si := sites[st]
						if si == nil {
							si = &site{as: st, idx: ix.Index, ok: true}
							sites[st] = si
						}
						v := objOf(a.info, ix.Index)
						good := false
						if v != nil && (s["ok|"+v.Name()] || s["anchor|"+v.Name()]) {
							good = true
						}
						if !good {
							si.ok = false
						}
						if v != nil {
							s["anchor|"+v.Name()] = true
						}
						return s
					}
				}
			}
			for i, l := range st.Lhs {
				v := objOf(a.info, l)
				if v == nil {
					continue
				}
				// i = E where vet|i|E holds  ⇒ ok|i
				promote := false
				if len(st.Lhs) == len(st.Rhs) && (st.Tok == token.ASSIGN || st.Tok == token.DEFINE) {
					if s[fmt.Sprintf("vet|%s|%s", v.Name(), src(st.Rhs[i]))] {
						promote = true
					}
				}
				kill(s, v)
				if promote {
					s["ok|"+v.Name()] = true
				}
				if len(st.Lhs) == len(st.Rhs) {
					if k, ok := constInt(a.info, st.Rhs[i]); ok && k == 0 {
						s["anchor|"+v.Name()] = true // index 0: the scan's start, nothing is skipped
					}
				}
			}
		case *ast.IncDecStmt:
			if v := objOf(a.info, st.X); v != nil {
				kill(s, v)
			}
		}
		return s
	}
	init := Facts{}
	// the very first append keeps curve[i] with i = 0: nothing is skipped
	for _, st := range fd.Body.List {
		if as, ok := st.(*ast.AssignStmt); ok && len(as.Lhs) == 1 && len(as.Rhs) == 1 {
			if k, ok := constInt(a.info, as.Rhs[0]); ok && k == 0 {
				if v := objOf(a.info, as.Lhs[0]); v != nil {
					init["anchor|"+v.Name()] = true
				}
			}
		}
	}
	fl := &Flow[Facts]{C: cl, Info: a.info}
	fl.Run(fd.Body, init)
	if len(fl.Unsupported) > 0 {
		c.Unk("C13.R3", name, fl.Unsupported[0].Pos(), "unsupported control flow")
		return
	}
	if len(sites) == 0 {
		c.Unk("C13.R3", name, fd.Pos(), "no append sites found")
		return
	}
	k := 0
	var keys []*site
	for _, si := range sites {
		keys = append(keys, si)
	}
	// stable order by position
	for i := range keys {
		for j := i + 1; j < len(keys); j++ {
			if keys[j].as.Pos() < keys[i].as.Pos() {
				keys[i], keys[j] = keys[j], keys[i]
			}
		}
	}
	for _, si := range keys {
		k++
		cons := fmt.Sprintf("%s#append:curve[%s]", name, src(si.idx))
		if si.ok {
			c.OK("C13.R3", cons, si.as.Pos(), "kept vertex is the scan's start or adjacent-or-vetted")
		} else {
			c.Bad("C13.R3", cons, si.as.Pos(), "`%s` keeps a vertex that may lie several input vertices after the previous kept one without the replacing segment having been tested against kept output, remaining input and the other curves: a simple input can become self-intersecting", src(si.as))
		}
	}
}

// adjacencyAtom: e is `j > i+2` (so that its negation means the candidate E=j-1 is
// adjacent to i); returns i and the candidate vertex expression j-1.
func (a *c13) adjacencyAtom(e ast.Expr) (types.Object, ast.Expr) {
	b, ok := unparen(e).(*ast.BinaryExpr)
	if !ok || b.Op != token.GTR {
		return nil, nil
	}
	j := objOf(a.info, b.X)
	r, ok := unparen(b.Y).(*ast.BinaryExpr)
	if j == nil || !ok || r.Op != token.ADD {
		return nil, nil
	}
	i := objOf(a.info, r.X)
	k, kok := constInt(a.info, r.Y)
	if i == nil || !kok || k > 2 {
		return nil, nil
	}
	// j <= i+k with k<=2  ⇒  j-1 <= i+1: the candidate j-1 is i or i+1
	return i, &ast.BinaryExpr{X: &ast.Ident{Name: j.Name()}, Op: token.SUB, Y: &ast.BasicLit{Kind: token.INT, Value: "1"}}
}

// exactCrossing: tolerances in the intersection routine reached from the simplicity test are zero.
func (a *c13) exactCrossing() {
	c := a.c
	info := a.info
	pk := c.P.Pkg("geom")
	// the routine: a repo function returning (int, Point, Point) called from a function that the curve simplifier calls
	ptT := c.P.NamedType("geom", "Point")
	var routines []*types.Func
	for _, fn := range c.P.RepoFuncs() {
		if c.P.DeclPkg(fn) != pk {
			continue
		}
		sig := fn.Type().(*types.Signature)
		if sig.Results().Len() == 3 && types.Identical(sig.Results().At(1).Type(), ptT) && types.Identical(sig.Results().At(2).Type(), ptT) {
			if b, ok := sig.Results().At(0).Type().Underlying().(*types.Basic); ok && b.Info()&types.IsInteger != 0 {
				routines = append(routines, fn)
			}
		}
	}
	if len(routines) == 0 {
		c.Unk("C13.R6", "geom#segment-intersection", token.NoPos, "no (count, Point, Point) intersection routine found")
		return
	}
	for _, fn := range routines {
		fd := c.P.Decl(fn)
		sc := newFnScope(info, fd.Body)
		name := c.P.FuncName(fn) + "#tolerance"
		n := 0
		bad := ""
		var badPos token.Pos
		ast.Inspect(fd.Body, func(nd ast.Node) bool {
			b, ok := nd.(*ast.BinaryExpr)
			if !ok {
				return true
			}
			switch b.Op {
			case token.LSS, token.LEQ, token.GTR, token.GEQ:
			default:
				return true
			}
			// a side that is a product with a tolerance factor: an identifier whose only definition is a numeric constant
			for _, side := range []ast.Expr{b.X, b.Y} {
				ast.Inspect(side, func(m ast.Node) bool {
					mul, ok := m.(*ast.BinaryExpr)
					if !ok || mul.Op != token.MUL {
						return true
					}
					for _, f := range []ast.Expr{mul.X, mul.Y} {
						id, ok := unparen(f).(*ast.Ident)
						if !ok {
							continue
						}
						o := objOf(info, id)
						if o == nil || !isFloat64(o.Type()) {
							continue
						}
						ds := sc.defs[o]
						if len(ds) != 1 || ds[0] == nil {
							continue
						}
						v := constOf(info, ds[0])
						if v == nil {
							continue
						}
						n++
						if f64, _ := constFloat(v); f64 != 0 && bad == "" {
							bad = fmt.Sprintf("`%s` uses the tolerance %s = %s: segments that cross at an angle with sin² below it are treated as parallel and reported as not intersecting, so the simplifier accepts a shortcut that crosses the line", src(b), id.Name, v.String())
							badPos = b.Pos()
						}
					}
					return true
				})
			}
			return true
		})
		switch {
		case bad != "":
			c.Bad("C13.R6", name, badPos, "%s", bad)
		case n == 0:
			c.OK("C13.R6", name, fd.Pos(), "no tolerance factor in the comparisons")
		default:
			c.OK("C13.R6", name, fd.Pos(), "%d comparisons scaled by a tolerance, all with tolerance 0 (exact)", n)
		}
	}
}
