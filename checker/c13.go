package main

// C13 — Simplify: terminates, keeps endpoints, subsequence of the input, vets
// every skipping segment, treats members independently.

import (
	"fmt"
	"go/ast"
	"go/token"
	"go/types"
	"sort"
)

func init() { register("C13", false, checkC13) }

type c13 struct {
	c     *Ctx
	info  *types.Info
	curve *types.Func // the curve simplifier reached from the Simplify methods
}

func checkC13(c *Ctx) {
	c.Rule("C13.R1", "model evaluation: LineString.Simplify and Polygon.Simplify interpreted on curves of 0–5 (thorough: 6) vertices with the point-to-segment distance and the simplicity test replaced by oracles, every combination of answers to the questions actually asked enumerated: every run returns (no run exceeds the iteration bound, none panics)")
	c.Rule("C13.R2", "model evaluation, same runs: the result is a fresh slice holding an order-preserving subsequence of the input curve's vertices that starts with the first and ends with the last (empty for an empty curve); the input is unchanged")
	c.Rule("C13.R3", "model evaluation, same runs: for every pair of consecutive kept vertices the distance of each dropped vertex to the replacing segment was asked and answered 'within tolerance'; when vertices were dropped the replacing segment was tested — and found simple — against the kept output before it, the rest of the curve and the other curves")
	c.Rule("C13.R5", "the deviation of a skipped vertex is its distance to the replacing *segment*: the point-to-segment distance clamps the projection parameter to [0,1] and never divides 0 by 0")
	c.Rule("C13.R6", "the segment-intersection routine behind the simplicity test is exact: a tolerance that multiplies the squared segment lengths in its parallel/collinear tests is the constant 0 (a positive one classifies a shallow crossing as parallel and reports no intersection)")
	c.Rule("C13.R4", "model evaluation: with every deviation question answered alike (all within the tolerance; all beyond it), and with one vertex skippable but not two (where the simplicity test is asked — and must be asked about the member's own curves only), every shortcut simple, MultiLineString.Simplify and MultiPolygon.Simplify return at index i what LineString.Simplify / Polygon.Simplify returns for member i alone, over the full range, leaving the receiver unchanged and unshared")
	a := &c13{c: c, info: c.P.Pkg("geom").TypesInfo}
	c13model(c)
	segDistModel(c, "C13.R5")
	a.exactCrossing()
	c.Floor("C13.R6", 1)
	c.Floor("C13.R5", 1)
	c.Floor("C13.R1", 1)
	c.Floor("C13.R2", 1)
	c.Floor("C13.R3", 1)
	c.Floor("C13.R4", 2)
}

// ---------------------------------------------------------------- R4 (+ discovery)

// ---------------------------------------------------------------- R1

// exactCrossing: tolerances in the intersection routine reached from the simplicity test are zero.
func (a *c13) exactCrossing() {
	c := a.c
	info := a.info
	pk := c.P.Pkg("geom")
	// the routines: everything the simplicity test reaches inside the package (the crossing test and
	// its helpers, whatever their signatures)
	ptT := c.P.NamedType("geom", "Point")
	simple := c.P.Func("geom", "segMakesNotSimple")
	if simple == nil && ptT != nil {
		simple = c13simplicityByShape(c, ptT)
	}
	if simple == nil || c.P.Decl(simple) == nil {
		c.Unk("C13.R6", "geom#segment-intersection", token.NoPos, "the simplicity test (a bool function of a segment and of paths) was not found")
		return
	}
	var routines []*types.Func
	seen := map[*types.Func]bool{simple: true}
	frontier := []*types.Func{simple}
	for len(frontier) > 0 {
		f := frontier[0]
		frontier = frontier[1:]
		if f != simple {
			routines = append(routines, f)
		}
		ast.Inspect(c.P.Decl(f).Body, func(n ast.Node) bool {
			if call, ok := n.(*ast.CallExpr); ok {
				if g := callee(info, call); g != nil && !seen[g] && c.P.Decl(g) != nil && c.P.DeclPkg(g) == pk {
					seen[g] = true
					frontier = append(frontier, g)
				}
			}
			return true
		})
	}
	sort.Slice(routines, func(i, j int) bool { return c.P.FuncName(routines[i]) < c.P.FuncName(routines[j]) })
	if len(routines) == 0 {
		routines = []*types.Func{simple}
	}
	for _, fn := range routines {
		fd := c.P.Decl(fn)
		sc := newFnScope(info, fd.Body)
		name := c.P.FuncName(fn) + "#tolerance"
		n := 0
		bad := ""
		var badPos token.Pos
		ast.Inspect(fd.Body, func(nd ast.Node) bool {
			b, ok := nd.(*ast.BinaryExpr)
			if !ok {
				return true
			}
			switch b.Op {
			case token.LSS, token.LEQ, token.GTR, token.GEQ:
			default:
				return true
			}
			// a side that is a product with a tolerance factor: an identifier whose only definition is a numeric constant
			for _, side := range []ast.Expr{b.X, b.Y} {
				ast.Inspect(side, func(m ast.Node) bool {
					mul, ok := m.(*ast.BinaryExpr)
					if !ok || mul.Op != token.MUL {
						return true
					}
					for _, f := range []ast.Expr{mul.X, mul.Y} {
						id, ok := unparen(f).(*ast.Ident)
						if !ok {
							continue
						}
						o := objOf(info, id)
						if o == nil || !isFloat64(o.Type()) {
							continue
						}
						ds := sc.defs[o]
						if len(ds) != 1 || ds[0] == nil {
							continue
						}
						v := constOf(info, ds[0])
						if v == nil {
							continue
						}
						n++
						if f64, _ := constFloat(v); f64 != 0 && bad == "" {
							bad = fmt.Sprintf("`%s` uses the tolerance %s = %s: segments that cross at an angle with sin² below it are treated as parallel and reported as not intersecting, so the simplifier accepts a shortcut that crosses the line", src(b), id.Name, v.String())
							badPos = b.Pos()
						}
					}
					return true
				})
			}
			return true
		})
		switch {
		case bad != "":
			c.Bad("C13.R6", name, badPos, "%s", bad)
		case n == 0:
			c.OK("C13.R6", name, fd.Pos(), "no tolerance factor in the comparisons")
		default:
			c.OK("C13.R6", name, fd.Pos(), "%d comparisons scaled by a tolerance, all with tolerance 0 (exact)", n)
		}
	}
}
