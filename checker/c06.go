package main

// C06 — GeoJSON round trip.
//
// R1 type-name / nesting-depth tables of encoder and decoder; struct tags.
// R2 [x, y] order and arity.   R3 every copy loop is a full-range identity map.
// R4 errors surface from Encode.

import (
	"fmt"
	"go/ast"
	"go/token"
	"go/types"
	"reflect"
	"strings"
)

func init() { register("C06", false, checkC06) }

var gjDepth = map[string]int{"Point": 1, "MultiPoint": 2, "LineString": 2, "MultiLineString": 3, "Polygon": 3, "MultiPolygon": 4}

func sliceDepthOfFloat(t types.Type) int {
	d := 0
	for {
		s, ok := t.Underlying().(*types.Slice)
		if !ok {
			break
		}
		d++
		t = s.Elem()
	}
	if !isFloat64(t) {
		return -1
	}
	return d
}

func checkC06(c *Ctx) {
	c.Rule("C06.R1", "model evaluation on small geometries of the six types (empty members in later positions): ToGeoJSON: each geometry type T yields Type = T's RFC 7946 name and Coordinates of static type []float64 nested exactly as T requires (Point 1, MultiPoint/LineString 2, Polygon/MultiLineString 3, MultiPolygon 4); the decoder's case for name S decodes exactly that nesting and returns the geom type named S; the JSON members are \"type\" and \"coordinates\"")
	c.Rule("C06.R2", "FromGeoJSON on malformed documents (positions of 0, 1 or 3 numbers, wrong nesting depth, non-numbers, empty arrays, unknown type names, nil): an error, never a panic and never a geometry")
	c.Rule("C06.R4", "Encode returns json.Marshal's error (non-finite coordinates) and an error for unsupported types")
	c.Rule("C06.R6", "the bytes Encode returns are freshly allocated in the call (no package-level buffer, no sync.Pool object)")
	c.Rule("C06.R5", "trust base of the exact round trip: number formatting and parsing are encoding/json's own (shortest representation that round-trips, errors for NaN/Inf) — no type of the package customises its JSON or text form")
	p := c.P.Pkg("encoding/geojson")
	if p == nil {
		c.Unk("C06.R1", "encoding/geojson", token.NoPos, "package not loaded")
		return
	}
	c06model(c)
	c06tags(c)
	c06delegation(c, p)
	checkFreshResult(c, "C06.R6", c.P.Func("encoding/geojson", "Encode"))
	c.Floor("C06.R6", 1)
	c.Floor("C06.R5", 1)
	c.Floor("C06.R1", 13)
	c.Floor("C06.R2", 1)
	c.Floor("C06.R4", 3)
}

func c06encoder(c *Ctx, info *types.Info) {
	f := c.P.Func("encoding/geojson", "ToGeoJSON")
	fd := c.P.Decl(f)
	if fd == nil {
		c.Unk("C06.R1", "encoding/geojson.ToGeoJSON", token.NoPos, "API anchor does not resolve")
		return
	}
	param := paramVars(info, fd.Type)[0]
	var sw *ast.TypeSwitchStmt
	for _, st := range fd.Body.List {
		if s, ok := st.(*ast.TypeSwitchStmt); ok {
			sw = s
		}
	}
	if sw == nil {
		c.Unk("C06.R1", "encoding/geojson.ToGeoJSON", fd.Pos(), "type switch not found")
		return
	}
	op, cls := typeSwitch(info, sw)
	if op == nil || objOf(info, op) != param {
		c.Unk("C06.R1", "encoding/geojson.ToGeoJSON", fd.Pos(), "type switch is not on the geometry")
		return
	}
	seen := map[string]bool{}
	for _, cl := range cls {
		if cl.Default {
			continue
		}
		for _, t := range cl.Types {
			if t == nil {
				continue
			}
			tn := geomTypeName(t)
			cons := "encoding/geojson.ToGeoJSON#case(" + tn + ")"
			want, ok := gjDepth[tn]
			if !ok {
				c.Bad("C06.R1", cons, cl.Clause.Pos(), "%s is encoded but has no RFC 7946 geometry type in this encoder's table", tn)
				continue
			}
			seen[tn] = true
			// the Geometry literal returned
			var lit *ast.CompositeLit
			ast.Inspect(&ast.BlockStmt{List: cl.Clause.Body}, func(n ast.Node) bool {
				if cl2, ok := n.(*ast.CompositeLit); ok && isNamed(info.TypeOf(cl2), modPath+"/encoding/geojson", "Geometry") {
					lit = cl2
				}
				return true
			})
			if lit == nil {
				c.Unk("C06.R1", cons, cl.Clause.Pos(), "no Geometry literal in this case")
				continue
			}
			var typeS string
			var coord ast.Expr
			for i, el := range lit.Elts {
				if kv, ok := el.(*ast.KeyValueExpr); ok {
					switch src(kv.Key) {
					case "Type":
						typeS, _ = constString(info, kv.Value)
					case "Coordinates":
						coord = kv.Value
					}
				} else if i == 0 {
					typeS, _ = constString(info, el)
				} else if i == 1 {
					coord = el
				}
			}
			d := -1
			if coord != nil {
				d = sliceDepthOfFloat(info.TypeOf(coord))
			}
			switch {
			case typeS != tn:
				c.Bad("C06.R1", cons, lit.Pos(), "geom.%s is written with \"type\": %q, RFC 7946 name is %q", tn, typeS, tn)
			case d != want:
				c.Bad("C06.R1", cons, lit.Pos(), "coordinates of a %s have array nesting depth %d, RFC 7946 requires %d", tn, d, want)
			default:
				c.OK("C06.R1", cons, lit.Pos(), "type %q, coordinates nested %d deep", typeS, d)
			}
		}
	}
	for tn := range gjDepth {
		if !seen[tn] {
			c.Bad("C06.R1", "encoding/geojson.ToGeoJSON#case("+tn+")", sw.Pos(), "geom.%s is not encoded", tn)
		}
	}
}

func c06decoder(c *Ctx, info *types.Info) {
	// the function with a switch on g.Type reached from FromGeoJSON
	from := c.P.Func("encoding/geojson", "FromGeoJSON")
	if c.P.Decl(from) == nil {
		c.Unk("C06.R1", "encoding/geojson.FromGeoJSON", token.NoPos, "API anchor does not resolve")
		return
	}
	var fd *ast.FuncDecl
	var sw *ast.SwitchStmt
	for _, fn := range append([]*types.Func{from}, calleesOf(c, info, from)...) {
		d := c.P.Decl(fn)
		if d == nil {
			continue
		}
		ast.Inspect(d.Body, func(n ast.Node) bool {
			if s, ok := n.(*ast.SwitchStmt); ok && s.Tag != nil && sw == nil {
				if sel, ok := unparen(s.Tag).(*ast.SelectorExpr); ok && sel.Sel.Name == "Type" {
					sw, fd = s, d
				}
			}
			return true
		})
	}
	if sw == nil {
		c.Unk("C06.R1", "encoding/geojson#decoder-switch", token.NoPos, "switch on the geometry's type name not found")
		return
	}
	seen := map[string]bool{}
	for _, cl := range sw.Body.List {
		cc := cl.(*ast.CaseClause)
		for _, e := range cc.List {
			name, ok := constString(info, e)
			if !ok {
				continue
			}
			cons := "encoding/geojson#decode(" + name + ")"
			want, known := gjDepth[name]
			if !known {
				c.Bad("C06.R1", cons, cc.Pos(), "type name %q is decoded but is not one of the six supported RFC 7946 names", name)
				continue
			}
			seen[name] = true
			// first call taking g.Coordinates
			depth := -1
			ast.Inspect(&ast.BlockStmt{List: cc.Body}, func(n ast.Node) bool {
				call, ok := n.(*ast.CallExpr)
				if !ok || len(call.Args) != 1 || depth != -1 {
					return true
				}
				if sel, ok := unparen(call.Args[0]).(*ast.SelectorExpr); ok && sel.Sel.Name == "Coordinates" {
					depth = sliceDepthOfFloat(info.TypeOf(call))
				}
				return true
			})
			// returned types
			rets := map[string]bool{}
			ast.Inspect(&ast.BlockStmt{List: cc.Body}, func(n ast.Node) bool {
				if r, ok := n.(*ast.ReturnStmt); ok && len(r.Results) == 1 {
					rets[geomTypeName(info.TypeOf(r.Results[0]))] = true
				}
				return true
			})
			var got []string
			for k := range rets {
				got = append(got, k)
			}
			switch {
			case depth != want:
				c.Bad("C06.R1", cons, cc.Pos(), "coordinates of a %q are decoded with array nesting depth %d, RFC 7946 requires %d", name, depth, want)
			case len(got) != 1 || got[0] != name:
				c.Bad("C06.R1", cons, cc.Pos(), "a %q object is decoded into %v, want geom.%s", name, got, name)
			default:
				c.OK("C06.R1", cons, cc.Pos(), "nesting %d → geom.%s", depth, name)
			}
		}
	}
	for tn := range gjDepth {
		if !seen[tn] {
			c.Bad("C06.R1", "encoding/geojson#decode("+tn+")", sw.Pos(), "type name %q is not decoded", tn)
		}
	}
	// R2 decoder side: Point{c[0], c[1]} under len == 2; ring element .X = e[0], .Y = e[1] under len(e)==2
	c06decodeXY(c, info, fd)
}

func calleesOf(c *Ctx, info *types.Info, f *types.Func) []*types.Func {
	var out []*types.Func
	seen := map[*types.Func]bool{f: true}
	var visit func(g *types.Func, d int)
	visit = func(g *types.Func, d int) {
		fd := c.P.Decl(g)
		if fd == nil || d > 4 {
			return
		}
		ast.Inspect(fd.Body, func(n ast.Node) bool {
			if call, ok := n.(*ast.CallExpr); ok {
				if h := callee(info, call); h != nil && c.P.Decl(h) != nil && !seen[h] {
					seen[h] = true
					out = append(out, h)
					visit(h, d+1)
				}
			}
			return true
		})
	}
	visit(f, 0)
	return out
}

// guardLen2: is node n inside a branch where len(x)==2 holds for the slice x?
func guardLen2(info *types.Info, root ast.Node, n ast.Node, x ast.Expr) bool {
	path := enclosing(root, n)
	for i := len(path) - 1; i >= 0; i-- {
		switch s := path[i].(type) {
		case *ast.IfStmt:
			inBody := i+1 < len(path) && path[i+1] == ast.Node(s.Body)
			b, ok := unparen(s.Cond).(*ast.BinaryExpr)
			if ok && inBody && b.Op == token.EQL {
				if la := lenArg(info, b.X); la != nil && sameExpr(info, la, x) {
					if k, ok := constInt(info, b.Y); ok && k == 2 {
						return true
					}
				}
			}
		case *ast.CaseClause:
			// switch len(x) { case 2: … }
			if i > 1 {
				if sw, ok := path[i-2].(*ast.SwitchStmt); ok && sw.Tag != nil {
					if la := lenArg(info, sw.Tag); la != nil && sameExpr(info, la, x) && len(s.List) == 1 {
						if k, ok := constInt(info, s.List[0]); ok && k == 2 {
							return true
						}
					}
				}
			}
		}
	}
	return false
}

func c06decodeXY(c *Ctx, info *types.Info, swFn *ast.FuncDecl) {
	p := c.P.Pkg("encoding/geojson")
	n := 0
	for _, fn := range c.P.RepoFuncs() {
		if c.P.DeclPkg(fn) != p {
			continue
		}
		fd := c.P.Decl(fn)
		name := c.P.FuncName(fn)
		// (a) Point composite literals built from indexed floats
		ast.Inspect(fd.Body, func(nd ast.Node) bool {
			lit, ok := nd.(*ast.CompositeLit)
			if !ok || geomTypeName(info.TypeOf(lit)) != "Point" || len(lit.Elts) != 2 {
				return true
			}
			var xe, ye ast.Expr
			for i, el := range lit.Elts {
				if kv, ok := el.(*ast.KeyValueExpr); ok {
					if src(kv.Key) == "X" {
						xe = kv.Value
					} else {
						ye = kv.Value
					}
				} else if i == 0 {
					xe = el
				} else {
					ye = el
				}
			}
			xi, ok1 := unparen(xe).(*ast.IndexExpr)
			yi, ok2 := unparen(ye).(*ast.IndexExpr)
			if !ok1 || !ok2 {
				return true
			}
			n++
			cons := name + "#Point-from-position"
			kx, _ := constInt(info, xi.Index)
			ky, _ := constInt(info, yi.Index)
			switch {
			case !sameExpr(info, xi.X, yi.X) || kx != 0 || ky != 1:
				c.Bad("C06.R2", cons, lit.Pos(), "a position is read as `%s`: X must be element 0 and Y element 1 of the same array", src(lit))
			case !guardLen2(info, fd.Body, lit, xi.X):
				c.Bad("C06.R2", cons, lit.Pos(), "`%s` is not guarded by len(%s) == 2: positions with another arity are accepted or index out of range", src(lit), src(xi.X))
			default:
				c.OK("C06.R2", cons, lit.Pos(), "X=e[0], Y=e[1] under len(e)==2")
			}
			return true
		})
		// (b) field stores pts[i].X = e[0]; pts[i].Y = e[1]
		var xs, ys *ast.AssignStmt
		ast.Inspect(fd.Body, func(nd ast.Node) bool {
			as, ok := nd.(*ast.AssignStmt)
			if !ok || len(as.Lhs) != 1 || len(as.Rhs) != 1 {
				return true
			}
			sel, ok := unparen(as.Lhs[0]).(*ast.SelectorExpr)
			if !ok || geomTypeName(info.TypeOf(sel.X)) != "Point" {
				return true
			}
			if _, isIdx := unparen(as.Rhs[0]).(*ast.IndexExpr); !isIdx {
				return true
			}
			if sel.Sel.Name == "X" {
				xs = as
			} else if sel.Sel.Name == "Y" {
				ys = as
			}
			return true
		})
		if xs != nil || ys != nil {
			n++
			cons := name + "#Point-fields-from-position"
			if xs == nil || ys == nil {
				c.Bad("C06.R2", cons, fd.Pos(), "only one coordinate of the point is filled from the position")
				continue
			}
			xi := unparen(xs.Rhs[0]).(*ast.IndexExpr)
			yi := unparen(ys.Rhs[0]).(*ast.IndexExpr)
			kx, _ := constInt(info, xi.Index)
			ky, _ := constInt(info, yi.Index)
			sameDst := sameExpr(info, unparen(xs.Lhs[0]).(*ast.SelectorExpr).X, unparen(ys.Lhs[0]).(*ast.SelectorExpr).X)
			switch {
			case !sameExpr(info, xi.X, yi.X) || kx != 0 || ky != 1 || !sameDst:
				c.Bad("C06.R2", cons, xs.Pos(), "`%s; %s`: X must come from element 0 and Y from element 1 of the same position", src(xs), src(ys))
			case !guardLen2(info, fd.Body, xs, xi.X) || !guardLen2(info, fd.Body, ys, yi.X):
				c.Bad("C06.R2", cons, xs.Pos(), "the position's arity is not checked (len(%s) == 2) before its elements are used", src(xi.X))
			default:
				c.OK("C06.R2", cons, xs.Pos(), "X=e[0], Y=e[1] under len(e)==2")
			}
		}
		// (c) encoder: []float64{p.X, p.Y}
		ast.Inspect(fd.Body, func(nd ast.Node) bool {
			lit, ok := nd.(*ast.CompositeLit)
			if !ok || sliceDepthOfFloat(info.TypeOf(lit)) != 1 {
				return true
			}
			n++
			cons := name + "#position"
			if len(lit.Elts) != 2 {
				c.Bad("C06.R2", cons, lit.Pos(), "a position has %d elements, want [x, y]", len(lit.Elts))
				return true
			}
			a, b := selParts(info, lit.Elts[0]), selParts(info, lit.Elts[1])
			if a.obj != nil && a.obj == b.obj && a.field == "X" && b.field == "Y" && geomTypeName(a.obj.Type()) == "Point" {
				c.OK("C06.R2", cons, lit.Pos(), "[p.X, p.Y]")
			} else {
				c.Bad("C06.R2", cons, lit.Pos(), "a position is built as `%s`, RFC 7946 order is [x, y] of one point", src(lit))
			}
			return true
		})
	}
	_ = swFn
	_ = n
}

func c06tags(c *Ctx) {
	t := c.P.NamedType("encoding/geojson", "Geometry")
	if t == nil {
		c.Unk("C06.R1", "encoding/geojson.Geometry", token.NoPos, "type does not resolve")
		return
	}
	st, ok := t.Underlying().(*types.Struct)
	if !ok {
		c.Unk("C06.R1", "encoding/geojson.Geometry", t.Obj().Pos(), "not a struct")
		return
	}
	want := map[string]string{"Type": "type", "Coordinates": "coordinates"}
	msg := ""
	for i := 0; i < st.NumFields(); i++ {
		f := st.Field(i)
		if w, ok := want[f.Name()]; ok {
			tag := reflect.StructTag(st.Tag(i)).Get("json")
			name := strings.Split(tag, ",")[0]
			if name != w {
				msg = fmt.Sprintf("field %s is serialised as %q, RFC 7946 member is %q", f.Name(), name, w)
			}
			if strings.Contains(tag, "omitempty") || strings.Contains(tag, ",string") {
				msg = fmt.Sprintf("field %s has tag options %q that change the member's presence or type", f.Name(), tag)
			}
			delete(want, f.Name())
		}
	}
	if len(want) > 0 && msg == "" {
		msg = "Geometry lacks a Type or Coordinates field"
	}
	if msg != "" {
		c.Bad("C06.R1", "encoding/geojson.Geometry#tags", t.Obj().Pos(), "%s", msg)
	} else {
		c.OK("C06.R1", "encoding/geojson.Geometry#tags", t.Obj().Pos(), `json members "type" and "coordinates"`)
	}
}

// c06loops: every loop in the package that stores into an indexed local must be
// a full-range identity map into make(T, len(source)).
func c06loops(c *Ctx, p *pkgT) {
	info := p.TypesInfo
	for _, fn := range c.P.RepoFuncs() {
		if c.P.DeclPkg(fn) != p {
			continue
		}
		fd := c.P.Decl(fn)
		sc := newFnScope(info, fd.Body)
		k := 0
		ast.Inspect(fd.Body, func(nd ast.Node) bool {
			var st ast.Stmt
			switch x := nd.(type) {
			case *ast.RangeStmt:
				st = x
			case *ast.ForStmt:
				st = x
			default:
				return true
			}
			l := sc.loopOf(st)
			// stores into indexed locals directly in this loop's body (not nested loops)
			var stores []*ast.IndexExpr
			var body *ast.BlockStmt
			if rs, ok := st.(*ast.RangeStmt); ok {
				body = rs.Body
			} else {
				body = st.(*ast.ForStmt).Body
			}
			var collect func(n ast.Node)
			collect = func(n ast.Node) {
				ast.Inspect(n, func(m ast.Node) bool {
					switch y := m.(type) {
					case *ast.RangeStmt, *ast.ForStmt:
						return m == n
					case *ast.AssignStmt:
						for _, lh := range y.Lhs {
							e := unparen(lh)
							if sel, ok := e.(*ast.SelectorExpr); ok {
								e = unparen(sel.X)
							}
							if ix, ok := e.(*ast.IndexExpr); ok {
								if _, isSlice := info.TypeOf(ix.X).Underlying().(*types.Slice); isSlice && objOf(info, ix.X) != nil {
									stores = append(stores, ix)
								}
							}
						}
					}
					return true
				})
			}
			collect(body)
			if len(stores) == 0 {
				return true
			}
			k++
			cons := fmt.Sprintf("%s#copy-loop", c.P.FuncName(fn))
			if k > 1 {
				cons = fmt.Sprintf("%s-%d", cons, k)
			}
			if l == nil {
				c.Unk("C06.R3", cons, st.Pos(), "loop not recognised as a counting loop")
				return true
			}
			msg := ""
			if !(l.Lo.ok && l.Lo.Of == nil && l.Lo.K == 0 && l.Hi.ok && l.Hi.K == 0 && l.Hi.Of != nil) {
				msg = "loop " + l.String() + " does not cover the whole source"
			}
			brk, cont, _ := earlyExits(body)
			if len(brk)+len(cont) > 0 {
				msg = "conversion loop has break/continue: elements may be skipped"
			}
			for _, ix := range stores {
				if off, ok := sc.idxOffset(ix.Index, l.Idx); !ok || off != 0 {
					msg = "store `" + src(ix) + "` is not at the loop index: order or position of elements is not preserved"
				}
				dst := objOf(info, ix.X)
				okMake := false
				for _, d := range sc.defs[dst] {
					if d == nil {
						continue
					}
					if mk, ok := unparen(d).(*ast.CallExpr); ok && builtinName(info, mk) == "make" && len(mk.Args) >= 2 {
						af := sc.aff(mk.Args[1])
						if af.ok && af.K == 0 && af.Of != nil && l.Hi.Of != nil && sameExpr(info, af.Of, l.Hi.Of) {
							okMake = true
						}
					}
				}
				if !okMake && msg == "" {
					msg = "destination `" + dst.Name() + "` is not allocated with the source's length"
				}
			}
			// value provenance: RHS derives from the current element
			ast.Inspect(body, func(m ast.Node) bool {
				as, ok := m.(*ast.AssignStmt)
				if !ok {
					return true
				}
				for i, lh := range as.Lhs {
					e := unparen(lh)
					if sel, ok := e.(*ast.SelectorExpr); ok {
						e = unparen(sel.X)
					}
					ix, ok := e.(*ast.IndexExpr)
					if !ok || objOf(info, ix.X) == nil {
						continue
					}
					if _, isSlice := info.TypeOf(ix.X).Underlying().(*types.Slice); !isSlice {
						continue
					}
					rhs := as.Rhs[0]
					if len(as.Rhs) == len(as.Lhs) {
						rhs = as.Rhs[i]
					}
					var srcColl types.Object
					if l.Hi.Of != nil {
						srcColl = objOf(info, l.Hi.Of)
					}
					if !derivesFrom(info, sc, rhs, srcColl, l, 0) && msg == "" {
						msg = "value stored by `" + src(as) + "` does not come from the element at the same index"
					}
				}
				return true
			})
			if msg != "" {
				c.Bad("C06.R3", cons, st.Pos(), "%s", msg)
			} else {
				c.OK("C06.R3", cons, st.Pos(), "dst[i] = f(src[i]) over [0, len(src))")
			}
			return true
		})
	}
}

func c06errors(c *Ctx, info *types.Info) {
	f := c.P.Func("encoding/geojson", "Encode")
	fd := c.P.Decl(f)
	if fd == nil {
		c.Unk("C06.R4", "encoding/geojson.Encode", token.NoPos, "API anchor does not resolve")
		return
	}
	// json.Marshal's error must reach the caller: `return json.Marshal(x)` or err propagated
	okMarshal := false
	msg := "json.Marshal is not called"
	ast.Inspect(fd.Body, func(n ast.Node) bool {
		call, ok := n.(*ast.CallExpr)
		if !ok {
			return true
		}
		if cf := callee(info, call); cf != nil && cf.FullName() == "(*encoding/json.Encoder).Encode" {
			// the streaming form reports the same errors; its single result must reach the caller
			msg = "the json.Encoder's error does not reach the caller"
			path := enclosing(fd.Body, call)
			if len(path) >= 2 {
				if as, ok := path[len(path)-2].(*ast.AssignStmt); ok && len(as.Lhs) == 1 {
					if eo := objOf(info, as.Lhs[0]); eo != nil && eo.Name() != "_" {
						ast.Inspect(fd.Body, func(m ast.Node) bool {
							if r, ok := m.(*ast.ReturnStmt); ok && len(r.Results) == 2 && objOf(info, r.Results[1]) == eo {
								okMarshal = true
							}
							return true
						})
					}
				}
			}
			return true
		}
		if !isFuncIn(callee(info, call), "encoding/json", "Marshal") {
			return true
		}
		msg = "json.Marshal's error does not reach the caller"
		path := enclosing(fd.Body, call)
		if len(path) >= 2 {
			if r, ok := path[len(path)-2].(*ast.ReturnStmt); ok && len(r.Results) == 1 {
				okMarshal = true
			}
			if as, ok := path[len(path)-2].(*ast.AssignStmt); ok && len(as.Lhs) == 2 {
				if eo := objOf(info, as.Lhs[1]); eo != nil && eo.Name() != "_" {
					// some return mentions the error variable
					ast.Inspect(fd.Body, func(m ast.Node) bool {
						if r, ok := m.(*ast.ReturnStmt); ok && len(r.Results) == 2 && objOf(info, r.Results[1]) == eo {
							okMarshal = true
						}
						return true
					})
				}
			}
		}
		return true
	})
	if okMarshal {
		c.OK("C06.R4", "encoding/geojson.Encode#marshal-error", fd.Pos(), "encoding/json's error is returned")
	} else {
		c.Bad("C06.R4", "encoding/geojson.Encode#marshal-error", fd.Pos(), "%s: non-finite coordinates would not be reported", msg)
	}
	// ToGeoJSON default: error
	tf := c.P.Func("encoding/geojson", "ToGeoJSON")
	tfd := c.P.Decl(tf)
	okDefault := false
	if tfd != nil {
		ast.Inspect(tfd.Body, func(n ast.Node) bool {
			if sw, ok := n.(*ast.TypeSwitchStmt); ok {
				_, cls := typeSwitch(info, sw)
				for _, cl := range cls {
					if !cl.Default {
						continue
					}
					for _, s := range cl.Clause.Body {
						if r, ok := s.(*ast.ReturnStmt); ok && len(r.Results) == 2 && isNilConst(info, r.Results[0]) && !isNilConst(info, r.Results[1]) {
							okDefault = true
						}
					}
				}
			}
			return true
		})
	}
	if okDefault {
		c.OK("C06.R4", "encoding/geojson.ToGeoJSON#default", tfd.Pos(), "unsupported types return (nil, error)")
	} else {
		c.Bad("C06.R4", "encoding/geojson.ToGeoJSON#default", token.NoPos, "unsupported geometry types are not reported as an error")
	}
}

// c06delegation: no named type of the package overrides encoding/json's treatment.
func c06delegation(c *Ctx, p *pkgT) {
	hooks := map[string]bool{"MarshalJSON": true, "UnmarshalJSON": true, "MarshalText": true, "UnmarshalText": true}
	n := 0
	sc := p.Types.Scope()
	for _, nm := range sc.Names() {
		tn, ok := sc.Lookup(nm).(*types.TypeName)
		if !ok {
			continue
		}
		nt, ok := tn.Type().(*types.Named)
		if !ok {
			continue
		}
		n++
		cons := "encoding/geojson." + nm + "#json-hooks"
		var found []string
		for _, t := range []types.Type{nt, types.NewPointer(nt)} {
			ms := types.NewMethodSet(t)
			for i := 0; i < ms.Len(); i++ {
				if hooks[ms.At(i).Obj().Name()] {
					found = append(found, ms.At(i).Obj().Name())
				}
			}
		}
		if len(found) == 0 {
			c.OK("C06.R5", cons, tn.Pos(), "encoded and decoded by encoding/json's reflection")
		} else {
			c.Unk("C06.R5", cons, tn.Pos(), "type %s defines %s: coordinates are no longer formatted/parsed by encoding/json, whose shortest-round-trip float formatting (including -0, exponents, 17 significant digits) and NaN/Inf errors the exact round trip rests on; a hand-written number formatter is outside what these rules can establish", nm, found[0])
		}
	}
	if n == 0 {
		c.Unk("C06.R5", "encoding/geojson#types", token.NoPos, "no named types found")
	}
}
