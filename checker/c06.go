package main

// C06 — GeoJSON round trip.
//
// R1 type-name / nesting-depth tables of encoder and decoder; struct tags.
// R2 [x, y] order and arity.   R3 every copy loop is a full-range identity map.
// R4 errors surface from Encode.

import (
	"fmt"
	"go/ast"
	"go/token"
	"go/types"
	"reflect"
	"strings"
)

func init() { register("C06", false, checkC06) }

var gjDepth = map[string]int{"Point": 1, "MultiPoint": 2, "LineString": 2, "MultiLineString": 3, "Polygon": 3, "MultiPolygon": 4}

func checkC06(c *Ctx) {
	c.Rule("C06.R1", "model evaluation on small geometries of the six types (empty members in later positions): ToGeoJSON: each geometry type T yields Type = T's RFC 7946 name and Coordinates of static type []float64 nested exactly as T requires (Point 1, MultiPoint/LineString 2, Polygon/MultiLineString 3, MultiPolygon 4); the decoder's case for name S decodes exactly that nesting and returns the geom type named S; the JSON members are \"type\" and \"coordinates\"")
	c.Rule("C06.R2", "FromGeoJSON on malformed documents (positions of 0, 1 or 3 numbers, wrong nesting depth, non-numbers, empty arrays, unknown type names, nil): an error, never a panic and never a geometry")
	c.Rule("C06.R4", "Encode returns json.Marshal's error (non-finite coordinates) and an error for unsupported types")
	c.Rule("C06.R6", "the bytes Encode returns are freshly allocated in the call (no package-level buffer, no sync.Pool object)")
	c.Rule("C06.R5", "trust base of the exact round trip: number formatting and parsing are encoding/json's own (shortest representation that round-trips, errors for NaN/Inf) — no type of the package customises its JSON or text form")
	p := c.P.Pkg("encoding/geojson")
	if p == nil {
		c.Unk("C06.R1", "encoding/geojson", token.NoPos, "package not loaded")
		return
	}
	c06model(c)
	c06tags(c)
	c06delegation(c, p)
	checkFreshResult(c, "C06.R6", c.P.Func("encoding/geojson", "Encode"))
	c.Floor("C06.R6", 1)
	c.Floor("C06.R5", 1)
	c.Floor("C06.R1", 13)
	c.Floor("C06.R2", 1)
	c.Floor("C06.R4", 3)
}

func c06tags(c *Ctx) {
	t := c.P.NamedType("encoding/geojson", "Geometry")
	if t == nil {
		c.Unk("C06.R1", "encoding/geojson.Geometry", token.NoPos, "type does not resolve")
		return
	}
	st, ok := t.Underlying().(*types.Struct)
	if !ok {
		c.Unk("C06.R1", "encoding/geojson.Geometry", t.Obj().Pos(), "not a struct")
		return
	}
	want := map[string]string{"Type": "type", "Coordinates": "coordinates"}
	msg := ""
	for i := 0; i < st.NumFields(); i++ {
		f := st.Field(i)
		if w, ok := want[f.Name()]; ok {
			tag := reflect.StructTag(st.Tag(i)).Get("json")
			name := strings.Split(tag, ",")[0]
			if name != w {
				msg = fmt.Sprintf("field %s is serialised as %q, RFC 7946 member is %q", f.Name(), name, w)
			}
			if strings.Contains(tag, "omitempty") || strings.Contains(tag, ",string") {
				msg = fmt.Sprintf("field %s has tag options %q that change the member's presence or type", f.Name(), tag)
			}
			delete(want, f.Name())
		}
	}
	if len(want) > 0 && msg == "" {
		msg = "Geometry lacks a Type or Coordinates field"
	}
	if msg != "" {
		c.Bad("C06.R1", "encoding/geojson.Geometry#tags", t.Obj().Pos(), "%s", msg)
	} else {
		c.OK("C06.R1", "encoding/geojson.Geometry#tags", t.Obj().Pos(), `json members "type" and "coordinates"`)
	}
}

func c06errors(c *Ctx, info *types.Info) {
	f := c.P.Func("encoding/geojson", "Encode")
	fd := c.P.Decl(f)
	if fd == nil {
		c.Unk("C06.R4", "encoding/geojson.Encode", token.NoPos, "API anchor does not resolve")
		return
	}
	// json.Marshal's error must reach the caller: `return json.Marshal(x)` or err propagated
	okMarshal := false
	msg := "json.Marshal is not called"
	ast.Inspect(fd.Body, func(n ast.Node) bool {
		call, ok := n.(*ast.CallExpr)
		if !ok {
			return true
		}
		if cf := callee(info, call); cf != nil && cf.FullName() == "(*encoding/json.Encoder).Encode" {
			// the streaming form reports the same errors; its single result must reach the caller
			msg = "the json.Encoder's error does not reach the caller"
			path := enclosing(fd.Body, call)
			if len(path) >= 2 {
				if as, ok := path[len(path)-2].(*ast.AssignStmt); ok && len(as.Lhs) == 1 {
					if eo := objOf(info, as.Lhs[0]); eo != nil && eo.Name() != "_" {
						ast.Inspect(fd.Body, func(m ast.Node) bool {
							if r, ok := m.(*ast.ReturnStmt); ok && len(r.Results) == 2 && objOf(info, r.Results[1]) == eo {
								okMarshal = true
							}
							return true
						})
					}
				}
			}
			return true
		}
		if !isFuncIn(callee(info, call), "encoding/json", "Marshal") {
			return true
		}
		msg = "json.Marshal's error does not reach the caller"
		path := enclosing(fd.Body, call)
		if len(path) >= 2 {
			if r, ok := path[len(path)-2].(*ast.ReturnStmt); ok && len(r.Results) == 1 {
				okMarshal = true
			}
			if as, ok := path[len(path)-2].(*ast.AssignStmt); ok && len(as.Lhs) == 2 {
				if eo := objOf(info, as.Lhs[1]); eo != nil && eo.Name() != "_" {
					// some return mentions the error variable
					ast.Inspect(fd.Body, func(m ast.Node) bool {
						if r, ok := m.(*ast.ReturnStmt); ok && len(r.Results) == 2 && objOf(info, r.Results[1]) == eo {
							okMarshal = true
						}
						return true
					})
				}
			}
		}
		return true
	})
	if okMarshal {
		c.OK("C06.R4", "encoding/geojson.Encode#marshal-error", fd.Pos(), "encoding/json's error is returned")
	} else {
		c.Bad("C06.R4", "encoding/geojson.Encode#marshal-error", fd.Pos(), "%s: non-finite coordinates would not be reported", msg)
	}
	// ToGeoJSON default: error
	tf := c.P.Func("encoding/geojson", "ToGeoJSON")
	tfd := c.P.Decl(tf)
	okDefault := false
	if tfd != nil {
		ast.Inspect(tfd.Body, func(n ast.Node) bool {
			if sw, ok := n.(*ast.TypeSwitchStmt); ok {
				_, cls := typeSwitch(info, sw)
				for _, cl := range cls {
					if !cl.Default {
						continue
					}
					for _, s := range cl.Clause.Body {
						if r, ok := s.(*ast.ReturnStmt); ok && len(r.Results) == 2 && isNilConst(info, r.Results[0]) && !isNilConst(info, r.Results[1]) {
							okDefault = true
						}
					}
				}
			}
			return true
		})
	}
	if okDefault {
		c.OK("C06.R4", "encoding/geojson.ToGeoJSON#default", tfd.Pos(), "unsupported types return (nil, error)")
	} else {
		c.Bad("C06.R4", "encoding/geojson.ToGeoJSON#default", token.NoPos, "unsupported geometry types are not reported as an error")
	}
}

// c06delegation: no named type of the package overrides encoding/json's treatment.
func c06delegation(c *Ctx, p *pkgT) {
	hooks := map[string]bool{"MarshalJSON": true, "UnmarshalJSON": true, "MarshalText": true, "UnmarshalText": true}
	n := 0
	sc := p.Types.Scope()
	for _, nm := range sc.Names() {
		tn, ok := sc.Lookup(nm).(*types.TypeName)
		if !ok {
			continue
		}
		nt, ok := tn.Type().(*types.Named)
		if !ok {
			continue
		}
		n++
		cons := "encoding/geojson." + nm + "#json-hooks"
		var found []string
		for _, t := range []types.Type{nt, types.NewPointer(nt)} {
			ms := types.NewMethodSet(t)
			for i := 0; i < ms.Len(); i++ {
				if hooks[ms.At(i).Obj().Name()] {
					found = append(found, ms.At(i).Obj().Name())
				}
			}
		}
		if len(found) == 0 {
			c.OK("C06.R5", cons, tn.Pos(), "encoded and decoded by encoding/json's reflection")
		} else {
			c.Unk("C06.R5", cons, tn.Pos(), "type %s defines %s: coordinates are no longer formatted/parsed by encoding/json, whose shortest-round-trip float formatting (including -0, exponents, 17 significant digits) and NaN/Inf errors the exact round trip rests on; a hand-written number formatter is outside what these rules can establish", nm, found[0])
		}
	}
	if n == 0 {
		c.Unk("C06.R5", "encoding/geojson#types", token.NoPos, "no named types found")
	}
}
