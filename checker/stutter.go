package main

// E9: stutter-path detection.  A header-to-header path through a loop body
// whose branch conditions, substituted back to loop-entry variables, mention
// only variables the path leaves unchanged, repeats forever once taken
// (the path is deterministic).  If it is also feasible on the first iteration
// (constants assigned before the loop, interval reasoning over len(x) from the
// dominating guards), the loop definitely does not terminate for those inputs.

import (
	"fmt"
	"go/ast"
	"go/token"
	"go/types"
	"math"
	"strings"
)

type stCond struct {
	e     ast.Expr
	truth bool
}

type stPath struct {
	env     map[types.Object]ast.Expr // current symbolic value (in entry-state terms); nil entry = unknown
	written map[types.Object]bool
	conds   []stCond
	dead    bool // abandoned (unknown construct)
}

func (p *stPath) clone() *stPath {
	q := &stPath{env: map[types.Object]ast.Expr{}, written: map[types.Object]bool{}, dead: p.dead}
	for k, v := range p.env {
		q.env[k] = v
	}
	for k := range p.written {
		q.written[k] = true
	}
	q.conds = append([]stCond(nil), p.conds...)
	return q
}

type stutter struct {
	info  *types.Info
	paths []*stPath // paths that reached the back-edge
	limit int
}

// subst rewrites e replacing variables by their symbolic values.
func (s *stutter) subst(p *stPath, e ast.Expr) (ast.Expr, bool) {
	ok := true
	var rec func(e ast.Expr) ast.Expr
	rec = func(e ast.Expr) ast.Expr {
		switch x := e.(type) {
		case *ast.ParenExpr:
			return &ast.ParenExpr{X: rec(x.X)}
		case *ast.Ident:
			if o := objOf(s.info, x); o != nil {
				if v, has := p.env[o]; has {
					if v == nil {
						ok = false
						return x
					}
					return &ast.ParenExpr{X: v}
				}
			}
			return x
		case *ast.BinaryExpr:
			return &ast.BinaryExpr{X: rec(x.X), Op: x.Op, Y: rec(x.Y), OpPos: x.OpPos}
		case *ast.UnaryExpr:
			return &ast.UnaryExpr{Op: x.Op, X: rec(x.X), OpPos: x.OpPos}
		case *ast.BasicLit:
			return x
		case *ast.CallExpr:
			if la := lenArg(s.info, x); la != nil {
				if o := objOf(s.info, la); o != nil {
					if _, has := p.env[o]; has {
						ok = false // the slice itself was reassigned on this path
					}
				}
				return x
			}
			ok = false // a call: not a function of the tracked state
			return x
		default:
			ok = false
			return e
		}
	}
	r := rec(e)
	return r, ok
}

func (s *stutter) assign(p *stPath, lhs ast.Expr, rhs ast.Expr) {
	o := objOf(s.info, lhs)
	if o == nil {
		return // stores through index/field: not control state we track
	}
	p.written[o] = true
	if rhs == nil {
		p.env[o] = nil
		return
	}
	if v, ok := s.subst(p, rhs); ok {
		p.env[o] = v
	} else {
		p.env[o] = nil
	}
}

// walk explores statement lists; returns the set of paths that fall through.
func (s *stutter) walk(list []ast.Stmt, in []*stPath, loopDepth int) []*stPath {
	cur := in
	for _, st := range list {
		var next []*stPath
		for _, p := range cur {
			next = append(next, s.stmt(st, p, loopDepth)...)
		}
		cur = next
		if len(cur) > s.limit {
			cur = cur[:s.limit]
		}
	}
	return cur
}

func (s *stutter) stmt(st ast.Stmt, p *stPath, depth int) []*stPath {
	if p.dead {
		return nil
	}
	switch x := st.(type) {
	case *ast.BlockStmt:
		return s.walk(x.List, []*stPath{p}, depth)
	case *ast.EmptyStmt:
		return []*stPath{p}
	case *ast.ExprStmt:
		if isPanicCall(s.info, x.X) {
			return nil
		}
		return []*stPath{p}
	case *ast.DeclStmt:
		if gd, ok := x.Decl.(*ast.GenDecl); ok {
			for _, sp := range gd.Specs {
				if vs, ok := sp.(*ast.ValueSpec); ok {
					for i, nm := range vs.Names {
						var rhs ast.Expr
						if i < len(vs.Values) {
							rhs = vs.Values[i]
						}
						if rhs == nil {
							// zero value
							if o := s.info.Defs[nm]; o != nil {
								p.written[o] = true
								if b, ok := o.Type().Underlying().(*types.Basic); ok && b.Info()&types.IsBoolean != 0 {
									p.env[o] = &ast.Ident{Name: "false"}
								} else if ok && b.Info()&types.IsInteger != 0 {
									p.env[o] = &ast.BasicLit{Kind: token.INT, Value: "0"}
								} else {
									p.env[o] = nil
								}
							}
							continue
						}
						s.assign(p, nm, rhs)
					}
				}
			}
		}
		return []*stPath{p}
	case *ast.AssignStmt:
		if x.Tok == token.ASSIGN || x.Tok == token.DEFINE {
			if len(x.Lhs) == len(x.Rhs) {
				// evaluate all RHS first
				vals := make([]ast.Expr, len(x.Rhs))
				oks := make([]bool, len(x.Rhs))
				for i, r := range x.Rhs {
					vals[i], oks[i] = s.subst(p, r)
				}
				for i, l := range x.Lhs {
					if o := objOf(s.info, l); o != nil {
						p.written[o] = true
						if oks[i] {
							p.env[o] = vals[i]
						} else {
							p.env[o] = nil
						}
					}
				}
			} else {
				for _, l := range x.Lhs {
					s.assign(p, l, nil)
				}
			}
		} else {
			// op-assign: v = v op rhs
			if len(x.Lhs) == 1 {
				var op token.Token
				switch x.Tok {
				case token.ADD_ASSIGN:
					op = token.ADD
				case token.SUB_ASSIGN:
					op = token.SUB
				default:
					s.assign(p, x.Lhs[0], nil)
					return []*stPath{p}
				}
				s.assign(p, x.Lhs[0], &ast.BinaryExpr{X: x.Lhs[0], Op: op, Y: x.Rhs[0]})
			}
		}
		return []*stPath{p}
	case *ast.IncDecStmt:
		op := token.ADD
		if x.Tok == token.DEC {
			op = token.SUB
		}
		s.assign(p, x.X, &ast.BinaryExpr{X: x.X, Op: op, Y: &ast.BasicLit{Kind: token.INT, Value: "1"}})
		return []*stPath{p}
	case *ast.ReturnStmt:
		return nil
	case *ast.BranchStmt:
		if x.Label != nil {
			return nil
		}
		switch x.Tok {
		case token.BREAK:
			return nil // leaves the loop under analysis (depth 0) — or an inner loop we never enter
		case token.CONTINUE:
			if depth == 0 {
				s.paths = append(s.paths, p)
			}
			return nil
		}
		return nil
	case *ast.IfStmt:
		if x.Init != nil {
			ps := s.stmt(x.Init, p, depth)
			if len(ps) != 1 {
				return nil
			}
			p = ps[0]
		}
		c, ok := s.subst(p, x.Cond)
		var out []*stPath
		for _, truth := range []bool{true, false} {
			q := p.clone()
			if ok {
				q.conds = append(q.conds, stCond{c, truth})
			} else {
				q.conds = append(q.conds, stCond{nil, truth}) // undecidable condition: poisons the path
			}
			if truth {
				out = append(out, s.walk(x.Body.List, []*stPath{q}, depth)...)
			} else if x.Else != nil {
				out = append(out, s.stmt(x.Else, q, depth)...)
			} else {
				out = append(out, q)
			}
		}
		return out
	case *ast.ForStmt:
		// only the zero-iteration path of inner loops is followed
		if x.Init != nil {
			ps := s.stmt(x.Init, p, depth)
			if len(ps) != 1 {
				return nil
			}
			p = ps[0]
		}
		if x.Cond == nil {
			return nil
		}
		c, ok := s.subst(p, x.Cond)
		if !ok {
			p.conds = append(p.conds, stCond{nil, false})
		} else {
			p.conds = append(p.conds, stCond{c, false})
		}
		return []*stPath{p}
	case *ast.RangeStmt:
		// zero iterations: len(X) == 0
		p.conds = append(p.conds, stCond{&ast.BinaryExpr{X: &ast.CallExpr{Fun: &ast.Ident{Name: "len"}, Args: []ast.Expr{x.X}}, Op: token.EQL, Y: &ast.BasicLit{Kind: token.INT, Value: "0"}}, true})
		p.conds[len(p.conds)-1].e = nil // synthesized len() has no type info: treat as undecidable
		return []*stPath{p}
	}
	p.dead = true
	return nil
}

// stutterPaths returns the header-to-header paths of loop that leave every
// variable mentioned in their (substituted) conditions unchanged.
func stutterPaths(info *types.Info, loop *ast.ForStmt) []*stPath {
	s := &stutter{info: info, limit: 512}
	start := &stPath{env: map[types.Object]ast.Expr{}, written: map[types.Object]bool{}}
	if loop.Cond != nil {
		start.conds = append(start.conds, stCond{loop.Cond, true})
	}
	falls := s.walk(loop.Body.List, []*stPath{start}, 0)
	if loop.Post != nil {
		var next []*stPath
		for _, p := range append(falls, s.paths...) {
			next = append(next, s.stmt(loop.Post, p, 0)...)
		}
		falls, s.paths = next, nil
	}
	all := append(falls, s.paths...)
	var out []*stPath
	for _, p := range all {
		if p.dead {
			continue
		}
		ok := true
		for _, c := range p.conds {
			if c.e == nil {
				ok = false
				break
			}
			ast.Inspect(c.e, func(n ast.Node) bool {
				if id, isId := n.(*ast.Ident); isId {
					if o := objOf(info, id); o != nil {
						if _, isVar := o.(*types.Var); isVar && p.written[o] {
							// the variable is read at its entry value but changed by the path —
							// unless the path re-establishes the same value, which we do not try to prove
							if v, has := p.env[o]; !has || v == nil || !isSelf(info, v, o) {
								ok = false
							}
						}
					}
				}
				return ok
			})
			if !ok {
				break
			}
		}
		if ok {
			out = append(out, p)
		}
	}
	return out
}

func isSelf(info *types.Info, v ast.Expr, o types.Object) bool {
	return objOf(info, unparen(v)) == o
}

// ---------------------------------------------------------------- feasibility

// entryFacts collects, for the statements of body preceding stop: constants
// assigned to locals (and not modified otherwise), and interval constraints on
// len(x) from `if cond { return … }` guards.
type lenRange struct{ lo, hi float64 }

type entryFacts struct {
	consts map[types.Object]int64
	lens   map[string]*lenRange // keyed by source text of x
}

func collectEntry(info *types.Info, body []ast.Stmt, stop ast.Stmt) *entryFacts {
	ef := &entryFacts{consts: map[types.Object]int64{}, lens: map[string]*lenRange{}}
	for _, st := range body {
		if st == stop {
			break
		}
		switch x := st.(type) {
		case *ast.AssignStmt:
			for i, l := range x.Lhs {
				o := objOf(info, l)
				if o == nil {
					continue
				}
				delete(ef.consts, o)
				if (x.Tok == token.DEFINE || x.Tok == token.ASSIGN) && len(x.Lhs) == len(x.Rhs) {
					if k, ok := constInt(info, x.Rhs[i]); ok {
						ef.consts[o] = k
					}
				}
			}
		case *ast.IfStmt:
			// guard: if cond { …; return }  ⇒ !cond afterwards
			if x.Else == nil && len(x.Body.List) > 0 {
				if _, isRet := x.Body.List[len(x.Body.List)-1].(*ast.ReturnStmt); isRet {
					ef.constrain(info, x.Cond, false)
				}
			}
		}
	}
	return ef
}

func (ef *entryFacts) rng(k string) *lenRange {
	r := ef.lens[k]
	if r == nil {
		r = &lenRange{0, math.Inf(1)}
		ef.lens[k] = r
	}
	return r
}

// linear form a + b*len(x) of an int expression under known constants.
type lin struct {
	c  float64
	k  float64
	of string
	ok bool
}

func (ef *entryFacts) lin(info *types.Info, e ast.Expr) lin {
	e = unparen(e)
	if k, ok := constInt(info, e); ok {
		return lin{c: float64(k), ok: true}
	}
	switch x := e.(type) {
	case *ast.BasicLit:
		var k int64
		if _, err := fmt.Sscan(x.Value, &k); err == nil {
			return lin{c: float64(k), ok: true}
		}
	case *ast.Ident:
		if o := objOf(info, x); o != nil {
			if k, ok := ef.consts[o]; ok {
				return lin{c: float64(k), ok: true}
			}
		}
	case *ast.CallExpr:
		if la := lenArg(info, x); la != nil {
			return lin{k: 1, of: src(la), ok: true}
		}
	case *ast.BinaryExpr:
		l, r := ef.lin(info, x.X), ef.lin(info, x.Y)
		if !l.ok || !r.ok {
			return lin{}
		}
		if l.of != "" && r.of != "" && l.of != r.of {
			return lin{}
		}
		of := l.of
		if of == "" {
			of = r.of
		}
		switch x.Op {
		case token.ADD:
			return lin{c: l.c + r.c, k: l.k + r.k, of: of, ok: true}
		case token.SUB:
			return lin{c: l.c - r.c, k: l.k - r.k, of: of, ok: true}
		}
	}
	return lin{}
}

// constrain applies (cond == truth); returns false if the condition could not
// be interpreted (feasibility then stays unknown), and sets infeasible ranges
// when contradictory.
func (ef *entryFacts) constrain(info *types.Info, cond ast.Expr, truth bool) (understood bool) {
	cond = unparen(cond)
	if id, ok := cond.(*ast.Ident); ok {
		if id.Name == "true" || id.Name == "false" {
			if (id.Name == "true") != truth {
				ef.rng("⊥").lo = 1
				ef.rng("⊥").hi = 0
			}
			return true
		}
	}
	if tv, ok := info.Types[cond]; ok && tv.Value != nil {
		if (tv.Value.String() == "true") != truth {
			ef.rng("⊥").lo, ef.rng("⊥").hi = 1, 0
		}
		return true
	}
	switch x := cond.(type) {
	case *ast.UnaryExpr:
		if x.Op == token.NOT {
			return ef.constrain(info, x.X, !truth)
		}
	case *ast.BinaryExpr:
		if (x.Op == token.LAND && truth) || (x.Op == token.LOR && !truth) {
			a := ef.constrain(info, x.X, truth)
			b := ef.constrain(info, x.Y, truth)
			return a && b
		}
		if x.Op == token.LAND || x.Op == token.LOR {
			return false
		}
		l, r := ef.lin(info, x.X), ef.lin(info, x.Y)
		if !l.ok || !r.ok || (l.of != "" && r.of != "" && l.of != r.of) {
			return false
		}
		// l - r = c + k*L  op 0
		c, k := l.c-r.c, l.k-r.k
		of := l.of
		if of == "" {
			of = r.of
		}
		op := x.Op
		if !truth {
			switch op {
			case token.LSS:
				op = token.GEQ
			case token.LEQ:
				op = token.GTR
			case token.GTR:
				op = token.LEQ
			case token.GEQ:
				op = token.LSS
			case token.EQL:
				op = token.NEQ
			case token.NEQ:
				op = token.EQL
			}
		}
		if k == 0 {
			holds := false
			switch op {
			case token.LSS:
				holds = c < 0
			case token.LEQ:
				holds = c <= 0
			case token.GTR:
				holds = c > 0
			case token.GEQ:
				holds = c >= 0
			case token.EQL:
				holds = c == 0
			case token.NEQ:
				holds = c != 0
			}
			if !holds {
				ef.rng("⊥").lo, ef.rng("⊥").hi = 1, 0
			}
			return true
		}
		// k*L op -c  →  L op' (-c/k)
		b := -c / k
		if k < 0 {
			switch op {
			case token.LSS:
				op = token.GTR
			case token.LEQ:
				op = token.GEQ
			case token.GTR:
				op = token.LSS
			case token.GEQ:
				op = token.LEQ
			}
		}
		r0 := ef.rng(of)
		switch op {
		case token.LSS:
			r0.hi = math.Min(r0.hi, math.Ceil(b)-1)
		case token.LEQ:
			r0.hi = math.Min(r0.hi, math.Floor(b))
		case token.GTR:
			r0.lo = math.Max(r0.lo, math.Floor(b)+1)
		case token.GEQ:
			r0.lo = math.Max(r0.lo, math.Ceil(b))
		case token.EQL:
			r0.lo, r0.hi = math.Max(r0.lo, b), math.Min(r0.hi, b)
		case token.NEQ:
			if r0.lo == b {
				r0.lo = b + 1
			} else if r0.hi == b {
				r0.hi = b - 1
			} else {
				return false
			}
		}
		return true
	}
	return false
}

func (ef *entryFacts) feasible() (bool, string) {
	var parts []string
	for k, r := range ef.lens {
		if r.lo > r.hi {
			return false, ""
		}
		if k != "⊥" {
			hi := "∞"
			if !math.IsInf(r.hi, 1) {
				hi = fmt.Sprint(r.hi)
			}
			parts = append(parts, fmt.Sprintf("len(%s) ∈ [%v, %s]", k, r.lo, hi))
		}
	}
	return true, strings.Join(parts, ", ")
}

func (ef *entryFacts) clone() *entryFacts {
	c := &entryFacts{consts: map[types.Object]int64{}, lens: map[string]*lenRange{}}
	for k, v := range ef.consts {
		c.consts[k] = v
	}
	for k, v := range ef.lens {
		c.lens[k] = &lenRange{v.lo, v.hi}
	}
	return c
}
