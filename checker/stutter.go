package main

// E9: stutter-path detection.  A header-to-header path through a loop body
// whose branch conditions, substituted back to loop-entry variables, mention
// only variables the path leaves unchanged, repeats forever once taken
// (the path is deterministic).  If it is also feasible on the first iteration
// (constants assigned before the loop, interval reasoning over len(x) from the
// dominating guards), the loop definitely does not terminate for those inputs.

import (
	"go/ast"
	"go/types"
)

type stCond struct {
	e     ast.Expr
	truth bool
}

type stPath struct {
	env     map[types.Object]ast.Expr // current symbolic value (in entry-state terms); nil entry = unknown
	written map[types.Object]bool
	conds   []stCond
	dead    bool // abandoned (unknown construct)
}

type stutter struct {
	info  *types.Info
	paths []*stPath // paths that reached the back-edge
	limit int
}

// ---------------------------------------------------------------- feasibility

// entryFacts collects, for the statements of body preceding stop: constants
// assigned to locals (and not modified otherwise), and interval constraints on
// len(x) from `if cond { return … }` guards.
type lenRange struct{ lo, hi float64 }

type entryFacts struct {
	consts map[types.Object]int64
	lens   map[string]*lenRange // keyed by source text of x
}

// linear form a + b*len(x) of an int expression under known constants.
type lin struct {
	c  float64
	k  float64
	of string
	ok bool
}
