package main

// C07 — decoders are total on untrusted input.
//
// R1 untrusted counts never size an allocation unless bounded (SSA taint).
// R2 panic containment: every may-panic construct reachable from a decoder is
//    statically safe or below a frame that recovers and converts to an error;
//    values passed to panic there implement error.
// R3 error-before-use in every decoder function.

import (
	"go/token"
	"go/types"

	"golang.org/x/tools/go/ssa"
)

func init() { register("C07", true, checkC07) }

func checkC07(c *Ctx) {
	c.Rule("C07.R1", "WKB decoder on malformed input, evaluated on the typed-stream model: every truncation of the model messages, counts of 2^28 with no payload or with two genuine chunks of payload, unknown type codes, invalid flags and members of the wrong kind give an error; nothing panics and no make is sized by an announced count above the chunk limit")
	c.Rule("C07.R2", "GeoJSON decoder on malformed documents (wrong nesting, positions of 0/1/3 numbers, non-numbers, empty arrays, unknown types, nil): an error, never a panic — whatever mechanism (recover or error values) produces it")
	c.Rule("C07.R3", "in decoder functions a value returned together with an error is not asserted, dereferenced, indexed, method-called or returned with a nil error before that error is tested")
	c.Rule("C07.R4", "premise of the re-encode clause, by the typed-stream model of C05: what the WKB writer produces for the model geometries is what the reader consumes (counts = members that follow, members complete messages of their own, each in its announced byte order), so a value the decoder returned re-encodes to a message the decoder accepts")
	c.Rule("C07.R5", "hex decoder on malformed texts, evaluated through the interpreter with wkb.Decode described by the stream model: the empty text, one-character texts, texts that are not hexadecimal or of odd length, every truncation of the text of a Point message and texts with trailing characters give an error; nothing panics; and (premise of the re-encode clause) the hex pair hands the WKB pair exactly the bytes the text stands for")
	c07errflow(c)
	c05hex(c, "C07.R5", "C07.R5")
	// R4 (and the WKB half of R1/R2): the stream model of C05 — layouts agree, and every malformed
	// message gives an error without a panic or an allocation sized by an announced count
	c05model(c, "C07.R4", "C07.R4", "C07.R1")
	// the GeoJSON half of R2: malformed documents
	if fromFn := c.P.Func("encoding/geojson", "FromGeoJSON"); fromFn != nil && c.P.Decl(fromFn) != nil {
		m := newClipModel(c)
		m.it.maxDepth = 48
		anyT := types.NewInterfaceType(nil, nil)
		anyT.Complete()
		if gt := c.P.NamedType("encoding/geojson", "Geometry"); gt != nil && m.ptT != nil {
			m.it.stub = func(f *types.Func, recv oval, args []oval) ([]oval, bool) {
				if f.Pkg() != nil && (f.Pkg().Path() == "reflect" || f.Pkg().Path() == "encoding/json") {
					return []oval{oTop{f.FullName() + " is not modelled"}}, true
				}
				return nil, false
			}
			g := &gjModel{m: m, c: c, anyT: anyT, arrT: types.NewSlice(anyT), geomT: gt, strT: types.Typ[types.String], mpT: c.P.NamedType("geom", "MultiPoint")}
			c06malformed(c, g, fromFn, "C07.R2")
		}
	}
	c.Floor("C07.R4", 14)
	c.Floor("C07.R5", 1)
	c.Floor("C07.R1", 1)
	c.Floor("C07.R2", 1)
	c.Floor("C07.R3", 2)
}

// ---------------------------------------------------------------- R2

type panicSite struct {
	fn   *ssa.Function
	pos  token.Pos
	kind string
	desc string
	val  types.Type // for explicit panics: static type of the value
}

var errorIface = types.Universe.Lookup("error").Type().Underlying().(*types.Interface)

// ---------------------------------------------------------------- R3

func c07errflow(c *Ctx) {
	n := 0
	for _, pkg := range []string{"encoding/wkb", "encoding/hex", "encoding/geojson"} {
		pk := c.P.Pkg(pkg)
		if pk == nil {
			c.Unk("C07.R3", pkg, token.NoPos, "package not loaded")
			continue
		}
		for _, fn := range c.P.RepoFuncs() {
			if c.P.DeclPkg(fn) != pk {
				continue
			}
			fd := c.P.Decl(fn)
			if fd.Body == nil {
				continue
			}
			bad, tracked, unsup := errBeforeUse(pk.TypesInfo, fd.Body, fd.Type)
			if tracked == 0 && len(bad) == 0 {
				continue
			}
			n++
			name := c.P.FuncName(fn)
			switch {
			case len(unsup) > 0:
				c.Unk("C07.R3", name, unsup[0].Pos(), "unsupported control flow")
			case len(bad) > 0:
				b := bad[0]
				c.Bad("C07.R3", name, b.Node.Pos(), "%s of `%s` (`%s`) on a path where `%s` has not been tested", b.Kind, b.Var.Name(), src(b.Node), b.Err.Name())
			default:
				c.OK("C07.R3", name, fd.Pos(), "%d (value, err) pairs, none used before the error test", tracked)
			}
		}
	}
}
