package main

// C07 — decoders are total on untrusted input.
//
// R1 untrusted counts never size an allocation unless bounded (SSA taint).
// R2 panic containment: every may-panic construct reachable from a decoder is
//    statically safe or below a frame that recovers and converts to an error;
//    values passed to panic there implement error.
// R3 error-before-use in every decoder function.

import (
	"fmt"
	"go/ast"
	"go/token"
	"go/types"
	"sort"
	"strings"

	"golang.org/x/tools/go/ssa"
)

func init() { register("C07", true, checkC07) }

func checkC07(c *Ctx) {
	c.Rule("C07.R1", "WKB decoder on malformed input, evaluated on the typed-stream model: every truncation of the model messages, counts of 2^28 with no payload or with two genuine chunks of payload, unknown type codes, invalid flags and members of the wrong kind give an error; nothing panics and no make is sized by an announced count above the chunk limit")
	c.Rule("C07.R2", "GeoJSON decoder on malformed documents (wrong nesting, positions of 0/1/3 numbers, non-numbers, empty arrays, unknown types, nil): an error, never a panic — whatever mechanism (recover or error values) produces it")
	c.Rule("C07.R3", "in decoder functions a value returned together with an error is not asserted, dereferenced, indexed, method-called or returned with a nil error before that error is tested")
	c.Rule("C07.R4", "premise of the re-encode clause: WKB writer and reader format trees and code tables agree (a count written is the number of members written, members go through Write/Read), so a value the decoder returned re-encodes to a message the decoder accepts")
	c07errflow(c)
	// R4 (and the WKB half of R1/R2): the stream model of C05 — layouts agree, and every malformed
	// message gives an error without a panic or an allocation sized by an announced count
	c05model(c, "C07.R4", "C07.R4", "C07.R1")
	// the GeoJSON half of R2: malformed documents
	if fromFn := c.P.Func("encoding/geojson", "FromGeoJSON"); fromFn != nil && c.P.Decl(fromFn) != nil {
		m := newClipModel(c)
		m.it.maxDepth = 14
		anyT := types.NewInterfaceType(nil, nil)
		anyT.Complete()
		if gt := c.P.NamedType("encoding/geojson", "Geometry"); gt != nil && m.ptT != nil {
			m.it.stub = func(f *types.Func, recv oval, args []oval) ([]oval, bool) {
				if f.Pkg() != nil && (f.Pkg().Path() == "reflect" || f.Pkg().Path() == "encoding/json") {
					return []oval{oTop{f.FullName() + " is not modelled"}}, true
				}
				return nil, false
			}
			g := &gjModel{m: m, c: c, anyT: anyT, arrT: types.NewSlice(anyT), geomT: gt, strT: types.Typ[types.String], mpT: c.P.NamedType("geom", "MultiPoint")}
			c06malformed(c, g, fromFn, "C07.R2")
		}
	}
	c.Floor("C07.R4", 14)
	c.Floor("C07.R1", 1)
	c.Floor("C07.R2", 1)
	c.Floor("C07.R3", 8)
}

func ssaFuncName(c *Ctx, f *ssa.Function) string {
	if f.Parent() != nil {
		return ssaFuncName(c, f.Parent()) + "$lit"
	}
	if obj, ok := f.Object().(*types.Func); ok {
		return c.P.FuncName(obj)
	}
	return f.String()
}

func decoderRoots(c *Ctx) (roots []*ssa.Function, missing []string) {
	for _, r := range [][2]string{{"encoding/wkb", "Read"}, {"encoding/wkb", "Decode"}, {"encoding/hex", "Decode"}, {"encoding/geojson", "Decode"}, {"encoding/geojson", "FromGeoJSON"}} {
		f := c.P.Func(r[0], r[1])
		sf := c.P.SSAFunc(f)
		if sf == nil {
			missing = append(missing, r[0]+"."+r[1])
			continue
		}
		roots = append(roots, sf)
	}
	return
}

// wkbReaders: the functions stored in the reader registry are reachable through
// a dynamic call; collect them by type (any repo function with the registry's value type).
func c07reach(c *Ctx) map[*ssa.Function]bool {
	roots, _ := decoderRoots(c)
	out := reachStatic(c, roots)
	if c.Thorough {
		// thorough: add whatever the whole-program VTA call graph reaches inside the decoder packages
		// (cross-check of the signature-based resolution of the reader registry)
		extra := 0
		for f := range c.P.ReachableRepoFuncs(roots, true) {
			top := f
			for top.Parent() != nil {
				top = top.Parent()
			}
			if top.Pkg == nil {
				continue
			}
			pp := top.Pkg.Pkg.Path()
			if (strings.HasSuffix(pp, "/encoding/wkb") || strings.HasSuffix(pp, "/encoding/hex") || strings.HasSuffix(pp, "/encoding/geojson")) && !out[f] {
				out[f] = true
				extra++
			}
		}
		c.Note("thorough: VTA call graph adds %d decoder-package functions to the statically resolved reachable set", extra)
	}
	return out
}

// reachStatic: repo functions reachable through static calls, closures, and
// dynamic calls of function values resolved to every address-taken repo
// function of the same package with an identical signature (this resolves the
// WKB reader registry).  Interface method invocations (io.Reader, error, …) are
// not followed: the decoders only build geometry values, and the standard
// library is trusted.
func reachStatic(c *Ctx, roots []*ssa.Function) map[*ssa.Function]bool {
	return reachStaticStop(c, roots, nil)
}

// reachStaticStop is reachStatic that does not enter the functions in stop.
func reachStaticStop(c *Ctx, roots []*ssa.Function, stop map[*ssa.Function]bool) map[*ssa.Function]bool {
	// address-taken functions per package
	taken := map[*ssa.Package][]*ssa.Function{}
	for _, pk := range c.P.Repo {
		sp := c.P.SSA.Package(pk.Types)
		if sp == nil {
			continue
		}
		for _, m := range sp.Members {
			f, ok := m.(*ssa.Function)
			if !ok {
				continue
			}
			var all []*ssa.Function
			var collect func(g *ssa.Function)
			collect = func(g *ssa.Function) {
				all = append(all, g)
				for _, an := range g.AnonFuncs {
					collect(an)
				}
			}
			collect(f)
			for _, g := range all {
				for _, b := range g.Blocks {
					for _, in := range b.Instrs {
						for _, op := range in.Operands(nil) {
							if fv, ok := (*op).(*ssa.Function); ok {
								// a function used as a value (not as the callee of this call)
								if call, isCall := in.(ssa.CallInstruction); isCall && call.Common().Value == fv {
									continue
								}
								if fv.Pkg == sp {
									taken[sp] = append(taken[sp], fv)
								}
							}
						}
					}
				}
			}
		}
	}
	seen := map[*ssa.Function]bool{}
	var visit func(f *ssa.Function)
	visit = func(f *ssa.Function) {
		if f == nil || seen[f] || stop[f] {
			return
		}
		inRepo := false
		top := f
		for top.Parent() != nil {
			top = top.Parent()
		}
		if top.Pkg != nil && c.P.IsRepoPkg(top.Pkg.Pkg) {
			inRepo = true
		}
		if !inRepo {
			return
		}
		seen[f] = true
		for _, an := range f.AnonFuncs {
			visit(an)
		}
		for _, b := range f.Blocks {
			for _, in := range b.Instrs {
				call, ok := in.(ssa.CallInstruction)
				if !ok {
					continue
				}
				cc := call.Common()
				if cc.IsInvoke() {
					continue
				}
				if g := cc.StaticCallee(); g != nil {
					visit(g)
					continue
				}
				if _, isBuiltin := cc.Value.(*ssa.Builtin); isBuiltin {
					continue
				}
				// dynamic call of a function value
				sig, _ := cc.Value.Type().Underlying().(*types.Signature)
				if sig == nil {
					continue
				}
				for _, g := range taken[top.Pkg] {
					if types.Identical(g.Signature, sig) {
						visit(g)
					}
				}
			}
		}
	}
	for _, r := range roots {
		visit(r)
	}
	return seen
}

func c07taint(c *Ctx) {
	roots, missing := decoderRoots(c)
	for _, m := range missing {
		c.Unk("C07.R1", m, token.NoPos, "API anchor does not resolve")
	}
	_ = roots
	reach := c07reach(c)
	var funcs []*ssa.Function
	for f := range reach {
		if f.Pkg != nil && (strings.HasSuffix(f.Pkg.Pkg.Path(), "/encoding/wkb") || strings.HasSuffix(f.Pkg.Pkg.Path(), "/encoding/hex")) {
			funcs = append(funcs, f)
		}
	}
	sort.Slice(funcs, func(i, j int) bool { return funcs[i].Pos() < funcs[j].Pos() })
	if len(funcs) < 8 {
		c.Unk("C07.R1", "encoding/wkb#reachable", token.NoPos, "only %d WKB/hex functions reachable from the decoder entry points (reader registry not resolved?)", len(funcs))
	}
	t := newTaint(c.P, funcs)
	sources := 0
	for _, f := range funcs {
		sources += len(t.inputAllocs[f])
		perFn := map[string]int{}
		for _, b := range f.Blocks {
			for _, in := range b.Instrs {
				type sink struct {
					what string
					v    ssa.Value
				}
				var sinks []sink
				var pos token.Pos
				var typ string
				switch x := in.(type) {
				case *ssa.MakeSlice:
					sinks = []sink{{"len", x.Len}, {"cap", x.Cap}}
					pos, typ = x.Pos(), x.Type().String()
				case *ssa.MakeMap:
					if x.Reserve != nil {
						sinks = []sink{{"reserve", x.Reserve}}
					}
					pos, typ = x.Pos(), x.Type().String()
				case *ssa.MakeChan:
					sinks = []sink{{"size", x.Size}}
					pos, typ = x.Pos(), x.Type().String()
				default:
					continue
				}
				typ = strings.ReplaceAll(typ, "github.com/ctessum/", "")
				perFn[typ]++
				cons := fmt.Sprintf("%s#make(%s)", ssaFuncName(c, f), typ)
				if perFn[typ] > 1 {
					cons = fmt.Sprintf("%s#%d", cons, perFn[typ])
				}
				bad := ""
				for _, s := range sinks {
					if s.v == nil {
						continue
					}
					if t.tainted[s.v] && !t.bounded(s.v, b, false, 0) {
						bad = s.what
					}
				}
				if bad != "" {
					c.Bad("C07.R1", cons, pos, "allocation %s is a count read from the input (binary.Read) and is not bounded at this point: a few bytes of input can demand gigabytes (and on 32-bit platforms a negative length panics)", bad)
				} else {
					c.OK("C07.R1", cons, pos, "size is constant, data-derived or bounded")
				}
			}
		}
	}
	c.Note("C07.R1: %d functions reachable from the WKB/hex decoders, %d variables written by binary.Read", len(funcs), sources)
	if sources < 6 {
		c.Unk("C07.R1", "encoding/wkb#sources", token.NoPos, "only %d binary.Read destinations found, expected at least 6 (taint source model no longer matches the code)", sources)
	}
}

// ---------------------------------------------------------------- R2

type panicSite struct {
	fn   *ssa.Function
	pos  token.Pos
	kind string
	desc string
	val  types.Type // for explicit panics: static type of the value
}

// mayPanicSites lists explicit panics, single-result type assertions and
// index/slice expressions of one repo function, from its syntax.
func mayPanicSites(c *Ctx, f *ssa.Function) []panicSite {
	var out []panicSite
	var body ast.Node
	var info *types.Info
	switch syn := f.Syntax().(type) {
	case *ast.FuncDecl:
		body = syn.Body
	case *ast.FuncLit:
		body = syn.Body
	default:
		return nil
	}
	if body == nil {
		return nil
	}
	pk := c.P.PkgOfPos(f.Pos())
	if pk == nil {
		return nil
	}
	info = pk.TypesInfo
	commaOK := map[*ast.TypeAssertExpr]bool{}
	inspectNoLits(body, func(n ast.Node) bool {
		switch x := n.(type) {
		case *ast.AssignStmt:
			if len(x.Lhs) == 2 && len(x.Rhs) == 1 {
				if ta, ok := unparen(x.Rhs[0]).(*ast.TypeAssertExpr); ok {
					commaOK[ta] = true
				}
			}
		case *ast.ValueSpec:
			if len(x.Names) == 2 && len(x.Values) == 1 {
				if ta, ok := unparen(x.Values[0]).(*ast.TypeAssertExpr); ok {
					commaOK[ta] = true
				}
			}
		case *ast.TypeSwitchStmt:
			// x.(type) never panics
			switch a := x.Assign.(type) {
			case *ast.ExprStmt:
				if ta, ok := unparen(a.X).(*ast.TypeAssertExpr); ok {
					commaOK[ta] = true
				}
			case *ast.AssignStmt:
				if ta, ok := unparen(a.Rhs[0]).(*ast.TypeAssertExpr); ok {
					commaOK[ta] = true
				}
			}
		}
		return true
	})
	inspectNoLits(body, func(n ast.Node) bool {
		switch x := n.(type) {
		case *ast.CallExpr:
			if builtinName(info, x) == "panic" && len(x.Args) == 1 {
				out = append(out, panicSite{fn: f, pos: x.Pos(), kind: "panic", desc: src(x), val: info.TypeOf(x.Args[0])})
			}
		case *ast.TypeAssertExpr:
			if x.Type != nil && !commaOK[x] {
				out = append(out, panicSite{fn: f, pos: x.Pos(), kind: "assert", desc: src(x)})
			}
		case *ast.IndexExpr:
			if tv, ok := info.Types[x.X]; ok {
				switch tv.Type.Underlying().(type) {
				case *types.Slice, *types.Array, *types.Basic, *types.Pointer:
					out = append(out, panicSite{fn: f, pos: x.Pos(), kind: "index", desc: src(x)})
				}
			}
		case *ast.SliceExpr:
			out = append(out, panicSite{fn: f, pos: x.Pos(), kind: "slice", desc: src(x)})
		}
		return true
	})
	return out
}

var errorIface = types.Universe.Lookup("error").Type().Underlying().(*types.Interface)

// recoveringFrames: repo functions that defer a literal which calls recover()
// and stores into the function's error result.
func recoveringFrame(c *Ctx, f *ssa.Function) (ok bool, why string) {
	fd, isDecl := f.Syntax().(*ast.FuncDecl)
	if !isDecl || fd.Body == nil {
		return false, ""
	}
	pk := c.P.PkgOfPos(f.Pos())
	info := pk.TypesInfo
	res := resultVars(info, fd.Type)
	var errRes types.Object
	for _, r := range res {
		if r != nil && isErrorType(r.Type()) {
			errRes = r
		}
	}
	found := false
	for _, st := range fd.Body.List {
		ds, isDefer := st.(*ast.DeferStmt)
		if !isDefer {
			continue
		}
		lit, isLit := unparen(ds.Call.Fun).(*ast.FuncLit)
		if !isLit {
			continue
		}
		recovers, setsErr := false, false
		ast.Inspect(lit.Body, func(n ast.Node) bool {
			switch x := n.(type) {
			case *ast.CallExpr:
				if builtinName(info, x) == "recover" {
					recovers = true
				}
			case *ast.AssignStmt:
				for _, l := range x.Lhs {
					if errRes != nil && objOf(info, l) == errRes {
						setsErr = true
					}
				}
			}
			return true
		})
		if recovers {
			found = true
			if errRes == nil {
				return false, "the recovering function has no named error result to report the panic through"
			}
			if !setsErr {
				return false, "the deferred function recovers but does not set the error result"
			}
		}
	}
	return found, ""
}

func c07panics(c *Ctx) {
	roots, _ := decoderRoots(c)
	reach := reachStatic(c, roots)
	// recovering frames among reachable functions
	frames := map[*ssa.Function]bool{}
	for f := range reach {
		if ok, why := recoveringFrame(c, f); ok {
			frames[f] = true
		} else if why != "" {
			c.Bad("C07.R2", ssaFuncName(c, f)+"#recover", f.Pos(), "%s", why)
		}
	}
	// functions reachable from the roots without passing through a recovering frame
	unprotected := reachStaticStop(c, roots, frames)
	var fs []*ssa.Function
	for f := range reach {
		fs = append(fs, f)
	}
	sort.Slice(fs, func(i, j int) bool { return fs[i].Pos() < fs[j].Pos() })
	counts := map[string]int{}
	for _, f := range fs {
		// the deferred recovery literal itself runs outside the protection of its own frame
		inRecoverLit := f.Parent() != nil && frames[f.Parent()]
		sites := mayPanicSites(c, f)
		perKind := map[string]int{}
		for _, s := range sites {
			perKind[s.kind+s.desc]++
			cons := fmt.Sprintf("%s#%s:%s", ssaFuncName(c, f), s.kind, s.desc)
			if perKind[s.kind+s.desc] > 1 {
				cons = fmt.Sprintf("%s#%d", cons, perKind[s.kind+s.desc])
			}
			counts[s.kind]++
			protected := !unprotected[f] && !inRecoverLit
			switch s.kind {
			case "panic":
				if !protected {
					c.Bad("C07.R2", cons, s.pos, "explicit panic reachable from a decoder entry point without a recovering frame above it")
				} else if s.val == nil || !types.Implements(s.val, errorIface) {
					c.Bad("C07.R2", cons, s.pos, "the value passed to panic has type %v, which does not implement error: the recovering frame asserts e.(error), so this panic escapes the decoder", s.val)
				} else {
					c.OK("C07.R2", cons, s.pos, "recovered above; value implements error")
				}
			case "assert":
				if inRecoverLit {
					// e.(error) in the recovery: safe iff every explicit panic value below implements error — checked per panic site
					c.OK("C07.R2", cons, s.pos, "assertion on the recovered value; all explicit panic values below implement error (checked per site), runtime panics are errors")
				} else if protected {
					c.OK("C07.R2", cons, s.pos, "a failing assertion raises a runtime error, recovered above")
				} else {
					c.Bad("C07.R2", cons, s.pos, "single-result type assertion on decoded data without a recovering frame: malformed input panics")
				}
			case "index", "slice":
				if protected {
					c.OK("C07.R2", cons, s.pos, "out-of-range raises a runtime error, recovered above")
				} else if c07indexSafe(c, f, s) {
					c.OK("C07.R2", cons, s.pos, "index proven in range from the loop bound and the allocation length")
				} else {
					c.Bad("C07.R2", cons, s.pos, "index/slice expression in a decoder that is neither proven in range nor below a recovering frame")
				}
			}
		}
	}
	c.Note("C07.R2: %d reachable repo functions; %d recovering frame(s); sites: %v", len(reach), len(frames), counts)
	if len(frames) < 1 {
		c.Unk("C07.R2", "encoding/geojson#recover", token.NoPos, "no recovering frame found below the decoder entry points")
	}
}

// c07indexSafe: x[i] inside `for i := 0; i < N; i++` where x := make(T, N) with the same N.
func c07indexSafe(c *Ctx, f *ssa.Function, s panicSite) bool {
	fd, ok := f.Syntax().(*ast.FuncDecl)
	if !ok {
		return false
	}
	pk := c.P.PkgOfPos(f.Pos())
	info := pk.TypesInfo
	sc := newFnScope(info, fd.Body)
	var ix *ast.IndexExpr
	ast.Inspect(fd.Body, func(n ast.Node) bool {
		if e, ok := n.(*ast.IndexExpr); ok && e.Pos() == s.pos {
			ix = e
		}
		return true
	})
	if ix == nil {
		return false
	}
	x := objOf(info, ix.X)
	if x == nil {
		return false
	}
	d := sc.singleDef(x)
	if d == nil {
		return false
	}
	mk, ok := unparen(d).(*ast.CallExpr)
	if !ok || builtinName(info, mk) != "make" || len(mk.Args) != 2 {
		return false
	}
	// enclosing three-clause loop with i from 0 while i < N
	for _, anc := range enclosing(fd.Body, ix) {
		fs, ok := anc.(*ast.ForStmt)
		if !ok || fs.Cond == nil {
			continue
		}
		cond, ok := unparen(fs.Cond).(*ast.BinaryExpr)
		if !ok || cond.Op != token.LSS || objOf(info, cond.X) == nil || objOf(info, cond.X) != objOf(info, ix.Index) {
			continue
		}
		iv := objOf(info, cond.X)
		if sc.writtenIn(iv, fs.Body) {
			return false
		}
		init, ok := fs.Init.(*ast.AssignStmt)
		if !ok || len(init.Rhs) != 1 {
			return false
		}
		startOK := false
		if k, ok := constInt(info, init.Rhs[0]); ok && k == 0 {
			startOK = true
		}
		if call, ok := unparen(init.Rhs[0]).(*ast.CallExpr); ok && len(call.Args) == 1 {
			if k, ok := constInt(info, call.Args[0]); ok && k == 0 {
				startOK = true
			}
		}
		nObj := objOf(info, cond.Y)
		if startOK && nObj != nil && sameExpr(info, cond.Y, mk.Args[1]) && !sc.writtenIn(nObj, fs.Body) {
			return true
		}
	}
	return false
}

// ---------------------------------------------------------------- R3

func c07errflow(c *Ctx) {
	n := 0
	for _, pkg := range []string{"encoding/wkb", "encoding/hex", "encoding/geojson"} {
		pk := c.P.Pkg(pkg)
		if pk == nil {
			c.Unk("C07.R3", pkg, token.NoPos, "package not loaded")
			continue
		}
		for _, fn := range c.P.RepoFuncs() {
			if c.P.DeclPkg(fn) != pk {
				continue
			}
			fd := c.P.Decl(fn)
			if fd.Body == nil {
				continue
			}
			bad, tracked, unsup := errBeforeUse(pk.TypesInfo, fd.Body, fd.Type)
			if tracked == 0 && len(bad) == 0 {
				continue
			}
			n++
			name := c.P.FuncName(fn)
			switch {
			case len(unsup) > 0:
				c.Unk("C07.R3", name, unsup[0].Pos(), "unsupported control flow")
			case len(bad) > 0:
				b := bad[0]
				c.Bad("C07.R3", name, b.Node.Pos(), "%s of `%s` (`%s`) on a path where `%s` has not been tested", b.Kind, b.Var.Name(), src(b.Node), b.Err.Name())
			default:
				c.OK("C07.R3", name, fd.Pos(), "%d (value, err) pairs, none used before the error test", tracked)
			}
		}
	}
}
