package main

// Model evaluation of Len(), Points() and Bounds() for the eight geometry types (C04.R2–R4).
//
// Each method is interpreted on small geometries whose vertices are pairwise distinct
// abstract values and which contain empty members in every position (leading, trailing,
// several in a row, nested):
//
//	Len()     = the number of vertices
//	Points()  : Len() calls of the returned iterator yield the vertices in storage order
//	            and none of them panics
//	Bounds()  = the smallest box around the vertices; the NewBounds() box when there are none
//
// Values are compared, so the way the loops and closures are written does not matter.

import (
	"fmt"
	"go/token"
	"go/types"
)

type c04geom struct {
	name  string
	tn    string
	val   oval
	verts []oBoxPt
}

func c04inputs(m *clipModel, c *Ctx) []c04geom {
	mpT, gcT := c.P.NamedType("geom", "MultiPoint"), c.P.NamedType("geom", "GeometryCollection")
	ringT := m.polyT.Underlying().(*types.Slice).Elem()
	var out []c04geom
	flat := func(rs [][]oBoxPt) []oBoxPt {
		var o []oBoxPt
		for _, r := range rs {
			o = append(o, r...)
		}
		return o
	}
	add := func(name, tn string, v oval, verts []oBoxPt) { out = append(out, c04geom{name, tn, v, verts}) }
	// Point
	p := m.fresh()
	add("Point", "Point", m.it.point(m.ptT, p.x, p.y), []oBoxPt{p})
	// MultiPoint / LineString: 0, 1, 3 vertices
	for _, n := range []int{0, 1, 3} {
		if mpT != nil {
			s, pts := m.ring(mpT, m.ptT, n)
			add(fmt.Sprintf("MultiPoint(%d)", n), "MultiPoint", s, pts)
		}
		s, pts := m.ring(m.lsT, m.ptT, n)
		add(fmt.Sprintf("LineString(%d)", n), "LineString", s, pts)
	}
	// collections of paths: every placement of empty members
	shapes := [][]int{{}, {0}, {2}, {0, 2}, {2, 0}, {0, 0, 2}, {2, 0, 0, 1}, {0, 1, 0, 0, 2, 0}, {1, 2, 3}}
	for _, sh := range shapes {
		var ls, rs []oval
		var lv, rv [][]oBoxPt
		for _, n := range sh {
			l, lp := m.ring(m.lsT, m.ptT, n)
			ls, lv = append(ls, l), append(lv, lp)
			r, rp := m.ring(ringT, m.ptT, n)
			rs, rv = append(rs, r), append(rv, rp)
		}
		add(fmt.Sprintf("MultiLineString%v", sh), "MultiLineString", m.sliceOf(m.mlsT, ls), flat(lv))
		add(fmt.Sprintf("Polygon%v", sh), "Polygon", m.sliceOf(m.polyT, rs), flat(rv))
	}
	// multi-polygons: empty polygons, polygons of empty rings, in every position
	mshapes := [][][]int{{}, {{}}, {{0}}, {{2}}, {{}, {2}}, {{0}, {}, {1, 0, 2}}, {{2}, {}, {0}, {}}, {{}, {}, {0, 0}, {0, 3}, {}, {1}}}
	for _, sh := range mshapes {
		mp, rings := m.multiPolygon(sh...)
		add(fmt.Sprintf("MultiPolygon%v", sh), "MultiPolygon", mp, flat(rings))
	}
	// box
	a, b := m.fresh(), m.fresh()
	bs := m.it.bounds(m.bt, m.ptT, a.x, a.y, b.x, b.y)
	add("*Bounds", "Bounds", oPtr{bs}, []oBoxPt{{a.x, a.y}, {b.x, a.y}, {b.x, b.y}, {a.x, b.y}})
	// collections: empty, with empty members, nested
	if gcT != nil {
		mkPoint := func() (oval, []oBoxPt) {
			q := m.fresh()
			return m.it.ifaceOf(m.it.point(m.ptT, q.x, q.y)), []oBoxPt{q}
		}
		mkLine := func(n int) (oval, []oBoxPt) {
			l, lp := m.ring(m.lsT, m.ptT, n)
			return m.it.ifaceOf(l), lp
		}
		mkPoly := func(sizes ...int) (oval, []oBoxPt) {
			pg, pr := m.polygon(sizes...)
			return m.it.ifaceOf(pg), flat(pr)
		}
		coll := func(ms ...func() (oval, []oBoxPt)) (oval, []oBoxPt) {
			var vals []oval
			var verts []oBoxPt
			for _, f := range ms {
				v, vs := f()
				vals = append(vals, v)
				verts = append(verts, vs...)
			}
			return m.sliceOf(gcT, vals), verts
		}
		mkBox := func() (oval, []oBoxPt) {
			a, b := m.fresh(), m.fresh()
			lo, hi := oBoxPt{min64(a.x, b.x), min64(a.y, b.y)}, oBoxPt{max64(a.x, b.x), max64(a.y, b.y)}
			bs := m.it.bounds(m.bt, m.ptT, lo.x, lo.y, hi.x, hi.y)
			return m.it.ifaceOf(oPtr{bs}), []oBoxPt{{lo.x, lo.y}, {hi.x, lo.y}, {hi.x, hi.y}, {lo.x, hi.y}}
		}
		e0 := func() (oval, []oBoxPt) { return mkLine(0) }
		l2 := func() (oval, []oBoxPt) { return mkLine(2) }
		pg := func() (oval, []oBoxPt) { return mkPoly(0, 2) }
		pe := func() (oval, []oBoxPt) { return mkPoly() }
		nestedEmpty := func() (oval, []oBoxPt) { v, vs := coll(); return m.it.ifaceOf(v), vs }
		nested := func() (oval, []oBoxPt) { v, vs := coll(e0, mkPoint, pe); return m.it.ifaceOf(v), vs }
		for i, ms := range [][]func() (oval, []oBoxPt){{}, {mkPoint}, {e0}, {e0, mkPoint}, {mkPoint, e0, e0, l2}, {pe, e0, pg, nestedEmpty, mkPoint, e0}, {nested, e0, nested, l2},
			// a box as a member: first (what a fold seeded with the first member's own box would write into), last, nested
			{mkBox, mkPoint, l2}, {mkPoint, mkBox}, {func() (oval, []oBoxPt) { v, vs := coll(mkBox, mkPoint); return m.it.ifaceOf(v), vs }, l2}} {
			v, vs := coll(ms...)
			add(fmt.Sprintf("GeometryCollection#%d", i), "GeometryCollection", v, vs)
		}
	}
	return out
}

func c04model(c *Ctx, ruleFold, ruleIter string) {
	m := newClipModel(c)
	if m.ptT == nil || m.polyT == nil || m.bt == nil {
		c.Unk(ruleFold, "geom#geometry-model", token.NoPos, "geometry types do not resolve")
		return
	}
	m.it.stub = nil
	m.it.maxDepth = 48
	type verdict struct{ msg, unk string }
	res := map[string]*verdict{}
	order := []string{}
	get := func(k string) *verdict {
		if res[k] == nil {
			res[k] = &verdict{}
			order = append(order, k)
		}
		return res[k]
	}
	runs := 0
	for _, g := range c04inputs(m, c) {
		for _, meth := range []string{"Len", "Bounds", "Points"} {
			fn := c.P.Method("geom", g.tn, meth)
			if fn == nil || c.P.Decl(fn) == nil {
				get("geom." + g.tn + "." + meth).unk = "API anchor does not resolve"
				continue
			}
			v := get(c.P.FuncName(fn))
			if v.msg != "" || v.unk != "" {
				continue
			}
			runs++
			before := showVal(g.val)
			out, why := m.it.Call(fn, g.val, nil, 0)
			if why != "" {
				if len(why) > 6 && why[:6] == "panic:" {
					v.msg = fmt.Sprintf("%s.%s() panics: %s", g.name, meth, why)
				} else {
					v.unk = fmt.Sprintf("%s.%s(): not interpretable: %s", g.name, meth, why)
				}
				continue
			}
			if after := showVal(g.val); after != before {
				v.msg = fmt.Sprintf("%s.%s() changes the geometry it is called on: it was %s and is %s afterwards (a result built in a member's own storage)", g.name, meth, before, after)
				continue
			}
			switch meth {
			case "Len":
				if n, ok := out[0].(oInt); !ok || int(n) != len(g.verts) {
					v.msg = fmt.Sprintf("%s.Len() = %s, the geometry has %d vertices", g.name, showVal(out[0]), len(g.verts))
				}
			case "Bounds":
				p, ok := out[0].(oPtr)
				if !ok || p.s == nil {
					v.msg = fmt.Sprintf("%s.Bounds() = %s", g.name, showVal(out[0]))
					break
				}
				got, ok := boxOf(p.s)
				want := emptyBox
				for i, q := range g.verts {
					if i == 0 {
						want = oBox{q.x, q.y, q.x, q.y}
					} else {
						want = oBox{min64(want.minx, q.x), min64(want.miny, q.y), max64(want.maxx, q.x), max64(want.maxy, q.y)}
					}
				}
				if hasTop(p.s) {
					v.unk = fmt.Sprintf("%s.Bounds() = %s", g.name, showVal(p.s))
				} else if !ok || got != want {
					v.msg = fmt.Sprintf("%s.Bounds() = %s, the smallest box around its %d vertices is %s", g.name, showVal(p.s), len(g.verts), want)
				}
			case "Points":
				it := out[0]
				switch it.(type) {
				case oFunc, oBound, oFuncRef:
				default:
					v.unk = fmt.Sprintf("%s.Points() does not return a function: %s", g.name, showVal(out[0]))
				}
				if v.unk != "" {
					break
				}
				for k, wantP := range g.verts {
					r, why := m.it.CallValue(it, nil)
					if why != "" {
						if len(why) > 6 && why[:6] == "panic:" {
							v.msg = fmt.Sprintf("%s: call %d of %d of the Points() iterator panics (%s)", g.name, k+1, len(g.verts), why)
						} else {
							v.unk = fmt.Sprintf("%s: Points() iterator not interpretable: %s", g.name, why)
						}
						break
					}
					st, ok := r[0].(*oStruct)
					var got oBoxPt
					if ok {
						fx, okx := st.fields["X"].(oFloat)
						fy, oky := st.fields["Y"].(oFloat)
						ok = okx && oky
						got = oBoxPt{fx.r, fy.r}
					}
					if !ok || got != wantP {
						v.msg = fmt.Sprintf("%s: call %d of the Points() iterator yields %s, the %d-th vertex in storage order is v%d", g.name, k+1, showVal(r[0]), k+1, wantP.x/4)
						break
					}
				}
			}
		}
	}
	c.Evals(runs)
	for _, k := range order {
		v := res[k]
		rule := ruleFold
		if len(k) > 7 && k[len(k)-7:] == ".Points" {
			rule = ruleIter
		}
		switch {
		case v.msg != "":
			c.Bad(rule, k, token.NoPos, "%s", v.msg)
		case v.unk != "":
			c.Unk(rule, k, token.NoPos, "%s", v.unk)
		default:
			c.OK(rule, k, token.NoPos, "agrees with the vertex list on every model geometry (empty members in every position)")
		}
	}
}
