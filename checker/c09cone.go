package main

// C09.R10 (model evaluation) — the cone constant of a conic with a single standard parallel.
//
// Snyder's closed forms for the three conics of the package (Lambert conformal, Albers,
// equidistant) agree on one thing: with a single standard parallel φ₁ the cone constant —
// the factor by which the longitude difference is scaled into the polar angle — is sin φ₁,
// on the sphere and on the ellipsoid, whatever the latitude of origin.  Every registered
// projection is built from symbolic parameters with +lat_2 equal to +lat_1 and a different
// +lat_0, and its forward member is interpreted on a symbolic position.  In the easting, each
// sine or cosine whose argument is linear in the longitude with a coefficient that follows the
// standard parallel is a polar angle; that coefficient must be, as a term, the sine of what
// Parse stored for +lat_1.  A projection with no such angle is not a conic and is held to
// nothing.  This is a necessary condition of agreeing with the reference formulas, not the
// agreement itself (the radius functions are not compared).

import (
	"fmt"
	"go/token"
	"go/types"
	"path/filepath"
	"regexp"
	"sort"
	"strings"
)

// coneOthers: non-constant longitude coefficients that do not follow the parallels (for messages).
var coneOthers = map[string][]poly{}

var lamSym = regexp.MustCompile(`\blam\b`)

func c09coneModel(c *Ctx, rule string) {
	reg := projRegistry(c)
	byCtor := map[*types.Func][]string{}
	for n, f := range reg.names {
		byCtor[f] = append(byCtor[f], n)
	}
	var ctors []*types.Func
	for f := range byCtor {
		sort.Strings(byCtor[f])
		ctors = append(ctors, f)
	}
	sort.Slice(ctors, func(i, j int) bool { return byCtor[ctors[i]][0] < byCtor[ctors[j]][0] })
	members := 0
	for _, ctor := range ctors {
		if c.P.Decl(ctor) == nil {
			continue
		}
		name := byCtor[ctor][0]
		cons := c.P.FuncName(ctor) + "#single-parallel-cone-constant"
		pos := c.P.Decl(ctor).Pos()
		// two parallels first: is this a conic at all?
		two, _, why := coneConstants(c, ctor, name, "+lat_1=P1 +lat_2=P2")
		if why != "" || len(two) == 0 {
			continue
		}
		members++
		one, want, why := coneConstants(c, ctor, name, "+lat_1=P1 +lat_2=P1")
		switch {
		case why != "":
			c.Unk(rule, cons, pos, "the forward member is not interpretable with a single standard parallel: %s", why)
		case len(one) == 0:
			others := ""
			if o := coneOthers[name]; len(o) > 0 {
				others = fmt.Sprintf("; the longitude difference is scaled by %s instead", short(o[0].canon()))
			}
			c.Bad(rule, cons, pos, "with +lat_2 equal to +lat_1 the easting has no polar angle scaled by a quantity that follows the standard parallel (with two parallels it has %d)%s: the cone constant of a single parallel φ₁ is sin φ₁, whatever the latitude of origin", len(two), others)
		default:
			bad := ""
			for _, n := range one {
				if !n.equal(want) && !symRationalEqual(n, want) {
					bad = fmt.Sprintf("with a single standard parallel the longitude difference is scaled by %s in the polar angle; Snyder's cone constant is %s (the sine of the standard parallel, independent of the latitude of origin)", short(n.canon()), short(want.canon()))
				}
			}
			if bad != "" {
				c.Bad(rule, cons, pos, "%s", bad)
			} else {
				c.OK(rule, cons, pos, "with +lat_2 = +lat_1 ≠ +lat_0 the %d polar angle(s) of the easting scale the longitude difference by sin(lat_1) exactly", len(one))
			}
		}
	}
	if members == 0 {
		c.Unk(rule, "proj#conic-family", token.NoPos, "no registered projection has an easting with a polar angle N·(λ−λ₀) where N follows the standard parallels")
	}
}

// coneConstants: the coefficients of the longitude in the sine/cosine arguments of the forward
// easting that follow the standard parallels; and sin of the stored first parallel.
func coneConstants(c *Ctx, ctor *types.Func, name, parallels string) ([]poly, poly, string) {
	m, parse := newC20m(c)
	if m == nil {
		return nil, nil, "proj.Parse does not resolve"
	}
	m.it.maxLoop = 64
	val := m.it.valuation
	val["p1"], val["p2"], val["p3"], val["p4"] = 33, 45, 23, -96
	val["lam"], val["phi"] = -1.62, 0.72
	val["p40"] = 14
	symWiden = val
	defer func() { symWiden = nil }()
	symResetEval()
	sr, why := m.run(parse, "+proj="+name+" "+parallels+" +lat_0=P3 +lon_0=P4 +x_0=P5 +y_0=P6 +k_0=P13 +a=P7 +rf=P8 +no_defs")
	if why != "" {
		return nil, nil, why
	}
	lat1, ok := symOf(sr.fields["Lat1"])
	if !ok {
		return nil, nil, "the reference has no symbolic Lat1"
	}
	want, ok := symMath("Sin", []poly{lat1})
	if !ok {
		return nil, nil, "sin of the stored parallel"
	}
	c.Evals(1)
	res, why := m.it.Call(ctor, nil, []oval{oPtr{sr}}, 0)
	if why != "" {
		return nil, nil, why
	}
	if len(res) < 3 {
		return nil, nil, "constructor result"
	}
	if eq, ok := oEqual(res[2], oNil{}); !ok || !eq {
		return nil, nil, "the constructor returns an error"
	}
	c.Evals(1)
	r, why := m.it.CallValue(res[0], []oval{oSym{polyVar("lam")}, oSym{polyVar("phi")}})
	if why != "" {
		return nil, nil, "forward: " + why
	}
	x, ok := symOf(r[0])
	if !ok {
		return nil, nil, "forward returns " + showVal(r[0])
	}
	var out []poly
	coneOthers[name] = nil
	seen := map[string]bool{}
	var visit func(p poly, depth int)
	visit = func(p poly, depth int) {
		if depth > 6 {
			return
		}
		for k := range p {
			for _, f := range strings.Split(k, "*") {
				if seen[f] {
					continue
				}
				seen[f] = true
				app, ok := symApps[f]
				if !ok {
					if full, isAbbr := symWideOf[f]; isAbbr {
						app, ok = symApps[full]
					}
				}
				if !ok {
					continue
				}
				if (app.fn == "sin" || app.fn == "cos") && len(app.args) == 1 {
					if n, lin := lamCoefficient(app.args[0]); lin && mentionsSym(n, parallelSym) {
						out = append(out, n)
						continue
					} else if lin {
						if _, isConst := symConst(n); !isConst {
							coneOthers[name] = append(coneOthers[name], n)
						}
					}
				}
				for _, a := range app.args {
					visit(a, depth+1)
				}
			}
		}
	}
	visit(x, 0)
	sort.Slice(out, func(i, j int) bool { return out[i].canon() < out[j].canon() })
	return out, want, ""
}

// lamCoefficient: p = n·lam + rest with lam nowhere else; n as a term.
func lamCoefficient(p poly) (poly, bool) {
	n := poly{}
	found := false
	for k, co := range p {
		fs := strings.Split(k, "*")
		cnt := 0
		var rest []string
		for _, f := range fs {
			if f == "lam" {
				cnt++
			} else {
				if lamSym.MatchString(f) {
					return nil, false // the longitude inside another application
				}
				rest = append(rest, f)
			}
		}
		switch cnt {
		case 0:
		case 1:
			found = true
			n[strings.Join(rest, "*")] = co
		default:
			return nil, false
		}
	}
	return n, found
}

// C09.R11 (model evaluation) — the Universal Transverse Mercator system is the transverse
// Mercator projection with the system's constants: latitude of origin 0, central meridian
// 6·zone − 183 degrees, scale 0.9996, false easting 500 000 m, false northing 0 in the northern
// and 10 000 000 m in the southern hemisphere.  For several zones, with and without +south, the
// members built for "+proj=utm +zone=Z" must return, term for term, what the members built for
// the transverse Mercator reference with those constants return (forward on a symbolic position,
// inverse on the projected position).
func c09utmModel(c *Ctx, rule string) {
	reg := projRegistry(c)
	utm, tm := reg.names["utm"], reg.names["tmerc"]
	if utm == nil || tm == nil || c.P.Decl(utm) == nil || c.P.Decl(tm) == nil {
		c.Unk(rule, "proj#utm", token.NoPos, "utm and tmerc are not both registered")
		return
	}
	pos := c.P.Decl(utm).Pos()
	for _, zc := range []struct {
		zone  int
		south bool
	}{{14, false}, {14, true}, {1, false}, {60, true}, {33, false}} {
		hemi, y0, flag := 1.0, "0", ""
		if zc.south {
			hemi, y0, flag = -1.0, "10000000", " +south"
		}
		cons := fmt.Sprintf("proj.UTM#zone(%d%s)", zc.zone, strings.TrimSpace(flag))
		lon0 := 6*zc.zone - 183
		at := (float64(lon0) + 1.25) * 3.141592653589793 / 180 // a position inside the zone
		a, why1 := projTermsOf(c, utm, "utm", fmt.Sprintf("+proj=utm +zone=%d%s +a=P7 +rf=P8 +no_defs", zc.zone, flag), hemi, at)
		b, why2 := projTermsOf(c, tm, "tmerc", fmt.Sprintf("+proj=tmerc +lat_0=0 +lon_0=%d +k_0=0.9996 +x_0=500000 +y_0=%s +a=P7 +rf=P8 +no_defs", lon0, y0), hemi, at)
		switch {
		case strings.HasPrefix(why1, "!"):
			c.Bad(rule, cons, pos, "%s", why1[1:])
			continue
		case why1 != "" || why2 != "":
			c.Unk(rule, cons, pos, "not interpretable: %s%s", why1, why2)
			continue
		}
		bad := ""
		for _, t := range []struct {
			what string
			u, v poly
		}{{"easting", a.x, b.x}, {"northing", a.y, b.y}, {"longitude of the inverse", a.lon, b.lon}, {"latitude of the inverse", a.lat, b.lat}} {
			if !t.u.equal(t.v) && !symRationalEqual(t.u, t.v) {
				bad = fmt.Sprintf("the %s of zone %d%s is not that of the transverse Mercator projection with lat_0=0, lon_0=%d°, k_0=0.9996, x_0=500000, y_0=%s: what differs is %s", t.what, zc.zone, flag, lon0, y0, short(t.u.add(t.v, -1).canon()))
				break
			}
		}
		if bad != "" {
			c.Bad(rule, cons, pos, "%s", bad)
		} else {
			c.OK(rule, cons, pos, "both members equal, term for term, those of tmerc with the system's constants (lat_0 0, lon_0 %d°, k_0 0.9996, x_0 500000, y_0 %s)", lon0, y0)
		}
	}
}

// C09.R12 (model evaluation) — a named datum stands for its ellipsoid and its shift.  For every
// entry of the bundled proj4js datum table, "+datum=<name>" must parse to the reference that
// "+ellps=<the entry's ellipsoid> +towgs84=<the entry's shift>" parses to: same semi-axes and
// eccentricity, same stored shift values (proj4js: deriveConstants.js takes both from the table).
// Entries without a three- or seven-value shift (grid-shift datums) are compared on the
// ellipsoid only.
func c09namedDatumModel(c *Ctx, rule, jsDir string) {
	js, err := parseJSExports(filepath.Join(jsDir, "constants", "Datum.js"))
	if err != nil {
		c.Unk(rule, "proj4js#Datum.js", token.NoPos, "cannot read the bundled table: %v", err)
		return
	}
	m, parse := newC20m(c)
	if m == nil {
		c.Unk(rule, "proj.Parse", token.NoPos, "proj.Parse does not resolve")
		return
	}
	pos := c.P.Decl(parse).Pos()
	var names []string
	for n := range js {
		names = append(names, n)
	}
	sort.Strings(names)
	for _, n := range names {
		e := js[n]
		ell, okE := e["ellipse"]
		if !okE || ell.str == "" {
			continue
		}
		cons := "proj#named-datum(" + n + ")"
		shift := e["towgs84"].str
		named, why1 := m.run(parse, "+proj=longlat +datum="+n+" +no_defs")
		text := "+proj=longlat +ellps=" + ell.str
		if shift != "" {
			text += " +towgs84=" + shift
		}
		spelled, why2 := m.run(parse, text+" +no_defs")
		if why1 != "" || why2 != "" {
			c.Unk(rule, cons, pos, "+datum=%s or its spelled-out form is not interpretable: %s%s", n, why1, why2)
			continue
		}
		bad := ""
		for _, f := range []string{"A", "B", "Es"} {
			x, ok1 := symOf(named.fields[f])
			y, ok2 := symOf(spelled.fields[f])
			if !ok1 || !ok2 {
				bad = fmt.Sprintf("?SR.%s is %s for +datum=%s and %s for %s", f, showVal(named.fields[f]), n, showVal(spelled.fields[f]), text)
				break
			}
			if !x.equal(y) {
				bad = fmt.Sprintf("+datum=%s gives SR.%s = %s, but the datum's ellipsoid %s has %s: a named datum must bring its own ellipsoid", n, f, x.canon(), ell.str, y.canon())
				break
			}
		}
		if bad == "" && shift != "" {
			a, ok1 := named.fields["DatumParams"].(oSlice)
			b, ok2 := spelled.fields["DatumParams"].(oSlice)
			switch {
			case !ok1 || !ok2:
				bad = "?SR.DatumParams is " + showVal(named.fields["DatumParams"]) + " / " + showVal(spelled.fields["DatumParams"])
			case a.length() != b.length():
				bad = fmt.Sprintf("+datum=%s stores %d shift values, +towgs84=%s stores %d", n, a.length(), shift, b.length())
			default:
				for i := 0; i < a.length() && bad == ""; i++ {
					x, ok1 := symOf(a.at(i))
					y, ok2 := symOf(b.at(i))
					if !ok1 || !ok2 || !x.equal(y) {
						bad = fmt.Sprintf("+datum=%s stores %s as shift value %d, the table entry %s gives %s", n, showVal(a.at(i)), i+1, shift, showVal(b.at(i)))
					}
				}
			}
		}
		switch {
		case strings.HasPrefix(bad, "?"):
			c.Unk(rule, cons, pos, "%s", bad[1:])
		case bad != "":
			c.Bad(rule, cons, pos, "%s", bad)
		default:
			c.OK(rule, cons, pos, "+datum=%s parses to the semi-axes, eccentricity and shift values of %s", n, text)
		}
	}
}
