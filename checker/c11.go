package main

// C11 — R-tree search equals brute force after any insert/delete history.
//
// Fields are discovered semantically: height = the field Depth() returns,
// size = the one Size() returns, root = the *node field of Rtree; entries /
// parent / level / child / bb by type inside node and entry.

import (
	"go/token"
	"go/types"
)

func init() { register("C11", false, checkC11) }

type c11 struct {
	c                            *Ctx
	info                         *types.Info
	treeT, nodeT, entryT         *types.Named
	root, height, size           *types.Var
	entries, parent, level, leaf *types.Var
	bb, child, obj               *types.Var
	fold                         *types.Func // envelope of a node's entries
	split                        *types.Func
	pure                         map[*types.Func]int
	pkgFuncs                     []*types.Func
	r3name                       string // rule id under which the envelope-maintenance obligations are filed (C11.R3, or C12.R5 when run as a premise of the nearest-neighbour bounds)
}

func checkC11(c *Ctx) {
	c.Rule("C11.R1", "model evaluation of NewTree/Insert/Delete over three histories (fill, scattered drain to empty, refill; interleaved deletes of absent objects and duplicates; 36 boxes to height three) and several branching parameters, the comparisons of the insertion heuristics resolved once by the geometry and several times by arbitrary consistent orders: after every operation all leaves are at one depth and Depth() equals it, no node lacks a child it points to, and no call panics")
	c.Rule("C11.R2", "model evaluation, same runs: every node reached through an entry is parent-linked to the node holding that entry")
	c.Rule("C11.R3", "model evaluation, same runs: every inner entry's box is exactly the envelope of the boxes below it and every leaf entry's box is its object's box")
	c.Rule("C11.R4", "model evaluation, same runs (the heuristics' comparisons resolved by the geometry, by arbitrary orders and by tie-prone ones): Size() and the multiset of objects found in the leaves equal the history's; Delete of a stored object returns true and of an absent one false, leaving the tree unchanged")
	c.Rule("C11.R5", "model evaluation, same runs: no node holds more than MaxChildren entries")
	c.Rule("C11.R6", "every package-level relation over two boxes (found by signature) is closed intersection, containment or the lattice join, and the point relation closed containment, in all weak orderings of the coordinates; model evaluation: SearchIntersect returns exactly the stored objects (with multiplicity) whose boxes share a point with the query, for disjoint, touching, overlapping, degenerate and all-covering queries after every third operation")
	p := c.P.Pkg("index/rtree")
	if p == nil {
		c.Unk("C11.R1", "index/rtree", token.NoPos, "package not loaded")
		return
	}
	c11model(c, nil)
	c11predicates(c, p)
	c.exhaust = true
	premiseBounds(c, "C11.R7", "an object is stored under the box its Bounds() returns, and found again by it")
	c.Floor("C11.R7", 16)
	c.Floor("C11.R1", 2)
	c.Floor("C11.R2", 1)
	c.Floor("C11.R3", 1)
	c.Floor("C11.R4", 1)
	c.Floor("C11.R5", 1)
	c.Floor("C11.R6", 3)
}

// ---------------------------------------------------------------- R1

// ---------------------------------------------------------------- R2

// ---------------------------------------------------------------- R3

// ---------------------------------------------------------------- R4

// ---------------------------------------------------------------- R6
