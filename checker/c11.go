package main

// C11 — R-tree search equals brute force after any insert/delete history.
//
// Fields are discovered semantically: height = the field Depth() returns,
// size = the one Size() returns, root = the *node field of Rtree; entries /
// parent / level / child / bb by type inside node and entry.

import (
	"fmt"
	"go/ast"
	"go/token"
	"go/types"
)

func init() { register("C11", false, checkC11) }

type c11 struct {
	c                            *Ctx
	info                         *types.Info
	treeT, nodeT, entryT         *types.Named
	root, height, size           *types.Var
	entries, parent, level, leaf *types.Var
	bb, child, obj               *types.Var
	fold                         *types.Func // envelope of a node's entries
	split                        *types.Func
	pure                         map[*types.Func]int
	pkgFuncs                     []*types.Func
	r3name                       string // rule id under which the envelope-maintenance obligations are filed (C11.R3, or C12.R5 when run as a premise of the nearest-neighbour bounds)
}

func checkC11(c *Ctx) {
	c.Rule("C11.R1", "model evaluation of NewTree/Insert/Delete over three histories (fill, scattered drain to empty, refill; interleaved deletes of absent objects and duplicates; 36 boxes to height three) and several branching parameters, the comparisons of the insertion heuristics resolved once by the geometry and several times by arbitrary consistent orders: after every operation all leaves are at one depth and Depth() equals it, no node lacks a child it points to, and no call panics")
	c.Rule("C11.R2", "model evaluation, same runs: every node reached through an entry is parent-linked to the node holding that entry")
	c.Rule("C11.R3", "model evaluation, same runs: every inner entry's box is exactly the envelope of the boxes below it and every leaf entry's box is its object's box")
	c.Rule("C11.R4", "model evaluation, same runs: Size() and the multiset of objects found in the leaves equal the history's; Delete of a stored object returns true and of an absent one false, leaving the tree unchanged")
	c.Rule("C11.R5", "model evaluation, same runs: no node holds more than MaxChildren entries")
	c.Rule("C11.R6", "every package-level relation over two boxes (found by signature) is closed intersection, containment or the lattice join, and the point relation closed containment, in all weak orderings of the coordinates; model evaluation: SearchIntersect returns exactly the stored objects (with multiplicity) whose boxes share a point with the query, for disjoint, touching, overlapping, degenerate and all-covering queries after every third operation")
	p := c.P.Pkg("index/rtree")
	if p == nil {
		c.Unk("C11.R1", "index/rtree", token.NoPos, "package not loaded")
		return
	}
	c11model(c, nil)
	c11predicates(c, p)
	c.exhaust = true
	c.Floor("C11.R1", 2)
	c.Floor("C11.R2", 1)
	c.Floor("C11.R3", 1)
	c.Floor("C11.R4", 1)
	c.Floor("C11.R5", 1)
	c.Floor("C11.R6", 6)
}

func fieldReturnedBy(c *Ctx, info *types.Info, m *types.Func) *types.Var {
	fd := c.P.Decl(m)
	if fd == nil || len(fd.Body.List) != 1 {
		return nil
	}
	r, ok := fd.Body.List[0].(*ast.ReturnStmt)
	if !ok || len(r.Results) != 1 {
		return nil
	}
	sel, ok := unparen(r.Results[0]).(*ast.SelectorExpr)
	if !ok {
		return nil
	}
	if s := info.Selections[sel]; s != nil {
		v, _ := s.Obj().(*types.Var)
		return v
	}
	return nil
}

func (a *c11) discover() bool {
	c := a.c
	a.treeT = c.P.NamedType("index/rtree", "Rtree")
	if a.treeT == nil {
		c.Unk("C11.R1", "index/rtree.Rtree", token.NoPos, "type anchor does not resolve")
		return false
	}
	a.height = fieldReturnedBy(c, a.info, c.P.Method("index/rtree", "Rtree", "Depth"))
	a.size = fieldReturnedBy(c, a.info, c.P.Method("index/rtree", "Rtree", "Size"))
	st, _ := a.treeT.Underlying().(*types.Struct)
	for i := 0; st != nil && i < st.NumFields(); i++ {
		f := st.Field(i)
		if pt, ok := f.Type().(*types.Pointer); ok {
			if n, ok := pt.Elem().(*types.Named); ok {
				if _, isStruct := n.Underlying().(*types.Struct); isStruct {
					a.root, a.nodeT = f, n
				}
			}
		}
	}
	if a.height == nil || a.size == nil || a.root == nil {
		c.Unk("C11.R1", "index/rtree.Rtree#fields", token.NoPos, "could not identify the height (Depth), size (Size) and root fields")
		return false
	}
	ns := a.nodeT.Underlying().(*types.Struct)
	for i := 0; i < ns.NumFields(); i++ {
		f := ns.Field(i)
		switch t := f.Type().(type) {
		case *types.Pointer:
			if t.Elem() == types.Type(a.nodeT) {
				a.parent = f
			}
		case *types.Slice:
			if n, ok := t.Elem().(*types.Named); ok {
				a.entries, a.entryT = f, n
			}
		case *types.Basic:
			if t.Kind() == types.Bool {
				a.leaf = f
			} else if t.Info()&types.IsInteger != 0 {
				a.level = f
			}
		}
	}
	if a.parent == nil || a.entries == nil || a.level == nil || a.leaf == nil {
		c.Unk("C11.R1", "index/rtree.node#fields", token.NoPos, "could not identify parent/entries/level/leaf")
		return false
	}
	es := a.entryT.Underlying().(*types.Struct)
	for i := 0; i < es.NumFields(); i++ {
		f := es.Field(i)
		switch t := f.Type().(type) {
		case *types.Pointer:
			if t.Elem() == types.Type(a.nodeT) {
				a.child = f
			} else if isNamed(t, modPath, "Bounds") {
				a.bb = f
			}
		case *types.Named:
			if _, ok := t.Underlying().(*types.Interface); ok {
				a.obj = f
			}
		}
	}
	if a.child == nil || a.bb == nil || a.obj == nil {
		c.Unk("C11.R1", "index/rtree.entry#fields", token.NoPos, "could not identify bb/child/obj")
		return false
	}
	pk := c.P.Pkg("index/rtree")
	for _, fn := range c.P.RepoFuncs() {
		if c.P.DeclPkg(fn) == pk {
			a.pkgFuncs = append(a.pkgFuncs, fn)
			sig := fn.Type().(*types.Signature)
			if sig.Recv() != nil && named(sig.Recv().Type()) == a.nodeT && sig.Params().Len() == 0 && sig.Results().Len() == 1 && isNamed(sig.Results().At(0).Type(), modPath, "Bounds") {
				a.fold = fn
			}
			if sig.Recv() != nil && named(sig.Recv().Type()) == a.nodeT && sig.Results().Len() == 2 {
				if named(sig.Results().At(0).Type()) == a.nodeT && named(sig.Results().At(1).Type()) == a.nodeT {
					a.split = fn
				}
			}
		}
	}
	if a.fold == nil {
		c.Unk(a.r3name, "index/rtree.node#envelope", token.NoPos, "no method computing a node's envelope found")
		return false
	}
	return true
}

// fieldSel: if e is X.f for field f, returns X.
func (a *c11) fieldSel(e ast.Expr, f *types.Var) ast.Expr {
	sel, ok := unparen(e).(*ast.SelectorExpr)
	if !ok {
		return nil
	}
	if s := a.info.Selections[sel]; s != nil && s.Obj() == f {
		return sel.X
	}
	return nil
}

// ---------------------------------------------------------------- R1

// ---------------------------------------------------------------- R2

// ---------------------------------------------------------------- R3

// ---------------------------------------------------------------- R4

// isPure: fn performs no store to tree state (fields of Rtree/node/entry) and calls only pure package functions.
func (a *c11) isPure(fn *types.Func) bool {
	switch a.pure[fn] {
	case 1:
		return true
	case 2:
		return false
	case 3:
		return true // recursion: assume, the body check decides
	}
	a.pure[fn] = 3
	fd := a.c.P.Decl(fn)
	ok := true
	ast.Inspect(fd.Body, func(n ast.Node) bool {
		switch x := n.(type) {
		case *ast.AssignStmt:
			for _, l := range x.Lhs {
				if a.isTreeStateLvalue(l) {
					ok = false
				}
			}
		case *ast.IncDecStmt:
			if a.isTreeStateLvalue(x.X) {
				ok = false
			}
		case *ast.CallExpr:
			if g := callee(a.info, x); g != nil && a.c.P.Decl(g) != nil && g.Pkg() == fn.Pkg() && g != fn {
				if !a.isPure(g) {
					ok = false
				}
			}
		}
		return ok
	})
	if ok {
		a.pure[fn] = 1
	} else {
		a.pure[fn] = 2
	}
	return ok
}

func (a *c11) isTreeStateLvalue(l ast.Expr) bool {
	l = unparen(l)
	for {
		switch x := l.(type) {
		case *ast.SelectorExpr:
			if s := a.info.Selections[x]; s != nil {
				if v, ok := s.Obj().(*types.Var); ok && v.IsField() {
					rt := named(s.Recv())
					if rt == a.treeT || rt == a.nodeT || rt == a.entryT {
						// a field of a *local value* (e.g. `var bb geom.Bounds`) is not tree state; node/tree are always pointers here
						return true
					}
				}
			}
			l = unparen(x.X)
		case *ast.IndexExpr:
			l = unparen(x.X)
		case *ast.StarExpr:
			l = unparen(x.X)
		default:
			return false
		}
	}
}

func (a *c11) r4() {
	c := a.c
	// Insert: size +1 exactly once on every path (directly or through one callee level)
	for _, spec := range []struct {
		meth string
		want int
	}{{"Insert", 1}, {"Delete", -1}} {
		m := c.P.Method("index/rtree", "Rtree", spec.meth)
		fd := c.P.Decl(m)
		if fd == nil {
			c.Unk("C11.R4", "index/rtree.(*Rtree)."+spec.meth, token.NoPos, "API anchor does not resolve")
			continue
		}
		name := c.P.FuncName(m)
		bad, undec := "", ""
		var badPos token.Pos
		set := func(p token.Pos, s string) {
			if bad == "" {
				bad, badPos = s, p
			}
		}
		cl := &FactsClient{}
		bump := func(s Facts, d int) {
			cur := 0
			switch {
			case s["sz+1"]:
				cur = 1
			case s["sz-1"]:
				cur = -1
			case s["sz0"]:
				cur = 0
			default:
				return // already lost
			}
			delete(s, "sz+1")
			delete(s, "sz-1")
			delete(s, "sz0")
			switch cur + d {
			case 0:
				s["sz0"] = true
			case 1:
				s["sz+1"] = true
			case -1:
				s["sz-1"] = true
			}
		}
		cl.OnStmt = func(n ast.Node, s Facts) Facts {
			switch st := n.(type) {
			case *ast.IncDecStmt:
				if a.fieldSel(st.X, a.size) != nil {
					if st.Tok == token.INC {
						bump(s, 1)
					} else {
						bump(s, -1)
					}
					delete(s, "clean")
					return s
				}
				if a.isTreeStateLvalue(st.X) {
					delete(s, "clean")
				}
			case *ast.AssignStmt:
				for _, l := range st.Lhs {
					if a.fieldSel(l, a.size) != nil {
						k, ok := constInt(a.info, st.Rhs[0])
						switch {
						case st.Tok == token.ADD_ASSIGN && ok:
							bump(s, int(k))
						case st.Tok == token.SUB_ASSIGN && ok:
							bump(s, -int(k))
						default:
							undec = "size is assigned `" + src(st) + "`"
						}
						delete(s, "clean")
						continue
					}
					if a.isTreeStateLvalue(l) {
						delete(s, "clean")
						// removal of exactly one entry: X.entries = append(X.entries[:i], X.entries[i+1:]...)
						if X := a.fieldSel(l, a.entries); X != nil && len(st.Rhs) == 1 {
							if call, ok := unparen(st.Rhs[0]).(*ast.CallExpr); ok && builtinName(a.info, call) == "append" && call.Ellipsis.IsValid() && len(call.Args) == 2 {
								lo, ok1 := unparen(call.Args[0]).(*ast.SliceExpr)
								hi, ok2 := unparen(call.Args[1]).(*ast.SliceExpr)
								if ok1 && ok2 && lo.Low == nil && hi.High == nil && lo.High != nil && hi.Low != nil {
									if b, ok := unparen(hi.Low).(*ast.BinaryExpr); ok && b.Op == token.ADD && sameExpr(a.info, b.X, lo.High) {
										if k, ok := constInt(a.info, b.Y); ok && k == 1 {
											s["removed1"] = true
										}
									}
								}
							}
						}
					}
				}
			}
			// calls to impure package functions
			var scope ast.Node = n
			if rs, isLoop := n.(*ast.RangeStmt); isLoop {
				scope = rs.X
			}
			ast.Inspect(scope, func(m ast.Node) bool {
				if _, isLit := m.(*ast.FuncLit); isLit {
					return false
				}
				if call, ok := m.(*ast.CallExpr); ok {
					if g := callee(a.info, call); g != nil && c.P.Decl(g) != nil && g.Pkg() == m0pkg(a) {
						if !a.isPure(g) {
							delete(s, "clean")
						}
					}
				}
				return true
			})
			return s
		}
		cl.OnBranch = func(cond ast.Expr, truth bool, s Facts) Facts {
			ast.Inspect(cond, func(m ast.Node) bool {
				if call, ok := m.(*ast.CallExpr); ok {
					if g := callee(a.info, call); g != nil && c.P.Decl(g) != nil && g.Pkg() == m0pkg(a) && !a.isPure(g) {
						delete(s, "clean")
					}
				}
				return true
			})
			return s
		}
		cl.OnReturn = func(r *ast.ReturnStmt, s Facts) {
			pos := fd.End()
			if r != nil {
				pos = r.Pos()
			}
			if spec.meth == "Insert" {
				if !s["sz+1"] {
					set(pos, "a path through Insert does not change size by exactly +1")
				}
				return
			}
			if r == nil || len(r.Results) != 1 {
				set(pos, "Delete must return a boolean on every path")
				return
			}
			v := constOf(a.info, r.Results[0])
			if v == nil {
				undec = "Delete returns the non-constant `" + src(r.Results[0]) + "`"
				return
			}
			if v.String() == "true" {
				if !s["sz-1"] {
					set(pos, "Delete returns true on a path that did not decrement size exactly once")
				} else if !s["removed1"] {
					set(pos, "Delete returns true on a path that did not remove exactly one entry from a node")
				}
			} else {
				if !s["sz0"] {
					set(pos, "Delete returns false on a path that changed size")
				} else if !s["clean"] {
					set(pos, "Delete returns false on a path that already stored to tree state (a failed Delete must change nothing)")
				}
			}
		}
		fl := &Flow[Facts]{C: cl, Info: a.info}
		fl.Run(fd.Body, Facts{"sz0": true, "clean": true})
		switch {
		case undec != "":
			c.Unk("C11.R4", name, fd.Pos(), "%s", undec)
		case len(fl.Unsupported) > 0:
			c.Unk("C11.R4", name, fl.Unsupported[0].Pos(), "unsupported control flow")
		case bad != "":
			c.Bad("C11.R4", name, badPos, "%s", bad)
		default:
			c.OK("C11.R4", name, fd.Pos(), "size bookkeeping exact on every path%s", map[string]string{"Insert": "", "Delete": "; failure paths are effect-free"}[spec.meth])
		}
	}
}

func m0pkg(a *c11) *types.Package { return a.treeT.Obj().Pkg() }

// ---------------------------------------------------------------- R6

func (a *c11) r5() {
	c := a.c
	if a.split == nil {
		c.Unk("C11.R5", "index/rtree#split", token.NoPos, "split routine not found")
		return
	}
	// functions that only serve the split (fill the two groups): reachable from split
	inSplit := map[*types.Func]bool{a.split: true}
	var visit func(f *types.Func)
	visit = func(f *types.Func) {
		ast.Inspect(c.P.Decl(f).Body, func(n ast.Node) bool {
			if call, ok := n.(*ast.CallExpr); ok {
				if g := callee(a.info, call); g != nil && c.P.Decl(g) != nil && g.Pkg() == f.Pkg() && !inSplit[g] {
					inSplit[g] = true
					visit(g)
				}
			}
			return true
		})
	}
	visit(a.split)
	var maxField *types.Var
	st := a.treeT.Underlying().(*types.Struct)
	for i := 0; i < st.NumFields(); i++ {
		if st.Field(i).Name() == "MaxChildren" {
			maxField = st.Field(i)
		}
	}
	if maxField == nil {
		c.Unk("C11.R5", "index/rtree.Rtree.MaxChildren", token.NoPos, "exported fan-out bound not found")
		return
	}
	n := 0
	for _, fn := range a.pkgFuncs {
		if inSplit[fn] {
			continue
		}
		fd := c.P.Decl(fn)
		// append sites
		var sites []*ast.AssignStmt
		ast.Inspect(fd.Body, func(nd ast.Node) bool {
			as, ok := nd.(*ast.AssignStmt)
			if !ok || len(as.Lhs) != 1 || len(as.Rhs) != 1 {
				return true
			}
			X := a.fieldSel(as.Lhs[0], a.entries)
			call, isCall := unparen(as.Rhs[0]).(*ast.CallExpr)
			if X == nil || !isCall || builtinName(a.info, call) != "append" || call.Ellipsis.IsValid() {
				return true
			}
			if x0 := a.fieldSel(call.Args[0], a.entries); x0 == nil || !sameExpr(a.info, x0, X) {
				return true
			}
			sites = append(sites, as)
			return true
		})
		for _, site := range sites {
			n++
			X := a.fieldSel(site.Lhs[0], a.entries)
			key := src(X)
			cons := fmt.Sprintf("%s#append:%s", c.P.FuncName(fn), key)
			bad := ""
			var badPos token.Pos
			cl := &FactsClient{}
			cl.OnStmt = func(nd ast.Node, s Facts) Facts {
				if nd == ast.Node(site) {
					s["pending"] = true
					return s
				}
				// X reassigned: the expression no longer denotes the node that grew
				if as, ok := nd.(*ast.AssignStmt); ok {
					for _, l := range as.Lhs {
						if o := objOf(a.info, l); o != nil && mentions(a.info, X, o) && s["pending"] {
							// `leaf, split = leaf.split(…)` inside the overflow branch is the split itself
							if len(as.Rhs) == 1 {
								if call, ok := unparen(as.Rhs[0]).(*ast.CallExpr); ok && callee(a.info, call) == a.split {
									continue
								}
							}
							delete(s, "pending")
							s["lost"] = true
						}
					}
				}
				return s
			}
			cl.OnBranch = func(cond ast.Expr, truth bool, s Facts) Facts {
				if !s["pending"] {
					return s
				}
				for _, at := range conjuncts(cond, truth) {
					b, ok := unparen(at.E).(*ast.BinaryExpr)
					if !ok {
						continue
					}
					la := lenArg(a.info, b.X)
					if la == nil {
						continue
					}
					if x := a.fieldSel(la, a.entries); x == nil || src(x) != key {
						continue
					}
					if a.fieldSel(b.Y, maxField) == nil {
						continue
					}
					over := (b.Op == token.GTR && at.Truth) || (b.Op == token.LEQ && !at.Truth)
					within := (b.Op == token.GTR && !at.Truth) || (b.Op == token.LEQ && at.Truth)
					if within {
						delete(s, "pending")
					}
					if over {
						delete(s, "pending")
						s["overflow"] = true
					}
				}
				return s
			}
			splitSeen := func(nd ast.Node) bool {
				found := false
				ast.Inspect(nd, func(m ast.Node) bool {
					if call, ok := m.(*ast.CallExpr); ok && callee(a.info, call) == a.split {
						if sel, ok := unparen(call.Fun).(*ast.SelectorExpr); ok && src(sel.X) == key {
							found = true
						}
					}
					return true
				})
				return found
			}
			inner := cl.OnStmt
			cl.OnStmt = func(nd ast.Node, s Facts) Facts {
				if s["overflow"] {
					if _, isRange := nd.(*ast.RangeStmt); !isRange && splitSeen(nd) {
						delete(s, "overflow")
					}
				}
				return inner(nd, s)
			}
			cl.OnReturn = func(r *ast.ReturnStmt, s Facts) {
				if r != nil && s["overflow"] {
					for _, e := range r.Results {
						if splitSeen(e) {
							delete(s, "overflow")
						}
					}
				}
				pos := fd.End()
				if r != nil {
					pos = r.Pos()
				}
				if (s["pending"] || s["overflow"] || s["lost"]) && bad == "" {
					bad, badPos = "after `"+src(site)+"` a path returns without comparing len("+key+".entries) with MaxChildren and splitting the node on overflow: the node can exceed the maximum fan-out", pos
				}
			}
			fl := &Flow[Facts]{C: cl, Info: a.info}
			fl.Run(fd.Body, Facts{})
			switch {
			case len(fl.Unsupported) > 0:
				c.Unk("C11.R5", cons, fl.Unsupported[0].Pos(), "unsupported control flow")
			case bad != "":
				c.Bad("C11.R5", cons, badPos, "%s", bad)
			default:
				c.OK("C11.R5", cons, site.Pos(), "overflow is tested and split on every path")
			}
		}
	}
	if n == 0 {
		c.Unk("C11.R5", "index/rtree#appends", token.NoPos, "no append to a linked node's entries found")
	}
}
