package main

// C11 — R-tree search equals brute force after any insert/delete history.
//
// Fields are discovered semantically: height = the field Depth() returns,
// size = the one Size() returns, root = the *node field of Rtree; entries /
// parent / level / child / bb by type inside node and entry.

import (
	"fmt"
	"go/ast"
	"go/token"
	"go/types"
	"sort"
	"strings"
)

func init() { register("C11", false, checkC11) }

type c11 struct {
	c                            *Ctx
	info                         *types.Info
	treeT, nodeT, entryT         *types.Named
	root, height, size           *types.Var
	entries, parent, level, leaf *types.Var
	bb, child, obj               *types.Var
	fold                         *types.Func // envelope of a node's entries
	split                        *types.Func
	pure                         map[*types.Func]int
	pkgFuncs                     []*types.Func
	r3name                       string // rule id under which the envelope-maintenance obligations are filed (C11.R3, or C12.R5 when run as a premise of the nearest-neighbour bounds)
}

func checkC11(c *Ctx) {
	c.Rule("C11.R1", "outside the constructor every store to the root is balanced, on every path, by the matching height adjustment (new root above ⇒ ++, root replaced by its child ⇒ --); every node creation site sets the node's level")
	c.Rule("C11.R2", "parent links follow entries: every node literal initialises parent or becomes the root; every placement of an entry with a possibly non-nil child into a node's entries is paired with child.parent = that node, or the entry already belongs to that node")
	c.Rule("C11.R3", "every mutation of a node's entries under Insert/Delete is followed, before the operation returns, by the upward pass that stores the recomputed envelope into the parent's entry; the pass itself visits every ancestor up to the root (no early exit, root recognised by identity or by a parent link that every root store clears) and repairs the node's own entry at each level")
	c.Rule("C11.R4", "Insert changes size by exactly +1 on every path; Delete returns true only after removing one entry and decrementing size once, and returns false only on paths that performed no store to tree state")
	c.Rule("C11.R5", "every append to the entries of a node that is linked into the tree (not one of the two groups a split is filling) is followed on every path by a test of len(entries) against MaxChildren whose overflow branch splits that node")
	c.Rule("C11.R6", "intersect ⇔ closed boxes share a point, containsRect ⇔ r2 ⊆ r1, containsPoint ⇔ closed containment, enlarge/boundingBox = lattice join (all weak orderings, exhaustive); the search visits every entry whose box intersects the query and no other filter is applied")
	p := c.P.Pkg("index/rtree")
	if p == nil {
		c.Unk("C11.R1", "index/rtree", token.NoPos, "package not loaded")
		return
	}
	a := &c11{c: c, info: p.TypesInfo, pure: map[*types.Func]int{}, r3name: "C11.R3"}
	if !a.discover() {
		return
	}
	a.r1()
	a.r2()
	a.r3()
	a.r4()
	a.r5()
	a.r6()
	c.exhaust = true
	c.Floor("C11.R1", 3)
	c.Floor("C11.R2", 6)
	c.Floor("C11.R3", 5)
	c.Floor("C11.R4", 2)
	c.Floor("C11.R5", 2)
	c.Floor("C11.R6", 5)
}

func fieldReturnedBy(c *Ctx, info *types.Info, m *types.Func) *types.Var {
	fd := c.P.Decl(m)
	if fd == nil || len(fd.Body.List) != 1 {
		return nil
	}
	r, ok := fd.Body.List[0].(*ast.ReturnStmt)
	if !ok || len(r.Results) != 1 {
		return nil
	}
	sel, ok := unparen(r.Results[0]).(*ast.SelectorExpr)
	if !ok {
		return nil
	}
	if s := info.Selections[sel]; s != nil {
		v, _ := s.Obj().(*types.Var)
		return v
	}
	return nil
}

func (a *c11) discover() bool {
	c := a.c
	a.treeT = c.P.NamedType("index/rtree", "Rtree")
	if a.treeT == nil {
		c.Unk("C11.R1", "index/rtree.Rtree", token.NoPos, "type anchor does not resolve")
		return false
	}
	a.height = fieldReturnedBy(c, a.info, c.P.Method("index/rtree", "Rtree", "Depth"))
	a.size = fieldReturnedBy(c, a.info, c.P.Method("index/rtree", "Rtree", "Size"))
	st, _ := a.treeT.Underlying().(*types.Struct)
	for i := 0; st != nil && i < st.NumFields(); i++ {
		f := st.Field(i)
		if pt, ok := f.Type().(*types.Pointer); ok {
			if n, ok := pt.Elem().(*types.Named); ok {
				if _, isStruct := n.Underlying().(*types.Struct); isStruct {
					a.root, a.nodeT = f, n
				}
			}
		}
	}
	if a.height == nil || a.size == nil || a.root == nil {
		c.Unk("C11.R1", "index/rtree.Rtree#fields", token.NoPos, "could not identify the height (Depth), size (Size) and root fields")
		return false
	}
	ns := a.nodeT.Underlying().(*types.Struct)
	for i := 0; i < ns.NumFields(); i++ {
		f := ns.Field(i)
		switch t := f.Type().(type) {
		case *types.Pointer:
			if t.Elem() == types.Type(a.nodeT) {
				a.parent = f
			}
		case *types.Slice:
			if n, ok := t.Elem().(*types.Named); ok {
				a.entries, a.entryT = f, n
			}
		case *types.Basic:
			if t.Kind() == types.Bool {
				a.leaf = f
			} else if t.Info()&types.IsInteger != 0 {
				a.level = f
			}
		}
	}
	if a.parent == nil || a.entries == nil || a.level == nil || a.leaf == nil {
		c.Unk("C11.R1", "index/rtree.node#fields", token.NoPos, "could not identify parent/entries/level/leaf")
		return false
	}
	es := a.entryT.Underlying().(*types.Struct)
	for i := 0; i < es.NumFields(); i++ {
		f := es.Field(i)
		switch t := f.Type().(type) {
		case *types.Pointer:
			if t.Elem() == types.Type(a.nodeT) {
				a.child = f
			} else if isNamed(t, modPath, "Bounds") {
				a.bb = f
			}
		case *types.Named:
			if _, ok := t.Underlying().(*types.Interface); ok {
				a.obj = f
			}
		}
	}
	if a.child == nil || a.bb == nil || a.obj == nil {
		c.Unk("C11.R1", "index/rtree.entry#fields", token.NoPos, "could not identify bb/child/obj")
		return false
	}
	pk := c.P.Pkg("index/rtree")
	for _, fn := range c.P.RepoFuncs() {
		if c.P.DeclPkg(fn) == pk {
			a.pkgFuncs = append(a.pkgFuncs, fn)
			sig := fn.Type().(*types.Signature)
			if sig.Recv() != nil && named(sig.Recv().Type()) == a.nodeT && sig.Params().Len() == 0 && sig.Results().Len() == 1 && isNamed(sig.Results().At(0).Type(), modPath, "Bounds") {
				a.fold = fn
			}
			if sig.Recv() != nil && named(sig.Recv().Type()) == a.nodeT && sig.Results().Len() == 2 {
				if named(sig.Results().At(0).Type()) == a.nodeT && named(sig.Results().At(1).Type()) == a.nodeT {
					a.split = fn
				}
			}
		}
	}
	if a.fold == nil {
		c.Unk(a.r3name, "index/rtree.node#envelope", token.NoPos, "no method computing a node's envelope found")
		return false
	}
	return true
}

// fieldSel: if e is X.f for field f, returns X.
func (a *c11) fieldSel(e ast.Expr, f *types.Var) ast.Expr {
	sel, ok := unparen(e).(*ast.SelectorExpr)
	if !ok {
		return nil
	}
	if s := a.info.Selections[sel]; s != nil && s.Obj() == f {
		return sel.X
	}
	return nil
}

func (a *c11) mentionsField(n ast.Node, f *types.Var) bool {
	found := false
	ast.Inspect(n, func(m ast.Node) bool {
		if sel, ok := m.(*ast.SelectorExpr); ok {
			if s := a.info.Selections[sel]; s != nil && s.Obj() == f {
				found = true
			}
		}
		return !found
	})
	return found
}

// ---------------------------------------------------------------- R1

func (a *c11) r1() {
	c := a.c
	ctor := c.P.Func("index/rtree", "NewTree")
	stores := 0
	for _, fn := range a.pkgFuncs {
		if fn == ctor {
			continue
		}
		fd := c.P.Decl(fn)
		hasStore := false
		ast.Inspect(fd.Body, func(n ast.Node) bool {
			if as, ok := n.(*ast.AssignStmt); ok {
				for _, l := range as.Lhs {
					if a.fieldSel(l, a.root) != nil {
						hasStore = true
					}
				}
			}
			return true
		})
		if !hasStore {
			continue
		}
		stores++
		name := c.P.FuncName(fn)
		var badPos token.Pos
		bad := ""
		undec := ""
		cl := &FactsClient{}
		cl.OnStmt = func(n ast.Node, s Facts) Facts {
			delta := 0 // height change
			dir := 0   // root moved up (+1) / down (-1)
			switch st := n.(type) {
			case *ast.IncDecStmt:
				if a.fieldSel(st.X, a.height) != nil {
					if st.Tok == token.INC {
						delta = 1
					} else {
						delta = -1
					}
				}
			case *ast.AssignStmt:
				for i, l := range st.Lhs {
					if a.fieldSel(l, a.height) != nil {
						k, ok := constInt(a.info, st.Rhs[0])
						switch {
						case st.Tok == token.ADD_ASSIGN && ok && k == 1:
							delta = 1
						case st.Tok == token.SUB_ASSIGN && ok && k == 1:
							delta = -1
						default:
							undec = "height is assigned `" + src(st) + "`"
						}
					}
					if a.fieldSel(l, a.root) != nil && len(st.Rhs) == len(st.Lhs) {
						rhs := unparen(st.Rhs[i])
						switch {
						case a.isNewNodeAbove(rhs):
							dir = 1
						case a.isChildOfRoot(rhs):
							dir = -1
						default:
							undec = "root is assigned `" + src(rhs) + "`, neither a new node above the old root nor a child of the root"
						}
					}
				}
			}
			for _, ev := range []int{delta, dir * 2} {
				switch ev {
				case 1: // height++
					switch {
					case s["bal"]:
						delete(s, "bal")
						s["h+1"] = true
					case s["r+1"]:
						delete(s, "r+1")
						s["bal"] = true
					default:
						for k := range s {
							delete(s, k)
						}
					}
				case -1: // height--
					switch {
					case s["bal"]:
						delete(s, "bal")
						s["h-1"] = true
					case s["r-1"]:
						delete(s, "r-1")
						s["bal"] = true
					default:
						for k := range s {
							delete(s, k)
						}
					}
				case 2: // root up
					switch {
					case s["bal"]:
						delete(s, "bal")
						s["r+1"] = true
					case s["h+1"]:
						delete(s, "h+1")
						s["bal"] = true
					default:
						for k := range s {
							delete(s, k)
						}
					}
				case -2: // root down
					switch {
					case s["bal"]:
						delete(s, "bal")
						s["r-1"] = true
					case s["h-1"]:
						delete(s, "h-1")
						s["bal"] = true
					default:
						for k := range s {
							delete(s, k)
						}
					}
				}
			}
			return s
		}
		cl.OnReturn = func(r *ast.ReturnStmt, s Facts) {
			if !s["bal"] && bad == "" {
				bad = "a path reaches the function's end with the root moved but the height not adjusted to match (Depth() and the level arithmetic of re-insertion then disagree with the real tree)"
				if r != nil {
					badPos = r.Pos()
				} else {
					badPos = fd.End()
				}
			}
		}
		fl := &Flow[Facts]{C: cl, Info: a.info}
		fl.Run(fd.Body, Facts{"bal": true})
		switch {
		case undec != "":
			c.Unk("C11.R1", name+"#root-store", fd.Pos(), "%s", undec)
		case len(fl.Unsupported) > 0:
			c.Unk("C11.R1", name+"#root-store", fl.Unsupported[0].Pos(), "unsupported control flow")
		case bad != "":
			c.Bad("C11.R1", name+"#root-store", badPos, "%s", bad)
		default:
			c.OK("C11.R1", name+"#root-store", fd.Pos(), "every root move is matched by the height adjustment on all paths")
		}
	}
	if stores == 0 {
		c.Unk("C11.R1", "index/rtree#root-stores", token.NoPos, "no store to the root outside the constructor: root growth/collapse not found")
	}
	// node creation sites set level
	for _, fn := range a.pkgFuncs {
		fd := c.P.Decl(fn)
		k := 0
		ast.Inspect(fd.Body, func(n ast.Node) bool {
			lit, ok := n.(*ast.CompositeLit)
			if !ok || named(a.info.TypeOf(lit)) != a.nodeT {
				return true
			}
			if _, isPtrElem := a.info.TypeOf(lit).(*types.Pointer); isPtrElem {
				return true
			}
			k++
			cons := fmt.Sprintf("%s#new-node", c.P.FuncName(fn))
			if k > 1 {
				cons = fmt.Sprintf("%s-%d", cons, k)
			}
			hasLevel := false
			for _, el := range lit.Elts {
				if kv, ok := el.(*ast.KeyValueExpr); ok && src(kv.Key) == a.level.Name() {
					hasLevel = true
					if !(a.mentionsField(kv.Value, a.height) || a.mentionsField(kv.Value, a.level)) {
						if _, isConst := constInt(a.info, kv.Value); !isConst || fn != c.P.Func("index/rtree", "NewTree") {
							c.Bad("C11.R1", cons, lit.Pos(), "node level is initialised from `%s`, not from the tree height or the sibling's level", src(kv.Value))
							return true
						}
					}
				}
			}
			if !hasLevel {
				// assigned afterwards in the same function?
				ast.Inspect(fd.Body, func(m ast.Node) bool {
					if as, ok := m.(*ast.AssignStmt); ok {
						for _, l := range as.Lhs {
							if a.fieldSel(l, a.level) != nil {
								hasLevel = true
							}
						}
					}
					return true
				})
			}
			if hasLevel {
				c.OK("C11.R1", cons, lit.Pos(), "level is set")
			} else {
				c.Bad("C11.R1", cons, lit.Pos(), "a node is created without a level: re-insertion at level+1 and chooseNode compare levels")
			}
			return true
		})
	}
}

// isNewNodeAbove: &node{… entries: []entry{…child: oldRoot…}} or a local holding one.
func (a *c11) isNewNodeAbove(e ast.Expr) bool {
	if u, ok := e.(*ast.UnaryExpr); ok && u.Op == token.AND {
		if lit, ok := unparen(u.X).(*ast.CompositeLit); ok && named(a.info.TypeOf(lit)) == a.nodeT {
			return true
		}
	}
	return false
}

// isChildOfRoot: X.root.entries[k].child (or through locals: not followed).
func (a *c11) isChildOfRoot(e ast.Expr) bool {
	x := a.fieldSel(e, a.child)
	if x == nil {
		return false
	}
	ix, ok := unparen(x).(*ast.IndexExpr)
	if !ok {
		return false
	}
	ent := a.fieldSel(ix.X, a.entries)
	if ent == nil {
		return false
	}
	return a.fieldSel(ent, a.root) != nil
}

// ---------------------------------------------------------------- R2

// placement: an entry expression placed into node expression X.
func (a *c11) r2() {
	c := a.c
	for _, fn := range a.pkgFuncs {
		fd := c.P.Decl(fn)
		name := c.P.FuncName(fn)
		sc := newFnScope(a.info, fd.Body)
		k := 0
		report := func(pos token.Pos, what string, ok bool, detail string) {
			k++
			cons := fmt.Sprintf("%s#place-%s", name, what)
			if ok {
				c.OK("C11.R2", cons, pos, "%s", detail)
			} else {
				c.Bad("C11.R2", cons, pos, "%s", detail)
			}
		}
		// (a) node literals
		ast.Inspect(fd.Body, func(n ast.Node) bool {
			lit, ok := n.(*ast.CompositeLit)
			if !ok || named(a.info.TypeOf(lit)) != a.nodeT {
				return true
			}
			hasParent := false
			var entLit *ast.CompositeLit
			for _, el := range lit.Elts {
				if kv, ok := el.(*ast.KeyValueExpr); ok {
					if src(kv.Key) == a.parent.Name() {
						hasParent = true
					}
					if src(kv.Key) == a.entries.Name() {
						entLit, _ = unparen(kv.Value).(*ast.CompositeLit)
					}
				}
			}
			// stored to root?
			toRoot := false
			path := enclosing(fd.Body, lit)
			for i := len(path) - 1; i >= 0; i-- {
				if as, ok := path[i].(*ast.AssignStmt); ok {
					for _, l := range as.Lhs {
						if a.fieldSel(l, a.root) != nil {
							toRoot = true
						}
					}
				}
			}
			if len(lit.Elts) == 0 {
				// zero node (constructor): must become the root
				report(lit.Pos(), "literal:"+src(lit), toRoot, "empty node stored as the root")
				return true
			}
			if !hasParent && !toRoot {
				report(lit.Pos(), "literal:node", false, "a node is created without a parent link and is not the root: the upward passes (adjustTree, condenseTree) follow parent pointers")
			} else {
				report(lit.Pos(), "literal:node", true, "parent initialised (or the node is the root)")
			}
			// entries in the literal: children must be re-parented to this node in the same function
			if entLit != nil {
				for _, ee := range entLit.Elts {
					ch := a.childExprOfEntry(ee, sc)
					if ch == nil {
						continue
					}
					ok := a.parentSetTo(fd, ch, func(rhs ast.Expr) bool {
						// rhs must denote the new node: X.root when stored to root, or the variable it is assigned to
						if toRoot && a.fieldSel(rhs, a.root) != nil {
							return true
						}
						for i := len(path) - 1; i >= 0; i-- {
							if as, ok := path[i].(*ast.AssignStmt); ok && len(as.Lhs) == 1 {
								return sameExpr(a.info, as.Lhs[0], rhs)
							}
						}
						return false
					})
					report(ee.Pos(), "child:"+src(ch), ok, fmt.Sprintf("child `%s` of the new node %s re-parented to it", src(ch), map[bool]string{true: "is", false: "is NOT"}[ok]))
				}
			}
			return true
		})
		// (b) appends X.entries = append(X.entries, e) and X.entries = []entry{e…}
		ast.Inspect(fd.Body, func(n ast.Node) bool {
			as, ok := n.(*ast.AssignStmt)
			if !ok || len(as.Lhs) != 1 || len(as.Rhs) != 1 {
				return true
			}
			X := a.fieldSel(as.Lhs[0], a.entries)
			if X == nil {
				return true
			}
			rhs := unparen(as.Rhs[0])
			var placed []ast.Expr
			switch r := rhs.(type) {
			case *ast.CallExpr:
				if builtinName(a.info, r) == "append" {
					if r.Ellipsis.IsValid() {
						// append(X.entries[:i], X.entries[i+1:]...) — removal from the same node
						same := true
						for _, arg := range r.Args {
							se, ok := unparen(arg).(*ast.SliceExpr)
							if !ok || a.fieldSel(se.X, a.entries) == nil || !sameExpr(a.info, a.fieldSel(se.X, a.entries), X) {
								same = false
							}
						}
						report(as.Pos(), "splice:"+src(X), same, map[bool]string{true: "entries re-spliced from the same node (children keep their parent)", false: "entries spliced from another node without re-parenting"}[same])
						return true
					}
					if a.fieldSel(r.Args[0], a.entries) != nil {
						placed = r.Args[1:]
					}
				} else if builtinName(a.info, r) == "make" {
					return true
				}
			case *ast.CompositeLit:
				placed = r.Elts
			case *ast.Ident:
				// X.entries = filtered: every element appended to `filtered` comes from X.entries
				o := objOf(a.info, r)
				okFilter := o != nil
				ast.Inspect(fd.Body, func(m ast.Node) bool {
					as2, ok := m.(*ast.AssignStmt)
					if !ok || len(as2.Lhs) != 1 || objOf(a.info, as2.Lhs[0]) != o {
						return true
					}
					call, ok := unparen(as2.Rhs[0]).(*ast.CallExpr)
					if ok && builtinName(a.info, call) == "append" && len(call.Args) == 2 {
						// appended value must be the range variable of a loop over X.entries
						v := objOf(a.info, call.Args[1])
						fromX := false
						for _, anc := range enclosing(fd.Body, as2) {
							if rs, ok := anc.(*ast.RangeStmt); ok && rs.Value != nil && objOf(a.info, rs.Value) == v {
								if ex := a.fieldSel(rs.X, a.entries); ex != nil && sameExpr(a.info, ex, X) {
									fromX = true
								}
							}
						}
						if !fromX {
							okFilter = false
						}
					}
					return true
				})
				report(as.Pos(), "filter:"+src(X), okFilter, map[bool]string{true: "entries replaced by a filtered copy of the same node's entries", false: "entries replaced by a list that does not come from the same node"}[okFilter])
				return true
			}
			for _, e := range placed {
				ch := a.childExprOfEntry(e, sc)
				if ch == nil {
					report(e.Pos(), "leaf-entry:"+src(e), true, "entry has no child")
					continue
				}
				ok := a.parentSetTo(fd, ch, func(r ast.Expr) bool { return sameExpr(a.info, r, X) })
				if !ok && a.split != nil {
					// caller-side fact: the child was produced by split(), which links it to the receiver's parent
					ok = a.linkedBySplit(fn, fd, ch, X)
				}
				report(e.Pos(), "entry:"+src(e)+"→"+src(X), ok, fmt.Sprintf("child `%s` placed under `%s` %s parent-linked to it", src(ch), src(X), map[bool]string{true: "is", false: "is NOT"}[ok]))
			}
			return true
		})
		_ = k
	}
}

// childExprOfEntry: for an entry expression, the expression of its child (nil if statically nil).
func (a *c11) childExprOfEntry(e ast.Expr, sc *fnScope) ast.Expr {
	e = unparen(e)
	if lit, ok := e.(*ast.CompositeLit); ok && named(a.info.TypeOf(lit)) == a.entryT {
		es := a.entryT.Underlying().(*types.Struct)
		for i, el := range lit.Elts {
			if kv, ok := el.(*ast.KeyValueExpr); ok {
				if src(kv.Key) == a.child.Name() {
					if isNilConst(a.info, kv.Value) {
						return nil
					}
					return kv.Value
				}
			} else if i < es.NumFields() && es.Field(i) == a.child {
				if isNilConst(a.info, el) {
					return nil
				}
				return el
			}
		}
		return nil
	}
	if o := objOf(a.info, e); o != nil {
		if d := sc.singleDef(o); d != nil {
			if _, isLit := unparen(d).(*ast.CompositeLit); isLit {
				return a.childExprOfEntry(d, sc)
			}
		}
	}
	// unknown provenance: e.child
	return &ast.SelectorExpr{X: e, Sel: &ast.Ident{Name: a.child.Name()}}
}

// parentSetTo: the function contains `CH.parent = R` with okR(R), possibly under `if CH != nil`.
func (a *c11) parentSetTo(fd *ast.FuncDecl, ch ast.Expr, okR func(ast.Expr) bool) bool {
	found := false
	want := src(ch)
	ast.Inspect(fd.Body, func(n ast.Node) bool {
		as, ok := n.(*ast.AssignStmt)
		if !ok || len(as.Lhs) != 1 || len(as.Rhs) != 1 {
			return true
		}
		x := a.fieldSel(as.Lhs[0], a.parent)
		if x == nil {
			return true
		}
		if src(x) == want && okR(as.Rhs[0]) {
			found = true
		}
		return true
	})
	return found
}

// linkedBySplit: child CH is a parameter of fn that every caller passes as the
// second result of split(), and split creates that node with parent = receiver.parent,
// while X is `n.parent` for the parameter n passed as split's first result.
func (a *c11) linkedBySplit(fn *types.Func, fd *ast.FuncDecl, ch ast.Expr, X ast.Expr) bool {
	ps := paramVars(a.info, fd.Type)
	chObj := objOf(a.info, ch)
	if chObj == nil {
		return false
	}
	chIdx, nIdx := -1, -1
	for i, p := range ps {
		if p == chObj {
			chIdx = i
		}
	}
	xp := a.fieldSel(X, a.parent)
	if xp != nil {
		for i, p := range ps {
			if p != nil && objOf(a.info, xp) == p {
				nIdx = i
			}
		}
	}
	if chIdx < 0 || nIdx < 0 {
		return false
	}
	// split: right = &node{parent: n.parent, …}; returns (left=n, right)
	sfd := a.c.P.Decl(a.split)
	recv := receiverVar(a.info, sfd)
	splitOK := false
	ast.Inspect(sfd.Body, func(n ast.Node) bool {
		lit, ok := n.(*ast.CompositeLit)
		if !ok || named(a.info.TypeOf(lit)) != a.nodeT {
			return true
		}
		for _, el := range lit.Elts {
			if kv, ok := el.(*ast.KeyValueExpr); ok && src(kv.Key) == a.parent.Name() {
				if px := a.fieldSel(kv.Value, a.parent); px != nil && objOf(a.info, px) == recv {
					splitOK = true
				}
			}
		}
		return true
	})
	if !splitOK {
		return false
	}
	// every call of fn passes (…split results…) or nil for ch
	allOK := true
	calls := 0
	for _, g := range a.pkgFuncs {
		gfd := a.c.P.Decl(g)
		gsc := newFnScope(a.info, gfd.Body)
		ast.Inspect(gfd.Body, func(n ast.Node) bool {
			call, ok := n.(*ast.CallExpr)
			if !ok || callee(a.info, call) != fn {
				return true
			}
			calls++
			// f(x.split(…)) — tuple passed through
			if len(call.Args) == 1 {
				if inner, ok := unparen(call.Args[0]).(*ast.CallExpr); ok && callee(a.info, inner) == a.split {
					return true
				}
			}
			if chIdx >= len(call.Args) {
				allOK = false
				return true
			}
			arg := call.Args[chIdx]
			if isNilConst(a.info, arg) {
				return true
			}
			o := objOf(a.info, arg)
			okArg := false
			if o != nil {
				for _, d := range gsc.defs[o] {
					if d == nil {
						continue
					}
					if inner, ok := unparen(d).(*ast.CallExpr); ok && callee(a.info, inner) == a.split {
						okArg = true
					}
				}
				// declared `var split *node` (nil) and assigned only from split()
				if len(gsc.defs[o]) >= 1 && !okArg {
					okArg = false
				}
			}
			if !okArg {
				allOK = false
			}
			return true
		})
	}
	return allOK && calls > 0
}

// ---------------------------------------------------------------- R3

func (a *c11) r3() {
	c := a.c
	// U: functions that store fold() into an entry's bb
	U := map[*types.Func]bool{}
	for _, fn := range a.pkgFuncs {
		fd := c.P.Decl(fn)
		ast.Inspect(fd.Body, func(n ast.Node) bool {
			as, ok := n.(*ast.AssignStmt)
			if !ok || len(as.Lhs) != 1 || len(as.Rhs) != 1 {
				return true
			}
			if a.fieldSel(as.Lhs[0], a.bb) == nil {
				return true
			}
			if call, ok := unparen(as.Rhs[0]).(*ast.CallExpr); ok && callee(a.info, call) == a.fold {
				U[fn] = true
			}
			return true
		})
	}
	if len(U) == 0 {
		c.Bad(a.r3name, "index/rtree#upward-pass", token.NoPos, "no function stores a node's recomputed envelope into its parent's entry: envelopes are never updated")
		return
	}
	var us []string
	for f := range U {
		us = append(us, f.Name())
	}
	sort.Strings(us)
	for _, n := range us {
		for f := range U {
			if f.Name() == n {
				a.r3pass(f)
			}
		}
	}
	// mutation sites: X.entries = … where X is not a node created in this function
	type site struct {
		fn *types.Func
		as *ast.AssignStmt
		X  ast.Expr
	}
	mutators := map[*types.Func][]site{}
	for _, fn := range a.pkgFuncs {
		fd := c.P.Decl(fn)
		sc := newFnScope(a.info, fd.Body)
		ast.Inspect(fd.Body, func(n ast.Node) bool {
			as, ok := n.(*ast.AssignStmt)
			if !ok || len(as.Lhs) != 1 {
				return true
			}
			X := a.fieldSel(as.Lhs[0], a.entries)
			if X == nil {
				return true
			}
			// fresh node?
			if o := objOf(a.info, X); o != nil {
				for _, d := range sc.defs[o] {
					if d != nil && a.isNewNodeAbove(unparen(d)) {
						return true
					}
				}
			}
			if a.fieldSel(X, a.root) != nil && fn == c.P.Func("index/rtree", "NewTree") {
				return true
			}
			mutators[fn] = append(mutators[fn], site{fn, as, X})
			return true
		})
	}
	// followedByU(fn, stmt): on every path from stmt to a return of fn, a call into U occurs
	followed := func(fn *types.Func, target ast.Node) (bool, string) {
		fd := c.P.Decl(fn)
		okAll := true
		cl := &FactsClient{}
		cl.OnStmt = func(n ast.Node, s Facts) Facts {
			if containsNode(n, target) {
				if _, isLoop := n.(*ast.RangeStmt); !isLoop {
					s["dirty"] = true
					delete(s, "clean")
				}
			}
			var scope ast.Node = n
			if rs, isLoop := n.(*ast.RangeStmt); isLoop {
				scope = rs.X // header only; the body is walked statement by statement
			}
			ast.Inspect(scope, func(m ast.Node) bool {
				if _, isLit := m.(*ast.FuncLit); isLit {
					return false
				}
				if call, ok := m.(*ast.CallExpr); ok {
					if f := callee(a.info, call); f != nil && (U[f] || a.reachesU(f, U, map[*types.Func]bool{})) {
						if !containsNode(call, target) {
							s["clean"] = true
						}
					}
				}
				return true
			})
			return s
		}
		cl.OnReturn = func(r *ast.ReturnStmt, s Facts) {
			if r != nil {
				for _, e := range r.Results {
					ast.Inspect(e, func(m ast.Node) bool {
						if call, ok := m.(*ast.CallExpr); ok {
							if f := callee(a.info, call); f != nil && (U[f] || a.reachesU(f, U, map[*types.Func]bool{})) {
								s["clean"] = true
							}
						}
						return true
					})
				}
			}
			if !s["clean"] {
				okAll = false
			}
		}
		fl := &Flow[Facts]{C: cl, Info: a.info}
		fl.Run(fd.Body, Facts{"clean": true})
		if len(fl.Unsupported) > 0 {
			return false, "unsupported control flow"
		}
		return okAll, ""
	}
	var fns []*types.Func
	for f := range mutators {
		fns = append(fns, f)
	}
	sort.Slice(fns, func(i, j int) bool { return c.P.Decl(fns[i]).Pos() < c.P.Decl(fns[j]).Pos() })
	for _, fn := range fns {
		for i, st := range mutators[fn] {
			cons := fmt.Sprintf("%s#mutates:%s", c.P.FuncName(fn), src(st.X))
			if i > 0 {
				cons = fmt.Sprintf("%s#%d", cons, i+1)
			}
			if U[fn] {
				// inside the upward pass itself: the pass continues to the root (loop/recursion); checked by construction of U
				c.OK(a.r3name, cons, st.as.Pos(), "inside the upward pass %s, which continues towards the root", fn.Name())
				continue
			}
			ok, why := followed(fn, st.as)
			if why != "" {
				c.Unk(a.r3name, cons, st.as.Pos(), "%s", why)
				continue
			}
			if ok {
				c.OK(a.r3name, cons, st.as.Pos(), "followed on every path by the upward pass (%s)", strings.Join(us, "/"))
				continue
			}
			// helper: every caller must follow the call with the upward pass
			callersOK, ncall := true, 0
			for _, g := range a.pkgFuncs {
				gfd := c.P.Decl(g)
				ast.Inspect(gfd.Body, func(n ast.Node) bool {
					call, isCall := n.(*ast.CallExpr)
					if !isCall || callee(a.info, call) != fn {
						return true
					}
					ncall++
					if U[g] {
						return true
					}
					// the call may itself be an argument of a U call: f(x.split())
					for _, anc := range enclosing(gfd.Body, call) {
						if oc, ok := anc.(*ast.CallExpr); ok && oc != call {
							if f := callee(a.info, oc); f != nil && U[f] {
								return true
							}
						}
					}
					if ok2, _ := followed(g, call); !ok2 {
						// one more level: g is itself a helper (assign → assignGroup → split)
						if !a.allCallersFollow(g, U, followed, 0) {
							callersOK = false
						}
					}
					return true
				})
			}
			if callersOK && ncall > 0 {
				c.OK(a.r3name, cons, st.as.Pos(), "helper: every caller continues with the upward pass")
			} else {
				c.Bad(a.r3name, cons, st.as.Pos(), "`%s` changes a node's entries but a path returns to the user without the upward pass (%s) recomputing the envelopes above it: SearchIntersect prunes by stale boxes", src(st.as), strings.Join(us, "/"))
			}
		}
	}
}

func (a *c11) allCallersFollow(g *types.Func, U map[*types.Func]bool, followed func(*types.Func, ast.Node) (bool, string), depth int) bool {
	if depth > 3 {
		return false
	}
	n := 0
	ok := true
	for _, h := range a.pkgFuncs {
		hfd := a.c.P.Decl(h)
		ast.Inspect(hfd.Body, func(nd ast.Node) bool {
			call, isCall := nd.(*ast.CallExpr)
			if !isCall || callee(a.info, call) != g {
				return true
			}
			n++
			if U[h] {
				return true
			}
			for _, anc := range enclosing(hfd.Body, call) {
				if oc, ok := anc.(*ast.CallExpr); ok && oc != call {
					if f := callee(a.info, oc); f != nil && U[f] {
						return true
					}
				}
			}
			if ok2, _ := followed(h, call); !ok2 {
				if !a.allCallersFollow(h, U, followed, depth+1) {
					ok = false
				}
			}
			return true
		})
	}
	return ok && n > 0
}

func (a *c11) reachesU(f *types.Func, U map[*types.Func]bool, seen map[*types.Func]bool) bool {
	if U[f] {
		return true
	}
	if seen[f] || a.c.P.Decl(f) == nil {
		return false
	}
	seen[f] = true
	// f unconditionally calls into U as a top-level statement of its body
	fd := a.c.P.Decl(f)
	for _, st := range fd.Body.List {
		var call *ast.CallExpr
		switch s := st.(type) {
		case *ast.ExprStmt:
			call, _ = unparen(s.X).(*ast.CallExpr)
		case *ast.AssignStmt:
			if len(s.Rhs) == 1 {
				call, _ = unparen(s.Rhs[0]).(*ast.CallExpr)
			}
		}
		if call != nil {
			if g := callee(a.info, call); g != nil && a.reachesU(g, U, seen) {
				return true
			}
		}
	}
	return false
}

// ---------------------------------------------------------------- R4

// isPure: fn performs no store to tree state (fields of Rtree/node/entry) and calls only pure package functions.
func (a *c11) isPure(fn *types.Func) bool {
	switch a.pure[fn] {
	case 1:
		return true
	case 2:
		return false
	case 3:
		return true // recursion: assume, the body check decides
	}
	a.pure[fn] = 3
	fd := a.c.P.Decl(fn)
	ok := true
	ast.Inspect(fd.Body, func(n ast.Node) bool {
		switch x := n.(type) {
		case *ast.AssignStmt:
			for _, l := range x.Lhs {
				if a.isTreeStateLvalue(l) {
					ok = false
				}
			}
		case *ast.IncDecStmt:
			if a.isTreeStateLvalue(x.X) {
				ok = false
			}
		case *ast.CallExpr:
			if g := callee(a.info, x); g != nil && a.c.P.Decl(g) != nil && g.Pkg() == fn.Pkg() && g != fn {
				if !a.isPure(g) {
					ok = false
				}
			}
		}
		return ok
	})
	if ok {
		a.pure[fn] = 1
	} else {
		a.pure[fn] = 2
	}
	return ok
}

func (a *c11) isTreeStateLvalue(l ast.Expr) bool {
	l = unparen(l)
	for {
		switch x := l.(type) {
		case *ast.SelectorExpr:
			if s := a.info.Selections[x]; s != nil {
				if v, ok := s.Obj().(*types.Var); ok && v.IsField() {
					rt := named(s.Recv())
					if rt == a.treeT || rt == a.nodeT || rt == a.entryT {
						// a field of a *local value* (e.g. `var bb geom.Bounds`) is not tree state; node/tree are always pointers here
						return true
					}
				}
			}
			l = unparen(x.X)
		case *ast.IndexExpr:
			l = unparen(x.X)
		case *ast.StarExpr:
			l = unparen(x.X)
		default:
			return false
		}
	}
}

func (a *c11) r4() {
	c := a.c
	// Insert: size +1 exactly once on every path (directly or through one callee level)
	for _, spec := range []struct {
		meth string
		want int
	}{{"Insert", 1}, {"Delete", -1}} {
		m := c.P.Method("index/rtree", "Rtree", spec.meth)
		fd := c.P.Decl(m)
		if fd == nil {
			c.Unk("C11.R4", "index/rtree.(*Rtree)."+spec.meth, token.NoPos, "API anchor does not resolve")
			continue
		}
		name := c.P.FuncName(m)
		bad, undec := "", ""
		var badPos token.Pos
		set := func(p token.Pos, s string) {
			if bad == "" {
				bad, badPos = s, p
			}
		}
		cl := &FactsClient{}
		bump := func(s Facts, d int) {
			cur := 0
			switch {
			case s["sz+1"]:
				cur = 1
			case s["sz-1"]:
				cur = -1
			case s["sz0"]:
				cur = 0
			default:
				return // already lost
			}
			delete(s, "sz+1")
			delete(s, "sz-1")
			delete(s, "sz0")
			switch cur + d {
			case 0:
				s["sz0"] = true
			case 1:
				s["sz+1"] = true
			case -1:
				s["sz-1"] = true
			}
		}
		cl.OnStmt = func(n ast.Node, s Facts) Facts {
			switch st := n.(type) {
			case *ast.IncDecStmt:
				if a.fieldSel(st.X, a.size) != nil {
					if st.Tok == token.INC {
						bump(s, 1)
					} else {
						bump(s, -1)
					}
					delete(s, "clean")
					return s
				}
				if a.isTreeStateLvalue(st.X) {
					delete(s, "clean")
				}
			case *ast.AssignStmt:
				for _, l := range st.Lhs {
					if a.fieldSel(l, a.size) != nil {
						k, ok := constInt(a.info, st.Rhs[0])
						switch {
						case st.Tok == token.ADD_ASSIGN && ok:
							bump(s, int(k))
						case st.Tok == token.SUB_ASSIGN && ok:
							bump(s, -int(k))
						default:
							undec = "size is assigned `" + src(st) + "`"
						}
						delete(s, "clean")
						continue
					}
					if a.isTreeStateLvalue(l) {
						delete(s, "clean")
						// removal of exactly one entry: X.entries = append(X.entries[:i], X.entries[i+1:]...)
						if X := a.fieldSel(l, a.entries); X != nil && len(st.Rhs) == 1 {
							if call, ok := unparen(st.Rhs[0]).(*ast.CallExpr); ok && builtinName(a.info, call) == "append" && call.Ellipsis.IsValid() && len(call.Args) == 2 {
								lo, ok1 := unparen(call.Args[0]).(*ast.SliceExpr)
								hi, ok2 := unparen(call.Args[1]).(*ast.SliceExpr)
								if ok1 && ok2 && lo.Low == nil && hi.High == nil && lo.High != nil && hi.Low != nil {
									if b, ok := unparen(hi.Low).(*ast.BinaryExpr); ok && b.Op == token.ADD && sameExpr(a.info, b.X, lo.High) {
										if k, ok := constInt(a.info, b.Y); ok && k == 1 {
											s["removed1"] = true
										}
									}
								}
							}
						}
					}
				}
			}
			// calls to impure package functions
			var scope ast.Node = n
			if rs, isLoop := n.(*ast.RangeStmt); isLoop {
				scope = rs.X
			}
			ast.Inspect(scope, func(m ast.Node) bool {
				if _, isLit := m.(*ast.FuncLit); isLit {
					return false
				}
				if call, ok := m.(*ast.CallExpr); ok {
					if g := callee(a.info, call); g != nil && c.P.Decl(g) != nil && g.Pkg() == m0pkg(a) {
						if !a.isPure(g) {
							delete(s, "clean")
						}
					}
				}
				return true
			})
			return s
		}
		cl.OnBranch = func(cond ast.Expr, truth bool, s Facts) Facts {
			ast.Inspect(cond, func(m ast.Node) bool {
				if call, ok := m.(*ast.CallExpr); ok {
					if g := callee(a.info, call); g != nil && c.P.Decl(g) != nil && g.Pkg() == m0pkg(a) && !a.isPure(g) {
						delete(s, "clean")
					}
				}
				return true
			})
			return s
		}
		cl.OnReturn = func(r *ast.ReturnStmt, s Facts) {
			pos := fd.End()
			if r != nil {
				pos = r.Pos()
			}
			if spec.meth == "Insert" {
				if !s["sz+1"] {
					set(pos, "a path through Insert does not change size by exactly +1")
				}
				return
			}
			if r == nil || len(r.Results) != 1 {
				set(pos, "Delete must return a boolean on every path")
				return
			}
			v := constOf(a.info, r.Results[0])
			if v == nil {
				undec = "Delete returns the non-constant `" + src(r.Results[0]) + "`"
				return
			}
			if v.String() == "true" {
				if !s["sz-1"] {
					set(pos, "Delete returns true on a path that did not decrement size exactly once")
				} else if !s["removed1"] {
					set(pos, "Delete returns true on a path that did not remove exactly one entry from a node")
				}
			} else {
				if !s["sz0"] {
					set(pos, "Delete returns false on a path that changed size")
				} else if !s["clean"] {
					set(pos, "Delete returns false on a path that already stored to tree state (a failed Delete must change nothing)")
				}
			}
		}
		fl := &Flow[Facts]{C: cl, Info: a.info}
		fl.Run(fd.Body, Facts{"sz0": true, "clean": true})
		switch {
		case undec != "":
			c.Unk("C11.R4", name, fd.Pos(), "%s", undec)
		case len(fl.Unsupported) > 0:
			c.Unk("C11.R4", name, fl.Unsupported[0].Pos(), "unsupported control flow")
		case bad != "":
			c.Bad("C11.R4", name, badPos, "%s", bad)
		default:
			c.OK("C11.R4", name, fd.Pos(), "size bookkeeping exact on every path%s", map[string]string{"Insert": "", "Delete": "; failure paths are effect-free"}[spec.meth])
		}
	}
}

func m0pkg(a *c11) *types.Package { return a.treeT.Obj().Pkg() }

// ---------------------------------------------------------------- R6

func (a *c11) r6() {
	c := a.c
	e := newC04E2(c)
	valid := func() []boxPair { return e.boxPairs(false) }
	run := func(fname string, spec func(bp boxPair) (want interface{}, recvAfter *oBox), twoBoxes bool) {
		f := c.P.Func("index/rtree", fname)
		if f == nil || c.P.Decl(f) == nil {
			return
		}
		name, pos := c.P.FuncName(f), c.P.Decl(f).Pos()
		n := 0
		for _, bp := range valid() {
			n++
			r1, r2 := e.mk(bp.a), e.mk(bp.b)
			res, why := e.it.Call(f, nil, []oval{oPtr{r1}, oPtr{r2}}, 0)
			if why != "" {
				c.Unk("C11.R6", name, pos, "outside the order fragment: %s", why)
				c.Evals(n)
				return
			}
			want, after := spec(bp)
			if wb, ok := want.(bool); ok {
				if got, ok := res[0].(oBool); !ok || bool(got) != wb {
					c.Bad("C11.R6", name, pos, "ordering r1=%s r2=%s: %s = %s, want %v", bp.a, bp.b, fname, showVal(res[0]), wb)
					c.Evals(n)
					return
				}
			}
			if wbx, ok := want.(oBox); ok {
				if got, ok := boxOf(res[0]); !ok || got != wbx {
					c.Bad("C11.R6", name, pos, "ordering r1=%s r2=%s: %s = %s, want %s", bp.a, bp.b, fname, showVal(res[0]), wbx)
					c.Evals(n)
					return
				}
			}
			if after != nil {
				if got, ok := boxOf(r1); !ok || got != *after {
					c.Bad("C11.R6", name, pos, "ordering r1=%s r2=%s: r1 becomes %s, want %s", bp.a, bp.b, showVal(r1), *after)
					c.Evals(n)
					return
				}
			}
			if got, _ := boxOf(r2); got != bp.b {
				c.Bad("C11.R6", name, pos, "%s modifies its second argument", fname)
				return
			}
		}
		c.Evals(n)
		c.OK("C11.R6", name, pos, "agrees with the order-level specification in all %d orderings", n)
	}
	// intersect: discovered as the predicate used by the search; named anchors are internal, so find by use
	search := c.P.Method("index/rtree", "Rtree", "SearchIntersect")
	var pred *types.Func
	var searchFn *types.Func
	if sfd := c.P.Decl(search); sfd != nil {
		for _, g := range append([]*types.Func{search}, calleesOf(c, a.info, search)...) {
			gfd := c.P.Decl(g)
			if gfd == nil {
				continue
			}
			ast.Inspect(gfd.Body, func(n ast.Node) bool {
				if is, ok := n.(*ast.IfStmt); ok {
					if call, ok := unparen(is.Cond).(*ast.CallExpr); ok && len(call.Args) == 2 {
						if f := callee(a.info, call); f != nil && c.P.Decl(f) != nil && a.fieldSel(call.Args[0], a.bb) != nil {
							pred, searchFn = f, g
						}
					}
				}
				return true
			})
		}
	}
	if pred == nil {
		c.Unk("C11.R6", "index/rtree#search-predicate", token.NoPos, "the box predicate filtering the search was not found")
	} else {
		run(pred.Name(), func(bp boxPair) (interface{}, *oBox) {
			return bp.a.minx <= bp.b.maxx && bp.b.minx <= bp.a.maxx && bp.a.miny <= bp.b.maxy && bp.b.miny <= bp.a.maxy, nil
		}, true)
		// search loop: full range over n.entries, the predicate is the only filter, recursion into children
		fd := c.P.Decl(searchFn)
		sc := newFnScope(a.info, fd.Body)
		msg := "no loop over the node's entries"
		for _, st := range fd.Body.List {
			l := sc.loopOf(st)
			if l == nil || l.Hi.Of == nil || a.fieldSel(l.Hi.Of, a.entries) == nil {
				continue
			}
			msg = ""
			if !(l.Lo.K == 0 && l.Lo.Of == nil && l.Hi.K == 0) {
				msg = "search loop " + l.String() + " does not visit every entry"
			}
			brk, cont, rets := earlyExits(l.Body)
			if len(brk)+len(cont)+len(rets) > 0 {
				msg = "search loop has an early exit: matching entries can be missed"
			}
			if len(l.Body.List) != 1 {
				msg = "search loop body has more than the intersect filter"
			} else if is, ok := l.Body.List[0].(*ast.IfStmt); !ok || is.Else != nil {
				msg = "search loop body is not a single intersect filter"
			} else if call, ok := unparen(is.Cond).(*ast.CallExpr); !ok || callee(a.info, call) != pred {
				msg = "entries are filtered by `" + src(is.Cond) + "`, not by the intersect predicate alone"
			}
		}
		if msg == "" {
			c.OK("C11.R6", c.P.FuncName(searchFn)+"#loop", fd.Pos(), "visits every entry whose box intersects the query")
		} else {
			c.Bad("C11.R6", c.P.FuncName(searchFn)+"#loop", fd.Pos(), "%s", msg)
		}
	}
	run("containsRect", func(bp boxPair) (interface{}, *oBox) {
		return bp.b.minx >= bp.a.minx && bp.b.miny >= bp.a.miny && bp.b.maxx <= bp.a.maxx && bp.b.maxy <= bp.a.maxy, nil
	}, true)
	run("enlarge", func(bp boxPair) (interface{}, *oBox) {
		j := join(bp.a, bp.b, false, false)
		return nil, &j
	}, true)
	run("boundingBox", func(bp boxPair) (interface{}, *oBox) {
		return join(bp.a, bp.b, false, false), nil
	}, true)
	// the envelope fold: first entry copied, the rest joined, full range
	if fd := c.P.Decl(a.fold); fd != nil {
		recv := receiverVar(a.info, fd)
		sc := newFnScope(a.info, fd.Body)
		msg := "no loop over the entries"
		for _, st := range fd.Body.List {
			l := sc.loopOf(st)
			if l == nil || l.Hi.Of == nil {
				continue
			}
			if x := a.fieldSel(l.Hi.Of, a.entries); x == nil || objOf(a.info, x) != recv {
				continue
			}
			msg = ""
			if !(l.Lo.K == 0 && l.Lo.Of == nil && l.Hi.K == 0) {
				msg = "envelope loop " + l.String() + " does not fold every entry"
			}
			brk, cont, rets := earlyExits(l.Body)
			if len(brk)+len(cont)+len(rets) > 0 {
				msg = "envelope loop has an early exit"
			}
		}
		if msg == "" {
			c.OK("C11.R6", c.P.FuncName(a.fold), fd.Pos(), "folds every entry's box")
		} else {
			c.Bad("C11.R6", c.P.FuncName(a.fold), fd.Pos(), "%s", msg)
		}
	}
	// containsPoint
	if f := c.P.Func("index/rtree", "containsPoint"); f != nil && c.P.Decl(f) != nil {
		name, pos := c.P.FuncName(f), c.P.Decl(f).Pos()
		n, bad := 0, false
		for _, ox := range weakOrderings(3) {
			if ox[0] > ox[1] {
				continue
			}
			for _, oy := range weakOrderings(3) {
				if oy[0] > oy[1] {
					continue
				}
				n++
				res, why := e.it.Call(f, nil, []oval{oPtr{e.mk(oBox{ox[0], oy[0], ox[1], oy[1]})}, e.it.point(e.pt, ox[2], oy[2])}, 0)
				if why != "" {
					c.Unk("C11.R6", name, pos, "outside the order fragment: %s", why)
					bad = true
					break
				}
				want := ox[0] <= ox[2] && ox[2] <= ox[1] && oy[0] <= oy[2] && oy[2] <= oy[1]
				if got, ok := res[0].(oBool); !ok || bool(got) != want {
					c.Bad("C11.R6", name, pos, "box [(r%d,r%d)-(r%d,r%d)] p=(r%d,r%d): containsPoint = %s, want %v", ox[0], oy[0], ox[1], oy[1], ox[2], oy[2], showVal(res[0]), want)
					bad = true
					break
				}
			}
			if bad {
				break
			}
		}
		c.Evals(n)
		if !bad {
			c.OK("C11.R6", name, pos, "closed containment in all %d orderings", n)
		}
	}
}

// ---------------------------------------------------------------- R5

func (a *c11) r5() {
	c := a.c
	if a.split == nil {
		c.Unk("C11.R5", "index/rtree#split", token.NoPos, "split routine not found")
		return
	}
	// functions that only serve the split (fill the two groups): reachable from split
	inSplit := map[*types.Func]bool{a.split: true}
	var visit func(f *types.Func)
	visit = func(f *types.Func) {
		ast.Inspect(c.P.Decl(f).Body, func(n ast.Node) bool {
			if call, ok := n.(*ast.CallExpr); ok {
				if g := callee(a.info, call); g != nil && c.P.Decl(g) != nil && g.Pkg() == f.Pkg() && !inSplit[g] {
					inSplit[g] = true
					visit(g)
				}
			}
			return true
		})
	}
	visit(a.split)
	var maxField *types.Var
	st := a.treeT.Underlying().(*types.Struct)
	for i := 0; i < st.NumFields(); i++ {
		if st.Field(i).Name() == "MaxChildren" {
			maxField = st.Field(i)
		}
	}
	if maxField == nil {
		c.Unk("C11.R5", "index/rtree.Rtree.MaxChildren", token.NoPos, "exported fan-out bound not found")
		return
	}
	n := 0
	for _, fn := range a.pkgFuncs {
		if inSplit[fn] {
			continue
		}
		fd := c.P.Decl(fn)
		// append sites
		var sites []*ast.AssignStmt
		ast.Inspect(fd.Body, func(nd ast.Node) bool {
			as, ok := nd.(*ast.AssignStmt)
			if !ok || len(as.Lhs) != 1 || len(as.Rhs) != 1 {
				return true
			}
			X := a.fieldSel(as.Lhs[0], a.entries)
			call, isCall := unparen(as.Rhs[0]).(*ast.CallExpr)
			if X == nil || !isCall || builtinName(a.info, call) != "append" || call.Ellipsis.IsValid() {
				return true
			}
			if x0 := a.fieldSel(call.Args[0], a.entries); x0 == nil || !sameExpr(a.info, x0, X) {
				return true
			}
			sites = append(sites, as)
			return true
		})
		for _, site := range sites {
			n++
			X := a.fieldSel(site.Lhs[0], a.entries)
			key := src(X)
			cons := fmt.Sprintf("%s#append:%s", c.P.FuncName(fn), key)
			bad := ""
			var badPos token.Pos
			cl := &FactsClient{}
			cl.OnStmt = func(nd ast.Node, s Facts) Facts {
				if nd == ast.Node(site) {
					s["pending"] = true
					return s
				}
				// X reassigned: the expression no longer denotes the node that grew
				if as, ok := nd.(*ast.AssignStmt); ok {
					for _, l := range as.Lhs {
						if o := objOf(a.info, l); o != nil && mentions(a.info, X, o) && s["pending"] {
							// `leaf, split = leaf.split(…)` inside the overflow branch is the split itself
							if len(as.Rhs) == 1 {
								if call, ok := unparen(as.Rhs[0]).(*ast.CallExpr); ok && callee(a.info, call) == a.split {
									continue
								}
							}
							delete(s, "pending")
							s["lost"] = true
						}
					}
				}
				return s
			}
			cl.OnBranch = func(cond ast.Expr, truth bool, s Facts) Facts {
				if !s["pending"] {
					return s
				}
				for _, at := range conjuncts(cond, truth) {
					b, ok := unparen(at.E).(*ast.BinaryExpr)
					if !ok {
						continue
					}
					la := lenArg(a.info, b.X)
					if la == nil {
						continue
					}
					if x := a.fieldSel(la, a.entries); x == nil || src(x) != key {
						continue
					}
					if a.fieldSel(b.Y, maxField) == nil {
						continue
					}
					over := (b.Op == token.GTR && at.Truth) || (b.Op == token.LEQ && !at.Truth)
					within := (b.Op == token.GTR && !at.Truth) || (b.Op == token.LEQ && at.Truth)
					if within {
						delete(s, "pending")
					}
					if over {
						delete(s, "pending")
						s["overflow"] = true
					}
				}
				return s
			}
			splitSeen := func(nd ast.Node) bool {
				found := false
				ast.Inspect(nd, func(m ast.Node) bool {
					if call, ok := m.(*ast.CallExpr); ok && callee(a.info, call) == a.split {
						if sel, ok := unparen(call.Fun).(*ast.SelectorExpr); ok && src(sel.X) == key {
							found = true
						}
					}
					return true
				})
				return found
			}
			inner := cl.OnStmt
			cl.OnStmt = func(nd ast.Node, s Facts) Facts {
				if s["overflow"] {
					if _, isRange := nd.(*ast.RangeStmt); !isRange && splitSeen(nd) {
						delete(s, "overflow")
					}
				}
				return inner(nd, s)
			}
			cl.OnReturn = func(r *ast.ReturnStmt, s Facts) {
				if r != nil && s["overflow"] {
					for _, e := range r.Results {
						if splitSeen(e) {
							delete(s, "overflow")
						}
					}
				}
				pos := fd.End()
				if r != nil {
					pos = r.Pos()
				}
				if (s["pending"] || s["overflow"] || s["lost"]) && bad == "" {
					bad, badPos = "after `"+src(site)+"` a path returns without comparing len("+key+".entries) with MaxChildren and splitting the node on overflow: the node can exceed the maximum fan-out", pos
				}
			}
			fl := &Flow[Facts]{C: cl, Info: a.info}
			fl.Run(fd.Body, Facts{})
			switch {
			case len(fl.Unsupported) > 0:
				c.Unk("C11.R5", cons, fl.Unsupported[0].Pos(), "unsupported control flow")
			case bad != "":
				c.Bad("C11.R5", cons, badPos, "%s", bad)
			default:
				c.OK("C11.R5", cons, site.Pos(), "overflow is tested and split on every path")
			}
		}
	}
	if n == 0 {
		c.Unk("C11.R5", "index/rtree#appends", token.NoPos, "no append to a linked node's entries found")
	}
}
