package main

// C20.R6 — a text means the same on every parse.  Several PROJ.4 keys store into the same field
// (k / k_0, units / to_meter, a / ellps, datum / towgs84), so a parser that walks the parameters
// in Go's unspecified map order gives references that differ from parse to parse.  Decided by
// model evaluation: each text — competing keys in one order and in the other, and a projected
// WKT text — is parsed twice by the interpreter, once visiting every ranged-over map in
// insertion order and once in the reverse order; the two references must have identical terms
// in every field.  The shape of the parsers (slices, maps, helper functions) is not looked at.

import (
	"fmt"
	"go/token"
	"go/types"
)

func c20order(c *Ctx, m *c20m, parse *types.Func, pos token.Pos) {
	geog := `GEOGCS["GCS_Model",DATUM["D_Model",SPHEROID["Model_Spheroid",P7,P8],TOWGS84[P9,P10,P11]],PRIMEM["Greenwich",0],UNIT["degree",0.0174532925199433]]`
	texts := []struct{ name, text string }{
		{"k,k_0;units,to_meter;ellps,a", "+proj=tmerc +lat_0=P3 +lon_0=P4 +k=P13 +k_0=P12 +x_0=P5 +y_0=P6 +units=us-ft +to_meter=P12 +ellps=clrk66 +a=P7 +rf=P8 +datum=NAD83 +towgs84=P9,P10,P11 +no_defs"},
		{"k_0,k;to_meter,units;a,ellps", "+proj=tmerc +lat_0=P3 +lon_0=P4 +k_0=P12 +k=P13 +x_0=P5 +y_0=P6 +to_meter=P12 +units=us-ft +a=P7 +rf=P8 +ellps=clrk66 +towgs84=P9,P10,P11 +datum=NAD83 +no_defs"},
		{"WKT", `PROJCS["Model",` + geog + `,PROJECTION["Transverse_Mercator"],PARAMETER["latitude_of_origin",P3],PARAMETER["central_meridian",P4],PARAMETER["scale_factor",P13],PARAMETER["false_easting",P5],PARAMETER["false_northing",P6],UNIT["Foot_US",P12]]`},
	}
	defer func() { m.it.mapReverse = false }()
	for _, t := range texts {
		cons := "proj#parse-twice(" + t.name + ")"
		m.it.mapReverse = false
		before := m.it.mapRanges
		a, why := m.run(parse, t.text)
		if why != "" {
			c.Unk("C20.R6", cons, pos, "Parse is not interpretable on %q: %s", t.text, why)
			continue
		}
		m.it.mapReverse = true
		b, why := m.run(parse, t.text)
		m.it.mapReverse = false
		if why != "" {
			c.Unk("C20.R6", cons, pos, "Parse is not interpretable on %q when maps are walked in the other order: %s", t.text, why)
			continue
		}
		d := diffSR(a, b)
		if d == "" {
			d = diffSR(b, a)
		}
		if d != "" {
			c.Bad("C20.R6", cons, pos, "parsing %q gives SR.%s = %s when the maps the parser ranges over are walked in one order and %s in the other: Go's map order is unspecified, so two parses of the same text need not be Equal", t.text, d, showPath(a, d), showPath(b, d))
			continue
		}
		c.OK("C20.R6", cons, pos, "identical references whichever way the %d map walks of the two parses go", m.it.mapRanges-before)
	}
}

// showPath prints the field of a dumped reference named by a diffSR path (the first component).
func showPath(s *oStruct, path string) string {
	name := path
	for i, r := range path {
		if r == '.' || r == '[' {
			name = path[:i]
			break
		}
	}
	if v, ok := s.fields[name]; ok {
		return showVal(v)
	}
	return fmt.Sprintf("<%s>", path)
}
