package main

// Freshness of encoder results (C05, C06, C17): the []byte / string an Encode
// function returns must not share its backing array with memory that outlives
// the call — a package-level buffer or an object taken from a sync.Pool.  The
// bytes are right when Encode returns, but the next Encode (or a concurrent
// one) overwrites them, so an encoding that is kept no longer decodes to the
// geometry it was made from.  Tests that encode and compare at once cannot see
// it; the SSA provenance of the returned value can.
//
// provenance(v): fresh (make/new/literal/copying conversion/append to nil),
// param (the caller's memory), shared(what) or unknown(what); followed through
// slicing, phis, append(dst,…), strconv.Append*(dst,…), bytes.Trim*(b,…),
// (*bytes.Buffer).Bytes(), type assertions, local variables and repo callees.

import (
	"fmt"
	"go/token"
	"go/types"
	"sort"
	"strings"

	"golang.org/x/tools/go/ssa"
)

type provSet map[string]bool

func (p provSet) add(q provSet) {
	for k := range q {
		p[k] = true
	}
}

// pval is a value together with the calling context it is to be read in.
type pval struct {
	v   ssa.Value
	ctx *provCtx
}

// provCtx is one activation on the analysis stack: the call site it was entered through and what
// the callee's parameters and captured variables stand for there.  Function values handed down
// as arguments or captured by closures are resolved through it, so a helper that takes the
// element writer as a func parameter is followed into the literal that was passed.
type provCtx struct {
	parent *provCtx
	site   ssa.Instruction
	params map[*ssa.Parameter]pval
	fvs    map[*ssa.FreeVar]pval
}

func (c *provCtx) onStack(site ssa.Instruction) bool {
	for ; c != nil; c = c.parent {
		if c.site == site {
			return true
		}
	}
	return false
}

type provAn struct {
	c    *Ctx
	memo map[pval]provSet
	busy map[pval]bool
}

func (a *provAn) of(v ssa.Value, ctx *provCtx, depth int) provSet {
	k := pval{v, ctx}
	if p, ok := a.memo[k]; ok {
		return p
	}
	if a.busy[k] {
		return provSet{}
	}
	if depth > 200 {
		return provSet{"unknown:analysis depth": true}
	}
	a.busy[k] = true
	p := a.compute(v, ctx, depth)
	a.busy[k] = false
	a.memo[k] = p
	return p
}

func isBytesOrString(t types.Type) bool {
	switch u := t.Underlying().(type) {
	case *types.Slice:
		b, ok := u.Elem().Underlying().(*types.Basic)
		return ok && b.Kind() == types.Byte
	case *types.Basic:
		return u.Kind() == types.String
	}
	return false
}

// resolve follows parameters and captured variables to what they stand for in the callers.
func (a *provAn) resolve(v ssa.Value, ctx *provCtx) pval {
	for i := 0; i < 64; i++ {
		switch x := v.(type) {
		case *ssa.Parameter:
			if ctx != nil {
				if b, ok := ctx.params[x]; ok {
					v, ctx = b.v, b.ctx
					continue
				}
			}
		case *ssa.FreeVar:
			if ctx != nil {
				if b, ok := ctx.fvs[x]; ok {
					v, ctx = b.v, b.ctx
					continue
				}
			}
		}
		break
	}
	return pval{v, ctx}
}

// storesTo: the values stored into the local cell al (of context ctx), by the function that owns
// it and by the closures that capture it.
func (a *provAn) storesTo(al *ssa.Alloc, ctx *provCtx, depth int) (provSet, bool) {
	out := provSet{}
	stored := false
	var viaAddr func(addr ssa.Value, actx *provCtx, d int)
	viaAddr = func(addr ssa.Value, actx *provCtx, d int) {
		if d > 8 || addr.Referrers() == nil {
			return
		}
		for _, ref := range *addr.Referrers() {
			switch r := ref.(type) {
			case *ssa.Store:
				if r.Addr == addr {
					stored = true
					out.add(a.of(r.Val, actx, depth+1))
				}
			case *ssa.MakeClosure:
				fn, _ := r.Fn.(*ssa.Function)
				if fn == nil {
					continue
				}
				inner := &provCtx{parent: actx, site: r, fvs: map[*ssa.FreeVar]pval{}}
				for i, b := range r.Bindings {
					if i < len(fn.FreeVars) {
						inner.fvs[fn.FreeVars[i]] = pval{b, actx}
					}
				}
				for i, b := range r.Bindings {
					if b == addr && i < len(fn.FreeVars) {
						viaAddr(fn.FreeVars[i], inner, d+1)
					}
				}
			}
		}
	}
	viaAddr(al, ctx, 0)
	return out, stored
}

func (a *provAn) compute(v ssa.Value, ctx *provCtx, depth int) provSet {
	out := provSet{}
	switch x := v.(type) {
	case *ssa.Const:
		out["fresh"] = true
	case *ssa.Alloc, *ssa.MakeSlice, *ssa.MakeMap:
		out["fresh"] = true
	case *ssa.Parameter:
		if r := a.resolve(x, ctx); r.v != v {
			out.add(a.of(r.v, r.ctx, depth+1))
		} else {
			out["param:"+x.Name()] = true
		}
	case *ssa.FreeVar:
		if r := a.resolve(x, ctx); r.v != v {
			out.add(a.of(r.v, r.ctx, depth+1))
		} else {
			out["unknown:captured variable "+x.Name()] = true
		}
	case *ssa.Global:
		out["shared:package-level variable "+x.Name()] = true
	case *ssa.Slice:
		out.add(a.of(x.X, ctx, depth+1))
	case *ssa.Phi:
		for _, e := range x.Edges {
			out.add(a.of(e, ctx, depth+1))
		}
	case *ssa.ChangeType:
		out.add(a.of(x.X, ctx, depth+1))
	case *ssa.Convert:
		// []byte(string) and string([]byte) copy
		out["fresh"] = true
	case *ssa.MakeInterface:
		out.add(a.of(x.X, ctx, depth+1))
	case *ssa.TypeAssert:
		out.add(a.of(x.X, ctx, depth+1))
	case *ssa.Extract:
		if call, ok := x.Tuple.(*ssa.Call); ok {
			out.add(a.call(call, x.Index, ctx, depth+1))
		} else {
			out.add(a.of(x.Tuple, ctx, depth+1))
		}
	case *ssa.FieldAddr:
		out.add(a.of(x.X, ctx, depth+1))
	case *ssa.IndexAddr:
		out.add(a.of(x.X, ctx, depth+1))
	case *ssa.Index:
		out.add(a.of(x.X, ctx, depth+1))
	case *ssa.UnOp:
		if x.Op != token.MUL {
			out["fresh"] = true
			break
		}
		// load: from a local cell → everything stored into it (by its function and by the
		// closures that capture it); otherwise where the address comes from
		r := a.resolve(x.X, ctx)
		if al, ok := r.v.(*ssa.Alloc); ok {
			st, stored := a.storesTo(al, r.ctx, depth)
			out.add(st)
			if !stored {
				out["fresh"] = true
			}
			// the cell's address may have been handed to a callee that fills it (e.g. a bytes.Buffer value)
			break
		}
		out.add(a.of(r.v, r.ctx, depth+1))
	case *ssa.Call:
		out.add(a.call(x, 0, ctx, depth+1))
	default:
		out[fmt.Sprintf("unknown:%T", v)] = true
	}
	return out
}

// callees: the functions a call's function value may be, each with the context of its captured
// variables; nil when the value cannot be traced to function literals or declarations.
func (a *provAn) callees(v ssa.Value, ctx *provCtx, depth int) []pval {
	if depth > 16 {
		return nil
	}
	r := a.resolve(v, ctx)
	switch x := r.v.(type) {
	case *ssa.Function:
		return []pval{{x, nil}}
	case *ssa.MakeClosure:
		fn, _ := x.Fn.(*ssa.Function)
		if fn == nil {
			return nil
		}
		inner := &provCtx{parent: r.ctx, site: x, fvs: map[*ssa.FreeVar]pval{}}
		for i, b := range x.Bindings {
			if i < len(fn.FreeVars) {
				inner.fvs[fn.FreeVars[i]] = pval{b, r.ctx}
			}
		}
		return []pval{{fn, inner}}
	case *ssa.Phi:
		var out []pval
		for _, e := range x.Edges {
			cs := a.callees(e, r.ctx, depth+1)
			if cs == nil {
				return nil
			}
			out = append(out, cs...)
		}
		return out
	case *ssa.ChangeType:
		return a.callees(x.X, r.ctx, depth+1)
	case *ssa.UnOp:
		if x.Op != token.MUL {
			return nil
		}
		ar := a.resolve(x.X, r.ctx)
		al, ok := ar.v.(*ssa.Alloc)
		if !ok {
			return nil
		}
		// a local variable of function type: every function stored into it
		var out []pval
		for _, ref := range *al.Referrers() {
			switch st := ref.(type) {
			case *ssa.Store:
				if st.Addr != al {
					return nil
				}
				if c, isConst := st.Val.(*ssa.Const); isConst && c.IsNil() {
					continue
				}
				cs := a.callees(st.Val, ar.ctx, depth+1)
				if cs == nil {
					return nil
				}
				out = append(out, cs...)
			case *ssa.UnOp, *ssa.DebugRef:
			default:
				return nil // the address escapes
			}
		}
		return out
	}
	return nil
}

func (a *provAn) call(call *ssa.Call, idx int, ctx *provCtx, depth int) provSet {
	out := provSet{}
	com := call.Common()
	if b, ok := com.Value.(*ssa.Builtin); ok {
		switch b.Name() {
		case "append":
			out.add(a.of(com.Args[0], ctx, depth+1))
		default:
			out["fresh"] = true
		}
		return out
	}
	if com.IsInvoke() {
		out["unknown:interface method "+com.Method.Name()] = true
		return out
	}
	var targets []pval
	if f := com.StaticCallee(); f != nil {
		if _, isClosure := com.Value.(*ssa.MakeClosure); isClosure {
			targets = a.callees(com.Value, ctx, 0)
		} else {
			targets = []pval{{f, nil}}
		}
	} else {
		targets = a.callees(com.Value, ctx, 0)
	}
	if len(targets) == 0 {
		out["unknown:dynamic call"] = true
		return out
	}
	for _, t := range targets {
		out.add(a.callFn(call, t.v.(*ssa.Function), t.ctx, idx, ctx, depth))
	}
	return out
}

func (a *provAn) callFn(call *ssa.Call, f *ssa.Function, fvctx *provCtx, idx int, ctx *provCtx, depth int) provSet {
	out := provSet{}
	com := call.Common()
	full := f.String()
	switch {
	case full == "(*sync.Pool).Get":
		out["shared:object taken from a sync.Pool"] = true
		return out
	case full == "(*bytes.Buffer).Bytes":
		// the buffer's own storage: as fresh or as shared as the buffer object
		out.add(a.bufferProv(com.Args[0], ctx, depth+1))
		return out
	case full == "(*bytes.Buffer).String", full == "(*strings.Builder).String":
		if full == "(*bytes.Buffer).String" {
			out["fresh"] = true
		} else {
			out.add(a.bufferProv(com.Args[0], ctx, depth+1))
		}
		return out
	case full == "bytes.NewBuffer" || full == "bytes.NewBufferString":
		out.add(a.of(com.Args[0], ctx, depth+1))
		return out
	case strings.HasPrefix(full, "strconv.Append"):
		out.add(a.of(com.Args[0], ctx, depth+1))
		return out
	case strings.HasPrefix(full, "bytes.Trim") || full == "bytes.TrimSpace":
		out.add(a.of(com.Args[0], ctx, depth+1))
		return out
	case f.Pkg != nil && (f.Pkg.Pkg.Path() == "encoding/json" || f.Pkg.Pkg.Path() == "encoding/hex" || f.Pkg.Pkg.Path() == "strconv" || f.Pkg.Pkg.Path() == "fmt" || f.Pkg.Pkg.Path() == "strings"):
		out["fresh"] = true
		return out
	}
	if f.Blocks == nil {
		out["unknown:result of "+full] = true
		return out
	}
	if ctx.onStack(call) {
		return out // a recursive activation adds nothing the outer one does not see
	}
	// repo (or other source) callee: union over its returns, read in a context where its
	// parameters stand for the arguments of this call
	inner := &provCtx{parent: ctx, site: call, params: map[*ssa.Parameter]pval{}, fvs: map[*ssa.FreeVar]pval{}}
	if fvctx != nil {
		for k, v := range fvctx.fvs {
			inner.fvs[k] = v
		}
	}
	for i, p := range f.Params {
		if i < len(com.Args) {
			inner.params[p] = pval{com.Args[i], ctx}
		}
	}
	for _, b := range f.Blocks {
		for _, in := range b.Instrs {
			r, ok := in.(*ssa.Return)
			if !ok || idx >= len(r.Results) {
				continue
			}
			out.add(a.of(r.Results[idx], inner, depth+1))
		}
	}
	return out
}

// bufferProv: provenance of the storage of a *bytes.Buffer / *strings.Builder value.
func (a *provAn) bufferProv(ptr ssa.Value, ctx *provCtx, depth int) provSet {
	out := provSet{}
	r := a.resolve(ptr, ctx)
	switch x := r.v.(type) {
	case *ssa.Alloc:
		out["fresh"] = true
	case *ssa.Call:
		out.add(a.call(x, 0, r.ctx, depth+1))
	default:
		out.add(a.of(r.v, r.ctx, depth+1))
	}
	return out
}

// checkFreshResult files one obligation per entry point under `rule`.
func checkFreshResult(c *Ctx, rule string, entries ...*types.Func) {
	for _, fn := range entries {
		if fn == nil {
			continue
		}
		cons := c.P.FuncName(fn) + "#fresh-result"
		sf := c.P.SSAFunc(fn)
		if sf == nil || sf.Blocks == nil {
			c.Unk(rule, cons, token.NoPos, "no SSA body")
			continue
		}
		an := &provAn{c: c, memo: map[pval]provSet{}, busy: map[pval]bool{}}
		all := provSet{}
		nret := 0
		for _, b := range sf.Blocks {
			for _, in := range b.Instrs {
				if r, ok := in.(*ssa.Return); ok && len(r.Results) > 0 && isBytesOrString(r.Results[0].Type()) {
					nret++
					all.add(an.of(r.Results[0], nil, 0))
				}
			}
		}
		var shared, unknown []string
		for k := range all {
			if strings.HasPrefix(k, "shared:") {
				shared = append(shared, strings.TrimPrefix(k, "shared:"))
			}
			if strings.HasPrefix(k, "unknown:") {
				unknown = append(unknown, strings.TrimPrefix(k, "unknown:"))
			}
		}
		sort.Strings(shared)
		sort.Strings(unknown)
		pos := c.P.Decl(fn).Pos()
		switch {
		case nret == 0:
			c.Unk(rule, cons, pos, "no []byte/string result")
		case len(shared) > 0:
			c.Bad(rule, cons, pos, "the value %s returns shares its backing array with %s: it is correct when the call returns, but the next (or a concurrent) call overwrites it, so an encoding the caller keeps no longer decodes to the geometry it was made from", fn.Name(), strings.Join(shared, " and "))
		case len(unknown) > 0:
			c.Unk(rule, cons, pos, "cannot establish where the returned bytes live: %s", strings.Join(unknown, "; "))
		default:
			c.OK(rule, cons, pos, "every returned value is freshly allocated in the call (or nil): %d return sites", nret)
		}
	}
}
