package main

// Freshness of encoder results (C05, C06, C17): the []byte / string an Encode
// function returns must not share its backing array with memory that outlives
// the call — a package-level buffer or an object taken from a sync.Pool.  The
// bytes are right when Encode returns, but the next Encode (or a concurrent
// one) overwrites them, so an encoding that is kept no longer decodes to the
// geometry it was made from.  Tests that encode and compare at once cannot see
// it; the SSA provenance of the returned value can.
//
// provenance(v): fresh (make/new/literal/copying conversion/append to nil),
// param (the caller's memory), shared(what) or unknown(what); followed through
// slicing, phis, append(dst,…), strconv.Append*(dst,…), bytes.Trim*(b,…),
// (*bytes.Buffer).Bytes(), type assertions, local variables and repo callees.

import (
	"fmt"
	"go/token"
	"go/types"
	"sort"
	"strings"

	"golang.org/x/tools/go/ssa"
)

type provSet map[string]bool

func (p provSet) add(q provSet) {
	for k := range q {
		p[k] = true
	}
}

type provAn struct {
	c    *Ctx
	memo map[ssa.Value]provSet
	busy map[ssa.Value]bool
	ret  map[string]provSet // function+index
}

func (a *provAn) of(v ssa.Value, depth int) provSet {
	if p, ok := a.memo[v]; ok {
		return p
	}
	if a.busy[v] || depth > 40 {
		return provSet{}
	}
	a.busy[v] = true
	p := a.compute(v, depth)
	a.busy[v] = false
	a.memo[v] = p
	return p
}

func isBytesOrString(t types.Type) bool {
	switch u := t.Underlying().(type) {
	case *types.Slice:
		b, ok := u.Elem().Underlying().(*types.Basic)
		return ok && b.Kind() == types.Byte
	case *types.Basic:
		return u.Kind() == types.String
	}
	return false
}

func (a *provAn) compute(v ssa.Value, depth int) provSet {
	out := provSet{}
	switch x := v.(type) {
	case *ssa.Const:
		out["fresh"] = true
	case *ssa.Alloc, *ssa.MakeSlice, *ssa.MakeMap:
		out["fresh"] = true
	case *ssa.Parameter:
		out["param:"+x.Name()] = true
	case *ssa.FreeVar:
		out["unknown:captured variable "+x.Name()] = true
	case *ssa.Global:
		out["shared:package-level variable "+x.Name()] = true
	case *ssa.Slice:
		out.add(a.of(x.X, depth+1))
	case *ssa.Phi:
		for _, e := range x.Edges {
			out.add(a.of(e, depth+1))
		}
	case *ssa.ChangeType:
		out.add(a.of(x.X, depth+1))
	case *ssa.Convert:
		// []byte(string) and string([]byte) copy
		out["fresh"] = true
	case *ssa.MakeInterface:
		out.add(a.of(x.X, depth+1))
	case *ssa.TypeAssert:
		out.add(a.of(x.X, depth+1))
	case *ssa.Extract:
		if call, ok := x.Tuple.(*ssa.Call); ok {
			out.add(a.call(call, x.Index, depth+1))
		} else {
			out.add(a.of(x.Tuple, depth+1))
		}
	case *ssa.FieldAddr:
		out.add(a.of(x.X, depth+1))
	case *ssa.IndexAddr:
		out.add(a.of(x.X, depth+1))
	case *ssa.UnOp:
		if x.Op != token.MUL {
			out["fresh"] = true
			break
		}
		// load: from a local cell → everything stored into it; otherwise where the address comes from
		if al, ok := x.X.(*ssa.Alloc); ok {
			stored := false
			for _, ref := range *al.Referrers() {
				if st, ok := ref.(*ssa.Store); ok && st.Addr == al {
					stored = true
					out.add(a.of(st.Val, depth+1))
				}
			}
			if !stored {
				out["fresh"] = true
			}
			// the cell's address may have been handed to a callee that fills it (e.g. a bytes.Buffer value)
			break
		}
		out.add(a.of(x.X, depth+1))
	case *ssa.Call:
		out.add(a.call(x, 0, depth+1))
	default:
		out[fmt.Sprintf("unknown:%T", v)] = true
	}
	return out
}

func (a *provAn) call(call *ssa.Call, idx int, depth int) provSet {
	out := provSet{}
	com := call.Common()
	if b, ok := com.Value.(*ssa.Builtin); ok {
		switch b.Name() {
		case "append":
			out.add(a.of(com.Args[0], depth+1))
		default:
			out["fresh"] = true
		}
		return out
	}
	f := com.StaticCallee()
	if f == nil {
		if com.IsInvoke() {
			out["unknown:interface method "+com.Method.Name()] = true
		} else {
			out["unknown:dynamic call"] = true
		}
		return out
	}
	full := f.String()
	switch {
	case full == "(*sync.Pool).Get":
		out["shared:object taken from a sync.Pool"] = true
		return out
	case full == "(*bytes.Buffer).Bytes":
		// the buffer's own storage: as fresh or as shared as the buffer object
		out.add(a.bufferProv(com.Args[0], depth+1))
		return out
	case full == "(*bytes.Buffer).String", full == "(*strings.Builder).String":
		if full == "(*bytes.Buffer).String" {
			out["fresh"] = true
		} else {
			out.add(a.bufferProv(com.Args[0], depth+1))
		}
		return out
	case full == "bytes.NewBuffer" || full == "bytes.NewBufferString":
		out.add(a.of(com.Args[0], depth+1))
		return out
	case strings.HasPrefix(full, "strconv.Append"):
		out.add(a.of(com.Args[0], depth+1))
		return out
	case strings.HasPrefix(full, "bytes.Trim") || full == "bytes.TrimSpace":
		out.add(a.of(com.Args[0], depth+1))
		return out
	case f.Pkg != nil && (f.Pkg.Pkg.Path() == "encoding/json" || f.Pkg.Pkg.Path() == "encoding/hex" || f.Pkg.Pkg.Path() == "strconv" || f.Pkg.Pkg.Path() == "fmt" || f.Pkg.Pkg.Path() == "strings"):
		out["fresh"] = true
		return out
	}
	if f.Blocks == nil {
		out["unknown:result of "+full] = true
		return out
	}
	// repo (or other source) callee: union over its returns, parameters mapped to the arguments
	for _, b := range f.Blocks {
		for _, in := range b.Instrs {
			r, ok := in.(*ssa.Return)
			if !ok || idx >= len(r.Results) {
				continue
			}
			for k := range a.of(r.Results[idx], depth+1) {
				if strings.HasPrefix(k, "param:") {
					name := strings.TrimPrefix(k, "param:")
					for i, p := range f.Params {
						if p.Name() == name && i < len(com.Args) {
							out.add(a.of(com.Args[i], depth+1))
						}
					}
					continue
				}
				out[k] = true
			}
		}
	}
	return out
}

// bufferProv: provenance of the storage of a *bytes.Buffer / *strings.Builder value.
func (a *provAn) bufferProv(ptr ssa.Value, depth int) provSet {
	out := provSet{}
	switch x := ptr.(type) {
	case *ssa.Alloc:
		out["fresh"] = true
	case *ssa.Call:
		out.add(a.call(x, 0, depth+1))
	default:
		out.add(a.of(ptr, depth+1))
	}
	return out
}

// checkFreshResult files one obligation per entry point under `rule`.
func checkFreshResult(c *Ctx, rule string, entries ...*types.Func) {
	for _, fn := range entries {
		if fn == nil {
			continue
		}
		cons := c.P.FuncName(fn) + "#fresh-result"
		sf := c.P.SSAFunc(fn)
		if sf == nil || sf.Blocks == nil {
			c.Unk(rule, cons, token.NoPos, "no SSA body")
			continue
		}
		an := &provAn{c: c, memo: map[ssa.Value]provSet{}, busy: map[ssa.Value]bool{}}
		all := provSet{}
		nret := 0
		for _, b := range sf.Blocks {
			for _, in := range b.Instrs {
				if r, ok := in.(*ssa.Return); ok && len(r.Results) > 0 && isBytesOrString(r.Results[0].Type()) {
					nret++
					all.add(an.of(r.Results[0], 0))
				}
			}
		}
		var shared, unknown []string
		for k := range all {
			if strings.HasPrefix(k, "shared:") {
				shared = append(shared, strings.TrimPrefix(k, "shared:"))
			}
			if strings.HasPrefix(k, "unknown:") {
				unknown = append(unknown, strings.TrimPrefix(k, "unknown:"))
			}
		}
		sort.Strings(shared)
		sort.Strings(unknown)
		pos := c.P.Decl(fn).Pos()
		switch {
		case nret == 0:
			c.Unk(rule, cons, pos, "no []byte/string result")
		case len(shared) > 0:
			c.Bad(rule, cons, pos, "the value %s returns shares its backing array with %s: it is correct when the call returns, but the next (or a concurrent) call overwrites it, so an encoding the caller keeps no longer decodes to the geometry it was made from", fn.Name(), strings.Join(shared, " and "))
		case len(unknown) > 0:
			c.Unk(rule, cons, pos, "cannot establish where the returned bytes live: %s", strings.Join(unknown, "; "))
		default:
			c.OK(rule, cons, pos, "every returned value is freshly allocated in the call (or nil): %d return sites", nret)
		}
	}
}
