package main

// Model evaluation of Similar for the eight geometry types (C15.R1–R3).
//
// Similar is interpreted on pairs (g, h) of small geometries built from pairwise distinct
// abstract coordinates.  The scalar tolerance test (the package's (float64, float64,
// float64) bool helper) is replaced by its meaning on the model: two coordinates are within
// tolerance iff their abstract values differ by less than 2 — a "perturbed" copy adds 1 to
// every coordinate, a "displaced" vertex adds 8, distinct vertices differ by at least 2 on
// each axis, and the X and Y of one vertex differ by exactly 2 (so an axis mix-up is seen).
//
//	true  : h = g perturbed; also after reordering members (multi-line-string, multi-polygon,
//	        polygon rings, collection) and after rotating the start vertex of closed rings
//	false : one vertex displaced; a member or vertex added or removed; a line string
//	        reversed; different types; a duplicated member against a different member
//	always: g.Similar(h) == h.Similar(g)

import (
	"fmt"
	"go/token"
	"go/types"
)

type simGeom struct {
	tn  string
	val oval
}

type simBuilder struct {
	m    *clipModel
	c    *Ctx
	mpT  types.Type
	gcT  types.Type
	ring types.Type
}

// shape descriptions: vertices are given as ids; the coordinate of id k is (8k, 8k+2) + delta
type vtx struct {
	id    int
	delta int64
}

func (b *simBuilder) pt(t types.Type, v vtx) *oStruct {
	return b.m.it.point(t, int64(16*v.id)+v.delta, int64(16*v.id)+2+v.delta)
}

func (b *simBuilder) pts(t types.Type, vs []vtx) oSlice {
	var vals []oval
	for _, v := range vs {
		vals = append(vals, b.pt(b.m.ptT, v))
	}
	return b.m.sliceOf(t, vals)
}

func ids(delta int64, xs ...int) []vtx {
	var out []vtx
	for _, x := range xs {
		out = append(out, vtx{x, delta})
	}
	return out
}

func (b *simBuilder) polygon(rings ...[]vtx) oSlice {
	var rs []oval
	for _, r := range rings {
		rs = append(rs, b.pts(b.ring, r))
	}
	return b.m.sliceOf(b.m.polyT, rs)
}

func c15model(c *Ctx, ruleCount, ruleType, ruleShape string) {
	m := newClipModel(c)
	if m.ptT == nil || m.polyT == nil || m.bt == nil {
		c.Unk(ruleCount, "geom#similar-model", token.NoPos, "geometry types do not resolve")
		return
	}
	m.it.maxDepth = 48
	b := &simBuilder{m: m, c: c, mpT: c.P.NamedType("geom", "MultiPoint"), gcT: c.P.NamedType("geom", "GeometryCollection"), ring: m.polyT.Underlying().(*types.Slice).Elem()}
	// coordinates are symbols valued at their rank (vertex k sits at (16k, 16k+2), a perturbed copy
	// one unit further, a displaced one eight), the tolerance a symbol valued 1.5: the package's own
	// tolerance arithmetic decides "near", whatever helper it is written in
	m.it.symbolic = true
	m.it.valuation = map[string]float64{"__ranks": 1, "tol": 1.5}
	stubName := "the package's own tolerance arithmetic at tolerance 1.5"
	tol := oSym{polyVar("tol")}
	type pairCase struct {
		what string
		g, h simGeom
		want bool
	}
	var cases []pairCase
	add := func(what string, g, h simGeom, want bool) { cases = append(cases, pairCase{what, g, h, want}) }
	G := func(tn string, v oval) simGeom { return simGeom{tn, v} }
	// --- Point
	add("perturbed", G("Point", b.pt(m.ptT, vtx{1, 0})), G("Point", b.pt(m.ptT, vtx{1, 1})), true)
	add("displaced", G("Point", b.pt(m.ptT, vtx{1, 0})), G("Point", b.pt(m.ptT, vtx{1, 8})), false)
	// X matches, Y displaced (and the other way round): both axes must be tested
	add("Y displaced only", G("Point", m.it.point(m.ptT, 16, 18)), G("Point", m.it.point(m.ptT, 16, 26)), false)
	add("X displaced only", G("Point", m.it.point(m.ptT, 16, 18)), G("Point", m.it.point(m.ptT, 24, 18)), false)
	// --- vertex lists
	for _, tn := range []string{"MultiPoint", "LineString"} {
		t := b.mpT
		if tn == "LineString" {
			t = m.lsT
		}
		if t == nil {
			continue
		}
		add("perturbed", G(tn, b.pts(t, ids(0, 1, 2, 3))), G(tn, b.pts(t, ids(1, 1, 2, 3))), true)
		add("last vertex displaced", G(tn, b.pts(t, ids(0, 1, 2, 3))), G(tn, b.pts(t, []vtx{{1, 0}, {2, 0}, {3, 8}})), false)
		add("first vertex displaced", G(tn, b.pts(t, ids(0, 1, 2, 3))), G(tn, b.pts(t, []vtx{{1, 8}, {2, 0}, {3, 0}})), false)
		add("vertex added", G(tn, b.pts(t, ids(0, 1, 2, 3))), G(tn, b.pts(t, ids(0, 1, 2, 3, 4))), false)
		add("vertex removed", G(tn, b.pts(t, ids(0, 1, 2, 3))), G(tn, b.pts(t, ids(0, 1, 2))), false)
		add("empty vs empty", G(tn, b.pts(t, nil)), G(tn, b.pts(t, nil)), true)
		if tn == "LineString" {
			add("reversed", G(tn, b.pts(t, ids(0, 1, 2, 3))), G(tn, b.pts(t, ids(0, 3, 2, 1))), false)
		}
	}
	// --- multi line string
	mls := func(lines ...[]vtx) simGeom {
		var ls []oval
		for _, l := range lines {
			ls = append(ls, b.pts(m.lsT, l))
		}
		return G("MultiLineString", m.sliceOf(m.mlsT, ls))
	}
	A, B, Cc := ids(0, 1, 2), ids(0, 3, 4, 5), ids(0, 6, 7)
	A1, B1, C1 := ids(1, 1, 2), ids(1, 3, 4, 5), ids(1, 6, 7)
	add("perturbed", mls(A, B, Cc), mls(A1, B1, C1), true)
	add("members reordered", mls(A, B, Cc), mls(C1, A1, B1), true)
	add("member displaced", mls(A, B, Cc), mls(A1, []vtx{{3, 1}, {4, 8}, {5, 1}}, C1), false)
	add("member added", mls(A, B), mls(A1, B1, C1), false)
	add("member removed", mls(A, B, Cc), mls(A1, C1), false)
	add("duplicate member against a different one", mls(A, B, A), mls(Cc, B1, A1), false)
	add("duplicate member against a different one, its match listed first", mls(A, B, A), mls(A1, B1, C1), false)
	add("duplicate member against a different one, its match in the middle", mls(A, A, B), mls(C1, A1, B1), false)
	add("duplicate member, reordered", mls(A, B, A), mls(A1, A1, B1), true)
	// --- polygon: rings reordered, closed rings rotated
	sq := func(d int64, base int, rot int) []vtx { // closed ring of 4 vertices starting at base, rotated
		n := 4
		var v []vtx
		for k := 0; k < n; k++ {
			v = append(v, vtx{base + (k+rot)%n, d})
		}
		return append(v, v[0])
	}
	poly := func(rings ...[]vtx) simGeom { return G("Polygon", b.polygon(rings...)) }
	add("perturbed", poly(sq(0, 1, 0), sq(0, 10, 0)), poly(sq(1, 1, 0), sq(1, 10, 0)), true)
	add("rings reordered", poly(sq(0, 1, 0), sq(0, 10, 0)), poly(sq(1, 10, 0), sq(1, 1, 0)), true)
	for rot := 1; rot < 4; rot++ {
		add(fmt.Sprintf("ring start rotated by %d", rot), poly(sq(0, 1, 0), sq(0, 10, 0)), poly(sq(1, 1, rot), sq(1, 10, (rot+1)%4)), true)
	}
	for k := 0; k < 4; k++ {
		dis := sq(1, 1, 0)
		dis[k].delta = 8
		if k == 0 {
			dis[4].delta = 8
		}
		add(fmt.Sprintf("ring vertex %d displaced", k), poly(sq(0, 1, 0), sq(0, 10, 0)), poly(dis, sq(1, 10, 0)), false)
	}
	// a self-touching ring (vertex 5 visited twice; the smallest vertex 1 is visited once), rotated to every start
	pinch := func(d int64, rot int) []vtx {
		base := []int{1, 5, 6, 7, 5, 8}
		var v []vtx
		for k := range base {
			v = append(v, vtx{base[(k+rot)%len(base)], d})
		}
		return append(v, v[0])
	}
	for rot := 1; rot < 6; rot++ {
		add(fmt.Sprintf("self-touching ring rotated by %d", rot), poly(pinch(0, 0)), poly(pinch(1, rot)), true)
		add(fmt.Sprintf("self-touching ring rotated by %d (other start)", rot), poly(pinch(0, 1)), poly(pinch(1, (rot+1)%6)), true)
	}
	// a ring with one vertex more (a closed pentagon over the same first four vertices) or one fewer
	penta := func(d int64, base int) []vtx {
		v := []vtx{{base, d}, {base + 1, d}, {base + 2, d}, {base + 3, d}, {base + 4, d}}
		return append(v, v[0])
	}
	tri := func(d int64, base int) []vtx {
		v := []vtx{{base, d}, {base + 1, d}, {base + 2, d}}
		return append(v, v[0])
	}
	add("ring vertex added", poly(sq(0, 1, 0), sq(0, 10, 0)), poly(penta(1, 1), sq(1, 10, 0)), false)
	add("ring vertex removed", poly(sq(0, 1, 0), sq(0, 10, 0)), poly(tri(1, 1), sq(1, 10, 0)), false)
	add("vertex added in the last ring", poly(sq(0, 1, 0), sq(0, 10, 0)), poly(sq(1, 1, 0), penta(1, 10)), false)
	add("ring added", poly(sq(0, 1, 0)), poly(sq(1, 1, 0), sq(1, 10, 0)), false)
	add("ring removed", poly(sq(0, 1, 0), sq(0, 10, 0)), poly(sq(1, 10, 0)), false)
	add("duplicate ring against a different one", poly(sq(0, 1, 0), sq(0, 10, 0), sq(0, 1, 0)), poly(sq(1, 20, 0), sq(1, 10, 0), sq(1, 1, 0)), false)
	add("duplicate ring against a different one, its match listed first", poly(sq(0, 1, 0), sq(0, 10, 0), sq(0, 1, 0)), poly(sq(1, 1, 0), sq(1, 10, 0), sq(1, 20, 0)), false)
	add("duplicate ring against a different one, its match in the middle", poly(sq(0, 1, 0), sq(0, 1, 0), sq(0, 10, 0)), poly(sq(1, 20, 0), sq(1, 1, 0), sq(1, 10, 0)), false)
	// --- multi polygon
	mpoly := func(ps ...[][]vtx) simGeom {
		var vals []oval
		for _, p := range ps {
			vals = append(vals, b.polygon(p...))
		}
		return G("MultiPolygon", m.sliceOf(m.mpolyT, vals))
	}
	P := func(d int64, base int) [][]vtx { return [][]vtx{sq(d, base, 0)} }
	add("perturbed", mpoly(P(0, 1), P(0, 10)), mpoly(P(1, 1), P(1, 10)), true)
	add("members reordered", mpoly(P(0, 1), P(0, 10), P(0, 20)), mpoly(P(1, 20), P(1, 1), P(1, 10)), true)
	add("vertex added in a member's ring", mpoly(P(0, 1), P(0, 10)), mpoly([][]vtx{penta(1, 1)}, P(1, 10)), false)
	add("vertex removed from a member's ring", mpoly(P(0, 1), P(0, 10)), mpoly(P(1, 1), [][]vtx{tri(1, 10)}), false)
	add("member added", mpoly(P(0, 1)), mpoly(P(1, 1), P(1, 10)), false)
	add("member removed", mpoly(P(0, 1), P(0, 10)), mpoly(P(1, 10)), false)
	add("duplicate member against a different one", mpoly(P(0, 1), P(0, 10), P(0, 1)), mpoly(P(1, 20), P(1, 10), P(1, 1)), false)
	add("duplicate member against a different one, its match listed first", mpoly(P(0, 1), P(0, 10), P(0, 1)), mpoly(P(1, 1), P(1, 10), P(1, 20)), false)
	add("duplicate member against a different one, its match in the middle", mpoly(P(0, 1), P(0, 1), P(0, 10)), mpoly(P(1, 20), P(1, 1), P(1, 10)), false)
	add("empty polygon member", mpoly(P(0, 1), [][]vtx{}), mpoly([][]vtx{}, P(1, 1)), true)
	// --- bounds
	box := func(d int64) simGeom {
		return G("Bounds", oPtr{m.it.bounds(m.bt, m.ptT, 16+d, 18+d, 160+d, 162+d)})
	}
	add("perturbed", box(0), box(1), true)
	add("max displaced", box(0), G("Bounds", oPtr{m.it.bounds(m.bt, m.ptT, 16, 18, 168, 162)}), false)
	add("min displaced", box(0), G("Bounds", oPtr{m.it.bounds(m.bt, m.ptT, 16, 26, 160, 162)}), false)
	// --- collection
	if b.gcT != nil {
		gc := func(ms ...simGeom) simGeom {
			var vals []oval
			for _, g := range ms {
				vals = append(vals, m.it.ifaceOf(g.val))
			}
			return G("GeometryCollection", m.sliceOf(b.gcT, vals))
		}
		pA, pA1 := G("Point", b.pt(m.ptT, vtx{1, 0})), G("Point", b.pt(m.ptT, vtx{1, 1}))
		lB, lB1 := G("LineString", b.pts(m.lsT, ids(0, 3, 4))), G("LineString", b.pts(m.lsT, ids(1, 3, 4)))
		pgC, pgC1 := poly(sq(0, 10, 0)), poly(sq(1, 10, 1))
		add("perturbed", gc(pA, lB, pgC), gc(pA1, lB1, pgC1), true)
		add("members reordered", gc(pA, lB, pgC), gc(pgC1, pA1, lB1), true)
		add("member added", gc(pA, lB), gc(pA1, lB1, pgC1), false)
		add("member removed", gc(pA, lB, pgC), gc(pA1, pgC1), false)
		add("member of another type", gc(pA, lB), gc(pA1, G("MultiPoint", b.pts(b.mpT, ids(1, 3, 4)))), false)
		add("duplicate member against a different one", gc(pA, lB, pA), gc(pgC1, lB1, pA1), false)
		add("duplicate member against a different one, its match listed first", gc(pA, lB, pA), gc(pA1, lB1, pgC1), false)
		add("duplicate member against a different one, its match in the middle", gc(pA, pA, lB), gc(pgC1, pA1, lB1), false)
		add("nested collections", gc(gc(pA, lB), pgC), gc(pgC1, gc(lB1, pA1)), true)
	}
	// --- different types: every ordered pair of distinct types with otherwise equal data
	reps := map[string]simGeom{}
	for _, cse := range cases {
		if _, ok := reps[cse.g.tn]; !ok && cse.want {
			reps[cse.g.tn] = cse.g
		}
	}
	var typeNames []string
	for tn := range reps {
		typeNames = append(typeNames, tn)
	}
	sortStrings(typeNames)
	// evaluation
	type verdict struct {
		msg, unk string
		n        int
	}
	vs := map[string]*verdict{}
	get := func(tn string) *verdict {
		if vs[tn] == nil {
			vs[tn] = &verdict{}
		}
		return vs[tn]
	}
	call := func(g, h simGeom) (bool, string) {
		fn := c.P.Method("geom", g.tn, "Similar")
		if fn == nil || c.P.Decl(fn) == nil {
			return false, "API anchor geom." + g.tn + ".Similar does not resolve"
		}
		res, why := m.it.Call(fn, g.val, []oval{m.it.ifaceOf(h.val), tol}, 0)
		if why != "" {
			return false, why
		}
		bv, ok := res[0].(oBool)
		if !ok {
			return false, "result is " + showVal(res[0])
		}
		return bool(bv), ""
	}
	runs := 0
	for _, cse := range cases {
		v := get(cse.g.tn)
		if v.msg != "" || v.unk != "" {
			continue
		}
		runs += 2
		v.n++
		r1, w1 := call(cse.g, cse.h)
		r2, w2 := call(cse.h, cse.g)
		switch {
		case w1 != "" || w2 != "":
			w := w1
			if w == "" {
				w = w2
			}
			if len(w) > 6 && w[:6] == "panic:" {
				v.msg = fmt.Sprintf("%s, %s: Similar panics (%s)", cse.g.tn, cse.what, w)
			} else {
				v.unk = fmt.Sprintf("%s, %s: not interpretable: %s", cse.g.tn, cse.what, w)
			}
		case r1 != r2:
			v.msg = fmt.Sprintf("%s, h = g with %s: g.Similar(h) = %v but h.Similar(g) = %v (not symmetric)", cse.g.tn, cse.what, r1, r2)
		case r1 != cse.want:
			v.msg = fmt.Sprintf("%s, h = g with %s: Similar = %v, want %v", cse.g.tn, cse.what, r1, cse.want)
		}
	}
	tv := &verdict{}
	for _, t1 := range typeNames {
		for _, t2 := range typeNames {
			if t1 == t2 || tv.msg != "" || tv.unk != "" {
				continue
			}
			runs++
			tv.n++
			r, w := call(reps[t1], reps[t2])
			if w != "" {
				tv.unk = fmt.Sprintf("%s.Similar(%s): not interpretable: %s", t1, t2, w)
			} else if r {
				tv.msg = fmt.Sprintf("a %s is reported similar to a %s", t1, t2)
			}
		}
	}
	c.Evals(runs)
	for _, tn := range []string{"Point", "MultiPoint", "LineString", "MultiLineString", "Polygon", "MultiPolygon", "Bounds", "GeometryCollection"} {
		v := vs[tn]
		fn := c.P.Method("geom", tn, "Similar")
		label := "geom." + tn + ".Similar"
		pos := token.NoPos
		if fn != nil && c.P.Decl(fn) != nil {
			label, pos = c.P.FuncName(fn), c.P.Decl(fn).Pos()
		}
		switch {
		case v == nil:
			c.Unk(ruleCount, label, pos, "no model case for this type")
		case v.msg != "":
			c.Bad(ruleCount, label, pos, "%s", v.msg)
		case v.unk != "":
			c.Unk(ruleCount, label, pos, "%s", v.unk)
		default:
			c.OK(ruleCount, label, pos, "%d model pairs, each evaluated in both directions: symmetric and as specified (tolerance test given its meaning through %s)", v.n, stubName)
		}
	}
	switch {
	case tv.msg != "":
		c.Bad(ruleType, "geom#Similar-across-types", token.NoPos, "%s", tv.msg)
	case tv.unk != "":
		c.Unk(ruleType, "geom#Similar-across-types", token.NoPos, "%s", tv.unk)
	default:
		c.OK(ruleType, "geom#Similar-across-types", token.NoPos, "false for all %d ordered pairs of different types", tv.n)
	}
}
