package main

// Model evaluation of the WKT encoder (C17.R1–R3): Encode is interpreted on geometries with
// 1, 2 and 3 members at every nesting level; strconv's float formatting is replaced by a stub
// that writes a token naming the coordinate it was given (and records its format arguments).
// The produced text — real bytes and coordinate tokens — is then parsed by the OGC WKT
// recogniser of c17.go, which also checks member counts per level and that every coordinate
// occurs once, in storage order, X before Y.

import (
	"fmt"
	"go/token"
	"go/types"
	"strings"
)

type c17fmtCall struct {
	fn               string
	fmtc, prec, bits oval
}

func c17model(c *Ctx) {
	enc := c.P.Func("encoding/wkt", "Encode")
	if enc == nil || c.P.Decl(enc) == nil {
		c.Unk("C17.R1", "encoding/wkt.Encode", token.NoPos, "API anchor does not resolve")
		return
	}
	pos := c.P.Decl(enc).Pos()
	m := newClipModel(c)
	if m.ptT == nil || m.polyT == nil {
		c.Unk("C17.R1", "encoding/wkt#model", token.NoPos, "geometry types do not resolve")
		return
	}
	m.it.maxDepth = 48
	var fmtCalls []c17fmtCall
	intTexts := 0 // ordinates written as the decimal text of an exact integer conversion
	refl := &shpModel{c: c, m: m, it: m.it, problems: map[string][]string{}}
	m.it.stub = func(f *types.Func, recv oval, args []oval) ([]oval, bool) {
		switch {
		case isFuncIn(f, "strconv", "AppendFloat") && len(args) == 5:
			fmtCalls = append(fmtCalls, c17fmtCall{"AppendFloat", args[2], args[3], args[4]})
			dst, ok := args[0].(oSlice)
			if _, isNil := args[0].(oNil); isNil {
				dst, ok = oSlice{}, true
			}
			fv, okf := args[1].(oFloat)
			if !ok || !okf {
				return []oval{oTop{"AppendFloat of " + showVal(args[1]) + " to " + showVal(args[0])}}, true
			}
			return []oval{appendVals(dst, []oval{oTokF{fv.r}})}, true
		case isFuncIn(f, "strconv", "FormatFloat") && len(args) == 4:
			fmtCalls = append(fmtCalls, c17fmtCall{"FormatFloat", args[1], args[2], args[3]})
			fv, okf := args[0].(oFloat)
			if !okf {
				return []oval{oTop{"FormatFloat of " + showVal(args[0])}}, true
			}
			arr := []oval{oTokF{fv.r}}
			return []oval{oSlice{typ: types.Typ[types.String], arr: &arr, lo: 0, hi: 1, capEnd: 1}}, true
		case m.it.floatClass != nil && f.Pkg() != nil && f.Pkg().Path() == "math":
			if out, ok := m.it.floatClass.mathCall(f.Name(), args); ok {
				return out, true
			}
		case m.it.floatClass != nil && (isFuncIn(f, "strconv", "AppendInt") || isFuncIn(f, "strconv", "AppendUint")) && len(args) == 3:
			// the decimal text of an integer converted from an ordinate
			if b, ok := args[2].(oInt); ok && b == 10 {
				if tok, ok := m.it.floatClass.intText(args[1]); ok {
					dst, ok := args[0].(oSlice)
					if _, isNil := args[0].(oNil); isNil {
						dst, ok = oSlice{}, true
					}
					if ok {
						intTexts++
						return []oval{appendVals(dst, []oval{tok})}, true
					}
				}
			}
		case m.it.floatClass != nil && (isFuncIn(f, "strconv", "FormatInt") || isFuncIn(f, "strconv", "Itoa") || isFuncIn(f, "strconv", "FormatUint")) && len(args) >= 1:
			if len(args) == 2 {
				if b, ok := args[1].(oInt); !ok || b != 10 {
					break
				}
			}
			if tok, ok := m.it.floatClass.intText(args[0]); ok {
				intTexts++
				arr := []oval{tok}
				return []oval{oSlice{typ: types.Typ[types.String], arr: &arr, lo: 0, hi: 1, capEnd: 1}}, true
			}
		case f.Pkg() != nil && f.Pkg().Path() == "reflect":
			// reflection described by go/types (a dispatch table keyed by reflect.Type, say)
			return refl.reflectStub(f.FullName(), f, recv, args)
		}
		return nil, false
	}
	// geometry of type tn with the given member counts; ranks name the coordinate's path
	names := map[int64]string{}
	next := int64(0)
	var build func(tn string, counts []int) oval
	mkPoint := func(path string) *oStruct {
		x, y := next, next+2
		next += 4
		names[x], names[y] = "X@"+path, "Y@"+path
		return m.it.point(m.ptT, x, y)
	}
	mkPts := func(t types.Type, prefix string, n int) oSlice {
		var vals []oval
		for i := 0; i < n; i++ {
			vals = append(vals, mkPoint(fmt.Sprintf("%s[%d]", prefix, i)))
		}
		return m.sliceOf(t, vals)
	}
	ringT := m.polyT.Underlying().(*types.Slice).Elem()
	build = func(tn string, counts []int) oval {
		switch tn {
		case "Point":
			return mkPoint("")
		case "LineString":
			return mkPts(m.lsT, "", counts[0])
		case "MultiLineString":
			var ls []oval
			for i := 0; i < counts[0]; i++ {
				ls = append(ls, mkPts(m.lsT, fmt.Sprintf("[%d]", i), counts[1]))
			}
			return m.sliceOf(m.mlsT, ls)
		case "Polygon":
			var rs []oval
			for i := 0; i < counts[0]; i++ {
				rs = append(rs, mkPts(ringT, fmt.Sprintf("[%d]", i), counts[1]))
			}
			return m.sliceOf(m.polyT, rs)
		case "MultiPolygon":
			var ps []oval
			for i := 0; i < counts[0]; i++ {
				var rs []oval
				for j := 0; j < counts[1]; j++ {
					rs = append(rs, mkPts(ringT, fmt.Sprintf("[%d][%d]", i, j), counts[2]))
				}
				ps = append(ps, m.sliceOf(m.polyT, rs))
			}
			return m.sliceOf(m.mpolyT, ps)
		}
		return nil
	}
	var typeNames []string
	for tn := range wktKeyword {
		typeNames = append(typeNames, tn)
	}
	sortStrings(typeNames)
	for _, tn := range typeNames {
		cons := "encoding/wkt.Encode#text(" + tn + ")"
		depth := wktDepth[tn]
		var combos [][]int
		var gen func(cur []int)
		gen = func(cur []int) {
			if len(cur) == depth {
				combos = append(combos, append([]int(nil), cur...))
				return
			}
			for n := 1; n <= 3; n++ {
				gen(append(cur, n))
			}
		}
		gen(nil)
		verdict, isUnk := "", false
		runOne := func(counts []int, class *floatClass) (string, bool) {
			g := build(tn, counts)
			c.Evals(1)
			m.it.floatClass = class
			res, why := m.it.Call(enc, nil, []oval{m.it.ifaceOf(g)}, 0)
			m.it.floatClass = nil
			where := ""
			if class != nil {
				where = " (ordinates: " + class.name + ")"
			}
			if why != "" {
				return fmt.Sprintf("member counts %v%s: not interpretable: %s", counts, where, why), !strings.HasPrefix(why, "panic:")
			}
			if eq, ok := oEqual(res[1], oNil{}); !ok {
				return fmt.Sprintf("member counts %v%s: the error result is %s", counts, where, showVal(res[1])), true
			} else if !eq {
				return fmt.Sprintf("member counts %v%s: Encode returns an error for a supported type", counts, where), false
			}
			txt, ok := res[0].(oSlice)
			if !ok {
				return fmt.Sprintf("member counts %v%s: result is %s", counts, where, showVal(res[0])), true
			}
			var toks []wtok
			bad, unk := "", ""
			for i := 0; i < txt.length(); i++ {
				switch e := txt.at(i).(type) {
				case oInt:
					toks = append(toks, wtok{lit: byte(e)})
				case oTokF:
					nm, ok := names[e.r]
					if !ok {
						nm = fmt.Sprintf("?%d", e.r)
					}
					toks = append(toks, wtok{num: nm})
				case oTokBad:
					if bad == "" {
						bad = fmt.Sprintf("member counts %v%s: the ordinate %s is written as %s", counts, where, names[e.r], e.why)
					}
				default:
					if unk == "" {
						unk = fmt.Sprintf("member counts %v%s: the text contains %s", counts, where, showVal(e))
					}
				}
			}
			if unk != "" {
				return unk, true
			}
			if bad != "" {
				return bad, false
			}
			if msg := parseWKT(tn, toks, counts); msg != "" {
				return fmt.Sprintf("with member counts %v%s the encoder emits `%s`, which is not well-formed OGC WKT for the geometry: %s", counts, where, renderToks(toks), msg), false
			}
			return "", false
		}
		// first with ordinates known by rank only; an encoder that branches on an ordinate's value
		// cannot be followed that way, and is then followed region by region instead
		plainUnk := ""
		for _, counts := range combos {
			v, unk := runOne(counts, nil)
			if v != "" && unk {
				plainUnk = v
				break
			}
			if v != "" {
				verdict = v
				break
			}
		}
		// every ordinate in one region of the float64 line: all combinations when the runs above
		// could not be followed, the largest one otherwise (an encoder that does not look at the
		// values behaves there as above)
		if verdict == "" {
			perRegion := combos[len(combos)-1:]
			if plainUnk != "" {
				perRegion = combos
			}
		regions:
			for i := range c17floatClasses {
				for _, counts := range perRegion {
					if v, unk := runOne(counts, &c17floatClasses[i]); v != "" {
						verdict, isUnk = v, unk
						break regions
					}
				}
			}
		}
		if verdict == "" && plainUnk != "" {
			c.Note("C17.R1 %s: without a region of values the encoder is not interpretable (%s); decided in each of the %d regions", tn, plainUnk, len(c17floatClasses))
		}
		switch {
		case verdict == "":
			c.OK("C17.R1", cons, pos, "%d count combinations (1..3 per level) all parse, member counts right at every level, coordinates complete and in order; and so with every ordinate in each of %d regions of the float64 line (fractions, whole numbers, 17-digit whole numbers, beyond int64, tiny, both zeros, both signs)", len(combos), len(c17floatClasses))
		case isUnk:
			c.Unk("C17.R1", cons, pos, "%s", verdict)
		default:
			c.Bad("C17.R1", cons, pos, "%s", verdict)
		}
		if verdict == "" {
			c.OK("C17.R3", "encoding/wkt.Encode#case("+tn+")", pos, "encoded")
		}
	}
	// R3: everything else is an error
	others := map[string]oval{}
	if t := c.P.NamedType("geom", "MultiPoint"); t != nil {
		others["MultiPoint"] = mkPts(t, "", 2)
	}
	if t := c.P.NamedType("geom", "GeometryCollection"); t != nil {
		others["GeometryCollection"] = m.sliceOf(t, []oval{m.it.ifaceOf(mkPoint(""))})
	}
	others["*Bounds"] = oPtr{m.it.bounds(m.bt, m.ptT, 1, 3, 5, 7)}
	var onames []string
	for k := range others {
		onames = append(onames, k)
	}
	sortStrings(onames)
	dmsg, dunk := "", ""
	for _, k := range onames {
		res, why := m.it.Call(enc, nil, []oval{m.it.ifaceOf(others[k])}, 0)
		c.Evals(1)
		if why != "" {
			dunk = k + ": not interpretable: " + why
			continue
		}
		if eq, ok := oEqual(res[1], oNil{}); ok && eq {
			txt := ""
			if sl, ok := res[0].(oSlice); ok {
				var toks []wtok
				for i := 0; i < sl.length(); i++ {
					if e, ok := sl.at(i).(oInt); ok {
						toks = append(toks, wtok{lit: byte(e)})
					} else {
						toks = append(toks, wtok{num: "n"})
					}
				}
				txt = renderToks(toks)
			}
			dmsg = fmt.Sprintf("a %s is encoded (as `%s`) without an error although the encoder has no verified grammar production for it: it does not come back as the same geometry", k, txt)
		}
	}
	switch {
	case dmsg != "":
		c.Bad("C17.R3", "encoding/wkt.Encode#default", pos, "%s", dmsg)
	case dunk != "":
		c.Unk("C17.R3", "encoding/wkt.Encode#default", pos, "%s", dunk)
	default:
		c.OK("C17.R3", "encoding/wkt.Encode#default", pos, "%s return an error", strings.Join(onames, ", "))
	}
	// R2: the format arguments seen at every float formatting performed during the runs
	bad := ""
	for _, fc := range fmtCalls {
		f, ok1 := fc.fmtc.(oInt)
		p, ok2 := fc.prec.(oInt)
		b, ok3 := fc.bits.(oInt)
		if !(ok1 && ok2 && ok3 && strings.ContainsRune("eEfgG", rune(f)) && p == -1 && b == 64) {
			bad = fmt.Sprintf("strconv.%s is called with format %s, precision %s, bit size %s: not the shortest text that parses back to the same float64 (need a format in eEfgG, precision -1, bit size 64)", fc.fn, showVal(fc.fmtc), showVal(fc.prec), showVal(fc.bits))
		}
	}
	switch {
	case bad != "":
		c.Bad("C17.R2", "encoding/wkt#float-format", pos, "%s", bad)
	case len(fmtCalls) == 0 && intTexts > 0:
		c.Unk("C17.R2", "encoding/wkt#float-format", pos, "ordinates are written only as integers: no float formatting was reached in any region")
	case len(fmtCalls) == 0:
		c.Unk("C17.R2", "encoding/wkt#float-format", pos, "no strconv float formatting was reached: coordinates are written some other way")
	default:
		c.OK("C17.R2", "encoding/wkt#float-format", pos, "all %d float formattings performed in the model runs use a format in eEfgG, precision -1, 64 bits", len(fmtCalls))
	}
}
