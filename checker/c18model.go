package main

// C18.R7 — reference closure, by model evaluation of the sequential semantics.
//
// The concurrency of the extraction is judged structurally (R1, R2, R6: lock sets, lock order,
// the join before the flag is read).  What the passes compute is judged here, on small model
// documents: nodes, ways sharing nodes, relations of ways, nodes and relations, a chain of
// relations three deep, a cycle of two relations, and (one document) a way with a reference to
// a node that does not exist.  The objects selected are chosen by tag; the keep functions are the
// package's own KeepTags and KeepAll, evaluated from source.
//
//	Filter:   (*Data).Filter is run by the interpreter on the document, every ranged-over map
//	          walked in insertion order and again in the reverse order.  The result must hold
//	          exactly the least set that contains the selected objects and everything they
//	          reference, transitively (so: never more than it was given, closed under references,
//	          independent of map order); filtering the result again must give the same sets; and
//	          (*Data).Check must accept the result when the document has no dangling reference.
//	passes:   the per-object functions the workers call (processNode / processWay /
//	          processRelation on the external element types) are driven by the checker through the
//	          pass protocol — every object of the document once per pass, in file order, in the
//	          reverse order and in an interleaved order, another pass whenever a call asked for
//	          one — i.e. every schedule in which objects are handled one at a time.  The result
//	          must be the same least closed set whatever the order, and Check must accept it.
//
// Interleavings inside one call (a keep decision taken between another worker's test and its
// store) are not explored here; they are what R1 and R4 are about.

import (
	"fmt"
	"go/ast"
	"go/constant"
	"go/token"
	"go/types"
	"os"
	"sort"
	"strings"
)

type osmRef struct {
	kind string // "n", "w", "r"
	id   int64
}

type osmDoc struct {
	name      string
	nodes     []int64
	ways      map[int64][]int64
	relations map[int64][]osmRef
	wayOrder  []int64
	relOrder  []int64
	selected  []osmRef
	dangling  bool
}

func (d osmDoc) closure() map[osmRef]bool {
	have := map[osmRef]bool{}
	for _, n := range d.nodes {
		have[osmRef{"n", n}] = true
	}
	for w := range d.ways {
		have[osmRef{"w", w}] = true
	}
	for r := range d.relations {
		have[osmRef{"r", r}] = true
	}
	out := map[osmRef]bool{}
	var work []osmRef
	for _, s := range d.selected {
		if have[s] && !out[s] {
			out[s] = true
			work = append(work, s)
		}
	}
	for len(work) > 0 {
		x := work[0]
		work = work[1:]
		var refs []osmRef
		switch x.kind {
		case "w":
			for _, n := range d.ways[x.id] {
				refs = append(refs, osmRef{"n", n})
			}
		case "r":
			refs = d.relations[x.id]
		}
		for _, r := range refs {
			if have[r] && !out[r] {
				out[r] = true
				work = append(work, r)
			}
		}
	}
	return out
}

func showRefs(m map[osmRef]bool) string {
	var s []string
	for r := range m {
		s = append(s, fmt.Sprintf("%s%d", r.kind, r.id))
	}
	sort.Strings(s)
	return "{" + strings.Join(s, " ") + "}"
}

func osmDocs() []osmDoc {
	base := func(name string, sel ...osmRef) osmDoc {
		return osmDoc{
			name:  name,
			nodes: []int64{1, 2, 3, 4, 5, 6, 7},
			ways:  map[int64][]int64{10: {1, 2}, 11: {2, 3}, 12: {4, 5}},
			relations: map[int64][]osmRef{
				20: {{"w", 11}, {"n", 6}},
				21: {{"r", 20}},
				22: {{"r", 23}},
				23: {{"r", 22}, {"w", 12}},
				24: {{"r", 21}},
				25: {{"n", 6}, {"n", 7}}, // members of one kind only: each kind must ask for its own pass
				26: {{"w", 10}},
				27: {{"r", 25}},
			},
			wayOrder: []int64{10, 11, 12},
			relOrder: []int64{20, 21, 22, 23, 24, 25, 26, 27},
			selected: sel,
		}
	}
	docs := []osmDoc{
		base("a way", osmRef{"w", 10}),
		base("a relation of a way and a node", osmRef{"r", 20}),
		base("a relation three levels above a way", osmRef{"r", 24}),
		base("a relation in a cycle of two", osmRef{"r", 22}),
		base("a node", osmRef{"n", 7}),
		base("a relation of nodes only", osmRef{"r", 25}),
		base("a relation of one way only", osmRef{"r", 26}),
		base("a relation of one relation only (of nodes)", osmRef{"r", 27}),
		base("two ways sharing a node", osmRef{"w", 10}, osmRef{"w", 11}),
		base("nothing"),
	}
	d := base("a way with a reference to a node that does not exist", osmRef{"w", 13})
	d.ways[13] = []int64{3, 99}
	d.wayOrder = append(d.wayOrder, 13)
	d.dangling = true
	docs = append(docs, d)
	return docs
}

type c18m struct {
	c      *Ctx
	nprocs int // what runtime.GOMAXPROCS answers in the extraction runs (0: 2)
	it     *oInterp
	err    oval
	// types
	dataT, nodeT, wayT, relT, memberT    *types.Named
	xNodeT, xWayT, xRelT                 types.Type // external element types
	tagsT, tagT, nodeIDT, wayIDT, relIDT types.Type
	typeOf                               map[string]oval // "n","w","r" → the osm.Type constant
	// the document the modelled scanner reads (extractModel)
	scanObjs []oval
	scanIdx  int
	scans    int
}

func c18model(c *Ctx, rule string) {
	pk := c.P.Pkg("encoding/osm")
	if pk == nil {
		c.Unk(rule, "encoding/osm", token.NoPos, "package not loaded")
		return
	}
	m := &c18m{c: c, it: &oInterp{p: c.P, maxDepth: 48, maxLoop: 4096, symbolic: true}, typeOf: map[string]oval{}}
	m.err = oIface{opaque: &oOpaque{name: "error", isError: true}}
	named := func(n string) *types.Named { return c.P.NamedType("encoding/osm", n) }
	m.dataT, m.nodeT, m.wayT, m.relT, m.memberT = named("Data"), named("Node"), named("Way"), named("Relation"), named("Member")
	filter := c.P.Method("encoding/osm", "Data", "Filter")
	check := c.P.Method("encoding/osm", "Data", "Check")
	keepTags, keepAll := c.P.Func("encoding/osm", "KeepTags"), c.P.Func("encoding/osm", "KeepAll")
	if m.dataT == nil || m.nodeT == nil || m.wayT == nil || m.relT == nil || m.memberT == nil || c.P.Decl(filter) == nil || c.P.Decl(check) == nil || c.P.Decl(keepTags) == nil || c.P.Decl(keepAll) == nil {
		c.Unk(rule, "encoding/osm#model", token.NoPos, "API anchors (Data, Node, Way, Relation, Member, Filter, Check, KeepTags, KeepAll) do not all resolve")
		return
	}
	field := func(t *types.Named, name string) types.Type {
		st := t.Underlying().(*types.Struct)
		for i := 0; i < st.NumFields(); i++ {
			if st.Field(i).Name() == name {
				return st.Field(i).Type()
			}
		}
		return nil
	}
	m.nodeIDT, m.wayIDT, m.relIDT, m.tagsT = field(m.nodeT, "ID"), field(m.wayT, "ID"), field(m.relT, "ID"), field(m.nodeT, "Tags")
	mt := field(m.memberT, "Type")
	if m.nodeIDT == nil || m.wayIDT == nil || m.relIDT == nil || m.tagsT == nil || mt == nil {
		c.Unk(rule, "encoding/osm#model", token.NoPos, "the fields ID, Tags and Member.Type do not resolve")
		return
	}
	if sl, ok := m.tagsT.Underlying().(*types.Slice); ok {
		m.tagT = sl.Elem()
	}
	// the member-type constants of the element library
	if tn, ok := mt.(*types.Named); ok && tn.Obj().Pkg() != nil {
		for k, name := range map[string]string{"n": "TypeNode", "w": "TypeWay", "r": "TypeRelation"} {
			if cst, ok := tn.Obj().Pkg().Scope().Lookup(name).(*types.Const); ok {
				m.typeOf[k] = m.it.constVal(cst.Val(), mt)
			}
		}
		for k, name := range map[string]string{"n": "Node", "w": "Way", "r": "Relation"} {
			if o, ok := tn.Obj().Pkg().Scope().Lookup(name).(*types.TypeName); ok {
				switch k {
				case "n":
					m.xNodeT = o.Type()
				case "w":
					m.xWayT = o.Type()
				case "r":
					m.xRelT = o.Type()
				}
			}
		}
	}
	if len(m.typeOf) != 3 || m.tagT == nil {
		c.Unk(rule, "encoding/osm#model", token.NoPos, "the member-type constants of the element library do not resolve")
		return
	}
	m.it.stub = func(f *types.Func, recv oval, args []oval) ([]oval, bool) {
		full := f.FullName()
		isOpaque := func(v oval, name string) bool {
			iv, ok := v.(oIface)
			return ok && iv.opaque != nil && iv.opaque.name == name
		}
		switch {
		case m.it.seqGo && (full == "(*sync.WaitGroup).Wait" || full == "(*sync.WaitGroup).Go" || full == "(*sync.WaitGroup).Add" || full == "(*sync.WaitGroup).Done"):
			return nil, false // the sequential schedule of ordergo.go
		case isOpaque(recv, "scanner"):
			switch f.Name() {
			case "Scan":
				m.scanIdx++
				return []oval{oBool(m.scanIdx < len(m.scanObjs))}, true
			case "Object":
				if m.scanIdx < 0 || m.scanIdx >= len(m.scanObjs) {
					return []oval{oIface{}}, true
				}
				return []oval{m.scanObjs[m.scanIdx]}, true
			case "Err", "Close":
				return []oval{oNil{}}, true
			}
		case isOpaque(recv, "file") && f.Name() == "Seek":
			return []oval{oInt(0), oNil{}}, true
		case full == "runtime.GOMAXPROCS" || full == "runtime.NumCPU":
			if m.nprocs > 0 {
				return []oval{oInt(m.nprocs)}, true
			}
			return []oval{oInt(2)}, true
		case strings.HasPrefix(full, "(*sync.Mutex).") || strings.HasPrefix(full, "(*sync.RWMutex)."):
			return nil, false // the interpreter's own model: uncontended, but released only when held
		case f.Pkg() != nil && f.Pkg().Path() == "sync":
			// the sequential semantics: locks are not contended
			return make([]oval, f.Type().(*types.Signature).Results().Len()), true
		case full == "fmt.Errorf" || full == "errors.New":
			return []oval{m.err}, true
		}
		return nil, false
	}
	strT := types.Typ[types.String]
	// ---- keep functions, from the package's own source
	wantT := keepTags.Type().(*types.Signature).Params().At(0).Type()
	wmt, _ := wantT.Underlying().(*types.Map)
	if wmt == nil {
		c.Unk(rule, "encoding/osm.KeepTags", token.NoPos, "parameter is not a map")
		return
	}
	keys, vals := []oval{strVal(strT, "k")}, []oval{m.it.sliceOfVals(wmt.Elem(), []oval{strVal(strT, "v")})}
	c.Evals(2)
	kt, why := m.it.Call(keepTags, nil, []oval{oMap{typ: wantT, keys: &keys, vals: &vals}}, 0)
	if why != "" || len(kt) != 1 {
		c.Unk(rule, "encoding/osm.KeepTags", c.P.Decl(keepTags).Pos(), "not interpretable: %s", why)
		return
	}
	ka, why := m.it.Call(keepAll, nil, nil, 0)
	if why != "" || len(ka) != 1 {
		c.Unk(rule, "encoding/osm.KeepAll", c.P.Decl(keepAll).Pos(), "not interpretable: %s", why)
		return
	}
	m.filterModel(rule, filter, check, kt[0], ka[0])
	m.passModel(rule, check, kt[0])
	m.boundsModel(rule, check)
}

// boundsModel: the pass protocol with the state-dependent keep function KeepBounds, in file order
// (nodes, ways, relations by increasing id — the order of real files; in other orders what this keep
// function selects depends on the order itself, which is what R4 reports).  Nodes carry symbolic
// coordinates; expected is the least set with: nodes inside the box; ways with a kept node;
// relations with a kept member; everything a kept way or relation references.
func (m *c18m) boundsModel(rule string, check *types.Func) {
	c := m.c
	kb := c.P.Func("encoding/osm", "KeepBounds")
	pn, pw, pr := m.perObject("processNode", m.xNodeT), m.perObject("processWay", m.xWayT), m.perObject("processRelation", m.xRelT)
	cm := newClipModel(c)
	if c.P.Decl(kb) == nil || c.P.Decl(pn) == nil || c.P.Decl(pw) == nil || c.P.Decl(pr) == nil || cm.bt == nil || cm.ptT == nil {
		return // the by-tag pass model reports missing anchors
	}
	pos := c.P.Decl(pw).Pos()
	cons := "encoding/osm#passes(by bounds)"
	m.it.valuation = map[string]float64{"__ranks": 1}
	defer func() { m.it.valuation = nil }()
	// the box (100,100)-(200,200); nodes 1-3 inside, 4-6 outside
	box := oPtr{m.it.bounds(cm.bt, cm.ptT, 100, 100, 200, 200)}
	c.Evals(1)
	kres, why := m.it.Call(kb, nil, []oval{box}, 0)
	if why != "" || len(kres) != 1 {
		c.Unk(rule, cons, pos, "KeepBounds is not interpretable: %s", why)
		return
	}
	keep := kres[0]
	docs := []osmDoc{
		{ // ways sticking out of the box, relations two levels deep
			name: "ways reaching out of the box",
			ways: map[int64][]int64{10: {1, 2, 3}, 11: {3, 4}, 12: {5, 6}, 13: {4, 7}},
			relations: map[int64][]osmRef{
				20: {{"r", 21}}, // a parent listed before its child
				21: {{"w", 10}},
				22: {{"w", 12}},           // nothing of it is ever selected
				23: {{"r", 20}, {"n", 6}}, // two levels above a selected way, with a node of its own
			},
			wayOrder: []int64{10, 11, 12, 13},
			relOrder: []int64{20, 21, 22, 23},
		},
		{ // everything selected lies inside the box: no member is ever missing
			name:      "everything selected inside the box",
			ways:      map[int64][]int64{10: {1, 2, 3}, 12: {5, 6}},
			relations: map[int64][]osmRef{20: {{"r", 21}}, 21: {{"w", 10}}, 22: {{"w", 12}}},
			wayOrder:  []int64{10, 12},
			relOrder:  []int64{20, 21, 22},
		},
	}
	for _, d := range docs {
		m.boundsDoc(rule, check, keep, pn, pw, pr, d)
	}
}

func (m *c18m) boundsDoc(rule string, check *types.Func, keep oval, pn, pw, pr *types.Func, d osmDoc) {
	c := m.c
	cons := "encoding/osm#passes(by bounds, file order, " + d.name + ")"
	pos := c.P.Decl(pw).Pos()
	type nodeAt struct{ id, lon, lat int64 }
	nodes := []nodeAt{{1, 110, 121}, {2, 132, 143}, {3, 154, 165}, {4, 310, 321}, {5, 332, 343}, {6, 354, 365}, {7, 376, 387}}
	inBox := func(n nodeAt) bool { return n.lon >= 100 && n.lon <= 200 && n.lat >= 100 && n.lat <= 200 }
	want := map[osmRef]bool{}
	for changed := true; changed; {
		changed = false
		add := func(r osmRef) {
			if !want[r] {
				want[r] = true
				changed = true
			}
		}
		for _, n := range nodes {
			if inBox(n) {
				add(osmRef{"n", n.id})
			}
		}
		for w, ns := range d.ways {
			sel := want[osmRef{"w", w}]
			for _, n := range ns {
				if want[osmRef{"n", n}] {
					sel = true
				}
			}
			if sel {
				add(osmRef{"w", w})
				for _, n := range ns {
					add(osmRef{"n", n})
				}
			}
		}
		for r, ms := range d.relations {
			sel := want[osmRef{"r", r}]
			for _, mb := range ms {
				if want[mb] {
					sel = true
				}
			}
			if sel {
				add(osmRef{"r", r})
				for _, mb := range ms {
					add(mb)
				}
			}
		}
	}
	elem := func(f *types.Func) types.Type {
		if pt, ok := f.Type().(*types.Signature).Params().At(0).Type().(*types.Pointer); ok {
			return pt.Elem()
		}
		return nil
	}
	en, ew, er := elem(pn), elem(pw), elem(pr)
	if en == nil || ew == nil || er == nil {
		return
	}
	type obj struct {
		f *types.Func
		v oval
	}
	var objs []obj
	for _, n := range nodes {
		s := m.it.zero(en).(*oStruct)
		s.fields["ID"], s.fields["Lon"], s.fields["Lat"] = oInt(n.id), oFloat{n.lon}, oFloat{n.lat}
		objs = append(objs, obj{pn, oPtr{s}})
	}
	for _, w := range d.wayOrder {
		s := m.it.zero(ew).(*oStruct)
		ns, ok := s.fields["Nodes"].(oSlice)
		if !ok {
			return
		}
		et := ns.typ.Underlying().(*types.Slice).Elem()
		var wn []oval
		for _, n := range d.ways[w] {
			e := m.it.zero(et).(*oStruct)
			e.fields["ID"] = oInt(n)
			wn = append(wn, e)
		}
		s.fields["ID"] = oInt(w)
		s.fields["Nodes"] = m.it.sliceOfVals(ns.typ, wn)
		objs = append(objs, obj{pw, oPtr{s}})
	}
	for _, r := range d.relOrder {
		s := m.it.zero(er).(*oStruct)
		ms, ok := s.fields["Members"].(oSlice)
		if !ok {
			return
		}
		et := ms.typ.Underlying().(*types.Slice).Elem()
		var mm []oval
		for _, ref := range d.relations[r] {
			e := m.it.zero(et).(*oStruct)
			e.fields["Ref"], e.fields["Type"] = oInt(ref.id), m.typeOf[ref.kind]
			mm = append(mm, e)
		}
		s.fields["ID"] = oInt(r)
		s.fields["Members"] = m.it.sliceOfVals(ms.typ, mm)
		objs = append(objs, obj{pr, oPtr{s}})
	}
	out := m.data(osmDoc{})
	bad, unk := "", ""
	passes := 0
	for again := true; again && bad == "" && unk == ""; {
		again = false
		passes++
		if passes > 12 {
			bad = "the passes do not come to an end within 12 rounds"
			break
		}
		for _, o := range objs {
			c.Evals(1)
			res, why := m.it.Call(o.f, oPtr{out}, []oval{o.v, keep, oBool(true)}, 0)
			if why != "" {
				if strings.HasPrefix(why, "panic:") {
					bad = o.f.Name() + " panics: " + why
				} else {
					unk = o.f.Name() + " is not interpretable with KeepBounds: " + why
				}
				break
			}
			for _, r := range res {
				if b, ok := r.(oBool); ok && bool(b) {
					again = true
				}
			}
		}
	}
	if bad == "" && unk == "" {
		got, msg := contents(oPtr{out})
		switch {
		case msg != "":
			bad = msg
		case !sameRefs(got, want):
			bad = fmt.Sprintf("keeping by bounds (nodes 1–3 inside the box, a parent relation listed before its child) and handling the file in order, pass after pass until no call asks for another, gives %s after %d passes; the nodes in the box, the ways and relations they make selectable and everything those reference are %s: an object that only becomes selectable once something later in the pass is stored is never judged again", showRefs(got), passes, showRefs(want))
		default:
			if msg := m.checkOK(check, oPtr{out}, false); msg != "" {
				if msg[0] == '?' {
					unk = "Check is not interpretable: " + msg[1:]
				} else {
					bad = msg
				}
			}
		}
	}
	report3(c, rule, cons, pos, bad, unk, "the least set closed under selection by the box and under references, in file order; Check accepts it")
}

func (m *c18m) tags(selected bool) oval {
	strT := types.Typ[types.String]
	if !selected {
		return oSlice{typ: m.tagsT}
	}
	t := m.it.zero(m.tagT).(*oStruct)
	t.fields["Key"], t.fields["Value"] = strVal(strT, "k"), strVal(strT, "v")
	return m.it.sliceOfVals(m.tagsT, []oval{t})
}

// data builds a *Data holding the document in the package's own element types.
func (m *c18m) data(d osmDoc) *oStruct {
	sel := map[osmRef]bool{}
	for _, s := range d.selected {
		sel[s] = true
	}
	ds := m.it.zero(m.dataT).(*oStruct)
	mk := func(fieldName string) (oMap, bool) {
		mp, ok := ds.fields[fieldName].(oMap)
		if !ok {
			return oMap{}, false
		}
		ks, vs := []oval{}, []oval{}
		mp.keys, mp.vals = &ks, &vs
		return mp, true
	}
	for _, f := range ds.order {
		if mp, ok := mk(f); ok {
			ds.fields[f] = mp // every map of the structure is made, as the package's constructors do
		}
	}
	put := func(fieldName string, k int64, v oval) {
		mp := ds.fields[fieldName].(oMap)
		*mp.keys = append(*mp.keys, oInt(k))
		*mp.vals = append(*mp.vals, v)
	}
	for _, n := range d.nodes {
		s := m.it.zero(m.nodeT).(*oStruct)
		s.fields["ID"], s.fields["Tags"] = oInt(n), m.tags(sel[osmRef{"n", n}])
		put("Nodes", n, oPtr{s})
	}
	for _, w := range d.wayOrder {
		s := m.it.zero(m.wayT).(*oStruct)
		var ids []oval
		for _, n := range d.ways[w] {
			ids = append(ids, oInt(n))
		}
		s.fields["ID"], s.fields["Tags"] = oInt(w), m.tags(sel[osmRef{"w", w}])
		s.fields["Nodes"] = m.it.sliceOfVals(s.fields["Nodes"].(oSlice).typ, ids)
		put("Ways", w, oPtr{s})
	}
	for _, r := range d.relOrder {
		s := m.it.zero(m.relT).(*oStruct)
		var ms []oval
		for _, ref := range d.relations[r] {
			mb := m.it.zero(m.memberT).(*oStruct)
			mb.fields["Ref"], mb.fields["Type"] = oInt(ref.id), m.typeOf[ref.kind]
			ms = append(ms, mb)
		}
		s.fields["ID"], s.fields["Tags"] = oInt(r), m.tags(sel[osmRef{"r", r}])
		s.fields["Members"] = m.it.sliceOfVals(s.fields["Members"].(oSlice).typ, ms)
		put("Relations", r, oPtr{s})
	}
	return ds
}

// contents reads the three object maps of a *Data.
func contents(v oval) (map[osmRef]bool, string) {
	p, ok := v.(oPtr)
	if !ok || p.s == nil {
		return nil, "the result is " + showVal(v)
	}
	out := map[osmRef]bool{}
	for kind, f := range map[string]string{"n": "Nodes", "w": "Ways", "r": "Relations"} {
		mp, ok := p.s.fields[f].(oMap)
		if !ok {
			return nil, "the result has no map " + f
		}
		if mp.keys == nil {
			continue
		}
		for i, k := range *mp.keys {
			id, ok := k.(oInt)
			if !ok {
				return nil, "a key of " + f + " is " + showVal(k)
			}
			if vp, ok := (*mp.vals)[i].(oPtr); !ok || vp.s == nil {
				return nil, fmt.Sprintf("%s[%d] is %s", f, int64(id), showVal((*mp.vals)[i]))
			}
			out[osmRef{kind, int64(id)}] = true
		}
	}
	return out, ""
}

func sameRefs(a, b map[osmRef]bool) bool {
	if len(a) != len(b) {
		return false
	}
	for k := range a {
		if !b[k] {
			return false
		}
	}
	return true
}

func (m *c18m) checkOK(check *types.Func, data oval, dangling bool) string {
	m.c.Evals(1)
	res, why := m.it.Call(check, data, nil, 0)
	if why != "" {
		if strings.HasPrefix(why, "panic:") {
			return "Check panics on the result: " + why
		}
		return "?" + why
	}
	isNil := func(v oval) bool { eq, ok := oEqual(v, oNil{}); return ok && eq }
	if !dangling && !isNil(res[0]) {
		return "Check rejects the result although the document has no dangling reference"
	}
	return ""
}

func (m *c18m) filterModel(rule string, filter, check *types.Func, keepTags, keepAll oval) {
	c := m.c
	pos := c.P.Decl(filter).Pos()
	type verdict struct{ bad, unk string }
	for _, d := range osmDocs() {
		for _, kcase := range []struct {
			name string
			keep oval
			all  bool
		}{{"by tag", keepTags, false}, {"keep all", keepAll, true}} {
			if kcase.all && d.name != "a way" && !d.dangling {
				continue // keeping everything is the same for every choice of tagged objects
			}
			cons := fmt.Sprintf("encoding/osm.(*Data).Filter#model(%s, %s)", d.name, kcase.name)
			var v verdict
			want := d.closure()
			if kcase.all {
				dd := d
				dd.selected = nil
				for _, n := range d.nodes {
					dd.selected = append(dd.selected, osmRef{"n", n})
				}
				for w := range d.ways {
					dd.selected = append(dd.selected, osmRef{"w", w})
				}
				for r := range d.relations {
					dd.selected = append(dd.selected, osmRef{"r", r})
				}
				want = dd.closure()
			}
			for _, rev := range []bool{false, true} {
				if v.bad != "" || v.unk != "" {
					break
				}
				order := map[bool]string{false: "maps walked in insertion order", true: "maps walked in the reverse order"}[rev]
				m.it.mapReverse = rev
				in := m.data(d)
				c.Evals(1)
				res, why := m.it.Call(filter, oPtr{in}, []oval{kcase.keep}, 0)
				if why != "" {
					if strings.HasPrefix(why, "panic:") {
						v.bad = fmt.Sprintf("Filter panics (%s): %s", order, why)
					} else {
						v.unk = "Filter is not interpretable: " + why
					}
					break
				}
				got, bad := contents(res[0])
				if bad != "" {
					v.bad = bad
					break
				}
				if !sameRefs(got, want) {
					v.bad = fmt.Sprintf("selecting %s, Filter returns %s (%s); the selected objects with everything they reference, transitively, are %s", d.name, showRefs(got), order, showRefs(want))
					break
				}
				// again: the same sets
				c.Evals(1)
				res2, why := m.it.Call(filter, res[0], []oval{kcase.keep}, 0)
				if why != "" {
					v.unk = "Filter of the result is not interpretable: " + why
					break
				}
				if got2, bad := contents(res2[0]); bad != "" || !sameRefs(got2, got) {
					v.bad = fmt.Sprintf("filtering the result again gives %s, not %s again (%s): Filter is not idempotent", showRefs(got2), showRefs(got), order)
					break
				}
				if msg := m.checkOK(check, res[0], d.dangling); msg != "" {
					if msg[0] == '?' {
						v.unk = "Check is not interpretable: " + msg[1:]
					} else {
						v.bad = msg + " (" + order + ")"
					}
				}
			}
			m.it.mapReverse = false
			report3(c, rule, cons, pos, v.bad, v.unk, "exactly the selected objects and what they reference, transitively, in both map orders; filtering again changes nothing; Check accepts the result")
		}
	}
}

// passModel drives processNode / processWay / processRelation through the pass protocol.
func (m *c18m) passModel(rule string, check *types.Func, keepTags oval) {
	c := m.c
	pn, pw, pr := m.perObject("processNode", m.xNodeT), m.perObject("processWay", m.xWayT), m.perObject("processRelation", m.xRelT)
	if c.P.Decl(pn) == nil || c.P.Decl(pw) == nil || c.P.Decl(pr) == nil || m.xNodeT == nil || m.xWayT == nil || m.xRelT == nil {
		c.Unk(rule, "encoding/osm#passes", token.NoPos, "the per-object functions processNode / processWay / processRelation (or the element types they take) do not resolve")
		return
	}
	// each takes (*element, KeepFunc, bool)
	elem := func(f *types.Func) types.Type {
		sig := f.Type().(*types.Signature)
		if sig.Params().Len() < 2 {
			return nil
		}
		if pt, ok := sig.Params().At(0).Type().(*types.Pointer); ok {
			return pt.Elem()
		}
		return nil
	}
	en, ew, er := elem(pn), elem(pw), elem(pr)
	if en == nil || ew == nil || er == nil {
		c.Unk(rule, "encoding/osm#passes", token.NoPos, "the per-object functions do not take a pointer to an element")
		return
	}
	pos := c.P.Decl(pw).Pos()
	setField := func(s *oStruct, name string, v oval) bool {
		if _, ok := s.fields[name]; !ok {
			return false
		}
		s.fields[name] = v
		return true
	}
	type obj struct {
		ref osmRef
		v   oval
	}
	build := func(d osmDoc) ([]obj, string) {
		sel := map[osmRef]bool{}
		for _, s := range d.selected {
			sel[s] = true
		}
		var out []obj
		for _, n := range d.nodes {
			s := m.it.zero(en).(*oStruct)
			if !setField(s, "ID", oInt(n)) || !setField(s, "Tags", m.tags(sel[osmRef{"n", n}])) {
				return nil, "the node element has no ID / Tags"
			}
			out = append(out, obj{osmRef{"n", n}, oPtr{s}})
		}
		for _, w := range d.wayOrder {
			s := m.it.zero(ew).(*oStruct)
			ns, ok := s.fields["Nodes"].(oSlice)
			if !ok {
				return nil, "the way element has no Nodes"
			}
			et := ns.typ.Underlying().(*types.Slice).Elem()
			var wn []oval
			for _, n := range d.ways[w] {
				e, ok := m.it.zero(et).(*oStruct)
				if !ok || !setField(e, "ID", oInt(n)) {
					return nil, "a way node has no ID"
				}
				wn = append(wn, e)
			}
			setField(s, "ID", oInt(w))
			setField(s, "Tags", m.tags(sel[osmRef{"w", w}]))
			s.fields["Nodes"] = m.it.sliceOfVals(ns.typ, wn)
			out = append(out, obj{osmRef{"w", w}, oPtr{s}})
		}
		for _, r := range d.relOrder {
			s := m.it.zero(er).(*oStruct)
			ms, ok := s.fields["Members"].(oSlice)
			if !ok {
				return nil, "the relation element has no Members"
			}
			et := ms.typ.Underlying().(*types.Slice).Elem()
			var mm []oval
			for _, ref := range d.relations[r] {
				e, ok := m.it.zero(et).(*oStruct)
				if !ok || !setField(e, "Ref", oInt(ref.id)) || !setField(e, "Type", m.typeOf[ref.kind]) {
					return nil, "a relation member has no Ref / Type"
				}
				mm = append(mm, e)
			}
			setField(s, "ID", oInt(r))
			setField(s, "Tags", m.tags(sel[osmRef{"r", r}]))
			s.fields["Members"] = m.it.sliceOfVals(ms.typ, mm)
			out = append(out, obj{osmRef{"r", r}, oPtr{s}})
		}
		return out, ""
	}
	orders := []struct {
		name string
		perm func(n int) []int
	}{
		{"file order (nodes, ways, relations)", func(n int) []int {
			p := make([]int, n)
			for i := range p {
				p[i] = i
			}
			return p
		}},
		{"the reverse order", func(n int) []int {
			p := make([]int, n)
			for i := range p {
				p[i] = n - 1 - i
			}
			return p
		}},
		{"an interleaved order", func(n int) []int {
			var p []int
			for i := 0; i < n; i += 2 {
				p = append(p, i)
			}
			for i := n - 1 - (n-1+1)%2; i >= 1; i -= 2 {
				p = append(p, i)
			}
			return p
		}},
	}
	if c.Thorough {
		// twelve more orders of the objects (a fixed pseudo-random sequence)
		for seed := uint64(1); seed <= 12; seed++ {
			sd := seed
			orders = append(orders, struct {
				name string
				perm func(n int) []int
			}{fmt.Sprintf("shuffled order %d", seed), func(n int) []int {
				p := make([]int, n)
				for i := range p {
					p[i] = i
				}
				x := sd*6364136223846793005 + 1442695040888963407
				for i := n - 1; i > 0; i-- {
					x = x*6364136223846793005 + 1442695040888963407
					j := int((x >> 33) % uint64(i+1))
					p[i], p[j] = p[j], p[i]
				}
				return p
			}})
		}
	}
	for _, d := range osmDocs() {
		cons := fmt.Sprintf("encoding/osm#passes(%s)", d.name)
		bad, unk := "", ""
		want := d.closure()
		for _, ord := range orders {
			if bad != "" || unk != "" {
				break
			}
			objs, why := build(d)
			if why != "" {
				unk = why
				break
			}
			perm := ord.perm(len(objs))
			if len(perm) != len(objs) {
				unk = "order construction"
				break
			}
			out := m.data(osmDoc{})
			passes := 0
			for again := true; again && bad == "" && unk == ""; {
				again = false
				passes++
				if passes > 12 {
					bad = fmt.Sprintf("selecting %s, the passes do not come to an end within 12 rounds (%s): a pass is requested although nothing new was registered", d.name, ord.name)
					break
				}
				for _, i := range perm {
					o := objs[i]
					var f *types.Func
					switch o.ref.kind {
					case "n":
						f = pn
					case "w":
						f = pw
					default:
						f = pr
					}
					c.Evals(1)
					res, why := m.it.Call(f, oPtr{out}, []oval{o.v, keepTags, oBool(true)}, 0)
					if why != "" {
						if strings.HasPrefix(why, "panic:") {
							bad = fmt.Sprintf("%s panics on %s%d: %s", f.Name(), o.ref.kind, o.ref.id, why)
						} else {
							unk = f.Name() + " is not interpretable: " + why
						}
						break
					}
					for _, r := range res {
						if b, ok := r.(oBool); ok && bool(b) {
							again = true
						}
					}
				}
			}
			if bad != "" || unk != "" {
				break
			}
			got, msg := contents(oPtr{out})
			if msg != "" {
				bad = msg
				break
			}
			if !sameRefs(got, want) {
				bad = fmt.Sprintf("selecting %s and handling the objects one at a time in %s, pass after pass until no call asks for another, gives %s after %d passes; the selected objects with everything they reference, transitively, are %s", d.name, ord.name, showRefs(got), passes, showRefs(want))
				break
			}
			if msg := m.checkOK(check, oPtr{out}, d.dangling); msg != "" {
				if msg[0] == '?' {
					unk = "Check is not interpretable: " + msg[1:]
				} else {
					bad = msg + " (" + ord.name + ")"
				}
			}
		}
		report3(c, rule, cons, pos, bad, unk, fmt.Sprintf("the least closed set in %d orders of the objects (file order, reverse, interleaved …); Check accepts it", len(orders)))
	}
	// ---- the extraction loop itself, under one sequential schedule
	exts := m.findExtract()
	if len(exts) == 0 {
		c.Unk(rule, "encoding/osm#extract", token.NoPos, "no function of the package takes a scanner factory and a keep function and returns (*Data, error)")
		return
	}
	// several candidates (a function and the helper it forwards to): the one no other candidate
	// calls is the entry point; it runs the others
	ext := exts[0]
	for _, cand := range exts {
		calledBy := false
		for _, other := range exts {
			if other == cand {
				continue
			}
			ast.Inspect(c.P.Decl(other).Body, func(n ast.Node) bool {
				if call, ok := n.(*ast.CallExpr); ok && callee(c.P.InfoOf(other), call) == cand {
					calledBy = true
				}
				return true
			})
		}
		if !calledBy {
			ext = cand
			break
		}
	}
	epos := c.P.Decl(ext).Pos()
	for _, d := range osmDocs() {
		cons := fmt.Sprintf("encoding/osm#extract(%s)", d.name)
		bad, unk := "", ""
		want := d.closure()
		eorders := orders
		if !c.Thorough {
			// the quick tier adds six of the shuffled orders here: the loop's own decisions (when to
			// read again, what a pass may skip) depend on where in the document an object comes
			for seed := uint64(1); seed <= 6; seed++ {
				sd := seed
				eorders = append(eorders, struct {
					name string
					perm func(n int) []int
				}{fmt.Sprintf("shuffled order %d", seed), func(n int) []int {
					p := make([]int, n)
					for i := range p {
						p[i] = i
					}
					x := sd*6364136223846793005 + 1442695040888963407
					for i := n - 1; i > 0; i-- {
						x = x*6364136223846793005 + 1442695040888963407
						j := int((x >> 33) % uint64(i+1))
						p[i], p[j] = p[j], p[i]
					}
					return p
				}})
			}
		}
		type eRun struct {
			ord    int
			nprocs int
		}
		var eruns []eRun
		for oi := range eorders {
			eruns = append(eruns, eRun{oi, 2})
			if oi == 0 || c.Thorough {
				// the result does not depend on the number of processors the pool is sized by
				eruns = append(eruns, eRun{oi, 1}, eRun{oi, 3})
			}
		}
		for _, er := range eruns {
			ord := eorders[er.ord]
			m.nprocs = er.nprocs
			if bad != "" || unk != "" {
				break
			}
			probe, why := build(d)
			if why != "" {
				unk = why
				break
			}
			perm := ord.perm(len(probe))
			args, why := m.extractArgs(ext, keepTags, func() []oval {
				objs, _ := build(d) // a scanner hands out fresh objects on every pass
				out := make([]oval, 0, len(objs))
				for _, i := range perm {
					out = append(out, oIface{dyn: objs[i].v})
				}
				return out
			})
			if why != "" {
				unk = why
				break
			}
			m.it.seqGo, m.it.pending, m.scans = true, nil, 0
			c.Evals(1)
			res, why := m.it.Call(ext, nil, args, 0)
			m.it.seqGo, m.it.pending = false, nil
			what := fmt.Sprintf("selecting %s from a document whose objects come in %s (GOMAXPROCS %d)", d.name, ord.name, er.nprocs)
			if os.Getenv("VERIF_TRACE") != "" {
				got, _ := contents(res0(res))
				fmt.Fprintf(os.Stderr, "TRACE extract %s: why=%q scans=%d got=%s\n", what, why, m.scans, showRefs(got))
			}
			switch {
			case strings.HasPrefix(why, "panic:"):
				bad = fmt.Sprintf("%s: %s panics: %s", what, ext.Name(), why)
			case why != "":
				unk = fmt.Sprintf("%s is not interpretable under the sequential schedule: %s", ext.Name(), why)
			case len(res) != 2:
				unk = "result arity"
			default:
				if eq, ok := oEqual(res[1], oNil{}); !ok {
					unk = what + ": the error result is " + showVal(res[1])
					break
				} else if !eq {
					bad = what + ": " + ext.Name() + " returns an error"
					break
				}
				got, msg := contents(res[0])
				if msg != "" {
					bad = what + ": " + msg
					break
				}
				if !sameRefs(got, want) {
					bad = fmt.Sprintf("%s, %s reads the document %d times and returns %s; the selected objects with everything they reference, transitively, are %s", what, ext.Name(), m.scans, showRefs(got), showRefs(want))
					break
				}
				if msg := m.checkOK(check, res[0], d.dangling); msg != "" {
					if msg[0] == '?' {
						unk = "Check is not interpretable: " + msg[1:]
					} else {
						bad = msg + " (" + ord.name + ")"
					}
				}
			}
		}
		m.nprocs = 0
		report3(c, rule, cons, epos, bad, unk, fmt.Sprintf("the extraction loop, run under the sequential schedule (workers take the objects in the order scanned) on the document in %d orders (%d runs: GOMAXPROCS 2, and 1 and 3 in file order), reads it again until nothing new is asked for and returns the least closed set; Check accepts it", len(eorders), len(eruns)))
	}
}

// findExtract: the function that drives the passes — it takes a scanner factory (a func() of an
// interface with Scan and Object) and a keep function, and returns (*Data, error).
func (m *c18m) findExtract() []*types.Func {
	pk := m.c.P.Pkg("encoding/osm")
	var found []*types.Func
	sc := pk.Types.Scope()
	for _, n := range sc.Names() {
		f, ok := sc.Lookup(n).(*types.Func)
		if !ok || m.c.P.Decl(f) == nil {
			continue
		}
		sig := f.Type().(*types.Signature)
		if sig.Results().Len() != 2 {
			continue
		}
		pt, ok := sig.Results().At(0).Type().(*types.Pointer)
		if !ok || !types.Identical(pt.Elem(), m.dataT) {
			continue
		}
		for i := 0; i < sig.Params().Len(); i++ {
			if isScannerFactory(sig.Params().At(i).Type()) {
				found = append(found, f)
				break
			}
		}
	}
	return found
}

func isScannerFactory(t types.Type) bool {
	fs, ok := t.Underlying().(*types.Signature)
	if !ok || fs.Params().Len() != 0 || fs.Results().Len() != 1 {
		return false
	}
	it, ok := fs.Results().At(0).Type().Underlying().(*types.Interface)
	if !ok {
		return false
	}
	has := map[string]bool{}
	for i := 0; i < it.NumMethods(); i++ {
		has[it.Method(i).Name()] = true
	}
	return has["Scan"] && has["Object"]
}

// extractArgs: one argument per parameter of the extraction function, by the parameter's type.
func (m *c18m) extractArgs(ext *types.Func, keep oval, doc func() []oval) ([]oval, string) {
	sig := ext.Type().(*types.Signature)
	var args []oval
	for i := 0; i < sig.Params().Len(); i++ {
		t := sig.Params().At(i).Type()
		switch {
		case isScannerFactory(t):
			args = append(args, oHostFunc{name: "scanner factory", fn: func([]oval) []oval {
				m.scanObjs, m.scanIdx = doc(), -1
				m.scans++
				return []oval{oIface{opaque: &oOpaque{name: "scanner", methods: []string{"Scan", "Object", "Err", "Close"}}}}
			}})
		case t.String() == "context.Context":
			args = append(args, oIface{opaque: &oOpaque{name: "context"}})
		case types.Identical(t, keepFuncType(keep, m)):
			args = append(args, keep)
		default:
			if b, ok := t.Underlying().(*types.Basic); ok && b.Kind() == types.Bool {
				args = append(args, oBool(true))
				continue
			}
			if it, ok := t.Underlying().(*types.Interface); ok {
				seek := false
				for k := 0; k < it.NumMethods(); k++ {
					seek = seek || it.Method(k).Name() == "Seek"
				}
				if seek {
					args = append(args, oIface{opaque: &oOpaque{name: "file", methods: []string{"Read", "Seek"}}})
					continue
				}
			}
			return nil, "parameter " + sig.Params().At(i).Name() + " of " + ext.Name() + " has type " + t.String() + ", which the document model does not provide"
		}
	}
	return args, ""
}

// keepFuncType: the package's keep-function type (the result type of KeepTags).
func keepFuncType(_ oval, m *c18m) types.Type {
	if f := m.c.P.Func("encoding/osm", "KeepTags"); f != nil {
		return f.Type().(*types.Signature).Results().At(0).Type()
	}
	return types.Typ[types.Invalid]
}

// constVal: a typed constant of a package outside the repository as a model value.
func (it *oInterp) constVal(v constant.Value, t types.Type) oval {
	switch v.Kind() {
	case constant.String:
		return strVal(t, constant.StringVal(v))
	case constant.Int:
		if i, ok := constant.Int64Val(v); ok {
			return oInt(i)
		}
	case constant.Bool:
		return oBool(constant.BoolVal(v))
	}
	return oTop{"constant " + v.String()}
}

func (it *oInterp) sliceOfVals(t types.Type, elems []oval) oSlice {
	arr := append([]oval{}, elems...)
	return oSlice{typ: t, arr: &arr, lo: 0, hi: len(arr), capEnd: len(arr)}
}

// perObject finds the function the workers call for one kind of element: by its name, else a
// method of Data whose first parameter is a pointer to that element type of the element library
// and which takes a keep function.
func (m *c18m) perObject(name string, elem types.Type) *types.Func {
	c := m.c
	if f := c.P.Method("encoding/osm", "Data", name); f != nil && c.P.Decl(f) != nil {
		return f
	}
	if elem == nil {
		return nil
	}
	for _, f := range c.P.RepoFuncs() {
		sig := f.Type().(*types.Signature)
		if sig.Recv() == nil || named(sig.Recv().Type()) != m.dataT || sig.Params().Len() < 2 || c.P.Decl(f) == nil {
			continue
		}
		pt, ok := sig.Params().At(0).Type().(*types.Pointer)
		if !ok || !types.Identical(pt.Elem(), elem) {
			continue
		}
		for i := 1; i < sig.Params().Len(); i++ {
			if isNamed(sig.Params().At(i).Type(), "github.com/ctessum/geom/encoding/osm", "KeepFunc") {
				return f
			}
		}
	}
	return nil
}

func res0(res []oval) oval {
	if len(res) > 0 {
		return res[0]
	}
	return oNil{}
}
