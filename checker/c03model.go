package main

// Model evaluation of the measures (C03.R1–R3).
//
// Area, Centroid, Length and Distance — in package geom and in package op — are interpreted on
// polygons and line strings whose coordinates are pairwise distinct symbols.  The interpreter's
// symbolic arithmetic (ordersym.go) returns each measure as a normal-form polynomial, or a
// rational function, or a sum of square roots of polynomials, in those symbols.  Branches that
// compare computed values (is this ring inside that one? which segment is nearest?) follow a
// reference valuation in which the symbols are the coordinates of a concrete valid figure —
// a quadrilateral shell with two quadrilateral holes, every coordinate different — so each
// result is the measure's formula on the region of inputs that take the same branches.
//
// Each result is compared, as a polynomial identity, with the specification written over the
// same symbols: shoelace area of shells minus holes, area-weighted centroid, sum of segment
// lengths, least point-to-segment distance.  Winding reversal (each ring separately), rotation
// of the start vertex and repeating or omitting the closing vertex are applied to the inputs;
// the specification does not change, so neither may the result.

import (
	"fmt"
	"go/token"
	"go/types"
	"math/big"
)

type symPt struct{ x, y int64 } // rank symbols; under the valuation also the coordinates

func (p symPt) X() poly { return polyVar(rankVar(p.x)) }
func (p symPt) Y() poly { return polyVar(rankVar(p.y)) }

// shoelace: signed area of the cyclic ring.
func specSigned(r []symPt) poly {
	s := poly{}
	n := len(r)
	for i := 0; i < n; i++ {
		a, b := r[i], r[(i+1)%n]
		s = s.add(symMul(a.X().add(b.X(), 1), b.Y().add(a.Y(), -1)), 1)
	}
	return s.scale(big.NewRat(1, 2))
}

// centroid numerators Σ (x_i + x_{i+1})·cross_i and Σ (y_i + y_{i+1})·cross_i over the cycle.
func specCentroidNum(r []symPt) (poly, poly) {
	nx, ny := poly{}, poly{}
	n := len(r)
	for i := 0; i < n; i++ {
		a, b := r[i], r[(i+1)%n]
		cross := symMul(a.X(), b.Y()).add(symMul(b.X(), a.Y()), -1)
		nx = nx.add(symMul(a.X().add(b.X(), 1), cross), 1)
		ny = ny.add(symMul(a.Y().add(b.Y(), 1), cross), 1)
	}
	return nx, ny
}

func specAbs(p poly, val map[string]float64) poly {
	if v, ok := symEval(p, val); ok && v < 0 {
		return p.scale(big.NewRat(-1, 1))
	}
	return p
}

type c03ring struct {
	pts  []symPt
	hole bool
}

func reverseRing(r []symPt) []symPt {
	out := make([]symPt, len(r))
	for i := range r {
		out[len(r)-1-i] = r[i]
	}
	return out
}

func rotateRing(r []symPt, k int) []symPt {
	out := make([]symPt, 0, len(r))
	for i := range r {
		out = append(out, r[(i+k)%len(r)])
	}
	return out
}

func c03model(c *Ctx) {
	m := newClipModel(c)
	if m.ptT == nil || m.polyT == nil || m.mpolyT == nil || m.lsT == nil || m.mlsT == nil {
		c.Unk("C03.R1", "geom#model", token.NoPos, "geometry types do not resolve")
		return
	}
	it := m.it
	it.symbolic = true
	it.maxDepth = 48
	it.maxLoop = 256
	val := map[string]float64{"__ranks": 1}
	it.valuation = val
	ringT := m.polyT.Underlying().(*types.Slice).Elem()

	mkRing := func(t types.Type, r []symPt, closed bool) oSlice {
		var vals []oval
		for _, p := range r {
			vals = append(vals, it.point(m.ptT, p.x, p.y))
		}
		if closed && len(r) > 0 {
			vals = append(vals, it.point(m.ptT, r[0].x, r[0].y))
		}
		return m.sliceOf(t, vals)
	}
	mkPoly := func(rings []c03ring, closed bool) oSlice {
		var rs []oval
		for _, r := range rings {
			rs = append(rs, mkRing(ringT, r.pts, closed))
		}
		return m.sliceOf(m.polyT, rs)
	}
	// the reference figure: a shell with two holes, and a second shell with one hole, every
	// coordinate distinct
	shell := []symPt{{0, 3}, {61, 1}, {64, 66}, {2, 62}}
	hole1 := []symPt{{10, 11}, {22, 13}, {24, 27}, {12, 25}}
	hole2 := []symPt{{40, 41}, {52, 43}, {54, 57}, {42, 55}}
	shellB := []symPt{{100, 103}, {161, 101}, {164, 166}, {102, 162}}
	holeB := []symPt{{110, 111}, {122, 113}, {124, 127}, {112, 125}}
	tri := []symPt{{200, 203}, {231, 201}, {216, 238}}
	pent := []symPt{{300, 305}, {330, 301}, {344, 326}, {322, 348}, {302, 332}}

	type facetT struct{ bad, unk string }
	facets := map[string]*facetT{}
	var order []string
	get := func(k string) *facetT {
		if facets[k] == nil {
			facets[k] = &facetT{}
			order = append(order, k)
		}
		return facets[k]
	}
	call := func(key string, f *types.Func, recv oval, args ...oval) ([]oval, bool) {
		get(key)
		c.Evals(1)
		res, why := it.Call(f, recv, args, 0)
		if why != "" {
			if facets[key].unk == "" {
				facets[key].unk = "not interpretable: " + why
			}
			return nil, false
		}
		return res, true
	}
	bad := func(key, format string, a ...interface{}) {
		if f := get(key); f.bad == "" {
			f.bad = fmt.Sprintf(format, a...)
		}
	}
	symRes := func(key string, v oval) (poly, bool) {
		p, ok := symOf(v)
		if !ok {
			if f := get(key); f.unk == "" {
				f.unk = "the result is " + showVal(v)
			}
		}
		return p, ok
	}
	method := func(t types.Type, name string) *types.Func {
		obj, _, _ := types.LookupFieldOrMethod(t, true, c.P.Pkg("geom").Types, name)
		f, _ := obj.(*types.Func)
		if f == nil || c.P.Decl(f) == nil {
			return nil
		}
		return f
	}
	describe := func(rings []c03ring, mask int, rot int, closed bool) string {
		s := ""
		for i := range rings {
			if mask&(1<<i) != 0 {
				s += fmt.Sprintf("ring %d reversed, ", i)
			}
		}
		if rot != 0 {
			s += fmt.Sprintf("rings started at vertex %d, ", rot)
		}
		if closed {
			return s + "closing vertex repeated"
		}
		return s + "closing vertex omitted"
	}
	// every spelling of a ring set
	type spelling struct {
		rings  []c03ring
		closed bool
		what   string
	}
	spell := func(rings []c03ring, masks []int, rots []int, closings []bool) []spelling {
		var out []spelling
		for _, mask := range masks {
			for _, rot := range rots {
				for _, closed := range closings {
					var rs []c03ring
					for i, r := range rings {
						pts := rotateRing(r.pts, rot%len(r.pts))
						if mask&(1<<i) != 0 {
							pts = reverseRing(pts)
						}
						rs = append(rs, c03ring{pts, r.hole})
					}
					out = append(out, spelling{rs, closed, describe(rings, mask, rot, closed)})
				}
			}
		}
		return out
	}
	allMasks := func(n int) []int {
		var out []int
		for mk := 0; mk < 1<<n; mk++ {
			out = append(out, mk)
		}
		return out
	}
	specArea := func(rings []c03ring) poly {
		a := poly{}
		for _, r := range rings {
			s := specAbs(specSigned(r.pts), val)
			if r.hole {
				a = a.add(s, -1)
			} else {
				a = a.add(s, 1)
			}
		}
		return a
	}
	figures := []struct {
		name  string
		rings []c03ring
	}{
		{"triangle", []c03ring{{tri, false}}},
		{"pentagon", []c03ring{{pent, false}}},
		{"shell+hole", []c03ring{{shell, false}, {hole1, true}}},
		{"shell+2holes", []c03ring{{shell, false}, {hole1, true}, {hole2, true}}},
		// the rings of a polygon are a set: the shell need not come first
		{"2holes+shell", []c03ring{{hole1, true}, {hole2, true}, {shell, false}}},
		{"hole+shell+hole", []c03ring{{hole2, true}, {shell, false}, {hole1, true}}},
	}

	// ---------------------------------------------------------------- Polygon.Area (geom)
	if f := method(m.polyT, "Area"); f == nil {
		c.Unk("C03.R1", "geom.(Polygon).Area", token.NoPos, "API anchor does not resolve")
	} else {
		for _, fig := range figures {
			key := "geom.(Polygon).Area#" + fig.name
			want := specArea(fig.rings)
			rots := []int{0, 1}
			if c.Thorough {
				rots = []int{0, 1, 2}
			}
			for _, sp := range spell(fig.rings, allMasks(len(fig.rings)), rots, []bool{false, true}) {
				res, ok := call(key, f, mkPoly(sp.rings, sp.closed))
				if !ok {
					break
				}
				got, ok := symRes(key, res[0])
				if !ok {
					break
				}
				if !symRationalEqual(got, want) {
					bad(key, "with %s the area is %s, want shells minus holes = %s", sp.what, showVal(res[0]), want.canon())
					break
				}
			}
		}
	}
	// ---------------------------------------------------------------- MultiPolygon.Area
	multi := [][]c03ring{{{shell, false}, {hole1, true}}, {{shellB, false}, {holeB, true}}}
	mkMulti := func(ps [][]c03ring, closed bool) oSlice {
		var vals []oval
		for _, p := range ps {
			vals = append(vals, mkPoly(p, closed))
		}
		return m.sliceOf(m.mpolyT, vals)
	}
	flat := append(append([]c03ring{}, multi[0]...), multi[1]...)
	unflat := func(rs []c03ring) [][]c03ring { return [][]c03ring{rs[:2], rs[2:]} }
	if f := method(m.mpolyT, "Area"); f == nil {
		c.Unk("C03.R3", "geom.(MultiPolygon).Area", token.NoPos, "API anchor does not resolve")
	} else {
		key := "geom.(MultiPolygon).Area#two-members"
		want := specArea(flat)
		for _, sp := range spell(flat, allMasks(4), []int{0, 1}, []bool{false, true}) {
			res, ok := call(key, f, mkMulti(unflat(sp.rings), sp.closed))
			if !ok {
				break
			}
			got, ok := symRes(key, res[0])
			if !ok {
				break
			}
			if !symRationalEqual(got, want) {
				bad(key, "with %s the area is %s, want the sum over both members = %s", sp.what, showVal(res[0]), want.canon())
				break
			}
		}
	}
	// ---------------------------------------------------------------- centroids
	centroidSpec := func(rings []c03ring, weights func(r c03ring) poly) (poly, poly, bool) {
		// Σ w_r·c_r / Σ w_r with c_r = N_r / (6·S_r)
		A, xA, yA := poly{}, poly{}, poly{}
		for _, r := range rings {
			s := specSigned(r.pts)
			nx, ny := specCentroidNum(r.pts)
			inv, ok := symInv(s.scale(big.NewRat(6, 1)))
			if !ok {
				return nil, nil, false
			}
			w := weights(r)
			A = A.add(w, 1)
			xA = xA.add(symMul(symMul(nx, inv), w), 1)
			yA = yA.add(symMul(symMul(ny, inv), w), 1)
		}
		invA, ok := symInv(A)
		if !ok {
			return nil, nil, false
		}
		return symMul(xA, invA), symMul(yA, invA), true
	}
	pointOf := func(key string, v oval) (poly, poly, bool) {
		st, ok := v.(*oStruct)
		if !ok || st == nil {
			if f := get(key); f.unk == "" {
				f.unk = "the result is " + showVal(v)
			}
			return nil, nil, false
		}
		x, ok1 := symRes(key, st.fields["X"])
		y, ok2 := symRes(key, st.fields["Y"])
		return x, y, ok1 && ok2
	}
	absWeight := func(r c03ring) poly {
		w := specAbs(specSigned(r.pts), val)
		if r.hole {
			return w.scale(big.NewRat(-1, 1))
		}
		return w
	}
	// Polygon.Centroid (geom) and op.Centroid: closed rings, holes wound against their shell; all
	// rings may be reversed together and started anywhere
	alternating := func(rings []c03ring) []c03ring {
		var out []c03ring
		for _, r := range rings {
			if r.hole {
				out = append(out, c03ring{reverseRing(r.pts), true})
			} else {
				out = append(out, r)
			}
		}
		return out
	}
	signedWeight := func(base []c03ring) func(r c03ring) poly {
		return func(r c03ring) poly { return specSigned(r.pts) }
	}
	opCentroid := c.P.Func("op", "Centroid")
	for _, target := range []struct {
		name string
		f    *types.Func
		op   bool
	}{{"geom.(Polygon).Centroid", method(m.polyT, "Centroid"), false}, {"op.Centroid", opCentroid, true}} {
		if target.f == nil || c.P.Decl(target.f) == nil {
			c.Unk("C03.R2", target.name, token.NoPos, "API anchor does not resolve")
			continue
		}
		for _, fig := range figures {
			key := target.name + "#" + fig.name
			base := alternating(fig.rings)
			all := (1 << len(base)) - 1
			for _, sp := range spell(base, []int{0, all}, []int{0, 1, 2}, []bool{true}) {
				wx, wy, ok := centroidSpec(sp.rings, signedWeight(sp.rings))
				if !ok {
					get(key).unk = "specification not expressible"
					break
				}
				var res []oval
				if target.op {
					res, ok = call(key, target.f, nil, oIface{dyn: mkPoly(sp.rings, true)})
				} else {
					res, ok = call(key, target.f, mkPoly(sp.rings, true))
				}
				if !ok {
					break
				}
				gx, gy, ok := pointOf(key, res[0])
				if !ok {
					break
				}
				if !symRationalEqual(gx, wx) || !symRationalEqual(gy, wy) {
					bad(key, "with %s the centroid is not the area-weighted mean of the ring centroids (X = %.160s…)", sp.what, showVal(res[0].(*oStruct).fields["X"]))
					break
				}
			}
		}
	}
	// MultiPolygon.Centroid: any single ring may be reversed
	if f := method(m.mpolyT, "Centroid"); f == nil {
		c.Unk("C03.R2", "geom.(MultiPolygon).Centroid", token.NoPos, "API anchor does not resolve")
	} else {
		// a single member with a hole
		{
			key := "geom.(MultiPolygon).Centroid#one-member"
			one := []c03ring{{shell, false}, {hole1, true}}
			wx, wy, ok := centroidSpec(one, absWeight)
			if !ok {
				get(key).unk = "specification not expressible"
			} else {
				for _, sp := range spell(one, allMasks(2), []int{0, 1}, []bool{true}) {
					res, ok := call(key, f, mkMulti([][]c03ring{sp.rings}, true))
					if !ok {
						break
					}
					gx, gy, ok := pointOf(key, res[0])
					if !ok {
						break
					}
					if !symRationalEqual(gx, wx) || !symRationalEqual(gy, wy) {
						bad(key, "with %s the centroid of a one-member multi-polygon is not the area-weighted mean of the ring centroids, the hole counted negative (X = %.160s…)", sp.what, showVal(res[0].(*oStruct).fields["X"]))
						break
					}
				}
			}
		}
		key := "geom.(MultiPolygon).Centroid#two-members"
		wx, wy, ok := centroidSpec(flat, absWeight)
		if !ok {
			get(key).unk = "specification not expressible"
		} else {
			for _, sp := range spell(flat, allMasks(4), []int{0, 1}, []bool{true}) {
				res, ok := call(key, f, mkMulti(unflat(sp.rings), true))
				if !ok {
					break
				}
				gx, gy, ok := pointOf(key, res[0])
				if !ok {
					break
				}
				if !symRationalEqual(gx, wx) || !symRationalEqual(gy, wy) {
					bad(key, "with %s the centroid is not the area-weighted mean of the ring centroids, holes counted negative (X = %.160s…)", sp.what, showVal(res[0].(*oStruct).fields["X"]))
					break
				}
			}
		}
	}
	// ---------------------------------------------------------------- op.Area
	if f := c.P.Func("op", "Area"); f == nil || c.P.Decl(f) == nil {
		c.Unk("C03.R1", "op.Area", token.NoPos, "API anchor does not resolve")
	} else {
		for _, fig := range figures {
			key := "op.Area#" + fig.name
			base := alternating(fig.rings)
			want := specArea(fig.rings)
			all := (1 << len(base)) - 1
			for _, sp := range spell(base, []int{0, all}, []int{0, 1}, []bool{false, true}) {
				res, ok := call(key, f, nil, oIface{dyn: mkPoly(sp.rings, sp.closed)})
				if !ok {
					break
				}
				got, ok := symRes(key, res[0])
				if !ok {
					break
				}
				if !symRationalEqual(got, want) {
					bad(key, "with %s (holes wound against their shell) the area is %s, want %s", sp.what, showVal(res[0]), want.canon())
					break
				}
			}
		}
		key := "op.Area#multipolygon"
		want := specArea(flat)
		base := alternating(flat)
		// members may be wound either way independently (all rings of a member together)
		for _, sp := range spell(base, []int{0, 15, 3, 12}, []int{0, 1}, []bool{false, true}) {
			res, ok := call(key, f, nil, oIface{dyn: mkMulti(unflat(sp.rings), sp.closed)})
			if !ok {
				break
			}
			got, ok := symRes(key, res[0])
			if !ok {
				break
			}
			if !symRationalEqual(got, want) {
				bad(key, "with %s the combined area is %s, want %s", sp.what, showVal(res[0]), want.canon())
				break
			}
		}
	}
	// ---------------------------------------------------------------- lengths
	lineA := []symPt{{400, 405}, {430, 401}, {444, 426}, {422, 448}}
	lineB := []symPt{{500, 505}, {530, 501}, {544, 526}}
	lineC := []symPt{{600, 605}, {630, 601}}
	specLen := func(l []symPt) poly {
		s := poly{}
		for i := 0; i+1 < len(l); i++ {
			dx := l[i+1].X().add(l[i].X(), -1)
			dy := l[i+1].Y().add(l[i].Y(), -1)
			s = s.add(symSqrt(symMul(dx, dx).add(symMul(dy, dy), 1)), 1)
		}
		return s
	}
	mkLine := func(l []symPt) oSlice { return mkRing(m.lsT, l, false) }
	mkLines := func(ls ...[]symPt) oSlice {
		var vals []oval
		for _, l := range ls {
			vals = append(vals, mkLine(l))
		}
		return m.sliceOf(m.mlsT, vals)
	}
	checkLen := func(key string, f *types.Func, recv oval, args []oval, want poly, what string) {
		res, ok := call(key, f, recv, args...)
		if !ok {
			return
		}
		got, ok := symRes(key, res[0])
		if ok && !got.equal(want) {
			bad(key, "the length of %s is %s, want the sum of its segment lengths %s", what, showVal(res[0]), want.canon())
		}
	}
	if f := method(m.lsT, "Length"); f != nil {
		for i, l := range [][]symPt{lineA, lineB, lineC, lineA[:1], nil} {
			checkLen("geom.(LineString).Length#l", f, mkLine(l), nil, specLen(l), fmt.Sprintf("line %d (%d vertices)", i, len(l)))
		}
	} else {
		c.Unk("C03.R1", "geom.(LineString).Length", token.NoPos, "API anchor does not resolve")
	}
	sum3 := specLen(lineA).add(specLen(lineB), 1).add(specLen(lineC), 1)
	if f := method(m.mlsT, "Length"); f != nil {
		checkLen("geom.(MultiLineString).Length", f, mkLines(lineA, lineB, lineC), nil, sum3, "three lines")
		checkLen("geom.(MultiLineString).Length", f, mkLines(lineC), nil, specLen(lineC), "one line")
	} else {
		c.Unk("C03.R3", "geom.(MultiLineString).Length", token.NoPos, "API anchor does not resolve")
	}
	if f := c.P.Func("op", "Length"); f != nil && c.P.Decl(f) != nil {
		checkLen("op.Length#linestring", f, nil, []oval{oIface{dyn: mkLine(lineA)}}, specLen(lineA), "a line of four vertices")
		checkLen("op.Length#multilinestring", f, nil, []oval{oIface{dyn: mkLines(lineA, lineB, lineC)}}, sum3, "three lines")
	}
	// ---------------------------------------------------------------- distances
	// the specification: the least squared point-to-segment distance (segSpec2), as a term
	queries := []symPt{{410, 470}, {460, 410}, {390, 395}, {436, 420}}
	specDist := func(q symPt, lines ...[]symPt) []poly {
		var best []poly
		bestV := 0.0
		for _, l := range lines {
			for i := 0; i+1 < len(l); i++ {
				ps, v := segSpec2(segCase{"", q, l[i], l[i+1]})
				if best == nil || v < bestV {
					best, bestV = ps, v
				}
			}
		}
		return best
	}
	checkDist := func(key string, f *types.Func, recv oval, lines ...[]symPt) {
		for _, q := range queries {
			wants := specDist(q, lines...)
			res, ok := call(key, f, recv, it.point(m.ptT, q.x, q.y))
			if !ok {
				return
			}
			got, ok := symRes(key, res[0])
			if !ok {
				return
			}
			matches := false
			for _, w := range wants {
				if symRationalEqual(symMul(got, got), w) {
					matches = true
				}
			}
			if !matches {
				bad(key, "the distance from the query point (%d, %d) is %s, want the least point-to-segment distance over all segments, the root of %s", q.x, q.y, showVal(res[0]), short(wants[0].canon()))
				return
			}
		}
	}
	if f := method(m.lsT, "Distance"); f != nil {
		checkDist("geom.(LineString).Distance#l", f, mkLine(lineA), lineA)
		checkDist("geom.(LineString).Distance#l", f, mkLine(lineC), lineC)
	} else {
		c.Unk("C03.R1", "geom.(LineString).Distance", token.NoPos, "API anchor does not resolve")
	}
	if f := method(m.mlsT, "Distance"); f != nil {
		shifted := []symPt{{404, 461}, {433, 468}, {462, 440}}
		checkDist("geom.(MultiLineString).Distance", f, mkLines(lineA, shifted), lineA, shifted)
		checkDist("geom.(MultiLineString).Distance", f, mkLines(shifted, lineA), shifted, lineA)
	} else {
		c.Unk("C03.R3", "geom.(MultiLineString).Distance", token.NoPos, "API anchor does not resolve")
	}

	// ---------------------------------------------------------------- obligations
	ruleOf := func(k string) string {
		switch {
		case len(k) > 24 && k[:24] == "geom.(MultiPolygon).Area", len(k) >= 29 && k[:29] == "geom.(MultiLineString).Length", len(k) >= 31 && k[:31] == "geom.(MultiLineString).Distance",
			k == "op.Area#multipolygon", k == "op.Length#multilinestring":
			return "C03.R3"
		case containsStr(k, "Centroid"):
			return "C03.R2"
		}
		return "C03.R1"
	}
	for _, k := range order {
		f := facets[k]
		rule := ruleOf(k)
		switch {
		case f.bad != "":
			c.Bad(rule, k, token.NoPos, "%s", f.bad)
		case f.unk != "":
			c.Unk(rule, k, token.NoPos, "%s", f.unk)
		default:
			c.OK(rule, k, token.NoPos, "equal to the specification as a polynomial identity in the vertex coordinates, for every spelling tried")
		}
	}
}
