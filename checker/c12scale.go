package main

// C12.R4 — distances are compared like with like, observed as scale invariance.  A squared
// distance compared with a linear one orders two quantities differently below and above 1, so an
// implementation that mixes them answers a query differently when every coordinate is multiplied
// by the same factor.  A tree is built through the package's own NewTree / Insert from a dozen
// point-like boxes with symbolic coordinates; NearestNeighbor and NearestNeighbors are then
// interpreted for several query points with the coordinates valued on a grid of spacing 1/64, 1
// and 64, the package's own MINDIST / MINMAXDIST arithmetic deciding every comparison.  At every
// scale the object returned must be the one a linear scan finds nearest (for k neighbours: the k
// nearest, in order).

import (
	"fmt"
	"go/token"
	"go/types"
	"math"
	"sort"
	"strings"
)

func c12scales(c *Ctx, rule string) {
	newTree := c.P.Func("index/rtree", "NewTree")
	ins := c.P.Method("index/rtree", "Rtree", "Insert")
	nn := c.P.Method("index/rtree", "Rtree", "NearestNeighbor")
	knn := c.P.Method("index/rtree", "Rtree", "NearestNeighbors")
	geomI := c.P.NamedType("geom", "Geom")
	for _, f := range []*types.Func{newTree, ins, nn, knn} {
		if f == nil || c.P.Decl(f) == nil {
			c.Unk(rule, "index/rtree#scales", token.NoPos, "NewTree, Insert, NearestNeighbor or NearestNeighbors do not resolve")
			return
		}
	}
	pos := c.P.Decl(nn).Pos()
	// positions (grid units): irregular, all pairwise distances to the queries distinct
	pts := [][2]int64{{3, 4}, {19, 7}, {8, 23}, {31, 2}, {14, 15}, {27, 26}, {5, 33}, {36, 17}, {22, 38}, {40, 35}, {11, 9}, {33, 11}, {17, 29}}
	var queries [][2]int64
	step := int64(8)
	scales := []float64{1.0 / 64, 1, 64}
	branchings := [][2]int64{{2, 4}}
	if c.Thorough {
		// a denser grid of query points, more scales, a second branching and twice the objects
		step = 4
		scales = []float64{1.0 / 1024, 1.0 / 64, 0.25, 1, 4, 64, 1024}
		branchings = [][2]int64{{2, 4}, {3, 6}}
		for i := int64(0); i < 13; i++ {
			pts = append(pts, [2]int64{(7*i*i + 3*i + 2) % 43, (11*i*i + 5*i + 6) % 41})
		}
	}
	for x := int64(1); x <= 41; x += step {
		for y := int64(2); y <= 42; y += step {
			queries = append(queries, [2]int64{x, y + x%3})
		}
	}
	// queries equidistant from two objects have no single right answer: leave them out
	{
		var kept [][2]int64
		for _, q := range queries {
			seen := map[int64]bool{}
			tie := false
			for _, p := range pts {
				d := (p[0]-q[0])*(p[0]-q[0]) + (p[1]-q[1])*(p[1]-q[1])
				if seen[d] {
					tie = true
				}
				seen[d] = true
			}
			if !tie {
				kept = append(kept, q)
			}
		}
		queries = kept
	}
	bad, unk := "", ""
	runs := 0
	type cfg struct {
		scale float64
		br    [2]int64
	}
	var cfgs []cfg
	for _, br := range branchings {
		for _, sc := range scales {
			cfgs = append(cfgs, cfg{sc, br})
		}
	}
	for _, cf := range cfgs {
		scale := cf.scale
		if bad != "" || unk != "" {
			break
		}
		symResetEval()
		cm := newClipModel(c)
		it := cm.it
		it.symbolic = true
		it.maxDepth = 48
		it.maxLoop = 4096
		it.valuation = map[string]float64{"__ranks": scale}
		it.stub = func(f *types.Func, recv oval, args []oval) ([]oval, bool) {
			if f.Pkg() != nil && f.Pkg().Path() == "sort" && c.P.Decl(f) == nil && (f.Name() == "Sort" || f.Name() == "Stable") && len(args) == 1 {
				if why := hostSort(it, args[0]); why != "" {
					return nil, false
				}
				return nil, true
			}
			return nil, false
		}
		res, why := it.Call(newTree, nil, []oval{oInt(cf.br[0]), oInt(cf.br[1])}, 0)
		if why != "" {
			unk = "NewTree is not interpretable: " + why
			break
		}
		tree, ok := res[0].(oPtr)
		if !ok || tree.s == nil {
			unk = "NewTree returns " + showVal(res[0])
			break
		}
		var objs []*oStruct
		for _, p := range pts {
			o := it.bounds(cm.bt, cm.ptT, p[0], p[1], p[0], p[1])
			objs = append(objs, o)
			runs++
			if _, why := it.Call(ins, tree, []oval{oIface{dyn: oPtr{o}, styp: geomI}}, 0); why != "" {
				unk = "Insert is not interpretable: " + why
				break
			}
		}
		if unk != "" {
			break
		}
		which := func(v oval) int {
			if iv, ok := v.(oIface); ok {
				v = iv.dyn
			}
			if pp, ok := v.(oPtr); ok {
				for i, o := range objs {
					if o == pp.s {
						return i
					}
				}
			}
			return -1
		}
		for _, q := range queries {
			// the linear scan
			order := make([]int, len(pts))
			for i := range order {
				order[i] = i
			}
			dist := func(i int) float64 {
				return math.Hypot(float64(pts[i][0]-q[0]), float64(pts[i][1]-q[1]))
			}
			sort.Slice(order, func(a, b int) bool { return dist(order[a]) < dist(order[b]) })
			qv := it.point(cm.ptT, q[0], q[1])
			at := fmt.Sprintf("branching (%d,%d), grid spacing %g, query (%d, %d)", cf.br[0], cf.br[1], scale, q[0], q[1])
			runs++
			r, why := it.Call(nn, tree, []oval{qv}, 0)
			if why != "" {
				if strings.HasPrefix(why, "panic:") {
					bad = at + ": NearestNeighbor panics: " + why
				} else {
					unk = at + ": NearestNeighbor is not interpretable: " + why
				}
				break
			}
			if got := which(r[0]); got != order[0] {
				bad = fmt.Sprintf("%s: NearestNeighbor returns object %d at distance %.4g grid units; object %d at %.4g is nearer (the answer must not depend on the unit of length: a squared distance compared with a linear one does)", at, got, distOr(got, dist), order[0], dist(order[0]))
				break
			}
			const k = 4
			runs++
			r, why = it.Call(knn, tree, []oval{oInt(k), qv}, 0)
			if why != "" {
				if strings.HasPrefix(why, "panic:") {
					bad = at + ": NearestNeighbors panics: " + why
				} else {
					unk = at + ": NearestNeighbors is not interpretable: " + why
				}
				break
			}
			sl, ok := r[0].(oSlice)
			if !ok || sl.length() != k {
				bad = fmt.Sprintf("%s: NearestNeighbors(%d) returns %s", at, k, showVal(r[0]))
				break
			}
			for i := 0; i < k; i++ {
				if got := which(sl.at(i)); got != order[i] {
					bad = fmt.Sprintf("%s: neighbour %d of NearestNeighbors(%d) is object %d at distance %.4g grid units, the linear scan has object %d at %.4g there", at, i+1, k, got, distOr(got, dist), order[i], dist(order[i]))
					break
				}
			}
			if bad != "" {
				break
			}
		}
	}
	c.Evals(runs)
	report3(c, rule, "index/rtree#nearest(scale-invariant)", pos, bad, unk, fmt.Sprintf("on trees of %d objects built through Insert (%d branching parameters), NearestNeighbor and NearestNeighbors(4) agree with the linear scan for %d query points at %d grid spacings from %g to %g", len(pts), len(branchings), len(queries), len(scales), scales[0], scales[len(scales)-1]))
}

func distOr(i int, d func(int) float64) float64 {
	if i < 0 {
		return math.NaN()
	}
	return d(i)
}
