package main

// E2: abstract interpretation over the order domain.
//
// For functions whose result depends on their float inputs only through
// comparisons, math.Min/Max, field copies and boolean connectives, the
// behaviour on all non-NaN floats is determined by the weak ordering of the
// input terms.  The interpreter below evaluates the function's syntax tree on
// abstract values (ranks), for every weak ordering; any construct outside the
// fragment (arithmetic on floats, unknown calls, loops) yields ⊤ (oTop), and a
// ⊤ reaching a branch makes the whole case ⊤.  No code of /repo is executed:
// the "run" is the analyser's own transfer functions over the AST.

import (
	"fmt"
	"go/ast"
	"go/constant"
	"go/token"
	"go/types"
	"math"
	"math/big"
	"os"
	"sort"
	"strings"
)

type oval interface{}

type oFloat struct{ r int64 } // rank; ±oInf are the infinities
type oBool bool
type oInt int64
type oNil struct{}
type oTop struct{ why string }

// abortedTop is the result of a repository function whose interpretation stopped part-way: besides
// the unknown value, the callee's effects on shared state are unknown, so a caller that discards
// the result must not carry on as if the callee had run (see the ExprStmt and `_ =` cases).
func abortedTop(why string) oTop {
	if !strings.HasPrefix(why, abortMark) {
		why = abortMark + why
	}
	return oTop{why}
}

const abortMark = "↯ "

func poisons(why string) bool { return strings.HasPrefix(why, abortMark) }

// effectFree: library calls whose effects cannot matter to a model (printing, logging, locking in
// a sequential interpretation, scheduler hints).
func effectFree(why string) bool {
	for _, p := range []string{"call to fmt.Print", "call to fmt.Fprint", "call to log.", "call to (*log.Logger).", "call to (*sync.Mutex).", "call to (*sync.RWMutex).", "call to runtime.", "call to (*sync.WaitGroup)."} {
		if strings.HasPrefix(why, p) {
			return true
		}
	}
	return false
}

type oStruct struct {
	typ    types.Type
	fields map[string]oval
	order  []string
}
type oPtr struct{ s *oStruct }

// oIface: an interface value whose dynamic value is either a known value
// (e.g. *Bounds) or an opaque object with a known bounding box.
type oIface struct {
	dyn    oval // oPtr / nil
	opaque *oOpaque
	styp   types.Type // static type of the value when it was converted at a call site (may be nil)
}
type oOpaque struct {
	name           string
	bounds         *oStruct // what Bounds() returns
	isError        bool     // an error value (implements the error interface)
	isRuntimeError bool     // a run-time panic value (also implements runtime.Error)
	methods        []string // methods a modelled object provides (calls go to the interpreter's stub)
}
type oFunc struct {
	lit  *ast.FuncLit
	env  *oEnv
	info *types.Info
}

const oInf = int64(1) << 40

func isTop(v oval) bool { _, ok := v.(oTop); return ok }

func (s *oStruct) clone() *oStruct {
	if s == nil {
		return nil
	}
	c := &oStruct{typ: s.typ, fields: map[string]oval{}, order: s.order}
	for k, v := range s.fields {
		if sv, ok := v.(*oStruct); ok {
			c.fields[k] = sv.clone()
		} else {
			c.fields[k] = v
		}
	}
	return c
}

func showVal(v oval) string {
	switch x := v.(type) {
	case oFloat:
		if x.r >= oInf {
			return "+Inf"
		}
		if x.r <= -oInf {
			return "-Inf"
		}
		return fmt.Sprintf("r%d", x.r)
	case *oStruct:
		if x == nil {
			return "nil"
		}
		var parts []string
		for _, k := range x.order {
			parts = append(parts, k+":"+showVal(x.fields[k]))
		}
		return "{" + strings.Join(parts, " ") + "}"
	case oPtr:
		if x.s == nil {
			return "nil"
		}
		return "&" + showVal(x.s)
	case oIface:
		if x.opaque != nil {
			return "<" + x.opaque.name + ">"
		}
		return showVal(x.dyn)
	case oTop:
		return "⊤(" + x.why + ")"
	case oSlice:
		return showSlice(x)
	case oHost:
		return "<" + x.kind + " " + x.key + ">"
	case oSym:
		return "⟨" + x.p.canon() + "⟩"
	}
	return fmt.Sprint(v)
}

type oEnv struct {
	vars   map[types.Object]*oval
	parent *oEnv
}

func (e *oEnv) lookup(o types.Object) *oval {
	for x := e; x != nil; x = x.parent {
		if c, ok := x.vars[o]; ok {
			return c
		}
	}
	return nil
}
func (e *oEnv) set(o types.Object, v oval) {
	if c := e.lookup(o); c != nil {
		*c = v
		return
	}
	e.vars[o] = &v
}
func (e *oEnv) define(o types.Object, v oval) { e.vars[o] = &v }

type oInterp struct {
	signArith  bool             // set: differences and products of ordinates are followed by sign (floatclass.go)
	floatClass *floatClass      // set: ordinates lie in one region of the float64 line (floatclass.go)
	mutexState map[*oStruct]int // sync.Mutex / RWMutex values: -1 held exclusively, n > 0 shared by n
	libPanic   string           // set by a library model that found the call fatal; raised by the caller
	p          *Prog
	maxDepth   int
	// mapReverse makes `range` over a map visit the entries in the reverse of insertion order: a
	// driver that runs a scenario under both orders and compares the outcomes decides whether the
	// code depends on Go's unspecified map iteration order; mapRanges counts such loops (≥2 entries)
	mapReverse bool
	mapRanges  int
	steps      int
	// oracle, when set, answers calls that cannot be interpreted because an argument
	// is an opaque object (a polygon of unknown shape): it is asked for a value of the
	// call's single bool / small-enum result.  The driver enumerates every answer.
	oracle func(f *types.Func, res types.Type) (oval, bool)
	// stub, when set, may answer a call to a repo function instead of interpreting it.
	stub func(f *types.Func, recv oval, args []oval) ([]oval, bool)
	// panic in flight: set by panic(v) and by run-time panics, cleared by recover()
	panicActive bool
	panicVal    oval
	// package-level variables of repo packages, initialised on first use (initialisers in source
	// order, then the package's init functions)
	globals  map[types.Object]*oval
	initDone map[*types.Package]bool
	// symbolic: arithmetic on floats yields normal-form polynomials (ordersym.go) instead of ⊤
	symbolic bool
	maxLoop  int  // iterations allowed per loop (default 64)
	seqGo    bool // goroutines, channels and wait groups under one sequential schedule (ordergo.go)
	pending  []goThunk
	// valuation, when set, chooses the branch at comparisons the symbolic domain cannot decide; the
	// conditions so assumed are collected in pathConds
	valuation map[string]float64
	pathConds []string
	// cmpOracle, when set, is asked first at comparisons the symbolic domain cannot decide (the
	// driver answers consistently with some total order of the compared terms)
	cmpOracle func(op token.Token, a, b poly) (bool, bool)
}

func (it *oInterp) loopLimit() int {
	if it.maxLoop > 0 {
		return it.maxLoop
	}
	return 64
}

type oCtl int

const (
	oNormal oCtl = iota
	oReturn
	oAbort // ⊤ reached a branch, or unsupported statement
	oBreak
	oContinue
	oLabelled // break/continue with a label, travelling outwards to the labelled loop
)

type oFrame struct {
	curLabel     string
	pendingLabel string
	pendingTok   token.Token
	defers       []func()
	it           *oInterp
	info         *types.Info
	env          *oEnv
	results      []oval
	resVars      []*types.Var
	why          string
	depth        int
}

// zero value for a type in the fragment.
func (it *oInterp) zero(t types.Type) oval {
	switch u := t.Underlying().(type) {
	case *types.Basic:
		if u.Info()&types.IsFloat != 0 {
			if it.symbolic {
				return oSym{poly{}}
			}
			return oTop{"zero float (0 is not an input term)"}
		}
		if u.Info()&types.IsInteger != 0 {
			return oInt(0)
		}
		if u.Info()&types.IsBoolean != 0 {
			return oBool(false)
		}
		if u.Info()&types.IsString != 0 {
			return oSlice{typ: t}
		}
	case *types.Struct:
		s := &oStruct{typ: t, fields: map[string]oval{}}
		for i := 0; i < u.NumFields(); i++ {
			f := u.Field(i)
			s.order = append(s.order, f.Name())
			s.fields[f.Name()] = it.zero(f.Type())
		}
		return s
	case *types.Pointer:
		return oPtr{nil}
	case *types.Interface:
		return oIface{}
	case *types.Slice:
		return oSlice{typ: t}
	case *types.Array:
		if u.Len() <= 1<<12 {
			return it.newSlice(t, int(u.Len()), int(u.Len()))
		}
	case *types.Signature:
		return oNil{}
	case *types.Map:
		return oMap{typ: t}
	}
	return oTop{"zero of " + t.String()}
}

// Call interprets a repo function on abstract arguments.
func (it *oInterp) Call(fn *types.Func, recv oval, args []oval, depth int) ([]oval, string) {
	fd := it.p.Decl(fn)
	if fd == nil || fd.Body == nil {
		return nil, "no source for " + fn.FullName()
	}
	if depth > it.maxDepth {
		return nil, "inlining depth exceeded at " + fn.Name()
	}
	if depth == 0 {
		it.panicActive, it.panicVal = false, nil
	}
	info := it.p.InfoOf(fn)
	fr := &oFrame{it: it, info: info, env: &oEnv{vars: map[types.Object]*oval{}}, depth: depth}
	if rv := receiverVar(info, fd); rv != nil {
		fr.env.define(rv, recv)
	}
	ps := paramVars(info, fd.Type)
	if len(ps) != len(args) {
		return nil, "arity mismatch calling " + fn.Name()
	}
	for i, p := range ps {
		if p != nil {
			fr.env.define(p, args[i])
		}
	}
	fr.resVars = resultVars(info, fd.Type)
	for _, rv := range fr.resVars {
		if rv != nil {
			fr.env.define(rv, it.zero(rv.Type()))
		}
	}
	ctl := fr.block(fd.Body.List)
	hadDefers := len(fr.defers) > 0
	fr.runDefers()
	if strings.HasPrefix(fr.why, "panic:") && !it.panicActive {
		// recovered by a deferred function: the function returns its (named) results
		fr.why = ""
		ctl = oReturn
		hadDefers = true
		if !fr.allNamed() {
			fr.results = nil
			for _, rv := range resultVars(info, fd.Type) {
				_ = rv
				fr.results = append(fr.results, oTop{"unnamed result after recover"})
			}
			if fd.Type.Results != nil {
				fr.results = fr.results[:0]
				for _, fld := range fd.Type.Results.List {
					n := len(fld.Names)
					if n == 0 {
						n = 1
					}
					for k := 0; k < n; k++ {
						fr.results = append(fr.results, it.zero(info.TypeOf(fld.Type)))
					}
				}
			}
		}
	}
	if hadDefers && fr.allNamed() && ctl == oReturn {
		fr.results = nil
		for _, rv := range fr.resVars {
			fr.results = append(fr.results, fr.rvalue(*fr.env.lookup(rv)))
		}
	}
	if strings.HasPrefix(fr.why, "panic:") {
		return nil, fr.why
	}
	if ctl == oReturn {
		// a tuple-valued return that could not be evaluated yields one ⊤: pad to the declared arity
		want := 0
		if fd.Type.Results != nil {
			for _, fld := range fd.Type.Results.List {
				if n := len(fld.Names); n > 0 {
					want += n
				} else {
					want++
				}
			}
		}
		for len(fr.results) < want {
			why := "tuple result not evaluated"
			if len(fr.results) > 0 {
				if t, ok := fr.results[0].(oTop); ok {
					why = t.why
				}
			}
			fr.results = append(fr.results, oTop{why})
		}
	}
	switch ctl {
	case oAbort:
		return nil, fr.why
	case oNormal:
		if fd.Type.Results != nil && len(fd.Type.Results.List) > 0 {
			return nil, "fell off the end of " + fn.Name()
		}
	}
	if depth == 0 {
		// the driver's own call: a result that stands for "a callee could not be interpreted" is a
		// run that could not be interpreted, whatever else came back with it
		for _, r := range fr.results {
			if why := poisonIn(r, map[*oStruct]bool{}, 0); why != "" {
				return fr.results, why
			}
		}
	}
	return fr.results, ""
}

// poisonIn: the reason of the first ↯-marked unknown found anywhere inside v ("" when none).
func poisonIn(v oval, seen map[*oStruct]bool, depth int) string {
	if depth > 12 {
		return ""
	}
	switch x := v.(type) {
	case oTop:
		if poisons(x.why) {
			return x.why
		}
	case *oStruct:
		if x == nil || seen[x] {
			return ""
		}
		seen[x] = true
		for _, f := range x.fields {
			if w := poisonIn(f, seen, depth+1); w != "" {
				return w
			}
		}
	case oPtr:
		return poisonIn(x.s, seen, depth+1)
	case oIface:
		if x.dyn != nil {
			return poisonIn(x.dyn, seen, depth+1)
		}
	case oRef:
		return poisonIn(x.load(), seen, depth+1)
	case oSlice:
		for i := 0; i < x.length() && i < 4096; i++ {
			if w := poisonIn(x.at(i), seen, depth+1); w != "" {
				return w
			}
		}
	case oMap:
		if x.vals != nil {
			for i := 0; i < len(*x.vals) && i < 4096; i++ {
				if w := poisonIn((*x.vals)[i], seen, depth+1); w != "" {
					return w
				}
			}
		}
	}
	return ""
}

func (fr *oFrame) abort(format string, a ...interface{}) oCtl {
	if fr.why == "" {
		fr.why = fmt.Sprintf(format, a...)
		if strings.HasPrefix(fr.why, "panic:") && !fr.it.panicActive {
			fr.it.panicActive = true
			fr.it.panicVal = oIface{opaque: &oOpaque{name: "runtime error", isError: true, isRuntimeError: true}}
		}
	}
	return oAbort
}

func (fr *oFrame) block(list []ast.Stmt) oCtl {
	for _, s := range list {
		if c := fr.stmt(s); c != oNormal {
			return c
		}
	}
	return oNormal
}

func (fr *oFrame) stmt(s ast.Stmt) oCtl {
	fr.it.steps++
	switch s := s.(type) {
	case *ast.BlockStmt:
		saved := fr.env
		fr.env = &oEnv{vars: map[types.Object]*oval{}, parent: saved}
		c := fr.block(s.List)
		fr.env = saved
		return c
	case *ast.EmptyStmt:
		return oNormal
	case *ast.ReturnStmt:
		if len(s.Results) == 0 {
			fr.results = nil
			for _, rv := range fr.resVars {
				if rv == nil {
					return fr.abort("bare return with unnamed results")
				}
				fr.results = append(fr.results, fr.rvalue(*fr.env.lookup(rv)))
			}
			return oReturn
		}
		fr.results = nil
		if len(s.Results) == 1 && len(fr.resVars) > 1 {
			// return f() with tuple result
			vs := fr.evalMulti(s.Results[0])
			fr.results = vs
			fr.setNamedResults()
			return oReturn
		}
		for _, e := range s.Results {
			fr.results = append(fr.results, fr.eval(e))
		}
		fr.setNamedResults()
		return oReturn
	case *ast.IfStmt:
		saved := fr.env
		fr.env = &oEnv{vars: map[types.Object]*oval{}, parent: saved}
		defer func() { fr.env = saved }()
		if s.Init != nil {
			if c := fr.stmt(s.Init); c != oNormal {
				return c
			}
		}
		cv := fr.eval(s.Cond)
		b, ok := cv.(oBool)
		if !ok {
			return fr.abort("branch on %s at %s: %s", showVal(cv), fr.it.p.Position(s.Cond.Pos()), src(s.Cond))
		}
		if bool(b) {
			return fr.stmt(s.Body)
		}
		if s.Else != nil {
			return fr.stmt(s.Else)
		}
		return oNormal
	case *ast.ExprStmt:
		ce, isCall := unparen(s.X).(*ast.CallExpr)
		if !isCall {
			fr.eval(s.X)
			if fr.why != "" {
				return oAbort
			}
			return oNormal
		}
		vs := fr.call(ce)
		if fr.why != "" {
			return oAbort
		}
		// a repository function called for its effects that could not be interpreted: its effects
		// are unknown (calls that leave the repository — logging and the like — are not followed)
		if tv, ok := fr.info.Types[ce]; ok && tv.IsVoid() {
			// a call that returns nothing yet evaluates to ⊤ was not carried out
			for _, v := range vs {
				if t, isTop := v.(oTop); isTop && !effectFree(t.why) {
					return fr.abort("%s", t.why)
				}
			}
		}
		for _, v := range vs {
			if t, isTop := v.(oTop); isTop && !poisons(t.why) && strings.Contains(t.why, "(outside the repo)") && !effectFree(t.why) {
				// a call outside the repository made for its effects (sort.Slice, copy-like helpers,
				// atomic stores …) that no model describes: what it did to its arguments is unknown
				return fr.abort("%s", t.why)
			}
			if t, isTop := v.(oTop); isTop && poisons(t.why) {
				if os.Getenv("VERIF_TRACE") != "" {
					fmt.Fprintf(os.Stderr, "TRACE discarded ⊤ at %s: %s\n", fr.it.p.Position(ce.Pos()), t.why)
				}
				return fr.abort("%s", t.why)
			}
		}
		return oNormal
	case *ast.DeclStmt:
		gd, ok := s.Decl.(*ast.GenDecl)
		if ok && (gd.Tok == token.CONST || gd.Tok == token.TYPE) {
			return oNormal // constants are folded by the type checker where they are used
		}
		if !ok || gd.Tok != token.VAR {
			return fr.abort("unsupported declaration")
		}
		for _, sp := range gd.Specs {
			vs := sp.(*ast.ValueSpec)
			for i, nm := range vs.Names {
				o := fr.info.Defs[nm]
				if o == nil {
					continue
				}
				if i < len(vs.Values) {
					v := retag(fr.eval(vs.Values[i]), o.Type())
					if _, isIface := o.Type().Underlying().(*types.Interface); isIface && len(vs.Values) == len(vs.Names) {
						v = fr.toIface(v)
					}
					fr.env.define(o, v)
				} else {
					fr.env.define(o, fr.it.zero(o.Type()))
				}
			}
		}
		return oNormal
	case *ast.AssignStmt:
		return fr.assign(s)
	case *ast.IncDecStmt:
		if iv, ok := fr.eval(s.X).(oInt); ok {
			if s.Tok == token.INC {
				return fr.store(s.X, iv+1, false)
			}
			return fr.store(s.X, iv-1, false)
		}
		return fr.store(s.X, oTop{"arithmetic ++/--"}, false)
	case *ast.RangeStmt:
		return fr.rangeStmt(s)
	case *ast.BranchStmt:
		if s.Label == nil {
			switch s.Tok {
			case token.BREAK:
				return oBreak
			case token.CONTINUE:
				return oContinue
			}
		} else if s.Tok == token.BREAK || s.Tok == token.CONTINUE {
			fr.pendingLabel, fr.pendingTok = s.Label.Name, s.Tok
			return oLabelled
		}
		return fr.abort("unsupported branch statement at %s", fr.it.p.Position(s.Pos()))
	case *ast.LabeledStmt:
		// a labelled loop: the loop directly under the label handles break/continue addressed to it
		fr.curLabel = s.Label.Name
		c := fr.stmt(s.Stmt)
		fr.curLabel = ""
		return c
	case *ast.ForStmt:
		// bounded unrolling: only loops that terminate within a few abstract
		// iterations are inside the fragment (e.g. the "nudge until different" loop)
		myLabel := fr.curLabel
		fr.curLabel = ""
		saved := fr.env
		fr.env = &oEnv{vars: map[types.Object]*oval{}, parent: saved}
		defer func() { fr.env = saved }()
		if s.Init != nil {
			if c := fr.stmt(s.Init); c != oNormal {
				return c
			}
		}
		for iter := 0; ; iter++ {
			if lim := fr.it.loopLimit(); iter > lim {
				return fr.abort("loop at %s does not terminate within %d abstract iterations", fr.it.p.Position(s.Pos()), lim)
			}
			if s.Cond != nil {
				cv := fr.eval(s.Cond)
				b, ok := cv.(oBool)
				if !ok {
					return fr.abort("loop condition is %s at %s", showVal(cv), fr.it.p.Position(s.Cond.Pos()))
				}
				if !bool(b) {
					return oNormal
				}
			}
			if c := fr.stmt(s.Body); c == oBreak {
				return oNormal
			} else if c == oLabelled && myLabel != "" && fr.pendingLabel == myLabel {
				fr.pendingLabel = ""
				if fr.pendingTok == token.BREAK {
					return oNormal
				}
			} else if c != oNormal && c != oContinue {
				return c
			}
			if s.Post != nil {
				if c := fr.stmt(s.Post); c != oNormal {
					return c
				}
			}
		}
	case *ast.GoStmt:
		return fr.goStmt(s)
	case *ast.SendStmt:
		return fr.sendStmt(s)
	case *ast.DeferStmt:
		call := s.Call
		fv := fr.eval(call.Fun)
		var args []oval
		for _, a := range call.Args {
			args = append(args, fr.rvalue(fr.eval(a)))
		}
		switch fn := fv.(type) {
		case oFunc:
			fr.defers = append(fr.defers, func() {
				if _, why := fr.it.CallFunc(fn, args); why != "" && fr.why == "" {
					fr.why = why
				}
			})
		case oFuncRef:
			if fr.it.p.Decl(fn.f) == nil {
				return fr.abort("defer of external %s", fn.f.FullName())
			}
			fr.defers = append(fr.defers, func() {
				if _, why := fr.it.Call(fn.f, nil, args, fr.depth+1); why != "" && fr.why == "" {
					fr.why = why
				}
			})
		case oBound:
			if fr.it.p.Decl(fn.f) == nil {
				// a method of a type outside the repository: the model decides when the frame unwinds
				if fr.it.stub == nil && !strings.HasPrefix(fn.f.FullName(), "(*sync.") {
					return fr.abort("defer of external %s", fn.f.FullName())
				}
				fr.defers = append(fr.defers, func() {
					if fr.it.stub != nil {
						if _, ok := fr.it.stub(fn.f, fn.recv, args); ok {
							return
						}
					}
					if _, ok := fr.it.coreLib(fn.f, fn.recv, args); ok {
						if lp := fr.it.libPanic; lp != "" {
							fr.it.libPanic = ""
							if fr.why == "" {
								fr.why = lp
							}
						}
						return
					}
					if fr.why == "" {
						fr.why = "deferred call to " + fn.f.FullName() + " (outside the repo)"
					}
				})
				break
			}
			fr.defers = append(fr.defers, func() {
				if _, why := fr.it.Call(fn.f, recvForMethod(fn.f, fn.recv), args, fr.depth+1); why != "" && fr.why == "" {
					fr.why = why
				}
			})
		default:
			return fr.abort("defer of %s at %s", showVal(fv), fr.it.p.Position(s.Pos()))
		}
		return oNormal
	case *ast.TypeSwitchStmt:
		return fr.typeSwitch(s)
	case *ast.SwitchStmt:
		saved := fr.env
		fr.env = &oEnv{vars: map[types.Object]*oval{}, parent: saved}
		defer func() { fr.env = saved }()
		if s.Init != nil {
			if c := fr.stmt(s.Init); c != oNormal {
				return c
			}
		}
		var tag oval = oBool(true)
		if s.Tag != nil {
			tag = fr.eval(s.Tag)
		}
		if isTop(tag) {
			return fr.abort("switch on %s", showVal(tag))
		}
		var deflt *ast.CaseClause
		for _, c := range s.Body.List {
			cc := c.(*ast.CaseClause)
			if cc.List == nil {
				deflt = cc
				continue
			}
			for _, e := range cc.List {
				v := fr.eval(e)
				eq, ok := oEqual(tag, v)
				if !ok {
					return fr.abort("switch case not comparable")
				}
				if eq {
					return fr.swBody(cc.Body)
				}
			}
		}
		if deflt != nil {
			return fr.swBody(deflt.Body)
		}
		return oNormal
	}
	return fr.abort("unsupported statement %T at %s", s, fr.it.p.Position(s.Pos()))
}

func (fr *oFrame) swBody(body []ast.Stmt) oCtl {
	for _, s := range body {
		if bs, ok := s.(*ast.BranchStmt); ok {
			if bs.Tok == token.BREAK && bs.Label == nil {
				return oNormal
			}
			if bs.Tok == token.CONTINUE && bs.Label == nil {
				return oContinue
			}
			if bs.Label != nil && (bs.Tok == token.BREAK || bs.Tok == token.CONTINUE) {
				fr.pendingLabel, fr.pendingTok = bs.Label.Name, bs.Tok
				return oLabelled
			}
			return fr.abort("unsupported branch in switch (%s)", bs.Tok)
		}
		if c := fr.stmt(s); c != oNormal {
			if c == oBreak {
				return oNormal // an unlabelled break nested in the clause leaves the switch, not the loop around it
			}
			return c
		}
	}
	return oNormal
}

// rvalue copies struct values (value semantics).
func (fr *oFrame) rvalue(v oval) oval {
	if s, ok := v.(*oStruct); ok {
		return s.clone()
	}
	return v
}

// structRef resolves an addressable struct-typed expression to the struct it
// denotes (no copy), following pointers.
func (fr *oFrame) structRef(e ast.Expr) *oStruct {
	e = unparen(e)
	switch x := e.(type) {
	case *ast.Ident:
		o := objOf(fr.info, x)
		if o == nil {
			return nil
		}
		c := fr.env.lookup(o)
		if c == nil {
			return nil
		}
		switch v := (*c).(type) {
		case *oStruct:
			return v
		case oPtr:
			return v.s
		}
	case *ast.SelectorExpr:
		base := fr.structRef(x.X)
		if base == nil {
			return nil
		}
		if s, ok := base.fields[x.Sel.Name].(*oStruct); ok {
			return s
		}
		if p, ok := base.fields[x.Sel.Name].(oPtr); ok {
			return p.s
		}
	case *ast.StarExpr:
		v := fr.eval(x.X)
		if p, ok := v.(oPtr); ok {
			return p.s
		}
	case *ast.UnaryExpr:
		if x.Op == token.AND {
			return fr.structRef(x.X)
		}
	case *ast.IndexExpr:
		return fr.elemRef(x)
	case *ast.CallExpr:
		// a call returning a pointer: f().field = v
		if vs := fr.call(x); len(vs) == 1 {
			if p, ok := vs[0].(oPtr); ok {
				return p.s
			}
		}
	}
	return nil
}

func (fr *oFrame) assign(s *ast.AssignStmt) oCtl {
	if s.Tok != token.ASSIGN && s.Tok != token.DEFINE {
		if len(s.Lhs) == 1 && len(s.Rhs) == 1 {
			if li, ok := fr.eval(s.Lhs[0]).(oInt); ok {
				if ri, ok := fr.eval(s.Rhs[0]).(oInt); ok {
					op := map[token.Token]token.Token{token.ADD_ASSIGN: token.ADD, token.SUB_ASSIGN: token.SUB, token.MUL_ASSIGN: token.MUL, token.QUO_ASSIGN: token.QUO, token.REM_ASSIGN: token.REM,
						token.AND_ASSIGN: token.AND, token.OR_ASSIGN: token.OR, token.XOR_ASSIGN: token.XOR, token.AND_NOT_ASSIGN: token.AND_NOT, token.SHL_ASSIGN: token.SHL, token.SHR_ASSIGN: token.SHR}[s.Tok]
					if v, ok := intBinop(op, li, ri); ok {
						return fr.store(s.Lhs[0], wrapInt(v, fr.info.TypeOf(s.Lhs[0])), false)
					}
				}
			}
		}
		if fr.it.symbolic && len(s.Lhs) == 1 && len(s.Rhs) == 1 {
			if lp, ok := symOf(fr.eval(s.Lhs[0])); ok {
				if rp, ok := symOf(fr.eval(s.Rhs[0])); ok {
					op := map[token.Token]token.Token{token.ADD_ASSIGN: token.ADD, token.SUB_ASSIGN: token.SUB, token.MUL_ASSIGN: token.MUL, token.QUO_ASSIGN: token.QUO}[s.Tok]
					if t := fr.info.TypeOf(s.Lhs[0]); t != nil && isFloatT(t) {
						if p, ok := symBinop(op, lp, rp); ok {
							return fr.store(s.Lhs[0], symVal(p), false)
						}
					}
				}
			}
		}
		// op-assign on floats is arithmetic: the target becomes ⊤
		for _, l := range s.Lhs {
			if c := fr.store(l, oTop{"arithmetic " + s.Tok.String()}, false); c != oNormal {
				return c
			}
		}
		return oNormal
	}
	var vals []oval
	if len(s.Rhs) == 1 && len(s.Lhs) > 1 {
		vals = fr.evalMulti(s.Rhs[0])
		if len(vals) != len(s.Lhs) {
			return fr.abort("tuple assignment arity at %s: %d values for %d targets (%s)", fr.it.p.Position(s.Pos()), len(vals), len(s.Lhs), showVal(vals[0]))
		}
	} else {
		for _, r := range s.Rhs {
			vals = append(vals, fr.eval(r))
		}
	}
	if fr.why != "" {
		return oAbort
	}
	for i, l := range s.Lhs {
		if c := fr.store(l, vals[i], s.Tok == token.DEFINE); c != oNormal {
			return c
		}
	}
	return oNormal
}

func (fr *oFrame) store(l ast.Expr, v oval, define bool) oCtl {
	l = unparen(l)
	switch x := l.(type) {
	case *ast.Ident:
		if x.Name == "_" {
			// a discarded ⊤ is a call whose effects are unknown: do not carry on as if it had run
			if t, isTop := v.(oTop); isTop && poisons(t.why) {
				return fr.abort("%s", t.why)
			}
			return oNormal
		}
		if define {
			if o := fr.info.Defs[x]; o != nil {
				fr.env.define(o, v)
				return oNormal
			}
		}
		o := objOf(fr.info, x)
		if o == nil {
			return fr.abort("store to unknown %s", x.Name)
		}
		if fr.env.lookup(o) == nil {
			if c := fr.it.global(o); c != nil {
				*c = v
				return oNormal
			}
			return fr.abort("store to non-local %s", x.Name)
		}
		fr.env.set(o, v)
		return oNormal
	case *ast.SelectorExpr:
		base := fr.structRef(x.X)
		if base == nil {
			return fr.abort("store through unresolved base `%s`", src(x.X))
		}
		if _, ok := base.fields[x.Sel.Name]; !ok {
			return fr.abort("no field %s", x.Sel.Name)
		}
		base.fields[x.Sel.Name] = v
		return oNormal
	case *ast.IndexExpr:
		return fr.storeIndex(x, v)
	case *ast.StarExpr:
		if r, ok := fr.eval(x.X).(oRef); ok {
			if _, isIface := r.typ.Underlying().(*types.Interface); isIface {
				v = fr.toIface(v)
			}
			r.storeVal(fr.rvalue(v))
			return oNormal
		}
		dst := fr.structRef(x)
		sv, ok := v.(*oStruct)
		if dst == nil || !ok {
			return fr.abort("store through pointer not resolved")
		}
		for k, fv := range sv.fields {
			dst.fields[k] = fr.rvalue(fv)
		}
		return oNormal
	}
	return fr.abort("unsupported store target `%s`", src(l))
}

func oEqual(a, b oval) (eq bool, ok bool) {
	switch x := a.(type) {
	case oFloat:
		if y, ok := b.(oFloat); ok {
			return x.r == y.r, true
		}
		if y, ok := b.(oSym); ok {
			if p, ok := symOf(x); ok {
				if eq, ok := symCompare(token.EQL, p, y.p); ok {
					return eq, true
				}
			}
			return false, false
		}
	case oBool:
		if y, ok := b.(oBool); ok {
			return x == y, true
		}
	case oInt:
		if y, ok := b.(oInt); ok {
			return x == y, true
		}
	case *oStruct:
		if y, ok := b.(*oStruct); ok && x != nil && y != nil {
			all := true
			for k, v := range x.fields {
				e, ok := oEqual(v, y.fields[k])
				if !ok {
					return false, false
				}
				all = all && e
			}
			return all, true
		}
	case oPtr:
		switch y := b.(type) {
		case oPtr:
			return x.s == y.s, true
		case oNil:
			return x.s == nil, true
		}
	case oExt:
		switch y := b.(type) {
		case oExt:
			return x.name == y.name, true
		case oNil:
			return false, true
		case oIface:
			if e, ok := y.dyn.(oExt); ok {
				return e.name == x.name, true
			}
			return false, true
		}
	case oHostFunc:
		if _, ok := b.(oNil); ok {
			return false, true
		}
	case oBound:
		// function values compare with nil only
		if _, ok := b.(oNil); ok {
			return false, true
		}
	case oRef:
		switch y := b.(type) {
		case oNil:
			return false, true
		case oRef:
			if x.st != nil || y.st != nil {
				return x.st == y.st && x.field == y.field, true
			}
			return x.cell == y.cell, true
		}
	case oSym:
		if q, ok := symOf(b); ok {
			if eq, ok := symCompare(token.EQL, x.p, q); ok {
				return eq, true
			}
			return false, false
		}
	case oMap:
		if _, ok := b.(oNil); ok {
			return x.keys == nil, true
		}
	case oHost:
		switch y := b.(type) {
		case oHost:
			return x.kind == y.kind && x.key == y.key, true
		case oNil:
			return false, true
		}
	case oFuncRef:
		if _, ok := b.(oNil); ok {
			return false, true
		}
	case oFunc:
		if _, ok := b.(oNil); ok {
			return false, true
		}
	case oSlice:
		if _, ok := b.(oNil); ok {
			return x.isNil(), true
		}
		if y, ok := b.(oSlice); ok && isStringT(x.typ) && isStringT(y.typ) {
			if x.length() != y.length() {
				return false, true
			}
			for i := 0; i < x.length(); i++ {
				xi, ok1 := x.at(i).(oInt)
				yi, ok2 := y.at(i).(oInt)
				if !ok1 || !ok2 {
					return false, false
				}
				if xi != yi {
					return false, true
				}
			}
			return true, true
		}
	case oNil:
		switch y := b.(type) {
		case oSlice:
			return y.isNil(), true
		case oHostFunc, oFunc, oFuncRef, oBound, oHost, oRef:
			return false, true
		case oMap:
			return y.keys == nil, true
		case oPtr:
			return y.s == nil, true
		case oNil:
			return true, true
		case oIface:
			return y.dyn == nil && y.opaque == nil, true
		}
	case oIface:
		if _, ok := b.(oNil); ok {
			return x.dyn == nil && x.opaque == nil, true
		}
		if y, ok := b.(oIface); ok {
			if x.opaque != nil || y.opaque != nil {
				return x.opaque == y.opaque, true
			}
			if x.dyn == nil || y.dyn == nil {
				return x.dyn == nil && y.dyn == nil, true
			}
			return oEqual(x.dyn, y.dyn)
		}
		if y, ok := b.(oExt); ok {
			if e, ok := x.dyn.(oExt); ok {
				return e.name == y.name, true
			}
			return false, true
		}
	}
	return false, false
}

func (fr *oFrame) evalMulti(e ast.Expr) []oval {
	e = unparen(e)
	switch x := e.(type) {
	case *ast.TypeAssertExpr:
		v := fr.eval(x.X)
		iv, ok := v.(oIface)
		if !ok {
			return []oval{oTop{"assertion on non-interface"}, oTop{"?"}}
		}
		want := fr.info.TypeOf(x.Type)
		if iv.opaque != nil && iv.opaque.isError {
			if wi, ok := want.Underlying().(*types.Interface); ok {
				fits := true
				for i := 0; i < wi.NumMethods(); i++ {
					switch wi.Method(i).Name() {
					case "Error":
					case "RuntimeError":
						if !iv.opaque.isRuntimeError {
							fits = false
						}
					default:
						fits = false
					}
				}
				if fits {
					return []oval{iv, oBool(true)}
				}
				return []oval{fr.it.zero(want), oBool(false)}
			}
		}
		if iv.opaque != nil && len(iv.opaque.methods) > 0 {
			if wi, ok := want.Underlying().(*types.Interface); ok {
				all := true
				for i := 0; i < wi.NumMethods(); i++ {
					has := false
					for _, mn := range iv.opaque.methods {
						has = has || mn == wi.Method(i).Name()
					}
					all = all && has
				}
				if all {
					return []oval{iv, oBool(true)}
				}
			}
		}
		if iv.opaque != nil || iv.dyn == nil {
			return []oval{fr.it.zero(want), oBool(false)}
		}
		if p, ok := iv.dyn.(oPtr); ok && p.s != nil {
			if pt, ok := want.(*types.Pointer); ok && types.Identical(pt.Elem(), p.s.typ) {
				return []oval{p, oBool(true)}
			}
			if _, isIface := want.Underlying().(*types.Interface); isIface {
				if types.Implements(types.NewPointer(p.s.typ), want.Underlying().(*types.Interface)) {
					return []oval{iv, oBool(true)}
				}
			}
			return []oval{fr.it.zero(want), oBool(false)}
		}
		if dt := dynType(iv.dyn); dt != nil {
			if wi, isIface := want.Underlying().(*types.Interface); isIface {
				if types.Implements(dt, wi) {
					return []oval{iv, oBool(true)}
				}
				return []oval{fr.it.zero(want), oBool(false)}
			}
			if types.Identical(dt, want) {
				return []oval{fr.rvalue(iv.dyn), oBool(true)}
			}
			return []oval{fr.it.zero(want), oBool(false)}
		}
		return []oval{oTop{"assertion"}, oTop{"?"}}
	case *ast.CallExpr:
		return fr.call(x)
	case *ast.IndexExpr:
		base := fr.eval(x.X)
		if m, ok := base.(oMap); ok {
			v, present := fr.mapIndex(x, m)
			return []oval{v, present}
		}
		// a nil map: every key is absent
		if _, isNil := base.(oNil); isNil {
			if mt, ok := fr.info.TypeOf(x.X).Underlying().(*types.Map); ok {
				fr.eval(x.Index)
				return []oval{fr.it.zero(mt.Elem()), oBool(false)}
			}
		}
	}
	return []oval{fr.eval(e)}
}

func (fr *oFrame) eval(e ast.Expr) oval {
	fr.it.steps++
	e = unparen(e)
	if tv, ok := fr.info.Types[e]; ok && tv.Value != nil {
		switch tv.Value.Kind() {
		case constant.Bool:
			return oBool(constant.BoolVal(tv.Value))
		case constant.Int:
			if b, ok := tv.Type.Underlying().(*types.Basic); ok && b.Info()&types.IsFloat != 0 {
				if fr.it.symbolic {
					if p, ok := symFromConstant(tv.Value); ok {
						return oSym{p}
					}
				}
				if fr.it.floatClass != nil {
					if fv, _ := constant.Float64Val(tv.Value); !math.IsInf(fv, 0) {
						return oConstF{fv}
					}
				}
				return oTop{"float constant " + tv.Value.String()}
			}
			if i, ok := constant.Int64Val(tv.Value); ok {
				return oInt(i)
			}
		case constant.Float:
			if fr.it.symbolic {
				if p, ok := symFromConstant(tv.Value); ok {
					return oSym{p}
				}
			}
			if fr.it.floatClass != nil {
				if fv, _ := constant.Float64Val(tv.Value); !math.IsInf(fv, 0) {
					return oConstF{fv}
				}
			}
			return oTop{"float constant " + tv.Value.String()}
		case constant.String:
			str := constant.StringVal(tv.Value)
			arr := make([]oval, len(str))
			for i := 0; i < len(str); i++ {
				arr[i] = oInt(str[i])
			}
			return oSlice{typ: tv.Type, arr: &arr, lo: 0, hi: len(arr), capEnd: len(arr)}
		}
	}
	switch x := e.(type) {
	case *ast.Ident:
		if _, isNil := fr.info.Uses[x].(*types.Nil); isNil {
			return oNil{}
		}
		o := objOf(fr.info, x)
		if o != nil {
			if c := fr.env.lookup(o); c != nil {
				return fr.rvalue(*c)
			}
			if f, ok := o.(*types.Func); ok {
				return oFuncRef{f}
			}
			if c := fr.it.global(o); c != nil {
				return fr.rvalue(*c)
			}
		}
		return oTop{"unknown identifier " + x.Name}
	case *ast.SelectorExpr:
		if id, ok := unparen(x.X).(*ast.Ident); ok {
			if _, isPkg := fr.info.Uses[id].(*types.PkgName); isPkg {
				o := fr.info.Uses[x.Sel]
				if f, ok := o.(*types.Func); ok {
					return oFuncRef{f}
				}
				if c := fr.it.global(o); c != nil {
					return fr.rvalue(*c)
				}
				if v, ok := o.(*types.Var); ok && v.Pkg() != nil {
					return oExt{v.Pkg().Path() + "." + v.Name()}
				}
				return oTop{"external " + src(x)}
			}
		}
		if sl := fr.info.Selections[x]; sl != nil && sl.Kind() == types.MethodVal {
			// a method value: the receiver is evaluated now, the call happens later
			if f, ok := sl.Obj().(*types.Func); ok {
				// a pointer-receiver method of an addressable struct variable is bound to the
				// variable itself (&v.m), not to a copy
				if _, ptrRecv := f.Type().(*types.Signature).Recv().Type().(*types.Pointer); ptrRecv {
					if _, isPtr := fr.info.TypeOf(x.X).Underlying().(*types.Pointer); !isPtr {
						if st := fr.structRef(x.X); st != nil {
							return oBound{f: f, recv: oPtr{st}}
						}
					}
				}
				return oBound{f: f, recv: fr.eval(x.X)}
			}
		}
		if sl := fr.info.Selections[x]; sl != nil && sl.Kind() == types.MethodExpr {
			// a method expression T.m / (*T).m: a function whose first argument is the receiver
			if f, ok := sl.Obj().(*types.Func); ok {
				return oMethodExpr{f: f}
			}
		}
		if s := fr.structRef(x.X); s != nil {
			if v, ok := s.fields[x.Sel.Name]; ok {
				return fr.rvalue(v)
			}
		}
		v := fr.eval(x.X)
		if s, ok := v.(*oStruct); ok && s != nil {
			if fv, ok := s.fields[x.Sel.Name]; ok {
				return fr.rvalue(fv)
			}
		}
		if p, ok := v.(oPtr); ok && p.s != nil {
			if fv, ok := p.s.fields[x.Sel.Name]; ok {
				return fr.rvalue(fv)
			}
		}
		// a field promoted through embedded structs
		if sl := fr.info.Selections[x]; sl != nil && sl.Kind() == types.FieldVal && len(sl.Index()) > 1 {
			var cur *oStruct
			switch b := v.(type) {
			case *oStruct:
				cur = b
			case oPtr:
				cur = b.s
			}
			t := sl.Recv()
			for _, ix := range sl.Index() {
				if cur == nil {
					break
				}
				if pt, ok := t.Underlying().(*types.Pointer); ok {
					t = pt.Elem()
				}
				st, ok := t.Underlying().(*types.Struct)
				if !ok || ix >= st.NumFields() {
					cur = nil
					break
				}
				fv := cur.fields[st.Field(ix).Name()]
				t = st.Field(ix).Type()
				switch b := fv.(type) {
				case *oStruct:
					cur = b
				case oPtr:
					cur = b.s
				default:
					if ix == sl.Index()[len(sl.Index())-1] {
						return fr.rvalue(fv)
					}
					cur = nil
				}
			}
			if cur != nil {
				return cur.clone()
			}
		}
		if p, ok := v.(oPtr); ok && p.s == nil {
			if sl := fr.info.Selections[x]; sl != nil && sl.Kind() == types.FieldVal {
				fr.abort("panic: nil pointer dereference in %s at %s", src(x), fr.it.p.Position(x.Pos()))
				return oTop{"nil dereference"}
			}
		}
		return oTop{"selector " + src(x) + " of " + showVal(v)}
	case *ast.StarExpr:
		if r, ok := fr.eval(x.X).(oRef); ok {
			return fr.rvalue(r.load())
		}
		if s := fr.structRef(x); s != nil {
			return s.clone()
		}
		return oTop{"deref"}
	case *ast.UnaryExpr:
		switch x.Op {
		case token.ARROW:
			if ch, ok := fr.eval(x.X).(oChan); ok && fr.it.seqGo {
				v, _, why := fr.recv(ch)
				if why != "" {
					fr.abort("%s at %s", why, fr.it.p.Position(x.Pos()))
					return oTop{why}
				}
				return v
			}
			return oTop{"receive"}
		case token.NOT:
			if b, ok := fr.eval(x.X).(oBool); ok {
				return !b
			}
			return oTop{"!⊤"}
		case token.AND:
			if cl, ok := unparen(x.X).(*ast.CompositeLit); ok {
				if s, ok := fr.eval(cl).(*oStruct); ok {
					return oPtr{s}
				}
				return oTop{"&literal"}
			}
			if s := fr.structRef(x.X); s != nil {
				return oPtr{s}
			}
			if c := fr.varCell(x.X); c != nil {
				if st, isStruct := (*c).(*oStruct); isStruct && st != nil {
					return oPtr{st} // &v of a struct variable (a package-level table entry, say)
				}
				return oRef{cell: c, typ: fr.info.TypeOf(x.X)}
			}
			if sel, ok := unparen(x.X).(*ast.SelectorExpr); ok {
				// &x.f for a scalar field
				if base := fr.structRef(sel.X); base != nil {
					if _, has := base.fields[sel.Sel.Name]; has {
						return oRef{st: base, field: sel.Sel.Name, typ: fr.info.TypeOf(sel)}
					}
				}
			}
			return oTop{"address-of"}
		case token.SUB:
			v := fr.eval(x.X)
			if i, ok := v.(oInt); ok {
				return -i
			}
			// the two infinities are each other's negation in every domain
			if f, ok := v.(oFloat); ok {
				if f.r >= oInf {
					return oFloat{-oInf}
				}
				if f.r <= -oInf {
					return oFloat{oInf}
				}
			}
			if fr.it.symbolic {
				if p, ok := symOf(v); ok {
					return symVal(p.scale(big.NewRat(-1, 1)))
				}
			}
			return oTop{"negation"}
		}
	case *ast.BinaryExpr:
		switch x.Op {
		case token.LAND, token.LOR:
			l := fr.eval(x.X)
			lb, ok := l.(oBool)
			if !ok {
				return oTop{"⊤ in boolean connective: " + showVal(l)}
			}
			if x.Op == token.LAND && !bool(lb) {
				return oBool(false)
			}
			if x.Op == token.LOR && bool(lb) {
				return oBool(true)
			}
			r := fr.eval(x.Y)
			if rb, ok := r.(oBool); ok {
				return rb
			}
			return oTop{"⊤ in boolean connective: " + showVal(r)}
		case token.LSS, token.LEQ, token.GTR, token.GEQ, token.EQL, token.NEQ:
			return fr.it.compareVals(x.Op, fr.eval(x.X), fr.eval(x.Y))
		default:
			lv := fr.eval(x.X)
			if li, ok := lv.(oInt); ok {
				if ri, ok := fr.eval(x.Y).(oInt); ok {
					if x.Op == token.SHR && ri >= 0 && ri < 64 && isUnsigned64(fr.info.TypeOf(x)) {
						return oInt(int64(uint64(li) >> uint(ri)))
					}
					if v, ok := intBinop(x.Op, li, ri); ok {
						return wrapInt(v, fr.info.TypeOf(x))
					}
				}
			}
			if fr.it.symbolic {
				if lp, ok := symOf(lv); ok {
					if rp, ok := symOf(fr.eval(x.Y)); ok {
						if t := fr.info.TypeOf(x); t != nil && isFloatT(t) {
							if p, ok := symBinop(x.Op, lp, rp); ok {
								return symVal(p)
							}
						}
					}
				}
			}
			if fr.it.signArith {
				if v, ok := signBinop(x.Op, lv, fr.eval(x.Y)); ok {
					return v
				}
			}
			// string concatenation
			if ls, ok := lv.(oSlice); ok && x.Op == token.ADD && isStringT(fr.info.TypeOf(x)) {
				if rs, ok := fr.eval(x.Y).(oSlice); ok {
					arr := make([]oval, 0, ls.length()+rs.length())
					for i := 0; i < ls.length(); i++ {
						arr = append(arr, ls.at(i))
					}
					for i := 0; i < rs.length(); i++ {
						arr = append(arr, rs.at(i))
					}
					return oSlice{typ: fr.info.TypeOf(x), arr: &arr, lo: 0, hi: len(arr), capEnd: len(arr)}
				}
			}
			return oTop{"arithmetic " + x.Op.String() + " on " + showVal(lv) + " and " + showVal(fr.eval(x.Y))}
		}
	case *ast.CompositeLit:
		t := fr.info.TypeOf(x)
		if _, isSlice := t.Underlying().(*types.Slice); isSlice {
			return fr.sliceLit(x, t)
		}
		if _, isArr := t.Underlying().(*types.Array); isArr {
			return fr.sliceLit(x, t)
		}
		if _, isMap := t.Underlying().(*types.Map); isMap {
			return fr.mapLit(x, t)
		}
		st, ok := t.Underlying().(*types.Struct)
		if !ok {
			return oTop{"composite literal of " + t.String()}
		}
		s := fr.it.zero(t).(*oStruct)
		fieldT := func(name string) types.Type {
			for i := 0; i < st.NumFields(); i++ {
				if st.Field(i).Name() == name {
					return st.Field(i).Type()
				}
			}
			return nil
		}
		put := func(name string, v oval) {
			if ft := fieldT(name); ft != nil {
				if _, isIface := ft.Underlying().(*types.Interface); isIface {
					v = fr.toIface(v)
				}
			}
			s.fields[name] = fr.rvalue(v)
		}
		for i, el := range x.Elts {
			if kv, ok := el.(*ast.KeyValueExpr); ok {
				put(src(kv.Key), fr.eval(kv.Value))
			} else if i < st.NumFields() {
				put(st.Field(i).Name(), fr.eval(el))
			}
		}
		return s
	case *ast.CallExpr:
		vs := fr.call(x)
		if len(vs) == 1 {
			return vs[0]
		}
		return oTop{"multi-value call in single context"}
	case *ast.TypeAssertExpr:
		vs := fr.evalMulti(x)
		if b, ok := vs[1].(oBool); ok && bool(b) {
			return vs[0]
		}
		if b, ok := vs[1].(oBool); ok && !bool(b) {
			fr.abort("panic: interface conversion fails in %s at %s", src(x), fr.it.p.Position(x.Pos()))
		}
		return oTop{"failing single-result assertion"}
	case *ast.FuncLit:
		return oFunc{lit: x, env: fr.env, info: fr.info}
	case *ast.IndexExpr:
		return fr.indexExpr(x)
	case *ast.SliceExpr:
		return fr.sliceExpr(x)
	}
	return oTop{fmt.Sprintf("unsupported expression %T", e)}
}

func (fr *oFrame) call(call *ast.CallExpr) []oval {
	one := func(v oval) []oval { return []oval{v} }
	// conversions
	if tv, ok := fr.info.Types[call.Fun]; ok && tv.IsType() && len(call.Args) == 1 {
		v := fr.eval(call.Args[0])
		if fr.it.floatClass != nil {
			if nv, ok := fr.it.floatClass.convert(v, tv.Type); ok {
				return one(nv)
			}
		}
		if s, ok := v.(*oStruct); ok {
			c := s.clone()
			c.typ = tv.Type
			return one(c)
		}
		if _, ok := tv.Type.Underlying().(*types.Interface); ok {
			return one(fr.toIface(v))
		}
		if sl, ok := v.(oSlice); ok {
			sl.typ = tv.Type
			return one(sl)
		}
		if _, ok := v.(oInt); ok && !isFloatT(tv.Type) {
			v = wrapInt(v, tv.Type)
		}
		if i, ok := v.(oInt); ok && fr.it.symbolic && isFloatT(tv.Type) {
			return one(oSym{polyConst(big.NewRat(int64(i), 1))})
		}
		if _, isNil := v.(oNil); isNil {
			if _, isSl := tv.Type.Underlying().(*types.Slice); isSl {
				return one(oSlice{typ: tv.Type})
			}
			if _, isPtr := tv.Type.Underlying().(*types.Pointer); isPtr {
				return one(oPtr{nil})
			}
		}
		return one(v)
	}
	if v, ok := fr.builtinCall(call); ok {
		return one(v)
	}
	// closure call
	if id, ok := unparen(call.Fun).(*ast.Ident); ok {
		if o := objOf(fr.info, id); o != nil {
			if c := fr.env.lookup(o); c != nil {
				if fn, ok := (*c).(oFunc); ok {
					if fr.depth > fr.it.maxDepth+4 {
						return one(oTop{"closure call depth"})
					}
					finfo := fn.info
					if finfo == nil {
						finfo = fr.info
					}
					sub := &oFrame{it: fr.it, info: finfo, env: &oEnv{vars: map[types.Object]*oval{}, parent: fn.env}, depth: fr.depth + 1}
					ps := paramVars(finfo, fn.lit.Type)
					lsig, _ := finfo.TypeOf(fn.lit).(*types.Signature)
					variadic := lsig != nil && lsig.Variadic() && !call.Ellipsis.IsValid() && len(ps) > 0
					if (!variadic && len(ps) != len(call.Args)) || (variadic && len(call.Args) < len(ps)-1) {
						return one(oTop{"closure arity"})
					}
					for i, pv := range ps {
						var v oval
						if variadic && i == len(ps)-1 {
							// the trailing arguments of a variadic closure, packed
							var tail []oval
							for _, a := range call.Args[i:] {
								tail = append(tail, fr.rvalue(fr.eval(a)))
							}
							v = oSlice{typ: lsig.Params().At(i).Type(), arr: &tail, lo: 0, hi: len(tail), capEnd: len(tail)}
							if len(tail) == 0 {
								v = oSlice{typ: lsig.Params().At(i).Type()}
							}
						} else {
							v = fr.rvalue(fr.eval(call.Args[i]))
						}
						if pv != nil {
							// an argument handed to an interface-typed parameter is boxed
							if _, isIface := pv.Type().Underlying().(*types.Interface); isIface {
								v = fr.toIface(v)
								if iv, ok := v.(oIface); ok && iv.styp == nil {
									iv.styp = fr.info.TypeOf(call.Args[i])
									v = iv
								}
							}
							sub.env.define(pv, v)
						}
					}
					sub.resVars = resultVars(finfo, fn.lit.Type)
					for _, rv := range sub.resVars {
						if rv != nil {
							sub.env.define(rv, fr.it.zero(rv.Type()))
						}
					}
					if len(sub.resVars) == 0 {
						sub.resVars = make([]*types.Var, 1)
					}
					ctl := sub.block(fn.lit.Body.List)
					sub.runDefers()
					if ctl == oAbort || strings.HasPrefix(sub.why, "panic:") {
						if strings.HasPrefix(sub.why, "panic:") && fr.why == "" {
							fr.why = sub.why // a run-time panic unwinds through the caller
						}
						return one(abortedTop(sub.why))
					}
					return boxClosureResults(sub, fn)
				}
			}
		}
	}
	f := callee(fr.info, call)
	if f == nil {
		fv := fr.eval(call.Fun)
		if hf, ok := fv.(oHostFunc); ok {
			var args []oval
			for _, a := range call.Args {
				args = append(args, fr.eval(a))
			}
			return hf.fn(args)
		}
		// a function value naming a function outside the repository (strconv.ParseFloat stored in a
		// table, say): ask the model
		if fref, ok := fv.(oFuncRef); ok && fr.it.p.Decl(fref.f) == nil && fr.it.stub != nil {
			var args []oval
			for _, a := range call.Args {
				args = append(args, fr.eval(a))
			}
			if out, ok := fr.it.stub(fref.f, nil, args); ok {
				return out
			}
		}
		if bd, ok := fv.(oBound); ok && fr.it.p.Decl(bd.f) == nil && fr.it.stub != nil {
			var args []oval
			for _, a := range call.Args {
				args = append(args, fr.eval(a))
			}
			if out, ok := fr.it.stub(bd.f, bd.recv, args); ok {
				return out
			}
		}
		if me, ok := fv.(oMethodExpr); ok {
			if len(call.Args) == 0 {
				return one(oTop{"method expression called without a receiver"})
			}
			var args []oval
			for _, a := range call.Args {
				args = append(args, fr.rvalue(fr.eval(a)))
			}
			recv := args[0]
			args = args[1:]
			sig := me.f.Type().(*types.Signature)
			for i := range args {
				if i < sig.Params().Len() {
					if _, isIface := sig.Params().At(i).Type().Underlying().(*types.Interface); isIface {
						args[i] = fr.toIface(args[i])
					}
				}
			}
			if fr.it.p.Decl(me.f) == nil {
				if fr.it.stub != nil {
					if out, ok := fr.it.stub(me.f, recv, args); ok {
						return out
					}
				}
				return one(oTop{"call to " + me.f.FullName() + " (outside the repo)"})
			}
			res, why := fr.it.Call(me.f, recvForMethod(me.f, recv), args, fr.depth+1)
			if why != "" {
				if strings.HasPrefix(why, "panic:") && fr.why == "" {
					fr.why = why
				}
				n := sig.Results().Len()
				if n == 0 {
					fr.why = why
					return nil
				}
				out := make([]oval, n)
				for i := range out {
					out[i] = abortedTop(why)
				}
				return out
			}
			for i := range res {
				if i < sig.Results().Len() {
					if _, isIface := sig.Results().At(i).Type().Underlying().(*types.Interface); isIface {
						res[i] = fr.toIface(res[i])
					}
				}
			}
			return res
		}
		if fref, ok := fv.(oFuncRef); ok && fr.it.p.Decl(fref.f) != nil {
			sig := fref.f.Type().(*types.Signature)
			var args []oval
			for i, a := range call.Args {
				v := fr.eval(a)
				if i < sig.Params().Len() {
					if _, isIface := sig.Params().At(i).Type().Underlying().(*types.Interface); isIface {
						v = fr.toIface(v)
					}
				}
				args = append(args, v)
			}
			res, why := fr.it.Call(fref.f, nil, args, fr.depth+1)
			if why != "" {
				if strings.HasPrefix(why, "panic:") && fr.why == "" {
					fr.why = why
				}
				out := make([]oval, sig.Results().Len())
				for i := range out {
					out[i] = abortedTop(why)
				}
				if len(out) == 0 {
					fr.why = why // a void call that could not be interpreted poisons the frame
					return nil
				}
				return out
			}
			for i := range res {
				if i < sig.Results().Len() {
					if _, isIface := sig.Results().At(i).Type().Underlying().(*types.Interface); isIface {
						res[i] = fr.toIface(res[i])
					}
				}
			}
			return res
		}
		if bd, ok := fv.(oBound); ok && fr.it.p.Decl(bd.f) != nil {
			var args []oval
			for _, a := range call.Args {
				args = append(args, fr.rvalue(fr.eval(a)))
			}
			res, why := fr.it.Call(bd.f, recvForMethod(bd.f, bd.recv), args, fr.depth+1)
			if why != "" {
				if strings.HasPrefix(why, "panic:") && fr.why == "" {
					fr.why = why
				}
				n := bd.f.Type().(*types.Signature).Results().Len()
				if n == 0 {
					fr.why = why
					return nil
				}
				out := make([]oval, n)
				for i := range out {
					out[i] = abortedTop(why)
				}
				return out
			}
			return res
		}
		if fl, ok := fv.(oFunc); ok {
			var args []oval
			dsig, _ := fr.info.TypeOf(call.Fun).Underlying().(*types.Signature)
			for i, a := range call.Args {
				v := fr.rvalue(fr.eval(a))
				// an argument handed to an interface-typed parameter is boxed, as in a static call
				if dsig != nil && i < dsig.Params().Len() && !(dsig.Variadic() && i >= dsig.Params().Len()-1) {
					if _, isIface := dsig.Params().At(i).Type().Underlying().(*types.Interface); isIface {
						v = fr.toIface(v)
						if iv, ok := v.(oIface); ok && iv.styp == nil {
							iv.styp = fr.info.TypeOf(a)
							v = iv
						}
					}
				}
				args = append(args, v)
			}
			res, why := fr.it.CallFunc(fl, args)
			if why != "" {
				if strings.HasPrefix(why, "panic:") && fr.why == "" {
					fr.why = why
				}
				return one(abortedTop(why))
			}
			return res
		}
		return one(oTop{"dynamic call " + src(call.Fun) + " of " + showVal(fv)})
	}
	if f.Pkg() != nil && f.Pkg().Path() == "math" {
		var args []oval
		for _, a := range call.Args {
			args = append(args, fr.eval(a))
		}
		switch f.Name() {
		case "Inf":
			if i, ok := args[0].(oInt); ok {
				if i >= 0 {
					return one(oFloat{oInf})
				}
				return one(oFloat{-oInf})
			}
		case "Nextafter":
			// the next float towards ±Inf lies strictly between the rank and its neighbour
			a, aok := args[0].(oFloat)
			b, bok := args[1].(oFloat)
			if aok && bok && (b.r >= oInf || b.r <= -oInf) && a.r < oInf && a.r > -oInf {
				if b.r > 0 {
					return one(oFloat{a.r + 1})
				}
				return one(oFloat{a.r - 1})
			}
		case "Min", "Max":
			a, aok := args[0].(oFloat)
			b, bok := args[1].(oFloat)
			if aok && bok {
				if (f.Name() == "Min") == (a.r < b.r) {
					return one(a)
				}
				return one(b)
			}
		}
		if fr.it.stub != nil {
			if out, ok := fr.it.stub(f, nil, args); ok {
				return out
			}
		}
		if fr.it.symbolic && fr.it.valuation != nil && len(args) > 0 {
			// |x|, min and max of symbolic values: the reference valuation says which operand (or
			// sign) it is; the choice is recorded as a path condition
			inf := func(v oval) (int, bool) {
				if f, ok := v.(oFloat); ok && (f.r >= oInf || f.r <= -oInf) {
					if f.r > 0 {
						return 1, true
					}
					return -1, true
				}
				return 0, false
			}
			switch f.Name() {
			case "Abs":
				if p, ok := symOf(args[0]); ok {
					if v, ok := symEval(p, fr.it.valuation); ok {
						fr.it.pathConds = append(fr.it.pathConds, fmt.Sprintf("sign of %s", p.canon()))
						if v < 0 {
							return one(symVal(p.scale(big.NewRat(-1, 1))))
						}
						return one(symVal(p))
					}
				}
			case "Copysign":
				// |x| with the sign of y: both signs from the reference valuation
				if p, ok := symOf(args[0]); ok && len(args) == 2 {
					if q, ok := symOf(args[1]); ok {
						v, okv := symEval(p, fr.it.valuation)
						w, okw := symEval(q, fr.it.valuation)
						if okv && okw && v != 0 && w != 0 {
							fr.it.pathConds = append(fr.it.pathConds, fmt.Sprintf("signs of %s and %s", p.canon(), q.canon()))
							if (v < 0) != (w < 0) {
								return one(symVal(p.scale(big.NewRat(-1, 1))))
							}
							return one(symVal(p))
						}
					}
				}
			case "Min", "Max":
				isMin := f.Name() == "Min"
				if s, ok := inf(args[0]); ok {
					if (s > 0) == isMin {
						return one(args[1])
					}
					return one(args[0])
				}
				if s, ok := inf(args[1]); ok {
					if (s > 0) == isMin {
						return one(args[0])
					}
					return one(args[1])
				}
				p, ok1 := symOf(args[0])
				q, ok2 := symOf(args[1])
				if ok1 && ok2 {
					x, okx := symEval(p, fr.it.valuation)
					y, oky := symEval(q, fr.it.valuation)
					if okx && oky {
						fr.it.pathConds = append(fr.it.pathConds, fmt.Sprintf("order of %s and %s", p.canon(), q.canon()))
						if (x < y) == isMin {
							return one(args[0])
						}
						return one(args[1])
					}
				}
			}
		}
		if fr.it.symbolic && len(args) > 0 {
			var ps []poly
			for _, a := range args {
				if p, ok := symOf(a); ok {
					ps = append(ps, p)
				}
			}
			if len(ps) == len(args) {
				if p, ok := symMath(f.Name(), ps); ok {
					return one(symVal(p))
				}
			}
		}
		return one(oTop{"math." + f.Name()})
	}
	sig := f.Type().(*types.Signature)
	var recv oval
	if sig.Recv() != nil {
		sel, ok := unparen(call.Fun).(*ast.SelectorExpr)
		if !ok {
			return one(abortedTop("method value"))
		}
		_, ptrRecv := sig.Recv().Type().(*types.Pointer)
		xv := fr.eval(sel.X)
		hostRecv := false
		if iv, ok := xv.(oIface); ok {
			if h, isHost := iv.dyn.(oHost); isHost && iv.opaque == nil {
				xv, hostRecv = h, true
			}
		}
		if _, isHost := xv.(oHost); isHost {
			hostRecv = true
		}
		// interface method call
		if iv, ok := xv.(oIface); ok {
			if iv.opaque != nil {
				if f.Name() == "Bounds" && len(call.Args) == 0 && iv.opaque.bounds != nil {
					return one(oPtr{iv.opaque.bounds})
				}
				if fr.it.stub != nil && len(iv.opaque.methods) > 0 {
					var args []oval
					for _, a := range call.Args {
						args = append(args, fr.eval(a))
					}
					if out, ok := fr.it.stub(f, iv, args); ok {
						return out
					}
				}
				return one(abortedTop("call of " + f.Name() + " on opaque " + iv.opaque.name))
			}
			if p, ok := iv.dyn.(oPtr); ok && p.s != nil {
				// dispatch to the concrete method on *T
				if n := named(p.s.typ); n != nil {
					obj, _, _ := types.LookupFieldOrMethod(types.NewPointer(n), true, f.Pkg(), f.Name())
					if cf, ok := obj.(*types.Func); ok {
						f = cf
						sig = f.Type().(*types.Signature)
						_, ptrRecv = sig.Recv().Type().(*types.Pointer)
						xv = p
					}
				}
			} else if r, ok := iv.dyn.(oRef); ok && r.typ != nil {
				// a pointer to a variable of a named non-struct type (*pointList) held in the interface
				obj, _, _ := types.LookupFieldOrMethod(types.NewPointer(r.typ), true, f.Pkg(), f.Name())
				cf, ok := obj.(*types.Func)
				if !ok {
					return one(abortedTop("no method " + f.Name() + " on *" + r.typ.String()))
				}
				f = cf
				sig = f.Type().(*types.Signature)
				_, ptrRecv = sig.Recv().Type().(*types.Pointer)
				xv = r
			} else if dt := dynType(iv.dyn); dt != nil {
				// a value of a named slice/struct type held in the interface
				obj, _, _ := types.LookupFieldOrMethod(dt, true, f.Pkg(), f.Name())
				cf, ok := obj.(*types.Func)
				if !ok {
					return one(abortedTop("no method " + f.Name() + " on " + dt.String()))
				}
				f = cf
				sig = f.Type().(*types.Signature)
				_, ptrRecv = sig.Recv().Type().(*types.Pointer)
				xv = iv.dyn
				if ptrRecv {
					return one(abortedTop("pointer-receiver method on a value in an interface"))
				}
			} else if _, isExt := iv.dyn.(oExt); isExt {
				// a value of the standard library (binary.BigEndian …): the call goes to the stub
			} else {
				return one(abortedTop("method on nil interface"))
			}
		}
		if hostRecv {
			recv = xv
		} else if r, isRef := xv.(oRef); isRef && ptrRecv {
			recv = r
		} else if isRef {
			recv = fr.rvalue(r.load())
		} else if ptrRecv {
			if p, ok := xv.(oPtr); ok {
				recv = p
			} else if s := fr.structRef(sel.X); s != nil {
				recv = oPtr{s}
			} else if cell := fr.varCell(sel.X); cell != nil {
				// a pointer-receiver method of an addressable variable: a struct (package-level,
				// say) or a named non-struct type
				if st, isStruct := (*cell).(*oStruct); isStruct && st != nil {
					recv = oPtr{st}
				} else {
					recv = oRef{cell: cell, typ: fr.info.TypeOf(sel.X)}
				}
			} else {
				return one(abortedTop("receiver not addressable"))
			}
			if p, isPtr := recv.(oPtr); isPtr && p.s == nil {
				return one(abortedTop("nil receiver"))
			}
		} else {
			if p, ok := xv.(oPtr); ok {
				if p.s == nil {
					return one(abortedTop("nil deref"))
				}
				recv = p.s.clone()
			} else {
				recv = xv
			}
		}
	}
	if recv != nil && sig.Recv() != nil {
		recv = embeddedRecv(recv, sig.Recv().Type())
	}
	var args []oval
	ps := sig.Params()
	// f(g()) with g returning several values
	var spread []oval
	if len(call.Args) == 1 && ps.Len() > 1 {
		if tup, ok := fr.info.TypeOf(call.Args[0]).(*types.Tuple); ok && tup.Len() == ps.Len() {
			spread = fr.evalMulti(call.Args[0])
		}
	}
	for i := 0; i < len(call.Args) || i < len(spread); i++ {
		var a ast.Expr
		var v oval
		if spread != nil {
			a, v = call.Args[0], spread[i]
		} else {
			a = call.Args[i]
			v = fr.eval(a)
		}
		pi := i
		if sig.Variadic() && pi >= ps.Len()-1 {
			pi = ps.Len() - 1
		}
		if pi < ps.Len() {
			pt := ps.At(pi).Type()
			if sig.Variadic() && pi == ps.Len()-1 && !call.Ellipsis.IsValid() {
				pt = pt.(*types.Slice).Elem()
			}
			v = retag(v, pt)
			if _, isIface := pt.Underlying().(*types.Interface); isIface {
				v = fr.toIface(v)
				if iv, ok := v.(oIface); ok && iv.styp == nil && spread == nil {
					iv.styp = fr.info.TypeOf(a)
					v = iv
				}
			}
		}
		args = append(args, v)
	}
	if fr.it.stub != nil {
		if out, ok := fr.it.stub(f, recv, args); ok {
			return out
		}
	}
	if fr.it.p.Decl(f) == nil {
		if out, ok := fr.it.coreLib(f, recv, args); ok {
			if lp := fr.it.libPanic; lp != "" {
				fr.it.libPanic = ""
				fr.abort("%s at %s", lp, fr.it.p.Position(call.Pos()))
				return one(abortedTop(lp))
			}
			return out
		}
		return one(oTop{"call to " + f.FullName() + " (outside the repo)"})
	}
	if sig.Variadic() && !call.Ellipsis.IsValid() {
		// pack the variadic tail
		n := ps.Len() - 1
		if len(args) >= n {
			tail := append([]oval{}, args[n:]...)
			for i := range tail {
				tail[i] = fr.rvalue(tail[i])
			}
			args = append(args[:n:n], oSlice{typ: ps.At(n).Type(), arr: &tail, lo: 0, hi: len(tail), capEnd: len(tail)})
		}
	}
	res, why := fr.it.Call(f, recv, args, fr.depth+1)
	if why != "" && fr.it.oracle != nil && sig.Results().Len() == 1 {
		hasOpaque := false
		for _, v := range append([]oval{recv}, args...) {
			if iv, ok := v.(oIface); ok && iv.opaque != nil {
				hasOpaque = true
			}
		}
		if hasOpaque {
			if v, ok := fr.it.oracle(f, sig.Results().At(0).Type()); ok {
				return []oval{v}
			}
		}
	}
	if strings.HasPrefix(why, "panic:") && fr.why == "" {
		fr.why = why // a run-time panic unwinds through the caller
	}
	if why != "" {
		n := sig.Results().Len()
		if n == 0 {
			// a void call that could not be interpreted poisons the frame
			fr.why = why
			return nil
		}
		out := make([]oval, n)
		for i := range out {
			out[i] = abortedTop(why)
		}
		return out
	}
	// convert results flowing into interface-typed results
	for i := range res {
		if i < sig.Results().Len() {
			if _, isIface := sig.Results().At(i).Type().Underlying().(*types.Interface); isIface {
				res[i] = fr.toIface(res[i])
			}
		}
	}
	return res
}

func (fr *oFrame) toIface(v oval) oval {
	switch x := v.(type) {
	case oIface:
		return x
	case oNil:
		return oIface{}
	case oPtr:
		if x.s == nil {
			// typed nil pointer in an interface: keep as dyn with nil struct
			return oIface{dyn: x}
		}
		return oIface{dyn: x}
	case oTop:
		return x
	}
	return oIface{dyn: v}
}

// ---------------------------------------------------------------- orderings

// weakOrderings enumerates all weak orderings of n terms as rank vectors with
// even ranks 0,2,4,… (so a value can be placed strictly between two ranks).
func weakOrderings(n int) [][]int64 {
	var out [][]int64
	cur := make([]int64, n)
	var rec func(i int)
	rec = func(i int) {
		if i == n {
			used := map[int64]bool{}
			var mx int64
			for _, r := range cur {
				used[r] = true
				if r > mx {
					mx = r
				}
			}
			for k := int64(0); k <= mx; k++ {
				if !used[k] {
					return
				}
			}
			v := make([]int64, n)
			for j, r := range cur {
				v[j] = r * 2
			}
			out = append(out, v)
			return
		}
		for r := int64(0); r < int64(n); r++ {
			cur[i] = r
			rec(i + 1)
		}
	}
	rec(0)
	sort.Slice(out, func(i, j int) bool {
		for k := range out[i] {
			if out[i][k] != out[j][k] {
				return out[i][k] < out[j][k]
			}
		}
		return false
	})
	return out
}

// helpers to build abstract inputs
func (it *oInterp) point(t types.Type, x, y int64) *oStruct {
	return &oStruct{typ: t, order: []string{"X", "Y"}, fields: map[string]oval{"X": oFloat{x}, "Y": oFloat{y}}}
}

func (it *oInterp) bounds(bt, pt types.Type, minx, miny, maxx, maxy int64) *oStruct {
	return &oStruct{typ: bt, order: []string{"Min", "Max"}, fields: map[string]oval{
		"Min": it.point(pt, minx, miny), "Max": it.point(pt, maxx, maxy)}}
}

func fget(s *oStruct, path ...string) (int64, bool) {
	var v oval = s
	for _, p := range path {
		st, ok := v.(*oStruct)
		if !ok || st == nil {
			return 0, false
		}
		v = st.fields[p]
	}
	f, ok := v.(oFloat)
	return f.r, ok
}

type oBox struct{ minx, miny, maxx, maxy int64 }

// hasTop: a value holds something the interpreter could not compute (so it can neither be
// confirmed nor refuted against a specification).
func hasTop(v oval) bool {
	switch x := v.(type) {
	case oTop:
		return true
	case *oStruct:
		if x == nil {
			return false
		}
		for _, f := range x.fields {
			if hasTop(f) {
				return true
			}
		}
	case oPtr:
		return x.s != nil && hasTop(x.s)
	case oIface:
		return x.dyn != nil && hasTop(x.dyn)
	case oSlice:
		for i := 0; i < x.length() && i < 64; i++ {
			if hasTop(x.at(i)) {
				return true
			}
		}
	}
	return false
}

func boxOf(v oval) (oBox, bool) {
	var s *oStruct
	switch x := v.(type) {
	case *oStruct:
		s = x
	case oPtr:
		s = x.s
	case oIface:
		if p, ok := x.dyn.(oPtr); ok {
			s = p.s
		}
	}
	if s == nil {
		return oBox{}, false
	}
	var b oBox
	var ok [4]bool
	b.minx, ok[0] = fget(s, "Min", "X")
	b.miny, ok[1] = fget(s, "Min", "Y")
	b.maxx, ok[2] = fget(s, "Max", "X")
	b.maxy, ok[3] = fget(s, "Max", "Y")
	return b, ok[0] && ok[1] && ok[2] && ok[3]
}

func min64(a, b int64) int64 {
	if a < b {
		return a
	}
	return b
}
func max64(a, b int64) int64 {
	if a > b {
		return a
	}
	return b
}

// dynType: the static Go type of a value stored in an interface (nil when unknown).
func dynType(v oval) types.Type {
	switch x := v.(type) {
	case oSlice:
		return x.typ
	case *oStruct:
		if x != nil {
			return x.typ
		}
	case oFloat:
		return types.Typ[types.Float64]
	case oInt:
		return types.Typ[types.Int]
	case oBool:
		return types.Typ[types.Bool]
	}
	return nil
}

// typeSwitch interprets `switch [v :=] x.(type) { case T1, T2: … }` on a known dynamic value.
func (fr *oFrame) typeSwitch(s *ast.TypeSwitchStmt) oCtl {
	saved := fr.env
	fr.env = &oEnv{vars: map[types.Object]*oval{}, parent: saved}
	defer func() { fr.env = saved }()
	if s.Init != nil {
		if c := fr.stmt(s.Init); c != oNormal {
			return c
		}
	}
	var ta *ast.TypeAssertExpr
	switch a := s.Assign.(type) {
	case *ast.ExprStmt:
		ta, _ = unparen(a.X).(*ast.TypeAssertExpr)
	case *ast.AssignStmt:
		if len(a.Rhs) == 1 {
			ta, _ = unparen(a.Rhs[0]).(*ast.TypeAssertExpr)
		}
	}
	if ta == nil {
		return fr.abort("type switch shape")
	}
	xv := fr.eval(ta.X)
	iv, ok := xv.(oIface)
	if !ok {
		if _, isNil := xv.(oNil); isNil {
			iv = oIface{}
		} else {
			return fr.abort("type switch on %s", showVal(xv))
		}
	}
	if iv.opaque != nil {
		return fr.abort("type switch on opaque %s", iv.opaque.name)
	}
	matches := func(t types.Type) (oval, bool) {
		if t == nil { // case nil
			return oNil{}, iv.dyn == nil
		}
		if iv.dyn == nil {
			return nil, false
		}
		if p, ok := iv.dyn.(oPtr); ok {
			if p.s == nil {
				return nil, false
			}
			if pt, ok := t.(*types.Pointer); ok && types.Identical(pt.Elem(), p.s.typ) {
				return p, true
			}
			if wi, ok := t.Underlying().(*types.Interface); ok && types.Implements(types.NewPointer(p.s.typ), wi) {
				return iv, true
			}
			return nil, false
		}
		dt := dynType(iv.dyn)
		if dt == nil {
			return nil, false
		}
		if wi, ok := t.Underlying().(*types.Interface); ok {
			if types.Implements(dt, wi) {
				return iv, true
			}
			return nil, false
		}
		if types.Identical(dt, t) {
			return fr.rvalue(iv.dyn), true
		}
		return nil, false
	}
	var deflt *ast.CaseClause
	run := func(cc *ast.CaseClause, bound oval) oCtl {
		if o := fr.info.Implicits[cc]; o != nil {
			fr.env.define(o, bound)
		}
		c := fr.swBody(cc.Body)
		return c
	}
	for _, c := range s.Body.List {
		cc := c.(*ast.CaseClause)
		if cc.List == nil {
			deflt = cc
			continue
		}
		for _, e := range cc.List {
			var t types.Type
			if tv, ok := fr.info.Types[e]; ok && !tv.IsNil() {
				t = tv.Type
			}
			if v, ok := matches(t); ok {
				if len(cc.List) > 1 {
					v = iv // several types in one clause: the variable keeps the interface type
				}
				return run(cc, v)
			}
		}
	}
	if deflt != nil {
		return run(deflt, iv)
	}
	return oNormal
}

// CallFunc invokes a closure value obtained from an interpreted call.
// CallValue calls a function value of any representation: a closure, a method value, a reference
// to a declared function, or a host function.
func (it *oInterp) CallValue(fv oval, args []oval) ([]oval, string) {
	switch f := fv.(type) {
	case oFunc:
		return it.CallFunc(f, args)
	case oBound:
		return it.Call(f.f, recvForMethod(f.f, f.recv), args, 1)
	case oFuncRef:
		return it.Call(f.f, nil, args, 1)
	case oHostFunc:
		return f.fn(args), ""
	}
	return nil, "not a function value: " + showVal(fv)
}

func (it *oInterp) CallFunc(fn oFunc, args []oval) ([]oval, string) {
	sub := &oFrame{it: it, info: fn.info, env: &oEnv{vars: map[types.Object]*oval{}, parent: fn.env}, depth: 1}
	ps := paramVars(fn.info, fn.lit.Type)
	if len(ps) != len(args) {
		return nil, "closure arity"
	}
	for i, pv := range ps {
		if pv != nil {
			sub.env.define(pv, args[i])
		}
	}
	sub.resVars = resultVars(fn.info, fn.lit.Type)
	for _, rv := range sub.resVars {
		if rv != nil {
			sub.env.define(rv, it.zero(rv.Type()))
		}
	}
	if len(sub.resVars) == 0 {
		sub.resVars = make([]*types.Var, 1)
	}
	ctl := sub.block(fn.lit.Body.List)
	sub.runDefers()
	if ctl == oAbort || strings.HasPrefix(sub.why, "panic:") {
		return nil, sub.why
	}
	return boxClosureResults(sub, fn), ""
}

// boxClosureResults: a concrete value returned through an interface-typed result of a function
// literal is boxed, as it is for declared functions.
func boxClosureResults(sub *oFrame, fn oFunc) []oval {
	info := fn.info
	if info == nil {
		info = sub.info
	}
	sig, _ := info.TypeOf(fn.lit).(*types.Signature)
	if sig == nil {
		return sub.results
	}
	for i := range sub.results {
		if i < sig.Results().Len() {
			if _, isIface := sig.Results().At(i).Type().Underlying().(*types.Interface); isIface {
				sub.results[i] = sub.toIface(sub.results[i])
			}
		}
	}
	return sub.results
}

// runDefers runs the deferred closures of a frame in reverse order (results were already
// captured by the return statement; named results are not re-read: deferred functions in the
// fragment only update captured counters).
func (fr *oFrame) runDefers() {
	for i := len(fr.defers) - 1; i >= 0; i-- {
		fr.defers[i]()
	}
	fr.defers = nil
}

func (fr *oFrame) allNamed() bool {
	if len(fr.resVars) == 0 {
		return false
	}
	for _, rv := range fr.resVars {
		if rv == nil || fr.env.lookup(rv) == nil {
			return false
		}
	}
	return true
}

// setNamedResults mirrors `return a, b` into named result variables (deferred functions see them).
func (fr *oFrame) setNamedResults() {
	if !fr.allNamed() || len(fr.results) != len(fr.resVars) {
		return
	}
	for i, rv := range fr.resVars {
		fr.env.set(rv, fr.results[i])
	}
}

func isStringT(t types.Type) bool {
	if t == nil {
		return false
	}
	b, ok := t.Underlying().(*types.Basic)
	return ok && b.Info()&types.IsString != 0
}

// oFuncRef is a package-level function used as a value.
type oFuncRef struct{ f *types.Func }

// varCell: the storage cell of a plain variable (local or package-level) named by e.
func (fr *oFrame) varCell(e ast.Expr) *oval {
	id, ok := unparen(e).(*ast.Ident)
	if !ok {
		return nil
	}
	o := objOf(fr.info, id)
	if o == nil {
		return nil
	}
	if _, isVar := o.(*types.Var); !isVar {
		return nil
	}
	if c := fr.env.lookup(o); c != nil {
		return c
	}
	return fr.it.global(o)
}

// oMethodExpr is a method expression T.m: called with the receiver as its first argument.
type oMethodExpr struct{ f *types.Func }

// global returns the cell of a package-level variable of a repo package, initialising the
// package's variables (and running its init functions) on first use.
func (it *oInterp) global(o types.Object) *oval {
	v, ok := o.(*types.Var)
	if !ok || v.Pkg() == nil || v.Parent() != v.Pkg().Scope() {
		return nil
	}
	if it.globals == nil {
		it.globals, it.initDone = map[types.Object]*oval{}, map[*types.Package]bool{}
	}
	if !it.initDone[v.Pkg()] {
		it.initDone[v.Pkg()] = true
		it.initPackage(v.Pkg())
	}
	return it.globals[o]
}

func (it *oInterp) initPackage(tp *types.Package) {
	var pk *pkgT
	for _, cand := range it.p.Repo {
		if cand.Types == tp {
			pk = cand
		}
	}
	if pk == nil {
		return
	}
	info := pk.TypesInfo
	fr := &oFrame{it: it, info: info, env: &oEnv{vars: map[types.Object]*oval{}}, depth: 1}
	// declare all first (zero), then evaluate initialisers in source order, twice so that simple
	// forward references settle
	type spec struct {
		names []*ast.Ident
		vals  []ast.Expr
	}
	var specs []spec
	for _, f := range pk.Syntax {
		for _, d := range f.Decls {
			gd, ok := d.(*ast.GenDecl)
			if !ok || gd.Tok != token.VAR {
				continue
			}
			for _, sp := range gd.Specs {
				vs := sp.(*ast.ValueSpec)
				specs = append(specs, spec{vs.Names, vs.Values})
				for _, nm := range vs.Names {
					if o := info.Defs[nm]; o != nil {
						z := it.zero(o.Type())
						if _, isMap := o.Type().Underlying().(*types.Map); isMap {
							z = oNil{}
						}
						it.globals[o] = &z
					}
				}
			}
		}
	}
	// initialisers in the order the language defines (dependencies first), as go/types computed it
	_ = specs
	for _, ini := range info.InitOrder {
		fr.why = ""
		if len(ini.Lhs) == 1 {
			if cell := it.globals[ini.Lhs[0]]; cell != nil {
				*cell = fr.rvalue(fr.eval(ini.Rhs))
			}
			continue
		}
		vals := fr.evalMulti(ini.Rhs)
		for i, lv := range ini.Lhs {
			if cell := it.globals[lv]; cell != nil && i < len(vals) {
				*cell = fr.rvalue(vals[i])
			}
		}
	}
	saved := it.panicActive
	initWhy := ""
	for _, f := range pk.Syntax {
		for _, d := range f.Decls {
			fd, ok := d.(*ast.FuncDecl)
			if !ok || fd.Recv != nil || fd.Name.Name != "init" || fd.Body == nil {
				continue
			}
			sub := &oFrame{it: it, info: info, env: &oEnv{vars: map[types.Object]*oval{}}, depth: 1}
			ctl := sub.block(fd.Body.List)
			sub.runDefers()
			if ctl == oAbort && sub.why != "" && initWhy == "" {
				initWhy = "init at " + it.p.Position(fd.Pos()) + ": " + sub.why
			}
		}
	}
	it.panicActive = saved
	if initWhy != "" {
		// an initialiser that could not be followed: what it would have stored is unknown, and so is
		// every package variable it (or a later initialiser) may have touched
		if os.Getenv("VERIF_TRACE") != "" {
			fmt.Fprintf(os.Stderr, "TRACE package %s: %s\n", tp.Path(), initWhy)
		}
		mut := mutableGlobals(pk)
		for o, cell := range it.globals {
			if o.Pkg() == tp && mut[o] {
				*cell = abortedTop("package variable " + o.Name() + " after an initialiser that could not be interpreted (" + initWhy + ")")
			}
		}
	}
}

// mutableGlobals: the package-level variables some function of the package may write — assigned
// (directly, through an index or a field), incremented, address taken, ranged into, handed to
// delete/clear/copy as the target, or the receiver of a pointer-receiver method call.  A variable
// that only ever has its initialiser keeps its value whatever the init functions do.
func mutableGlobals(pk *pkgT) map[types.Object]bool {
	info := pk.TypesInfo
	out := map[types.Object]bool{}
	root := func(e ast.Expr) types.Object {
		for {
			switch x := unparen(e).(type) {
			case *ast.IndexExpr:
				e = x.X
			case *ast.SelectorExpr:
				if _, isPkg := info.Uses[identOf(x.X)].(*types.PkgName); isPkg {
					return nil
				}
				e = x.X
			case *ast.StarExpr:
				e = x.X
			case *ast.SliceExpr:
				e = x.X
			case *ast.Ident:
				o := info.Uses[x]
				if v, ok := o.(*types.Var); ok && v.Pkg() != nil && v.Parent() == v.Pkg().Scope() {
					return v
				}
				return nil
			default:
				return nil
			}
		}
	}
	mark := func(e ast.Expr) {
		if o := root(e); o != nil {
			out[o] = true
		}
	}
	for _, f := range pk.Syntax {
		for _, d := range f.Decls {
			fd, ok := d.(*ast.FuncDecl)
			if !ok || fd.Body == nil {
				continue
			}
			ast.Inspect(fd.Body, func(n ast.Node) bool {
				switch x := n.(type) {
				case *ast.AssignStmt:
					for _, l := range x.Lhs {
						mark(l)
					}
				case *ast.IncDecStmt:
					mark(x.X)
				case *ast.UnaryExpr:
					if x.Op == token.AND {
						mark(x.X)
					}
				case *ast.RangeStmt:
					if x.Tok == token.ASSIGN {
						if x.Key != nil {
							mark(x.Key)
						}
						if x.Value != nil {
							mark(x.Value)
						}
					}
				case *ast.CallExpr:
					switch builtinName(info, x) {
					case "delete", "clear", "copy":
						if len(x.Args) > 0 {
							mark(x.Args[0])
						}
					}
					if sel, ok := unparen(x.Fun).(*ast.SelectorExpr); ok {
						if fn, ok := info.Uses[sel.Sel].(*types.Func); ok {
							if sig, ok := fn.Type().(*types.Signature); ok && sig.Recv() != nil {
								if _, ptr := sig.Recv().Type().(*types.Pointer); ptr {
									mark(sel.X)
								}
							}
						}
					}
				}
				return true
			})
		}
	}
	return out
}

func identOf(e ast.Expr) *ast.Ident {
	id, _ := unparen(e).(*ast.Ident)
	return id
}

// oExt is an external package-level variable known only by name (binary.BigEndian …).
type oExt struct{ name string }

// oBound is a method value: a method with its receiver already evaluated.
type oBound struct {
	f    *types.Func
	recv oval
}

// oRef is a pointer to a local variable that is not a struct (scalars, slices).
type oRef struct {
	cell *oval
	typ  types.Type
	// a pointer to a scalar field of a struct: st.fields[field]
	st    *oStruct
	field string
}

func (r oRef) load() oval {
	if r.st != nil {
		return r.st.fields[r.field]
	}
	return *r.cell
}

func (r oRef) storeVal(v oval) {
	if r.st != nil {
		r.st.fields[r.field] = v
		return
	}
	*r.cell = v
}

// retag gives a slice value the named type of the variable, parameter or result it is assigned
// to (an implicit conversion between a named slice type and its underlying type).
func retag(v oval, t types.Type) oval {
	sl, ok := v.(oSlice)
	if !ok || t == nil || sl.typ == nil || types.Identical(sl.typ, t) {
		return v
	}
	if _, isIface := t.Underlying().(*types.Interface); isIface {
		return v
	}
	if types.Identical(sl.typ.Underlying(), t.Underlying()) {
		sl.typ = t
		return sl
	}
	return v
}

// embeddedRecv: a method promoted through embedded structs is called on the embedded value.
func embeddedRecv(recv oval, want types.Type) oval {
	wantPtr := false
	if pt, ok := want.(*types.Pointer); ok {
		want, wantPtr = pt.Elem(), true
	}
	var cur *oStruct
	switch b := recv.(type) {
	case *oStruct:
		cur = b
	case oPtr:
		cur = b.s
	default:
		return recv
	}
	for depth := 0; depth < 4 && cur != nil; depth++ {
		if cur.typ != nil && types.Identical(cur.typ, want) {
			if depth == 0 {
				return recv
			}
			if wantPtr {
				return oPtr{cur}
			}
			return cur.clone()
		}
		st, ok := cur.typ.Underlying().(*types.Struct)
		if !ok {
			return recv
		}
		var next *oStruct
		for i := 0; i < st.NumFields(); i++ {
			fld := st.Field(i)
			if !fld.Embedded() {
				continue
			}
			ft := fld.Type()
			if pt, ok := ft.(*types.Pointer); ok {
				ft = pt.Elem()
			}
			// the embedded field that (transitively) provides the wanted type
			if types.Identical(ft, want) || depth < 3 {
				switch b := cur.fields[fld.Name()].(type) {
				case *oStruct:
					if types.Identical(ft, want) || next == nil {
						next = b
					}
				case oPtr:
					if types.Identical(ft, want) || next == nil {
						next = b.s
					}
				}
			}
		}
		cur = next
	}
	return recv
}

// wrapInt reduces an integer result to the width and signedness of its static type (Go's
// arithmetic on sized integers wraps around silently).
func isUnsigned64(t types.Type) bool {
	if t == nil {
		return false
	}
	b, ok := t.Underlying().(*types.Basic)
	return ok && (b.Kind() == types.Uint64 || b.Kind() == types.Uint || b.Kind() == types.Uintptr)
}

func wrapInt(v oval, t types.Type) oval {
	i, ok := v.(oInt)
	if !ok || t == nil {
		return v
	}
	b, ok := t.Underlying().(*types.Basic)
	if !ok {
		return v
	}
	n := int64(i)
	switch b.Kind() {
	case types.Uint8:
		return oInt(int64(uint8(n)))
	case types.Uint16:
		return oInt(int64(uint16(n)))
	case types.Uint32:
		return oInt(int64(uint32(n)))
	case types.Int8:
		return oInt(int64(int8(n)))
	case types.Int16:
		return oInt(int64(int16(n)))
	case types.Int32:
		return oInt(int64(int32(n)))
	}
	return v
}

// compareVals decides an ordering or equality test of two evaluated operands.
func (it *oInterp) compareVals(op token.Token, l, r oval) oval {
	if it.floatClass != nil {
		if v, ok := it.floatClass.compare(op, l, r); ok {
			return v
		}
	}
	if it.signArith {
		if v, ok := signCompare(op, l, r); ok {
			return v
		}
	}
	lf, lok := l.(oFloat)
	rf, rok := r.(oFloat)
	if lok && rok {
		switch op {
		case token.LSS:
			return oBool(lf.r < rf.r)
		case token.LEQ:
			return oBool(lf.r <= rf.r)
		case token.GTR:
			return oBool(lf.r > rf.r)
		case token.GEQ:
			return oBool(lf.r >= rf.r)
		case token.EQL:
			return oBool(lf.r == rf.r)
		case token.NEQ:
			return oBool(lf.r != rf.r)
		}
	}
	if op == token.EQL || op == token.NEQ {
		if eq, ok := oEqual(l, r); ok {
			return oBool(eq == (op == token.EQL))
		}
	}
	li, lok2 := l.(oInt)
	ri, rok2 := r.(oInt)
	if lok2 && rok2 {
		switch op {
		case token.LSS:
			return oBool(li < ri)
		case token.LEQ:
			return oBool(li <= ri)
		case token.GTR:
			return oBool(li > ri)
		case token.GEQ:
			return oBool(li >= ri)
		}
	}
	if it.symbolic {
		if lp, ok := symOf(l); ok {
			if rp, ok := symOf(r); ok {
				if b, ok := symCompare(op, lp, rp); ok {
					return oBool(b)
				}
				if it.cmpOracle != nil {
					if b, ok := it.cmpOracle(op, lp, rp); ok {
						return oBool(b)
					}
				}
				if it.valuation != nil {
					if b, ok := symCompareAt(op, lp, rp, it.valuation); ok {
						it.pathConds = append(it.pathConds, fmt.Sprintf("%s %s %s is %v", lp.canon(), op, rp.canon(), b))
						return oBool(b)
					}
				}
			}
		}
	}
	return oTop{"comparison of " + showVal(l) + " and " + showVal(r)}
}

// coreLib: the few standard-library functions every model needs the same way.  sort.Slice and
// sort.SliceStable order the slice by calling the interpreted less function (insertion sort:
// stable, which both promise or allow); sort.Sort and sort.Stable go through the value's own
// Len/Less/Swap.
func (it *oInterp) coreLib(f *types.Func, recv oval, args []oval) ([]oval, bool) {
	if out, ok := it.sinkLib(f, recv, args); ok {
		return out, true
	}
	if _, known := hostPureFuncs[f.FullName()]; known {
		// text functions of the standard library on concrete strings and integers
		return (&shpModel{errV: oIface{opaque: &oOpaque{name: "error", isError: true}}}).hostPure(f, args)
	}
	if out, ok := it.goLib(f, recv, args); ok {
		return out, true
	}
	if out, ok := it.mutexLib(f, recv, args); ok {
		return out, true
	}
	if out, ok := it.atomicLib(f, recv, args); ok {
		return out, true
	}
	if out, ok := it.hexLib(f, args, oIface{opaque: &oOpaque{name: "error", isError: true}}); ok {
		return out, true
	}
	if f.Pkg() == nil || f.Pkg().Path() != "sort" {
		return nil, false
	}
	switch f.Name() {
	case "Search":
		// binary search as the library does it, asking the interpreted predicate
		if len(args) == 2 {
			n, ok := args[0].(oInt)
			if !ok || n < 0 {
				return nil, false
			}
			lo, hi := int64(0), int64(n)
			for lo < hi {
				h := int64(uint64(lo+hi) >> 1)
				res, why := it.CallValue(args[1], []oval{oInt(h)})
				if why != "" || len(res) != 1 {
					return nil, false
				}
				b, ok := res[0].(oBool)
				if !ok {
					return nil, false
				}
				if !bool(b) {
					lo = h + 1
				} else {
					hi = h
				}
			}
			return []oval{oInt(lo)}, true
		}
	case "SearchFloat64s", "SearchInts", "SearchStrings":
		if len(args) == 2 {
			sl, ok := args[0].(oSlice)
			if !ok {
				if _, isNil := args[0].(oNil); !isNil {
					return nil, false
				}
			}
			lo, hi := 0, sl.length()
			for lo < hi {
				h := int(uint(lo+hi) >> 1)
				var ge oval
				if f.Name() == "SearchStrings" {
					a, ok1 := strOf(sl.at(h))
					b, ok2 := strOf(args[1])
					if !ok1 || !ok2 {
						return nil, false
					}
					ge = oBool(a >= b)
				} else {
					ge = it.compareVals(token.GEQ, sl.at(h), args[1])
				}
				b, ok := ge.(oBool)
				if !ok {
					return nil, false
				}
				if !bool(b) {
					lo = h + 1
				} else {
					hi = h
				}
			}
			return []oval{oInt(lo)}, true
		}
	case "Float64s", "Ints":
		// ascending order of a slice of numbers (insertion sort on decided comparisons)
		if len(args) == 1 {
			sl, ok := args[0].(oSlice)
			if !ok {
				_, isNil := args[0].(oNil)
				return nil, isNil
			}
			n := sl.length()
			if n > it.loopLimit() {
				return nil, false
			}
			// decide every needed comparison before moving anything
			vals := make([]oval, n)
			for i := range vals {
				vals[i] = sl.at(i)
			}
			for i := 1; i < n; i++ {
				for j := i; j > 0; j-- {
					b, ok := it.compareVals(token.LSS, vals[j], vals[j-1]).(oBool)
					if !ok {
						return nil, false
					}
					if !bool(b) {
						break
					}
					vals[j], vals[j-1] = vals[j-1], vals[j]
				}
			}
			for i, v := range vals {
				sl.set(i, v)
			}
			return nil, true
		}
	case "Sort", "Stable":
		if len(args) == 1 {
			if why := hostSort(it, args[0]); why == "" {
				return nil, true
			}
		}
	case "Slice", "SliceStable":
		if len(args) != 2 {
			return nil, false
		}
		v := args[0]
		if iv, ok := v.(oIface); ok {
			v = iv.dyn
		}
		sl, ok := v.(oSlice)
		if !ok {
			if _, isNil := v.(oNil); isNil {
				return nil, true
			}
			return nil, false
		}
		n := sl.length()
		if n > it.loopLimit() {
			return nil, false
		}
		for i := 1; i < n; i++ {
			for j := i; j > 0; j-- {
				res, why := it.CallValue(args[1], []oval{oInt(j), oInt(j - 1)})
				if why != "" || len(res) != 1 {
					return []oval{}, false
				}
				b, ok := res[0].(oBool)
				if !ok {
					return nil, false
				}
				if !bool(b) {
					break
				}
				x, y := sl.at(j), sl.at(j-1)
				sl.set(j, y)
				sl.set(j-1, x)
			}
		}
		return nil, true
	}
	return nil, false
}
