package main

// Standard-library objects every model needs the same way (called from coreLib after the model's
// own stub declined): strings.Builder and bytes.Buffer as append-only byte sinks, and the
// functions of encoding/hex on concrete bytes.
//
// A sink is the zero value of the library's struct; its contents live in the struct's buf field
// (both types have one), so copies and pointers behave as in Go.  Only the writing half of
// bytes.Buffer is described: a model that reads from a buffer describes that itself.

import (
	"encoding/hex"
	"go/types"
)

func (it *oInterp) sinkLib(f *types.Func, recv oval, args []oval) ([]oval, bool) {
	sig := f.Type().(*types.Signature)
	if sig.Recv() == nil {
		return nil, false
	}
	pt, ok := sig.Recv().Type().(*types.Pointer)
	if !ok {
		return nil, false
	}
	nt, ok := pt.Elem().(*types.Named)
	if !ok || nt.Obj().Pkg() == nil {
		return nil, false
	}
	which := nt.Obj().Pkg().Path() + "." + nt.Obj().Name()
	if which != "strings.Builder" && which != "bytes.Buffer" {
		return nil, false
	}
	p, ok := recv.(oPtr)
	if !ok || p.s == nil {
		return nil, false
	}
	cur, has := p.s.fields["buf"]
	if !has {
		return nil, false
	}
	buf, ok := cur.(oSlice)
	if !ok {
		return nil, false
	}
	if off, hasOff := p.s.fields["off"]; hasOff {
		if o, ok := off.(oInt); !ok || o != 0 {
			return nil, false
		}
	}
	bytesT := types.NewSlice(types.Typ[types.Byte])
	if buf.typ == nil {
		buf.typ = bytesT
	}
	add := func(vs []oval) { p.s.fields["buf"] = appendVals(buf, vs) }
	elems := func(v oval) ([]oval, bool) {
		switch s := v.(type) {
		case oSlice:
			out := make([]oval, s.length())
			for i := range out {
				out[i] = s.at(i)
			}
			return out, true
		case oNil:
			return nil, true
		}
		return nil, false
	}
	switch f.Name() {
	case "Grow":
		if len(args) == 1 {
			if n, ok := args[0].(oInt); ok && n >= 0 {
				return nil, true
			}
		}
	case "WriteByte":
		if len(args) == 1 {
			add(args[:1])
			return []oval{oNil{}}, true
		}
	case "WriteRune":
		if len(args) == 1 {
			if r, ok := args[0].(oInt); ok && r >= 0 && r < 0x80 {
				add(args[:1])
				return []oval{oInt(1), oNil{}}, true
			}
		}
	case "WriteString", "Write":
		if len(args) == 1 {
			if vs, ok := elems(args[0]); ok {
				add(vs)
				return []oval{oInt(len(vs)), oNil{}}, true
			}
		}
	case "Len":
		if len(args) == 0 {
			return []oval{oInt(buf.length())}, true
		}
	case "Reset":
		if len(args) == 0 {
			p.s.fields["buf"] = oSlice{typ: bytesT}
			return nil, true
		}
	case "String":
		if len(args) == 0 {
			vs, _ := elems(buf)
			cp := append([]oval{}, vs...)
			return []oval{oSlice{typ: types.Typ[types.String], arr: &cp, lo: 0, hi: len(cp), capEnd: len(cp)}}, true
		}
	case "Bytes":
		if len(args) == 0 && which == "bytes.Buffer" {
			return []oval{buf}, true
		}
	}
	return nil, false
}

// hexLib: encoding/hex on concrete bytes.
func (it *oInterp) hexLib(f *types.Func, args []oval, errV oval) ([]oval, bool) {
	if f.Pkg() == nil || f.Pkg().Path() != "encoding/hex" {
		return nil, false
	}
	strT := types.Typ[types.String]
	bytesT := types.NewSlice(types.Typ[types.Byte])
	concrete := func(v oval) ([]byte, bool) {
		if _, isNil := v.(oNil); isNil {
			return nil, true
		}
		s, ok := strOf(v)
		return []byte(s), ok
	}
	errOf := func(err error) oval {
		if err == nil {
			return oNil{}
		}
		return errV
	}
	switch f.Name() {
	case "EncodedLen", "DecodedLen":
		if len(args) == 1 {
			if n, ok := args[0].(oInt); ok {
				if f.Name() == "EncodedLen" {
					return []oval{oInt(hex.EncodedLen(int(n)))}, true
				}
				return []oval{oInt(hex.DecodedLen(int(n)))}, true
			}
		}
	case "EncodeToString":
		if len(args) == 1 {
			if b, ok := concrete(args[0]); ok {
				return []oval{strVal(strT, hex.EncodeToString(b))}, true
			}
			return []oval{oTop{"hex text of bytes that are not concrete: " + showVal(args[0])}}, true
		}
	case "DecodeString":
		if len(args) == 1 {
			if b, ok := concrete(args[0]); ok {
				out, err := hex.DecodeString(string(b))
				return []oval{strVal(bytesT, string(out)), errOf(err)}, true
			}
		}
	case "Encode", "Decode":
		if len(args) == 2 {
			dst, ok := args[0].(oSlice)
			src, ok2 := concrete(args[1])
			if !ok || !ok2 {
				break
			}
			var out []byte
			var err error
			if f.Name() == "Encode" {
				out = make([]byte, hex.EncodedLen(len(src)))
				hex.Encode(out, src)
			} else {
				out = make([]byte, hex.DecodedLen(len(src)))
				var n int
				n, err = hex.Decode(out, src)
				out = out[:n]
			}
			if dst.length() < len(out) {
				break // the real call panics
			}
			for i, b := range out {
				dst.set(i, oInt(b))
			}
			if f.Name() == "Encode" {
				return []oval{oInt(len(out))}, true
			}
			return []oval{oInt(len(out)), errOf(err)}, true
		}
	case "AppendEncode", "AppendDecode":
		if len(args) == 2 {
			var dst oSlice
			switch d := args[0].(type) {
			case oSlice:
				dst = d
			case oNil:
				dst = oSlice{typ: bytesT}
			default:
				return nil, false
			}
			src, ok := concrete(args[1])
			if !ok {
				break
			}
			var out []byte
			var err error
			if f.Name() == "AppendEncode" {
				out = hex.AppendEncode(nil, src)
			} else {
				out, err = hex.AppendDecode(nil, src)
			}
			vs := make([]oval, len(out))
			for i, b := range out {
				vs[i] = oInt(b)
			}
			if f.Name() == "AppendEncode" {
				return []oval{appendVals(dst, vs)}, true
			}
			return []oval{appendVals(dst, vs), errOf(err)}, true
		}
	}
	return nil, false
}
