package main

import (
	"bytes"
	"go/ast"
	"go/constant"
	"go/printer"
	"go/token"
	"go/types"
	"strings"

	"golang.org/x/tools/go/packages"
	"golang.org/x/tools/go/types/typeutil"
)

var printFset = token.NewFileSet()

// src renders an expression or statement as source text (literals included).
func src(n ast.Node) string {
	if n == nil {
		return ""
	}
	var b bytes.Buffer
	printer.Fprint(&b, printFset, n)
	s := b.String()
	s = strings.Join(strings.Fields(s), " ")
	return s
}

func unparen(e ast.Expr) ast.Expr { return ast.Unparen(e) }

// callee resolves the static callee of a call (function or method), or nil.
func callee(info *types.Info, call *ast.CallExpr) *types.Func {
	f, _ := typeutil.Callee(info, call).(*types.Func)
	return f
}

// builtinName returns the name of the builtin called, or "".
func builtinName(info *types.Info, call *ast.CallExpr) string {
	if id, ok := unparen(call.Fun).(*ast.Ident); ok {
		if b, ok := info.Uses[id].(*types.Builtin); ok {
			return b.Name()
		}
	}
	return ""
}

// constOf returns the folded constant value of e, or nil.
func constOf(info *types.Info, e ast.Expr) constant.Value {
	if tv, ok := info.Types[e]; ok {
		return tv.Value
	}
	return nil
}

func constInt(info *types.Info, e ast.Expr) (int64, bool) {
	v := constOf(info, e)
	if v == nil {
		return 0, false
	}
	v = constant.ToInt(v)
	if v.Kind() != constant.Int {
		return 0, false
	}
	return constant.Int64Val(v)
}

func constString(info *types.Info, e ast.Expr) (string, bool) {
	v := constOf(info, e)
	if v == nil || v.Kind() != constant.String {
		return "", false
	}
	return constant.StringVal(v), true
}

// objOf returns the object an identifier expression denotes.
func objOf(info *types.Info, e ast.Expr) types.Object {
	if id, ok := unparen(e).(*ast.Ident); ok {
		if o := info.Uses[id]; o != nil {
			return o
		}
		return info.Defs[id]
	}
	return nil
}

// typeName gives a short name for a type: Named → Name, *Named → *Name.
func typeName(t types.Type) string {
	switch t := t.(type) {
	case *types.Pointer:
		return "*" + typeName(t.Elem())
	case *types.Named:
		return t.Obj().Name()
	case *types.Alias:
		return typeName(types.Unalias(t))
	}
	return t.String()
}

// receiverParam returns the receiver variable of a method declaration.
func receiverVar(info *types.Info, fd *ast.FuncDecl) *types.Var {
	if fd.Recv == nil || len(fd.Recv.List) == 0 || len(fd.Recv.List[0].Names) == 0 {
		return nil
	}
	v, _ := info.Defs[fd.Recv.List[0].Names[0]].(*types.Var)
	return v
}

// paramVars returns the parameter variables of a function declaration in order
// (nil entries for unnamed/blank parameters).
func paramVars(info *types.Info, ft *ast.FuncType) []*types.Var {
	var out []*types.Var
	if ft.Params == nil {
		return nil
	}
	for _, f := range ft.Params.List {
		if len(f.Names) == 0 {
			out = append(out, nil)
			continue
		}
		for _, n := range f.Names {
			v, _ := info.Defs[n].(*types.Var)
			out = append(out, v)
		}
	}
	return out
}

func resultVars(info *types.Info, ft *ast.FuncType) []*types.Var {
	var out []*types.Var
	if ft.Results == nil {
		return nil
	}
	for _, f := range ft.Results.List {
		if len(f.Names) == 0 {
			out = append(out, nil)
			continue
		}
		for _, n := range f.Names {
			v, _ := info.Defs[n].(*types.Var)
			out = append(out, v)
		}
	}
	return out
}

// tsClause is a normalised type-switch clause.
type tsClause struct {
	Types   []types.Type // nil entry = `nil` case
	Default bool
	Clause  *ast.CaseClause
	Bound   *types.Var // variable bound in this clause (`switch v := x.(type)`), or nil
}

// typeSwitch normalises a type switch: operand expression, and clauses.
func typeSwitch(info *types.Info, sw *ast.TypeSwitchStmt) (operand ast.Expr, clauses []tsClause) {
	var ta *ast.TypeAssertExpr
	switch a := sw.Assign.(type) {
	case *ast.ExprStmt:
		ta, _ = unparen(a.X).(*ast.TypeAssertExpr)
	case *ast.AssignStmt:
		if len(a.Rhs) == 1 {
			ta, _ = unparen(a.Rhs[0]).(*ast.TypeAssertExpr)
		}
	}
	if ta != nil {
		operand = ta.X
	}
	for _, c := range sw.Body.List {
		cc := c.(*ast.CaseClause)
		cl := tsClause{Clause: cc, Default: cc.List == nil}
		for _, e := range cc.List {
			if tv, ok := info.Types[e]; ok && tv.IsType() {
				cl.Types = append(cl.Types, tv.Type)
			} else {
				cl.Types = append(cl.Types, nil)
			}
		}
		if v, ok := info.Implicits[cc].(*types.Var); ok {
			cl.Bound = v
		}
		clauses = append(clauses, cl)
	}
	return
}

// lenArg: if e is len(x) returns x.
func lenArg(info *types.Info, e ast.Expr) ast.Expr {
	call, ok := unparen(e).(*ast.CallExpr)
	if !ok || len(call.Args) != 1 {
		return nil
	}
	if builtinName(info, call) == "len" {
		return call.Args[0]
	}
	return nil
}

// sameExpr: structural equality of two expressions, identifiers compared by object.
func sameExpr(info *types.Info, a, b ast.Expr) bool {
	a, b = unparen(a), unparen(b)
	switch x := a.(type) {
	case *ast.Ident:
		y, ok := b.(*ast.Ident)
		if !ok {
			return false
		}
		ox, oy := objOf(info, x), objOf(info, y)
		if ox == nil || oy == nil {
			return x.Name == y.Name
		}
		return ox == oy
	case *ast.SelectorExpr:
		y, ok := b.(*ast.SelectorExpr)
		return ok && x.Sel.Name == y.Sel.Name && sameExpr(info, x.X, y.X)
	case *ast.IndexExpr:
		y, ok := b.(*ast.IndexExpr)
		return ok && sameExpr(info, x.X, y.X) && sameExpr(info, x.Index, y.Index)
	case *ast.StarExpr:
		y, ok := b.(*ast.StarExpr)
		return ok && sameExpr(info, x.X, y.X)
	case *ast.UnaryExpr:
		y, ok := b.(*ast.UnaryExpr)
		return ok && x.Op == y.Op && sameExpr(info, x.X, y.X)
	case *ast.BinaryExpr:
		y, ok := b.(*ast.BinaryExpr)
		return ok && x.Op == y.Op && sameExpr(info, x.X, y.X) && sameExpr(info, x.Y, y.Y)
	case *ast.BasicLit:
		y, ok := b.(*ast.BasicLit)
		return ok && x.Kind == y.Kind && x.Value == y.Value
	case *ast.CallExpr:
		y, ok := b.(*ast.CallExpr)
		if !ok || len(x.Args) != len(y.Args) || !sameExpr(info, x.Fun, y.Fun) {
			return false
		}
		for i := range x.Args {
			if !sameExpr(info, x.Args[i], y.Args[i]) {
				return false
			}
		}
		return true
	case *ast.TypeAssertExpr:
		y, ok := b.(*ast.TypeAssertExpr)
		if !ok || !sameExpr(info, x.X, y.X) {
			return false
		}
		tx, ty := info.TypeOf(x.Type), info.TypeOf(y.Type)
		return tx != nil && ty != nil && types.Identical(tx, ty)
	}
	return false
}

// enclosingInfo returns the types.Info for a declared repo function.
func (p *Prog) InfoOf(f *types.Func) *types.Info {
	if pk := p.DeclPkg(f); pk != nil {
		return pk.TypesInfo
	}
	return nil
}

// named returns the *types.Named behind t (through pointers/aliases), or nil.
func named(t types.Type) *types.Named {
	t = types.Unalias(t)
	if p, ok := t.(*types.Pointer); ok {
		t = types.Unalias(p.Elem())
	}
	n, _ := t.(*types.Named)
	return n
}

// isNamed reports whether t (or *t) is the named type pkgpath.name.
func isNamed(t types.Type, pkgpath, name string) bool {
	n := named(t)
	if n == nil || n.Obj().Name() != name {
		return false
	}
	if n.Obj().Pkg() == nil {
		return pkgpath == ""
	}
	return n.Obj().Pkg().Path() == pkgpath
}

// isFuncIn reports whether f is the function pkgpath.name (package-level).
func isFuncIn(f *types.Func, pkgpath, name string) bool {
	return f != nil && f.Pkg() != nil && f.Pkg().Path() == pkgpath && f.Name() == name &&
		f.Type().(*types.Signature).Recv() == nil
}

func constInt64(c *types.Const) (int64, bool) {
	v := constant.ToInt(c.Val())
	if v.Kind() != constant.Int {
		return 0, false
	}
	return constant.Int64Val(v)
}

type pkgT = packages.Package
