package main

// Model evaluation of the route package at the gonum boundary (C19).
//
// A small road network is built through the package's own NewNetwork and AddLink, and
// ShortestRoute is interpreted for both minimisation options.  Coordinates and speeds are
// symbols whose reference valuation is a concrete map (ranks read as coordinates); lengths and
// times are carried as sums of square roots and quotients and compared as such.  gonum's
// path.AStar is replaced by the driver's transcription of its algorithm (open queue ordered by
// g + h, closed set, unit costs when the graph is not a path.Weighted), which asks the
// *interpreted* graph for its neighbours, edge weights and heuristic values — so what is
// examined is what the package hands to the search: is the graph weighted, are the weights the
// link's length or time, is the heuristic a lower bound.
//
// The map holds three traps: by distance the best route runs through a node that is far from a
// cheap-looking alternative whose last hop is short; by time it runs over a fast detour through
// a node far away from the destination; and a one-hop direct link is both the longest and the
// slowest.  A search that ignores weights takes the direct link; a heuristic that overestimates
// (a slower speed than the fastest link, a multiple of the distance) closes the destination
// through the alternative first and returns a worse route.

import (
	"fmt"
	"go/token"
	"go/types"
	"math"
	"math/big"
	"sort"
	"strings"
)

type c19link struct {
	pts   []symPt
	speed int64
}

type c19m struct {
	c      *Ctx
	it     *oInterp
	cm     *clipModel
	val    map[string]float64
	weight *types.Interface // gonum path.Weighted
	notes  []string
}

func (m *c19m) callValue(fn oval, args []oval) ([]oval, string) {
	switch f := fn.(type) {
	case oBound:
		return m.it.Call(f.f, recvForMethod(f.f, f.recv), args, 1)
	case oFuncRef:
		return m.it.Call(f.f, nil, args, 1)
	case oFunc:
		return m.it.CallFunc(f, args)
	}
	return nil, "heuristic is " + showVal(fn)
}

// recvForMethod: the receiver value a method expects (pointer, or a copy of the struct).
func recvForMethod(f *types.Func, v oval) oval {
	_, wantPtr := f.Type().(*types.Signature).Recv().Type().(*types.Pointer)
	if iv, ok := v.(oIface); ok {
		v = iv.dyn
	}
	switch x := v.(type) {
	case oPtr:
		if !wantPtr && x.s != nil {
			return x.s.clone()
		}
	case *oStruct:
		if wantPtr {
			return oPtr{x}
		}
		return x.clone()
	}
	return v
}

func (m *c19m) num(v oval) (float64, bool) {
	if f, ok := v.(oFloat); ok {
		if f.r >= oInf {
			return math.Inf(1), true
		}
		if f.r <= -oInf {
			return math.Inf(-1), true
		}
	}
	p, ok := symOf(v)
	if !ok {
		return 0, false
	}
	return symEval(p, m.val)
}

type c19shortest struct {
	nodes map[int64]oval
	prev  map[int64]int64
	dist  map[int64]oval
	from  int64
}

// astar transcribes gonum's path.AStar over the interpreted graph.
func (m *c19m) astar(s, t, g, h oval) (*c19shortest, string) {
	giv, _ := g.(oIface)
	var gt types.Type = giv.styp
	if gt == nil {
		gt = dynTypeOf(g, nil)
	}
	if gt == nil {
		return nil, "graph of unknown type"
	}
	method := func(name string) *types.Func {
		obj, _, _ := types.LookupFieldOrMethod(gt, true, nil, name)
		f, _ := obj.(*types.Func)
		if f == nil || m.it.p.Decl(f) == nil {
			return nil
		}
		return f
	}
	idOf := func(n oval) (int64, string) {
		iv, ok := n.(oIface)
		if !ok {
			iv = oIface{dyn: n}
		}
		dt := dynTypeOf(iv, nil)
		if dt == nil {
			return 0, "node of unknown type"
		}
		obj, _, _ := types.LookupFieldOrMethod(dt, true, nil, "ID")
		f, _ := obj.(*types.Func)
		if f == nil {
			return 0, "node without ID()"
		}
		res, why := m.it.Call(f, recvForMethod(f, iv.dyn), nil, 1)
		if why != "" {
			return 0, why
		}
		id, ok := res[0].(oInt)
		if !ok {
			return 0, "ID() returns " + showVal(res[0])
		}
		return int64(id), ""
	}
	fromF := method("From")
	if fromF == nil {
		return nil, "the graph has no From method in the repository"
	}
	weighted := types.Implements(gt, m.weight) || types.Implements(types.NewPointer(gt), m.weight)
	weightF := method("Weight")
	hasEdgeF := method("HasEdgeBetween")
	if !weighted {
		m.notes = append(m.notes, "unweighted")
	}
	weight := func(x, y int64) (oval, bool, string) {
		if weighted && weightF != nil {
			res, why := m.it.Call(weightF, recvForMethod(weightF, g), []oval{oInt(x), oInt(y)}, 1)
			if why != "" {
				return nil, false, why
			}
			ok, _ := res[1].(oBool)
			return res[0], bool(ok), ""
		}
		// gonum's UniformCost: 0 for x == y, 1 for an edge, +Inf otherwise
		if x == y {
			return oSym{poly{}}, true, ""
		}
		if hasEdgeF != nil {
			res, why := m.it.Call(hasEdgeF, recvForMethod(hasEdgeF, g), []oval{oInt(x), oInt(y)}, 1)
			if why == "" {
				if b, ok := res[0].(oBool); ok && !bool(b) {
					return oFloat{oInf}, false, ""
				}
			}
		}
		return oSym{polyConst(big.NewRat(1, 1))}, true, ""
	}
	heur := func(a, b oval) (float64, string) {
		if _, isNil := h.(oNil); isNil {
			return 0, ""
		}
		res, why := m.callValue(h, []oval{a, b})
		if why != "" {
			return 0, why
		}
		v, ok := m.num(res[0])
		if !ok {
			return 0, "the heuristic returns " + showVal(res[0])
		}
		return v, ""
	}
	sid, why := idOf(s)
	if why != "" {
		return nil, why
	}
	tid, why := idOf(t)
	if why != "" {
		return nil, why
	}
	sh := &c19shortest{nodes: map[int64]oval{sid: s, tid: t}, prev: map[int64]int64{}, dist: map[int64]oval{sid: oSym{poly{}}}, from: sid}
	type qn struct {
		id     int64
		g, f   float64
		gv     oval
		serial int
	}
	var open []qn
	visited := map[int64]bool{}
	hv, why := heur(s, t)
	if why != "" {
		return nil, why
	}
	open = append(open, qn{sid, 0, hv, oSym{poly{}}, 0})
	serial := 0
	for len(open) > 0 {
		sort.SliceStable(open, func(i, j int) bool { return open[i].f < open[j].f })
		u := open[0]
		open = open[1:]
		if u.id == tid {
			break
		}
		visited[u.id] = true
		res, why := m.it.Call(fromF, recvForMethod(fromF, g), []oval{oInt(u.id)}, 1)
		if why != "" {
			return nil, why
		}
		hl, ok := res[0].(oIface)
		var list []oval
		if ok {
			if hh, ok := hl.dyn.(oHost); ok && hh.kind == "nodes" {
				list, _ = hh.v.([]oval)
			}
		}
		// deterministic order (gonum's iterator order is by construction order; the network builds
		// it from a map): by node id
		type nv struct {
			id int64
			v  oval
		}
		var ns []nv
		for _, v := range list {
			if _, isI := v.(oIface); !isI {
				v = oIface{dyn: v}
			}
			id, why := idOf(v)
			if why != "" {
				return nil, why
			}
			ns = append(ns, nv{id, v})
		}
		sort.Slice(ns, func(i, j int) bool { return ns[i].id < ns[j].id })
		for _, n := range ns {
			if visited[n.id] {
				continue
			}
			sh.nodes[n.id] = n.v
			w, ok, why := weight(u.id, n.id)
			if why != "" {
				return nil, why
			}
			if !ok {
				return nil, "panic: path: A* unexpected invalid weight"
			}
			wv, okn := m.num(w)
			if !okn {
				return nil, "edge weight is " + showVal(w)
			}
			if wv < 0 {
				return nil, "panic: path: A* negative edge weight"
			}
			g2 := u.g + wv
			var gsum oval = oTop{"sum"}
			if a, ok1 := symOf(u.gv); ok1 {
				if b, ok2 := symOf(w); ok2 {
					gsum = symVal(a.add(b, 1))
				}
			}
			idx := -1
			for i := range open {
				if open[i].id == n.id {
					idx = i
				}
			}
			hv, why := heur(n.v, t)
			if why != "" {
				return nil, why
			}
			switch {
			case idx < 0:
				serial++
				sh.prev[n.id], sh.dist[n.id] = u.id, gsum
				open = append(open, qn{n.id, g2, g2 + hv, gsum, serial})
			case g2 < open[idx].g:
				sh.prev[n.id], sh.dist[n.id] = u.id, gsum
				open[idx].g, open[idx].f, open[idx].gv = g2, g2+hv, gsum
			}
		}
	}
	return sh, ""
}

func c19model(c *Ctx) {
	p := c.P.Pkg("route")
	newNet := c.P.Func("route", "NewNetwork")
	addLink := c.P.Method("route", "Network", "AddLink")
	shortest := c.P.Method("route", "Network", "ShortestRoute")
	for _, f := range []*types.Func{newNet, addLink, shortest} {
		if f == nil || c.P.Decl(f) == nil {
			c.Unk("C19.R1", "route#model", token.NoPos, "NewNetwork, AddLink or ShortestRoute do not resolve")
			return
		}
	}
	pos := c.P.Decl(shortest).Pos()
	dep := c.P.Dep(gonumPath)
	var weighted *types.Interface
	if dep != nil {
		if o, _ := dep.Types.Scope().Lookup("Weighted").(*types.TypeName); o != nil {
			weighted, _ = o.Type().Underlying().(*types.Interface)
		}
	}
	if weighted == nil {
		c.Unk("C19.R1", "route#model", pos, "gonum's path.Weighted does not resolve")
		return
	}
	cm := newClipModel(c)
	m := &c19m{c: c, it: cm.it, cm: cm, weight: weighted}
	m.val = map[string]float64{"__ranks": 1}
	m.it.symbolic = true
	m.it.valuation = m.val
	m.it.maxDepth = 48
	m.it.maxLoop = 256
	errV := oIface{opaque: &oOpaque{name: "error", isError: true}}
	var lastShortest *c19shortest
	m.it.stub = func(f *types.Func, recv oval, args []oval) ([]oval, bool) {
		if m.it.p.Decl(f) != nil || f.Pkg() == nil {
			return nil, false
		}
		path := f.Pkg().Path()
		switch {
		case path == gonumPath && f.Name() == "AStar" && len(args) == 4:
			sh, why := m.astar(args[0], args[1], args[2], args[3])
			if why != "" {
				m.notes = append(m.notes, "astar: "+why)
				return []oval{oTop{why}, oInt(0)}, true
			}
			lastShortest = sh
			return []oval{oHost{kind: "shortest", key: fmt.Sprint(len(sh.prev)), v: sh}, oInt(len(sh.prev))}, true
		case path == gonumPath && f.Name() == "To" && len(args) == 1:
			h, ok := recv.(oHost)
			sh, _ := h.v.(*c19shortest)
			id, okid := args[0].(oInt)
			nodesT := f.Type().(*types.Signature).Results().At(0).Type()
			if !ok || sh == nil || !okid {
				return []oval{oTop{"Shortest.To"}, oTop{"?"}}, true
			}
			if _, reached := sh.dist[int64(id)]; !reached {
				return []oval{oSlice{typ: nodesT}, oFloat{oInf}}, true
			}
			var rev []oval
			cur := int64(id)
			for steps := 0; steps < 64; steps++ {
				rev = append(rev, sh.nodes[cur])
				if cur == sh.from {
					break
				}
				cur = sh.prev[cur]
			}
			var out []oval
			for i := len(rev) - 1; i >= 0; i-- {
				out = append(out, rev[i])
			}
			return []oval{oSlice{typ: nodesT, arr: &out, lo: 0, hi: len(out), capEnd: len(out)}, sh.dist[int64(id)]}, true
		case strings.HasSuffix(path, "graph/iterator") && f.Name() == "NewOrderedNodes" && len(args) == 1:
			var list []oval
			if sl, ok := args[0].(oSlice); ok {
				for i := 0; i < sl.length(); i++ {
					list = append(list, sl.at(i))
				}
			}
			return []oval{oIface{dyn: oHost{kind: "nodes", key: fmt.Sprint(len(list)), v: list}}}, true
		case path == "fmt" && (f.Name() == "Errorf"):
			return []oval{errV}, true
		case path == "fmt" && (f.Name() == "Sprintf" || f.Name() == "Sprint"):
			return []oval{strVal(types.Typ[types.String], "<formatted text>")}, true
		}
		return nil, false
	}
	_ = p
	// the map
	A, B, G, H, C, F := symPt{0, 2}, symPt{180, 6}, symPt{100, 4}, symPt{150, 5}, symPt{200, 8}, symPt{-300, 10}
	links := []c19link{
		{[]symPt{A, G}, 12},
		{[]symPt{G, H}, 12},
		{[]symPt{H, C}, 12},
		// a winding direct link from a node of the best route to the destination
		{[]symPt{G, {130, 140}, {170, -120}, C}, 12},
		{[]symPt{A, {60, 25}, {120, -25}, B}, 12},
		{[]symPt{B, C}, 12},
		{[]symPt{A, F}, 90},
		{[]symPt{F, {-50, -200}, C}, 90},
		{[]symPt{A, {100, 350}, C}, 14},
		// a second component
		{[]symPt{{1000, 1002}, {1100, 1006}}, 30},
	}
	specLenOf := func(l []symPt) poly {
		s := poly{}
		for i := 0; i+1 < len(l); i++ {
			dx := l[i+1].X().add(l[i].X(), -1)
			dy := l[i+1].Y().add(l[i].Y(), -1)
			s = s.add(symSqrt(symMul(dx, dx).add(symMul(dy, dy), 1)), 1)
		}
		return s
	}
	mkLine := func(l []symPt) oSlice {
		var vals []oval
		for _, pt := range l {
			vals = append(vals, m.it.point(cm.ptT, pt.x, pt.y))
		}
		return cm.sliceOf(cm.lsT, vals)
	}
	constOf := func(name string) oval {
		if k, ok := p.Types.Scope().Lookup(name).(*types.Const); ok {
			if q, ok := symFromConstant(k.Val()); ok {
				return oSym{q}
			}
		}
		return nil
	}
	type verdictT struct{ bad, unk string }
	verdicts := map[string]*verdictT{}
	keys := []string{"weighted-graph", "heuristic(Distance)", "heuristic(Time)", "weights", "totals", "start-end", "symmetric", "query-pure"}
	for _, k := range keys {
		verdicts[k] = &verdictT{}
	}
	bad := func(k, format string, a ...interface{}) {
		if verdicts[k].bad == "" {
			verdicts[k].bad = fmt.Sprintf(format, a...)
		}
	}
	unk := func(k, format string, a ...interface{}) {
		if verdicts[k].unk == "" {
			verdicts[k].unk = fmt.Sprintf(format, a...)
		}
	}
	// every simple path A…C over the link table, with its cost
	type route struct {
		idx  []int // link indices in order
		dist poly
		time poly
	}
	endpoints := func(l c19link) (symPt, symPt) { return l.pts[0], l.pts[len(l.pts)-1] }
	var allRoutes func(from, to symPt, used map[int]bool, seen map[symPt]bool) []route
	allRoutes = func(from, to symPt, used map[int]bool, seen map[symPt]bool) []route {
		if from == to {
			return []route{{}}
		}
		var out []route
		for i, l := range links {
			a, b := endpoints(l)
			var next symPt
			switch {
			case a == from:
				next = b
			case b == from:
				next = a
			default:
				continue
			}
			if used[i] || seen[next] {
				continue
			}
			used[i], seen[next] = true, true
			for _, r := range allRoutes(next, to, used, seen) {
				ln := specLenOf(l.pts)
				inv, _ := symInv(polyVar(rankVar(l.speed)))
				out = append(out, route{append([]int{i}, r.idx...), ln.add(r.dist, 1), symMul(ln, inv).add(r.time, 1)})
			}
			used[i], seen[next] = false, false
		}
		return out
	}
	for _, opt := range []string{"Distance", "Time"} {
		ov := constOf(opt)
		hk := "heuristic(" + opt + ")"
		if ov == nil {
			unk(hk, "the option constant %s does not resolve", opt)
			continue
		}
		c.Evals(1)
		res, why := m.it.Call(newNet, nil, []oval{ov}, 0)
		if why != "" {
			unk(hk, "NewNetwork is not interpretable: %s", why)
			continue
		}
		net, ok := res[0].(oPtr)
		if !ok || net.s == nil {
			unk(hk, "NewNetwork returns %s", showVal(res[0]))
			continue
		}
		failed := false
		for _, l := range links {
			c.Evals(1)
			if _, why := m.it.Call(addLink, net, []oval{mkLine(l.pts), oFloat{l.speed}}, 0); why != "" {
				unk(hk, "AddLink is not interpretable: %s", why)
				failed = true
				break
			}
		}
		if failed {
			continue
		}
		// start and end in different components: an empty route with zero totals
		{
			c.Evals(1)
			res, why := m.it.Call(shortest, recvForMethod(shortest, net), []oval{m.it.point(cm.ptT, 1, 3), m.it.point(cm.ptT, 1001, 1003)}, 0)
			switch {
			case strings.HasPrefix(why, "panic:"):
				bad("totals", "minimising %s, start and end in different components: ShortestRoute panics (%s)", opt, why)
			case why != "":
				unk("totals", "minimising %s, start and end in different components: not interpretable: %s", opt, why)
			default:
				if sl, ok := res[0].(oSlice); ok && sl.length() != 0 {
					bad("totals", "minimising %s: a route of %d links is returned between nodes that are not connected", opt, sl.length())
				}
				for i, what := range []string{"distance", "time"} {
					if q, ok := symOf(res[1+i]); !ok || len(q) != 0 {
						bad("totals", "minimising %s: between nodes that are not connected the route is empty but the %s returned is %s, not the sum over its (no) links", opt, what, showVal(res[1+i]))
					}
				}
			}
		}
		for _, dir := range []struct {
			from, to   symPt
			qf, qt     symPt
			label, key string
		}{{A, C, symPt{1, 3}, symPt{199, 9}, "from next to A to next to C", hk}, {C, A, symPt{199, 9}, symPt{1, 3}, "from next to C to next to A", "symmetric"}} {
			before := netDump(net.s)
			m.notes = nil
			c.Evals(1)
			recv := recvForMethod(shortest, net)
			res, why := m.it.Call(shortest, recv, []oval{m.it.point(cm.ptT, dir.qf.x, dir.qf.y), m.it.point(cm.ptT, dir.qt.x, dir.qt.y)}, 0)
			for _, n := range m.notes {
				if strings.HasPrefix(n, "astar: ") && why != "" {
					why = "the search over the interpreted graph failed: " + strings.TrimPrefix(n, "astar: ")
				}
			}
			if why != "" {
				if strings.HasPrefix(why, "panic:") {
					bad(dir.key, "minimising %s, %s: ShortestRoute panics (%s)", opt, dir.label, why)
				} else {
					unk(dir.key, "minimising %s: ShortestRoute is not interpretable: %s", opt, why)
				}
				continue
			}
			for _, r := range res {
				if t, isTop := r.(oTop); isTop {
					unk(dir.key, "minimising %s: a result of ShortestRoute is %s", opt, showVal(t))
				}
			}
			if verdicts[dir.key].unk != "" {
				continue
			}
			if after := netDump(net.s); after != before {
				bad("query-pure", "minimising %s: ShortestRoute changes the network (a later query does not see the same links)", opt)
			}
			for _, n := range m.notes {
				if n == "unweighted" {
					bad("weighted-graph", "the graph handed to path.AStar is not a path.Weighted: the search counts links instead of %s", strings.ToLower(opt))
				}
			}
			// which links does the route consist of?
			var got []int
			okRoute := true
			if sl, ok := res[0].(oSlice); ok {
				for i := 0; i < sl.length(); i++ {
					pts, ok := ptsOf(sl.at(i))
					idx := -1
					if ok {
						for k, l := range links {
							if len(l.pts) == len(pts) {
								same := true
								for j := range pts {
									if pts[j].x != l.pts[j].x || pts[j].y != l.pts[j].y {
										same = false
									}
								}
								if same {
									idx = k
								}
							}
						}
					}
					if idx < 0 {
						okRoute = false
					}
					got = append(got, idx)
				}
			} else {
				okRoute = false
			}
			tk := "totals"
			if dir.key == "symmetric" {
				tk = "symmetric"
			}
			if !okRoute {
				bad(tk, "minimising %s, %s: the route %s is not a sequence of the network's links", opt, dir.label, showVal(res[0]))
				continue
			}
			// connected from → to
			cur := dir.from
			for _, i := range got {
				a, b := endpoints(links[i])
				switch cur {
				case a:
					cur = b
				case b:
					cur = a
				default:
					bad(tk, "minimising %s, %s: the links of the route %v do not join up", opt, dir.label, got)
				}
			}
			if cur != dir.to {
				bad(tk, "minimising %s, %s: the route %v does not end at the node nearest to the destination", opt, dir.label, got)
			}
			// totals
			wantD, wantT := poly{}, poly{}
			for _, i := range got {
				ln := specLenOf(links[i].pts)
				inv, _ := symInv(polyVar(rankVar(links[i].speed)))
				wantD = wantD.add(ln, 1)
				wantT = wantT.add(symMul(ln, inv), 1)
			}
			if gd, ok := symOf(res[1]); !ok || !symRationalEqual(gd, wantD) {
				bad("totals", "minimising %s, %s: the distance returned is %.120s, the links of the returned route add up to %.120s", opt, dir.label, showVal(res[1]), wantD.canon())
			}
			if gt, ok := symOf(res[2]); !ok || !symRationalEqual(gt, wantT) {
				bad("weights", "minimising %s, %s: the time returned is %.120s, length ÷ speed over the links of the returned route is %.120s", opt, dir.label, showVal(res[2]), wantT.canon())
			}
			// start / end distances
			sd := specLenOf([]symPt{dir.qf, dir.from})
			ed := specLenOf([]symPt{dir.qt, dir.to})
			if g, ok := symOf(res[3]); !ok || !g.equal(sd) {
				bad("start-end", "minimising %s, %s: startDistance is %.100s, the distance to the nearest node is %.100s", opt, dir.label, showVal(res[3]), sd.canon())
			}
			if g, ok := symOf(res[4]); !ok || !g.equal(ed) {
				bad("start-end", "minimising %s, %s: endDistance is %.100s, the distance to the nearest node is %.100s", opt, dir.label, showVal(res[4]), ed.canon())
			}
			// optimality
			best, bestV := -1, math.Inf(1)
			routes := allRoutes(dir.from, dir.to, map[int]bool{}, map[symPt]bool{dir.from: true})
			for i, r := range routes {
				cost := r.dist
				if opt == "Time" {
					cost = r.time
				}
				if v, ok := symEval(cost, m.val); ok && v < bestV {
					best, bestV = i, v
				}
			}
			gotCost := wantD
			if opt == "Time" {
				gotCost = wantT
			}
			gv, _ := symEval(gotCost, m.val)
			if best >= 0 && gv > bestV*(1+1e-9) {
				why := "the heuristic handed to the search is not a lower bound of the remaining cost, or the edge weights are not the links' " + map[string]string{"Distance": "lengths", "Time": "times"}[opt]
				if len(got) == 1 {
					why = "the search minimised the number of links (edge weights not used)"
					if verdicts["weighted-graph"].bad != "" {
						continue
					}
				}
				bad(dir.key, "minimising %s, %s: the route over links %v costs %.4g, the route over links %v costs %.4g — %s", opt, dir.label, got, gv, routes[best].idx, bestV, why)
			}
		}
	}
	_ = lastShortest
	ruleOf := map[string]string{"weighted-graph": "C19.R1", "heuristic(Distance)": "C19.R2", "heuristic(Time)": "C19.R2", "weights": "C19.R3", "totals": "C19.R3", "start-end": "C19.R3", "symmetric": "C19.R4", "query-pure": "C19.R5"}
	anyUnk := ""
	for _, k := range keys {
		if verdicts[k].unk != "" {
			anyUnk = verdicts[k].unk
		}
	}
	for _, k := range keys {
		v := verdicts[k]
		cons := "route#model(" + k + ")"
		switch {
		case v.bad != "":
			c.Bad(ruleOf[k], cons, pos, "%s", v.bad)
		case v.unk != "":
			c.Unk(ruleOf[k], cons, pos, "%s", v.unk)
		case anyUnk != "":
			c.Unk(ruleOf[k], cons, pos, "%s", anyUnk)
		default:
			c.OK(ruleOf[k], cons, pos, "holds on the model map for both options and both directions")
		}
	}
}

// netDump renders the network's link table for before/after comparison.
func netDump(net *oStruct) string {
	var sb strings.Builder
	var keys []string
	for k := range net.fields {
		keys = append(keys, k)
	}
	sort.Strings(keys)
	for _, k := range keys {
		switch v := net.fields[k].(type) {
		case oMap:
			n := 0
			if v.keys != nil {
				n = len(*v.keys)
			}
			fmt.Fprintf(&sb, "%s:map[%d]", k, n)
			if v.keys != nil {
				for i, kk := range *v.keys {
					fmt.Fprintf(&sb, " %s", showVal(kk))
					if inner, ok := (*v.vals)[i].(oMap); ok && inner.keys != nil {
						fmt.Fprintf(&sb, "{%d}", len(*inner.keys))
					}
				}
			}
		case oPtr:
			fmt.Fprintf(&sb, "%s:ptr", k)
		default:
			fmt.Fprintf(&sb, "%s:%s", k, showVal(v))
		}
		sb.WriteString("; ")
	}
	return sb.String()
}
