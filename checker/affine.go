package main

// E3: affine loop / index analysis.  Iteration sets are intervals whose ends
// are `len(x)+k` or integer constants; index expressions are `i+c`.

import (
	"go/ast"
	"go/token"
	"go/types"
)

// Aff is len(Of)+K, or the constant K when Of == nil.
type Aff struct {
	Of ast.Expr
	K  int64
	ok bool
}

// fnScope gathers per-function facts needed to resolve local aliases.
type fnScope struct {
	info *types.Info
	body ast.Node
	defs map[types.Object][]ast.Expr // every value assigned to a local (nil expr = unknown write)
}

func newFnScope(info *types.Info, body ast.Node) *fnScope {
	s := &fnScope{info: info, body: body, defs: map[types.Object][]ast.Expr{}}
	ast.Inspect(body, func(n ast.Node) bool {
		switch n := n.(type) {
		case *ast.AssignStmt:
			for i, l := range n.Lhs {
				o := objOf(info, l)
				if o == nil {
					continue
				}
				if n.Tok == token.ASSIGN || n.Tok == token.DEFINE {
					if len(n.Rhs) == len(n.Lhs) {
						s.defs[o] = append(s.defs[o], n.Rhs[i])
					} else if len(n.Rhs) == 1 {
						s.defs[o] = append(s.defs[o], n.Rhs[0]) // tuple-valued call / comma-ok
					} else {
						s.defs[o] = append(s.defs[o], nil)
					}
				} else {
					s.defs[o] = append(s.defs[o], nil)
				}
			}
		case *ast.IncDecStmt:
			if o := objOf(info, n.X); o != nil {
				s.defs[o] = append(s.defs[o], nil)
			}
		case *ast.RangeStmt:
			for _, e := range []ast.Expr{n.Key, n.Value} {
				if e != nil {
					if o := objOf(info, e); o != nil {
						s.defs[o] = append(s.defs[o], nil)
					}
				}
			}
		case *ast.ValueSpec:
			for i, nm := range n.Names {
				o := info.Defs[nm]
				if o == nil {
					continue
				}
				if i < len(n.Values) {
					s.defs[o] = append(s.defs[o], n.Values[i])
				} else if len(n.Values) == 0 {
					s.defs[o] = append(s.defs[o], nil)
				}
			}
		case *ast.UnaryExpr:
			if n.Op == token.AND {
				if o := objOf(info, n.X); o != nil {
					s.defs[o] = append(s.defs[o], nil) // address taken: unknown writes
				}
			}
		}
		return true
	})
	return s
}

// Loop describes a recognised counting loop.
type Loop struct {
	Stmt  ast.Stmt
	Body  *ast.BlockStmt
	Idx   types.Object // index variable (may be nil for `for _, v := range`)
	Val   types.Object // range value variable (nil otherwise)
	Over  ast.Expr     // ranged collection (range loops), canonicalised
	Lo    Aff          // smallest index visited
	Hi    Aff          // one past the largest index visited
	Down  bool
	Range bool
}
