package main

// E3: affine loop / index analysis.  Iteration sets are intervals whose ends
// are `len(x)+k` or integer constants; index expressions are `i+c`.

import (
	"go/ast"
	"go/token"
	"go/types"
)

// Aff is len(Of)+K, or the constant K when Of == nil.
type Aff struct {
	Of ast.Expr
	K  int64
	ok bool
}

func (a Aff) plus(k int64) Aff { a.K += k; return a }

// fnScope gathers per-function facts needed to resolve local aliases.
type fnScope struct {
	info *types.Info
	body ast.Node
	defs map[types.Object][]ast.Expr // every value assigned to a local (nil expr = unknown write)
}

func newFnScope(info *types.Info, body ast.Node) *fnScope {
	s := &fnScope{info: info, body: body, defs: map[types.Object][]ast.Expr{}}
	ast.Inspect(body, func(n ast.Node) bool {
		switch n := n.(type) {
		case *ast.AssignStmt:
			for i, l := range n.Lhs {
				o := objOf(info, l)
				if o == nil {
					continue
				}
				if n.Tok == token.ASSIGN || n.Tok == token.DEFINE {
					if len(n.Rhs) == len(n.Lhs) {
						s.defs[o] = append(s.defs[o], n.Rhs[i])
					} else if len(n.Rhs) == 1 {
						s.defs[o] = append(s.defs[o], n.Rhs[0]) // tuple-valued call / comma-ok
					} else {
						s.defs[o] = append(s.defs[o], nil)
					}
				} else {
					s.defs[o] = append(s.defs[o], nil)
				}
			}
		case *ast.IncDecStmt:
			if o := objOf(info, n.X); o != nil {
				s.defs[o] = append(s.defs[o], nil)
			}
		case *ast.RangeStmt:
			for _, e := range []ast.Expr{n.Key, n.Value} {
				if e != nil {
					if o := objOf(info, e); o != nil {
						s.defs[o] = append(s.defs[o], nil)
					}
				}
			}
		case *ast.ValueSpec:
			for i, nm := range n.Names {
				o := info.Defs[nm]
				if o == nil {
					continue
				}
				if i < len(n.Values) {
					s.defs[o] = append(s.defs[o], n.Values[i])
				} else if len(n.Values) == 0 {
					s.defs[o] = append(s.defs[o], nil)
				}
			}
		case *ast.UnaryExpr:
			if n.Op == token.AND {
				if o := objOf(info, n.X); o != nil {
					s.defs[o] = append(s.defs[o], nil) // address taken: unknown writes
				}
			}
		}
		return true
	})
	return s
}

// singleDef returns the unique defining expression of a local variable that is
// assigned exactly once, or nil.
func (s *fnScope) singleDef(o types.Object) ast.Expr {
	d := s.defs[o]
	if len(d) == 1 && d[0] != nil {
		return d[0]
	}
	return nil
}

// aff resolves an int expression into len(x)+k / k, following single-def locals.
func (s *fnScope) aff(e ast.Expr) Aff {
	return s.affDepth(e, 0)
}

func (s *fnScope) affDepth(e ast.Expr, depth int) Aff {
	if depth > 6 {
		return Aff{}
	}
	e = unparen(e)
	if k, ok := constInt(s.info, e); ok {
		return Aff{K: k, ok: true}
	}
	switch x := e.(type) {
	case *ast.CallExpr:
		if a := lenArg(s.info, x); a != nil {
			return Aff{Of: s.canon(a), ok: true}
		}
		// conversion int(...)
		if len(x.Args) == 1 {
			if tv, ok := s.info.Types[x.Fun]; ok && tv.IsType() {
				if b, ok := tv.Type.Underlying().(*types.Basic); ok && b.Info()&types.IsInteger != 0 {
					return s.affDepth(x.Args[0], depth+1)
				}
			}
		}
		// x.Len() on a slice-backed type whose Len returns len(receiver) is not assumed.
	case *ast.BinaryExpr:
		if x.Op == token.ADD || x.Op == token.SUB {
			l := s.affDepth(x.X, depth+1)
			r := s.affDepth(x.Y, depth+1)
			if l.ok && r.ok && r.Of == nil {
				if x.Op == token.ADD {
					return l.plus(r.K)
				}
				return l.plus(-r.K)
			}
			if l.ok && r.ok && l.Of == nil && x.Op == token.ADD {
				return r.plus(l.K)
			}
		}
	case *ast.Ident:
		if o := objOf(s.info, x); o != nil {
			if d := s.singleDef(o); d != nil {
				return s.affDepth(d, depth+1)
			}
		}
	}
	return Aff{}
}

// canon follows single-def local aliases of a collection expression
// (`ml2 := g.(T)` stays as ml2; conversions T(x) are stripped).
func (s *fnScope) canon(e ast.Expr) ast.Expr {
	e = unparen(e)
	if call, ok := e.(*ast.CallExpr); ok && len(call.Args) == 1 {
		if tv, ok := s.info.Types[call.Fun]; ok && tv.IsType() {
			return s.canon(call.Args[0])
		}
	}
	return e
}

// Loop describes a recognised counting loop.
type Loop struct {
	Stmt  ast.Stmt
	Body  *ast.BlockStmt
	Idx   types.Object // index variable (may be nil for `for _, v := range`)
	Val   types.Object // range value variable (nil otherwise)
	Over  ast.Expr     // ranged collection (range loops), canonicalised
	Lo    Aff          // smallest index visited
	Hi    Aff          // one past the largest index visited
	Down  bool
	Range bool
}

// loopOf recognises `for`/`range` loops over an index interval.  It returns
// nil when the loop is not in the recognised family (caller decides whether
// that is undecided).
func (s *fnScope) loopOf(st ast.Stmt) *Loop {
	switch st := st.(type) {
	case *ast.RangeStmt:
		t := s.info.TypeOf(st.X)
		if t == nil {
			return nil
		}
		switch u := t.Underlying().(type) {
		case *types.Slice, *types.Array:
		case *types.Pointer:
			if _, ok := u.Elem().Underlying().(*types.Array); !ok {
				return nil
			}
		case *types.Basic:
			if u.Info()&types.IsInteger != 0 { // range n
				l := &Loop{Stmt: st, Body: st.Body, Range: true, Lo: Aff{ok: true}, Hi: s.aff(st.X)}
				if st.Key != nil {
					l.Idx = objOf(s.info, st.Key)
				}
				if !l.Hi.ok {
					return nil
				}
				return l
			}
			return nil
		default:
			return nil
		}
		l := &Loop{Stmt: st, Body: st.Body, Range: true, Over: s.canon(st.X), Lo: Aff{ok: true}}
		l.Hi = Aff{Of: s.canon(st.X), ok: true}
		// range over a reslice x[a:b]
		if se, ok := unparen(st.X).(*ast.SliceExpr); ok {
			_ = se
			return nil
		}
		if st.Key != nil {
			if id, ok := st.Key.(*ast.Ident); !ok || id.Name != "_" {
				l.Idx = objOf(s.info, st.Key)
			}
		}
		if st.Value != nil {
			if id, ok := st.Value.(*ast.Ident); !ok || id.Name != "_" {
				l.Val = objOf(s.info, st.Value)
			}
		}
		if l.Idx != nil && s.writtenIn(l.Idx, st.Body) {
			return nil
		}
		return l
	case *ast.ForStmt:
		if st.Init == nil || st.Cond == nil || st.Post == nil {
			return nil
		}
		post, ok := st.Post.(*ast.IncDecStmt)
		var idx types.Object
		down := false
		if ok {
			idx = objOf(s.info, post.X)
			down = post.Tok == token.DEC
		} else if as, ok := st.Post.(*ast.AssignStmt); ok && len(as.Lhs) == 1 && (as.Tok == token.ADD_ASSIGN || as.Tok == token.SUB_ASSIGN) {
			if k, ok := constInt(s.info, as.Rhs[0]); ok && k == 1 {
				idx = objOf(s.info, as.Lhs[0])
				down = as.Tok == token.SUB_ASSIGN
			}
		}
		if idx == nil {
			return nil
		}
		init, ok := st.Init.(*ast.AssignStmt)
		if !ok || len(init.Lhs) != len(init.Rhs) {
			return nil
		}
		var start Aff
		extra := map[types.Object]ast.Expr{}
		for i, lh := range init.Lhs {
			o := objOf(s.info, lh)
			if o == idx {
				start = s.aff(init.Rhs[i])
			} else if o != nil {
				extra[o] = init.Rhs[i]
			}
		}
		if !start.ok {
			return nil
		}
		if s.writtenIn(idx, st.Body) {
			return nil
		}
		cond, ok := unparen(st.Cond).(*ast.BinaryExpr)
		if !ok {
			return nil
		}
		resolve := func(e ast.Expr) Aff {
			if o := objOf(s.info, e); o != nil {
				if d, ok := extra[o]; ok && !s.writtenIn(o, st.Body) {
					return s.aff(d)
				}
			}
			return s.aff(e)
		}
		op := cond.Op
		var bound Aff
		if objOf(s.info, cond.X) == idx {
			bound = resolve(cond.Y)
		} else if objOf(s.info, cond.Y) == idx {
			bound = resolve(cond.X)
			switch op {
			case token.LSS:
				op = token.GTR
			case token.GTR:
				op = token.LSS
			case token.LEQ:
				op = token.GEQ
			case token.GEQ:
				op = token.LEQ
			}
		} else {
			return nil
		}
		if !bound.ok {
			return nil
		}
		l := &Loop{Stmt: st, Body: st.Body, Idx: idx, Down: down}
		if !down {
			l.Lo = start
			switch op {
			case token.LSS, token.NEQ:
				l.Hi = bound
			case token.LEQ:
				l.Hi = bound.plus(1)
			default:
				return nil
			}
		} else {
			l.Hi = start.plus(1)
			switch op {
			case token.GEQ:
				l.Lo = bound
			case token.GTR, token.NEQ:
				l.Lo = bound.plus(1)
			default:
				return nil
			}
		}
		return l
	}
	return nil
}

// writtenIn: is obj assigned (or its address taken) inside n?
func (s *fnScope) writtenIn(obj types.Object, n ast.Node) bool {
	w := false
	ast.Inspect(n, func(m ast.Node) bool {
		switch m := m.(type) {
		case *ast.AssignStmt:
			for _, l := range m.Lhs {
				if objOf(s.info, l) == obj {
					w = true
				}
			}
		case *ast.IncDecStmt:
			if objOf(s.info, m.X) == obj {
				w = true
			}
		case *ast.UnaryExpr:
			if m.Op == token.AND && objOf(s.info, m.X) == obj {
				w = true
			}
		case *ast.RangeStmt:
			if (m.Key != nil && objOf(s.info, m.Key) == obj) || (m.Value != nil && objOf(s.info, m.Value) == obj) {
				w = true
			}
		}
		return !w
	})
	return w
}
