package main

// Float classes: a small abstract domain for code that branches on the *value* of an ordinate
// (a whole-number fast path in a formatter, a magnitude guard in front of an integer
// conversion).  The order domain knows ordinates only by rank; under a float class every ordinate
// of the model is additionally known to lie in one region of the float64 line — the regions the
// statement of C17 names (whole numbers, fractions, values that need an exponent, values beyond
// the int64 range, negative zero).  Within a class
//
//   - a comparison of an ordinate with a constant of the source is decided when the whole region
//     lies on one side of the constant, and is unknown otherwise;
//   - int64(x) is exact for whole numbers below 2^63, a truncation (a different number) for
//     fractions, and an overflow beyond the range;
//   - math.Trunc and friends return x itself for whole numbers and a different number otherwise;
//   - math.Signbit is the sign of the region.
//
// A model opts in by setting oInterp.floatClass; everything here is inert otherwise.

import (
	"fmt"
	"go/token"
	"go/types"
	"math"
)

type floatClass struct {
	name   string
	lo, hi float64 // lo ≤ |x| ≤ hi
	neg    bool    // x < 0 (or x = -0 for the zero class)
	whole  bool    // x is a whole number
	zero   bool    // x is a zero
}

// the regions of C17's quantifier
var c17floatClasses = []floatClass{
	{name: "fractions of moderate size", lo: 1.5, hi: 999.5},
	{name: "negative fractions of moderate size", lo: 1.5, hi: 999.5, neg: true},
	{name: "small whole numbers", lo: 1, hi: 1000, whole: true},
	{name: "small negative whole numbers", lo: 1, hi: 1000, neg: true, whole: true},
	{name: "whole numbers between 2^53 and 2^63 (17 significant digits)", lo: 1e16, hi: 9e18, whole: true},
	{name: "values beyond the int64 range", lo: 2e19, hi: 1e300, whole: true},
	{name: "negative values beyond the int64 range", lo: 2e19, hi: 1e300, neg: true, whole: true},
	{name: "tiny values that need an exponent", lo: 1e-300, hi: 1e-7},
	{name: "zero", zero: true, whole: true},
	{name: "negative zero", zero: true, whole: true, neg: true},
}

// oConstF: a float constant of the source, kept as a number under a float class.
type oConstF struct{ v float64 }

// oFloatOf: a float derived from the ordinate of rank r: its truncation (a different number, the
// class not being whole) or its absolute value.
type oFloatOf struct {
	r    int64
	kind string // "trunc", "abs"
}

// oIntOf: int64(x) for the ordinate of rank r: "exact" (the same number), "trunc", "overflow".
type oIntOf struct {
	r    int64
	kind string
}

// oTokBad: a number written into a modelled text that does not parse back to the ordinate.
type oTokBad struct {
	r   int64
	why string
}

func (fc *floatClass) interval() (float64, float64) {
	if fc.zero {
		return 0, 0
	}
	if fc.neg {
		return -fc.hi, -fc.lo
	}
	return fc.lo, fc.hi
}

// rangeOf: the region a value of the model lies in, when it is one of this domain's values.
func (fc *floatClass) rangeOf(v oval) (lo, hi float64, ok bool) {
	switch x := v.(type) {
	case oFloat:
		if x.r >= oInf || x.r <= -oInf {
			return 0, 0, false
		}
		lo, hi = fc.interval()
		return lo, hi, true
	case oConstF:
		return x.v, x.v, true
	case oInt:
		return float64(x), float64(x), true
	case oIntOf:
		if x.kind == "exact" {
			lo, hi = fc.interval()
			return lo, hi, true
		}
	case oFloatOf:
		switch x.kind {
		case "abs":
			if fc.zero {
				return 0, 0, true
			}
			return fc.lo, fc.hi, true
		case "trunc":
			lo, hi = fc.interval()
			return math.Trunc(lo), math.Trunc(hi), true
		}
	}
	return 0, 0, false
}

func (fc *floatClass) mine(v oval) bool {
	switch v.(type) {
	case oConstF, oIntOf, oFloatOf:
		return true
	}
	return false
}

// compare decides l op r when one side is a value of this domain; ok=false leaves the decision
// to the interpreter (same-rank comparisons, integers) or to ⊤.
func (fc *floatClass) compare(op token.Token, l, r oval) (oval, bool) {
	_, lf := l.(oFloat)
	_, rf := r.(oFloat)
	if !fc.mine(l) && !fc.mine(r) && !(lf && isIntConst(r)) && !(rf && isIntConst(l)) {
		return nil, false
	}
	// the ordinate against its own derivative: Trunc(x) == x exactly for whole numbers (where the
	// derivative is x itself and never reaches here), |x| == x exactly for non-negative ones
	sameRank := func(a, b oval) (string, bool) {
		af, ok1 := a.(oFloat)
		bo, ok2 := b.(oFloatOf)
		if ok1 && ok2 && af.r == bo.r {
			return bo.kind, true
		}
		return "", false
	}
	for _, pr := range [][2]oval{{l, r}, {r, l}} {
		if kind, ok := sameRank(pr[0], pr[1]); ok && (op == token.EQL || op == token.NEQ) {
			equal := false
			switch kind {
			case "trunc":
				equal = fc.whole
			case "abs":
				equal = !fc.neg || fc.zero
			}
			return oBool(equal == (op == token.EQL)), true
		}
	}
	llo, lhi, ok1 := fc.rangeOf(l)
	rlo, rhi, ok2 := fc.rangeOf(r)
	if !ok1 || !ok2 {
		return oTop{fmt.Sprintf("comparison of %s and %s under the class %q", showVal(l), showVal(r), fc.name)}, true
	}
	var res, known bool
	switch op {
	case token.LSS:
		res, known = lhi < rlo, lhi < rlo || llo >= rhi
	case token.LEQ:
		res, known = lhi <= rlo, lhi <= rlo || llo > rhi
	case token.GTR:
		res, known = llo > rhi, llo > rhi || lhi <= rlo
	case token.GEQ:
		res, known = llo >= rhi, llo >= rhi || lhi < rlo
	case token.EQL, token.NEQ:
		switch {
		case lhi < rlo || rhi < llo:
			res, known = op == token.NEQ, true
		case llo == lhi && rlo == rhi && llo == rlo:
			res, known = op == token.EQL, true
		}
	}
	if !known {
		return oTop{fmt.Sprintf("comparison of %s (in [%g, %g]) and %s (in [%g, %g]) is not decided for %s", showVal(l), llo, lhi, showVal(r), rlo, rhi, fc.name)}, true
	}
	return oBool(res), true
}

func isIntConst(v oval) bool { _, ok := v.(oInt); return ok }

// convert: T(v) between floats and integers.
func (fc *floatClass) convert(v oval, to types.Type) (oval, bool) {
	b, ok := to.Underlying().(*types.Basic)
	if !ok {
		return nil, false
	}
	switch {
	case b.Info()&types.IsInteger != 0:
		x, ok := v.(oFloat)
		if !ok || x.r >= oInf || x.r <= -oInf {
			if c, ok := v.(oConstF); ok && c.v == math.Trunc(c.v) && math.Abs(c.v) < 1<<62 {
				return oInt(int64(c.v)), true
			}
			return nil, false
		}
		limit := math.Ldexp(1, 63)
		switch b.Kind() {
		case types.Int32, types.Uint32:
			limit = math.Ldexp(1, 31)
		case types.Int16, types.Uint16:
			limit = math.Ldexp(1, 15)
		case types.Int8, types.Uint8:
			limit = math.Ldexp(1, 7)
		}
		unsigned := b.Info()&types.IsUnsigned != 0
		switch {
		case fc.zero:
			return oIntOf{x.r, "exact"}, true
		case fc.lo >= limit || (unsigned && fc.neg):
			return oIntOf{x.r, "overflow"}, true
		case fc.hi >= limit:
			return oTop{fmt.Sprintf("integer conversion of r%d, which may or may not fit, for %s", x.r, fc.name)}, true
		case fc.whole:
			return oIntOf{x.r, "exact"}, true
		default:
			return oIntOf{x.r, "trunc"}, true
		}
	case b.Info()&types.IsFloat != 0:
		switch x := v.(type) {
		case oIntOf:
			switch x.kind {
			case "exact":
				return oFloat{x.r}, true
			case "trunc":
				return oFloatOf{x.r, "trunc"}, true
			}
			return oTop{fmt.Sprintf("float of the overflowed integer conversion of r%d", x.r)}, true
		case oInt:
			return oConstF{float64(x)}, true
		}
	}
	return nil, false
}

// mathCall: the functions of package math that tell the regions apart.
func (fc *floatClass) mathCall(name string, args []oval) ([]oval, bool) {
	if len(args) != 1 {
		return nil, false
	}
	x, ok := args[0].(oFloat)
	if !ok || x.r >= oInf || x.r <= -oInf {
		if c, ok := args[0].(oConstF); ok {
			switch name {
			case "Abs":
				return []oval{oConstF{math.Abs(c.v)}}, true
			case "Trunc":
				return []oval{oConstF{math.Trunc(c.v)}}, true
			case "Floor":
				return []oval{oConstF{math.Floor(c.v)}}, true
			case "IsNaN":
				return []oval{oBool(math.IsNaN(c.v))}, true
			}
		}
		return nil, false
	}
	switch name {
	case "Trunc", "Floor", "Ceil", "Round", "RoundToEven":
		if fc.whole {
			return []oval{x}, true
		}
		return []oval{oFloatOf{x.r, "trunc"}}, true
	case "Signbit":
		return []oval{oBool(fc.neg)}, true
	case "Abs":
		if !fc.neg {
			return []oval{x}, true
		}
		return []oval{oFloatOf{x.r, "abs"}}, true
	case "IsNaN":
		return []oval{oBool(false)}, true
	case "IsInf":
		return nil, false // takes two arguments; left to the model
	}
	return nil, false
}

// intText: what the decimal text of an integer converted from the ordinate parses back to.
func (fc *floatClass) intText(v oval) (oval, bool) {
	x, ok := v.(oIntOf)
	if !ok {
		return nil, false
	}
	switch {
	case x.kind == "overflow":
		return oTokBad{x.r, "the decimal text of an integer conversion that overflowed (" + fc.name + "): not the ordinate"}, true
	case x.kind == "trunc":
		return oTokBad{x.r, "the decimal text of the truncated ordinate (" + fc.name + "): the fraction is lost"}, true
	case fc.zero && fc.neg:
		return oTokBad{x.r, "`0` for negative zero: it parses back to +0"}, true
	}
	return oTokF{x.r}, true // the digits of a whole number parse back to it exactly
}

// ---------------------------------------------------------------- signs of differences and products
//
// Opt-in (oInterp.signArith): the difference of two rank-valued ordinates is known by its sign —
// the order of the ranks — and by whether an infinity is involved; a product of such differences
// follows IEEE-754 (0·∞ is not a number).  Finite ordinates are taken to be moderate: their
// differences and products neither overflow nor underflow.  Enough to follow a test like
// `Area() == 0`, which the order domain alone cannot.

type oSignV struct{ k int }

const (
	sgNaN = iota
	sgNegInf
	sgNeg
	sgZero
	sgPos
	sgPosInf
)

func (s oSignV) String() string {
	return [...]string{"NaN", "-Inf", "negative", "zero", "positive", "+Inf"}[s.k]
}

// signSub: a − b for two ranks.
func signSub(a, b oFloat) oSignV {
	aInf, bInf := 0, 0
	if a.r >= oInf {
		aInf = 1
	} else if a.r <= -oInf {
		aInf = -1
	}
	if b.r >= oInf {
		bInf = 1
	} else if b.r <= -oInf {
		bInf = -1
	}
	switch {
	case aInf != 0 && aInf == bInf:
		return oSignV{sgNaN}
	case aInf == 1 || bInf == -1:
		return oSignV{sgPosInf}
	case aInf == -1 || bInf == 1:
		return oSignV{sgNegInf}
	case a.r > b.r:
		return oSignV{sgPos}
	case a.r < b.r:
		return oSignV{sgNeg}
	}
	return oSignV{sgZero}
}

func signMul(a, b oSignV) oSignV {
	if a.k == sgNaN || b.k == sgNaN {
		return oSignV{sgNaN}
	}
	inf := func(k int) bool { return k == sgNegInf || k == sgPosInf }
	neg := func(k int) bool { return k == sgNegInf || k == sgNeg }
	if (a.k == sgZero && inf(b.k)) || (b.k == sgZero && inf(a.k)) {
		return oSignV{sgNaN}
	}
	if a.k == sgZero || b.k == sgZero {
		return oSignV{sgZero}
	}
	negative := neg(a.k) != neg(b.k)
	switch {
	case inf(a.k) || inf(b.k):
		if negative {
			return oSignV{sgNegInf}
		}
		return oSignV{sgPosInf}
	case negative:
		return oSignV{sgNeg}
	}
	return oSignV{sgPos}
}

// signBinop: x op y under sign arithmetic; ok=false leaves the expression to the interpreter.
func signBinop(op token.Token, l, r oval) (oval, bool) {
	switch op {
	case token.SUB:
		a, ok1 := l.(oFloat)
		b, ok2 := r.(oFloat)
		if ok1 && ok2 {
			return signSub(a, b), true
		}
	case token.MUL:
		a, ok1 := l.(oSignV)
		b, ok2 := r.(oSignV)
		if ok1 && ok2 {
			return signMul(a, b), true
		}
	}
	return nil, false
}

// signCompare: a sign against the constant zero.
func signCompare(op token.Token, l, r oval) (oval, bool) {
	isZero := func(v oval) bool {
		switch x := v.(type) {
		case oTop:
			return x.why == "float constant 0"
		case oConstF:
			return x.v == 0
		case oInt:
			return x == 0
		}
		return false
	}
	s, ok := l.(oSignV)
	flip := false
	if !ok {
		s, ok = r.(oSignV)
		flip = true
		if !ok || !isZero(l) {
			return nil, false
		}
	} else if !isZero(r) {
		if _, both := r.(oSignV); both {
			return oTop{"comparison of two differences or products known by sign only"}, true
		}
		return nil, false
	}
	if s.k == sgNaN {
		return oBool(op == token.NEQ), true
	}
	c := 0 // sign of s relative to zero
	switch s.k {
	case sgNegInf, sgNeg:
		c = -1
	case sgPos, sgPosInf:
		c = 1
	}
	if flip {
		c = -c
	}
	switch op {
	case token.LSS:
		return oBool(c < 0), true
	case token.LEQ:
		return oBool(c <= 0), true
	case token.GTR:
		return oBool(c > 0), true
	case token.GEQ:
		return oBool(c >= 0), true
	case token.EQL:
		return oBool(c == 0), true
	case token.NEQ:
		return oBool(c != 0), true
	}
	return nil, false
}
