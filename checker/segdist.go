package main

// Point-to-segment distance (shared by C03 "Distance is the minimum Euclidean
// distance to any segment" and C13, whose deviation test uses it).
//
// The function projects p on the line through the segment and measures to
// S + b·(E−S).  That is the distance to the *segment* only if b ∈ [0,1] at the
// interpolation, and it is a number only if the division producing b cannot be
// 0/0.  Both are path facts: a structured flow pass collects the comparisons
// known to hold (a>b, a≥b, a≠b over identifiers, pure call texts and the
// constants 0 and 1), closes them under transitivity and checks
//
//	at   b := N / D          D ≠ 0           (D>0, or D≠0, or D>N ∧ N>0, …)
//	at   S.X + b*v.X         0 ≤ b ≤ 1       (guards on b; or b=N/D with N≥0, D≥N, D>0;
//	                                          or math.Max(·,0)/math.Min(·,1) clamps)

import (
	"go/ast"
	"go/types"
)

type cmpFacts map[string]bool

type segClient struct {
	info   *types.Info
	key    func(ast.Expr) string
	onStmt func(ast.Node, cmpFacts)
}
