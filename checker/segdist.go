package main

// Point-to-segment distance (shared by C03 "Distance is the minimum Euclidean
// distance to any segment" and C13, whose deviation test uses it).
//
// The function projects p on the line through the segment and measures to
// S + b·(E−S).  That is the distance to the *segment* only if b ∈ [0,1] at the
// interpolation, and it is a number only if the division producing b cannot be
// 0/0.  Both are path facts: a structured flow pass collects the comparisons
// known to hold (a>b, a≥b, a≠b over identifiers, pure call texts and the
// constants 0 and 1), closes them under transitivity and checks
//
//	at   b := N / D          D ≠ 0           (D>0, or D≠0, or D>N ∧ N>0, …)
//	at   S.X + b*v.X         0 ≤ b ≤ 1       (guards on b; or b=N/D with N≥0, D≥N, D>0;
//	                                          or math.Max(·,0)/math.Min(·,1) clamps)

import (
	"fmt"
	"go/ast"
	"go/constant"
	"go/token"
	"go/types"
	"strings"
)

func segDistFuncs(c *Ctx) []*types.Func {
	ptT := c.P.NamedType("geom", "Point")
	var out []*types.Func
	called := map[*types.Func]bool{}
	if m := c.P.Method("geom", "LineString", "Distance"); m != nil && c.P.Decl(m) != nil {
		ast.Inspect(c.P.Decl(m).Body, func(n ast.Node) bool {
			if call, ok := n.(*ast.CallExpr); ok {
				if f := callee(c.P.InfoOf(m), call); f != nil {
					called[f] = true
				}
			}
			return true
		})
	}
	for _, fn := range c.P.RepoFuncs() {
		pk := c.P.DeclPkg(fn)
		if pk != c.P.Pkg("geom") && pk != c.P.Pkg("op") {
			continue
		}
		sig := fn.Type().(*types.Signature)
		if sig.Recv() != nil || sig.Params().Len() != 3 || sig.Results().Len() != 1 || !isFloat64(sig.Results().At(0).Type()) {
			continue
		}
		ok := true
		for i := 0; i < 3; i++ {
			if !types.Identical(sig.Params().At(i).Type(), ptT) {
				ok = false
			}
		}
		if !ok {
			continue
		}
		// a distance routine: called from LineString.Distance, or dividing / building a point
		// (orientation predicates such as isLeft share the signature but do neither)
		cand := called[fn]
		ast.Inspect(c.P.Decl(fn).Body, func(n ast.Node) bool {
			switch x := n.(type) {
			case *ast.BinaryExpr:
				if x.Op == token.QUO {
					cand = true
				}
			case *ast.CompositeLit:
				if types.Identical(c.P.InfoOf(fn).TypeOf(x), ptT) {
					cand = true
				}
			}
			return true
		})
		if cand {
			out = append(out, fn)
		}
	}
	return out
}

// checkSegmentDistance files obligations under the given rule id.
func checkSegmentDistance(c *Ctx, rule string) {
	fns := segDistFuncs(c)
	if len(fns) == 0 {
		c.Unk(rule, "geom#point-to-segment-distance", token.NoPos, "no (Point, Point, Point) float64 function found")
		return
	}
	for _, fn := range fns {
		segDistOne(c, rule, fn)
	}
}

type cmpFacts map[string]bool

func segDistOne(c *Ctx, rule string, fn *types.Func) {
	info := c.P.InfoOf(fn)
	fd := c.P.Decl(fn)
	name := c.P.FuncName(fn)
	sc := newFnScope(info, fd.Body)
	ps := paramVars(info, fd.Type)
	key := func(e ast.Expr) string {
		e = unparen(e)
		if tv, ok := info.Types[e]; ok && tv.Value != nil {
			if f, ok := constant.Float64Val(constant.ToFloat(tv.Value)); ok {
				return fmt.Sprintf("#%g", f)
			}
		}
		return src(e)
	}
	// ---- the interpolation Point{S.X + b*v.X, S.Y + b*v.Y}
	var interp *ast.CompositeLit
	var bObj types.Object
	ast.Inspect(fd.Body, func(n ast.Node) bool {
		cl, ok := n.(*ast.CompositeLit)
		if !ok || len(cl.Elts) != 2 || interp != nil {
			return true
		}
		var bs []types.Object
		for _, el := range cl.Elts {
			if kv, ok := el.(*ast.KeyValueExpr); ok {
				el = kv.Value
			}
			add, ok := unparen(el).(*ast.BinaryExpr)
			if !ok || add.Op != token.ADD {
				return true
			}
			for _, pr := range [][2]ast.Expr{{add.X, add.Y}, {add.Y, add.X}} {
				base, ok1 := unparen(pr[0]).(*ast.SelectorExpr)
				mul, ok2 := unparen(pr[1]).(*ast.BinaryExpr)
				if !ok1 || !ok2 || mul.Op != token.MUL {
					continue
				}
				isEnd := false
				for k := 1; k < 3 && k < len(ps); k++ {
					if ps[k] != nil && objOf(info, base.X) == ps[k] {
						isEnd = true
					}
				}
				if !isEnd {
					continue
				}
				for _, f := range []ast.Expr{mul.X, mul.Y} {
					if id, ok := unparen(f).(*ast.Ident); ok && isFloat64(info.TypeOf(id)) {
						bs = append(bs, objOf(info, id))
					}
				}
			}
		}
		if len(bs) == 2 && bs[0] == bs[1] && bs[0] != nil {
			interp, bObj = cl, bs[0]
		}
		return true
	})
	if interp == nil {
		c.Unk(rule, name+"#interpolation", fd.Pos(), "the foot point S + b·(E−S) is not built in the recognised form Point{S.X + b*v.X, S.Y + b*v.Y}")
		return
	}
	bName := bObj.Name()
	// ---- definition of b
	ds := sc.defs[bObj]
	if len(ds) != 1 || ds[0] == nil {
		c.Unk(rule, name+"#parameter", interp.Pos(), "the projection parameter %s has %d definitions", bName, len(ds))
		return
	}
	def := unparen(ds[0])
	clampLo, clampHi := false, false
	for {
		call, ok := def.(*ast.CallExpr)
		if !ok || len(call.Args) != 2 {
			break
		}
		f := callee(info, call)
		isMax, isMin := isFuncIn(f, "math", "Max"), isFuncIn(f, "math", "Min")
		if !isMax && !isMin {
			break
		}
		var inner ast.Expr
		for i := 0; i < 2; i++ {
			k := key(call.Args[i])
			if isMax && k == "#0" {
				clampLo, inner = true, call.Args[1-i]
			}
			if isMin && k == "#1" {
				clampHi, inner = true, call.Args[1-i]
			}
		}
		if inner == nil {
			break
		}
		def = unparen(inner)
	}
	var num, den ast.Expr
	if q, ok := def.(*ast.BinaryExpr); ok && q.Op == token.QUO {
		num, den = q.X, q.Y
	}
	// ---- flow
	holds := func(s cmpFacts, rel, x, y string) bool {
		// gt/ge closure by DFS over recorded facts
		type edge struct {
			to     string
			strict bool
		}
		adj := map[string][]edge{}
		for f := range s {
			p := strings.SplitN(f, "|", 3)
			if len(p) == 3 && (p[0] == "gt" || p[0] == "ge") {
				adj[p[1]] = append(adj[p[1]], edge{p[2], p[0] == "gt"})
			}
		}
		adj["#1"] = append(adj["#1"], edge{"#0", true})
		if rel == "ne" {
			if s["ne|"+x+"|"+y] || s["ne|"+y+"|"+x] {
				return true
			}
		}
		var dfs func(at string, strict bool, seen map[string]bool) bool
		target := y
		dfs = func(at string, strict bool, seen map[string]bool) bool {
			if at == target && (strict || rel == "ge") {
				return true
			}
			k := fmt.Sprintf("%s/%v", at, strict)
			if seen[k] {
				return false
			}
			seen[k] = true
			for _, e := range adj[at] {
				if dfs(e.to, strict || e.strict, seen) {
					return true
				}
			}
			return false
		}
		switch rel {
		case "gt", "ge":
			if rel == "ge" && x == y {
				return true
			}
			return dfs(x, false, map[string]bool{})
		case "ne":
			target = y
			if dfs(x, false, map[string]bool{}) && func() bool { rel2 := rel; rel = "gt"; r := dfs(x, false, map[string]bool{}); rel = rel2; return r }() {
				return true
			}
			target = x
			rel = "gt"
			r := dfs(y, false, map[string]bool{})
			rel = "ne"
			return r
		}
		return false
	}
	divChecked, interpChecked := false, false
	var problems []string
	var probPos token.Pos
	cl := &segClient{info: info, key: key}
	cl.onStmt = func(n ast.Node, s cmpFacts) {
		if num != nil && containsNode(n, den) && !divChecked {
			divChecked = true
			d := key(den)
			if !(holds(s, "gt", d, "#0") || holds(s, "ne", d, "#0") || holds(s, "gt", "#0", d)) {
				problems = append(problems, fmt.Sprintf("`%s / %s` is evaluated without knowing %s ≠ 0: for a zero-length segment it is 0/0 = NaN, NaN passes every range test, and the distance returned is NaN", src(num), src(den), src(den)))
				probPos = den.Pos()
			}
		}
		if containsNode(n, interp) && !interpChecked {
			interpChecked = true
			lo := clampLo || holds(s, "ge", bName, "#0")
			hi := clampHi || holds(s, "ge", "#1", bName)
			if num != nil {
				nk, dk := key(num), key(den)
				posD := holds(s, "gt", dk, "#0")
				if posD && holds(s, "ge", nk, "#0") {
					lo = true
				}
				if posD && holds(s, "ge", dk, nk) {
					hi = true
				}
			}
			if !lo {
				problems = append(problems, fmt.Sprintf("at the foot point %s may be negative: the distance is measured to the line's extension before the segment start", bName))
				probPos = interp.Pos()
			}
			if !hi {
				problems = append(problems, fmt.Sprintf("at the foot point nothing bounds %s by 1: for a point beyond the segment's end the distance is measured to the infinite line, not to the end point, so Distance under-reports and the simplifier's deviation test accepts shortcuts it must reject", bName))
				probPos = interp.Pos()
			}
		}
	}
	fl := &Flow[cmpFacts]{C: cl, Info: info}
	fl.Run(fd.Body, cmpFacts{})
	if len(fl.Unsupported) > 0 {
		c.Unk(rule, name+"#clamped-projection", fl.Unsupported[0].Pos(), "unsupported control flow")
		return
	}
	if !interpChecked || (num != nil && !divChecked) {
		c.Unk(rule, name+"#clamped-projection", fd.Pos(), "the division or the interpolation statement was not reached by the flow pass")
		return
	}
	if len(problems) > 0 {
		c.Bad(rule, name+"#clamped-projection", probPos, "%s", strings.Join(problems, "; "))
		return
	}
	c.OK(rule, name+"#clamped-projection", interp.Pos(), "0 ≤ %s ≤ 1 at the foot point and the divisor is non-zero on every path", bName)
}

type segClient struct {
	info   *types.Info
	key    func(ast.Expr) string
	onStmt func(ast.Node, cmpFacts)
}

func (c *segClient) Copy(s cmpFacts) cmpFacts {
	o := cmpFacts{}
	for k := range s {
		o[k] = true
	}
	return o
}
func (c *segClient) Join(a, b cmpFacts) cmpFacts {
	o := cmpFacts{}
	for k := range a {
		if b[k] {
			o[k] = true
		}
	}
	return o
}
func (c *segClient) Equal(a, b cmpFacts) bool {
	if len(a) != len(b) {
		return false
	}
	for k := range a {
		if !b[k] {
			return false
		}
	}
	return true
}
func (c *segClient) Stmt(n ast.Node, s cmpFacts) cmpFacts {
	if rs, ok := n.(*ast.RangeStmt); ok {
		n = rs.X
	}
	c.onStmt(n, s)
	// kill facts about reassigned identifiers
	kill := func(e ast.Expr) {
		if id, ok := unparen(e).(*ast.Ident); ok {
			for k := range s {
				for _, part := range strings.Split(k, "|")[1:] {
					if part == id.Name || strings.Contains(part, id.Name+".") || strings.Contains(part, "("+id.Name) || strings.Contains(part, id.Name+",") || strings.Contains(part, ", "+id.Name) {
						delete(s, k)
					}
				}
			}
		}
	}
	switch x := n.(type) {
	case *ast.AssignStmt:
		if x.Tok != token.DEFINE {
			for _, l := range x.Lhs {
				kill(l)
			}
		}
	case *ast.IncDecStmt:
		kill(x.X)
	}
	return s
}
func (c *segClient) Branch(cond ast.Expr, truth bool, s cmpFacts) cmpFacts {
	for _, at := range conjuncts(cond, truth) {
		b, ok := unparen(at.E).(*ast.BinaryExpr)
		if !ok {
			continue
		}
		x, y := c.key(b.X), c.key(b.Y)
		op := b.Op
		if !at.Truth {
			switch op {
			case token.LSS:
				op = token.GEQ
			case token.LEQ:
				op = token.GTR
			case token.GTR:
				op = token.LEQ
			case token.GEQ:
				op = token.LSS
			case token.EQL:
				op = token.NEQ
			case token.NEQ:
				op = token.EQL
			default:
				continue
			}
			// note: the negation of a float comparison also holds for NaN operands, where neither
			// order holds; the facts are used only with operands whose finiteness follows from a
			// non-zero divisor, which is the other obligation
		}
		switch op {
		case token.LSS:
			s["gt|"+y+"|"+x] = true
		case token.LEQ:
			s["ge|"+y+"|"+x] = true
		case token.GTR:
			s["gt|"+x+"|"+y] = true
		case token.GEQ:
			s["ge|"+x+"|"+y] = true
		case token.NEQ:
			s["ne|"+x+"|"+y] = true
		case token.EQL:
			s["ge|"+x+"|"+y] = true
			s["ge|"+y+"|"+x] = true
		}
	}
	return s
}
func (c *segClient) Return(r *ast.ReturnStmt, s cmpFacts) {}
func (c *segClient) TypeCase(sw *ast.TypeSwitchStmt, cc *ast.CaseClause, s cmpFacts) cmpFacts {
	return s
}
