package main

// C08.R5 (model evaluation) — conic projections: the inverse honours the sign of the cone
// constant.  Every registered projection is built from symbolic parameters twice, once with the
// standard parallels valued in the northern hemisphere and once in the southern; the inverse
// member is interpreted on a symbolic projected position (valued at what the forward member
// gives for a position of that hemisphere, so branches follow a real round trip).  In the
// longitude term, the polar angle atan2(a, b) that is scaled by a quantity following the
// standard parallels must be taken of arguments that are mirrored through the apex when the
// cone constant is negative: a_south = −a_north and b_south = −b_north as terms.  A projection
// whose longitude term has no such angle is not a conic and is not held to anything.

import (
	"fmt"
	"go/token"
	"go/types"
	"os"
	"sort"
	"strings"
)

type coneAngle struct {
	atom string
	a, b poly
}

func c08coneModel(c *Ctx, rule string) {
	reg := projRegistry(c)
	byCtor := map[*types.Func][]string{}
	for n, f := range reg.names {
		byCtor[f] = append(byCtor[f], n)
	}
	var ctors []*types.Func
	for f := range byCtor {
		sort.Strings(byCtor[f])
		ctors = append(ctors, f)
	}
	sort.Slice(ctors, func(i, j int) bool { return byCtor[ctors[i]][0] < byCtor[ctors[j]][0] })
	members := 0
	for _, ctor := range ctors {
		if c.P.Decl(ctor) == nil {
			continue
		}
		name := byCtor[ctor][0]
		cons := c.P.FuncName(ctor) + "#inverse-cone-sign"
		pos := c.P.Decl(ctor).Pos()
		north, whyN := coneAngles(c, ctor, name, +1)
		if whyN != "" {
			// not interpretable on ordinary parameters: nothing can be said about this constructor
			if os.Getenv("VERIF_TRACE") != "" {
				fmt.Fprintf(os.Stderr, "TRACE cone %s north: %s\n", name, whyN)
			}
			continue
		}
		if len(north) == 0 {
			continue
		}
		members++
		south, whyS := coneAngles(c, ctor, name, -1)
		if whyS != "" {
			c.Unk(rule, cons, pos, "the inverse is not interpretable for standard parallels in the southern hemisphere: %s", whyS)
			continue
		}
		bad := ""
		if len(south) != len(north) {
			bad = fmt.Sprintf("the longitude has %d polar angles scaled by the cone constant for northern parallels and %d for southern ones", len(north), len(south))
		}
		for i := range north {
			if bad != "" {
				break
			}
			n, s := north[i], south[i]
			if len(n.a.add(s.a, 1)) != 0 || len(n.b.add(s.b, 1)) != 0 {
				same := len(n.a.add(s.a, -1)) == 0 && len(n.b.add(s.b, -1)) == 0
				if same {
					bad = fmt.Sprintf("the polar angle is atan2(%s, %s) whatever the sign of the cone constant: for standard parallels in the southern hemisphere the constant is negative, the forward member gives a negative radius, and the angle of the bare offsets is off by π (the longitude by π over the constant)", short(n.a.canon()), short(n.b.canon()))
				} else {
					bad = fmt.Sprintf("the polar angle is atan2(%s, %s) for northern parallels and atan2(%s, %s) for southern ones: not the same offsets mirrored through the apex", short(n.a.canon()), short(n.b.canon()), short(s.a.canon()), short(s.b.canon()))
				}
			}
		}
		if bad != "" {
			c.Bad(rule, cons, pos, "%s", bad)
		} else {
			c.OK(rule, cons, pos, "the %d polar angle(s) scaled by the cone constant are taken of the offsets mirrored through the apex when the constant is negative", len(north))
		}
	}
	if members == 0 {
		c.Unk(rule, "proj#conic-family", token.NoPos, "no registered projection has a longitude of the form atan2(…)/N with N following the standard parallels")
	}
}

func short(s string) string {
	if len(s) > 120 {
		return s[:117] + "…"
	}
	return s
}

// coneAngles: the atan2 atoms of the inverse's longitude term that are multiplied by a factor
// mentioning a standard parallel, for parallels of the given hemisphere.
func coneAngles(c *Ctx, ctor *types.Func, name string, hemi float64) ([]coneAngle, string) {
	m, parse := newC20m(c)
	if m == nil {
		return nil, "proj.Parse does not resolve"
	}
	m.it.maxLoop = 64
	val := m.it.valuation
	val["p1"], val["p2"], val["p3"], val["p4"] = hemi*33, hemi*45, hemi*39, -96
	val["lam"], val["phi"] = -1.62, hemi*0.72
	val["p40"] = 14
	symWiden = val
	defer func() { symWiden = nil }()
	symResetEval()
	sr, why := m.run(parse, "+proj="+name+" +lat_1=P1 +lat_2=P2 +lat_0=P3 +lon_0=P4 +x_0=P5 +y_0=P6 +k_0=P13 +a=P7 +rf=P8 +no_defs")
	if why != "" {
		return nil, why
	}
	c.Evals(1)
	res, why := m.it.Call(ctor, nil, []oval{oPtr{sr}}, 0)
	if why != "" {
		return nil, why
	}
	if len(res) < 3 {
		return nil, "constructor result"
	}
	if eq, ok := oEqual(res[2], oNil{}); !ok || !eq {
		return nil, "the constructor returns an error"
	}
	c.Evals(1)
	r, why := m.it.CallValue(res[0], []oval{oSym{polyVar("lam")}, oSym{polyVar("phi")}})
	if why != "" {
		return nil, "forward: " + why
	}
	x, ok1 := symOf(r[0])
	y, ok2 := symOf(r[1])
	if !ok1 || !ok2 {
		return nil, "forward returns " + showVal(r[0])
	}
	vx, okx := symEval(x, val)
	vy, oky := symEval(y, val)
	if !okx || !oky {
		return nil, "the forward result has no value at the reference position"
	}
	val["X"], val["Y"] = vx, vy
	symResetEval()
	c.Evals(1)
	i, why := m.it.CallValue(res[1], []oval{oSym{polyVar("X")}, oSym{polyVar("Y")}})
	if why != "" {
		return nil, "inverse: " + why
	}
	lon, ok := symOf(i[0])
	if !ok {
		return nil, "inverse returns " + showVal(i[0])
	}
	if os.Getenv("VERIF_TRACE") != "" {
		fmt.Fprintf(os.Stderr, "TRACE cone %s hemi %v lon = %s\n", name, hemi, lon.canon())
	}
	var out []coneAngle
	seen := map[string]bool{}
	var keys []string
	for k := range lon {
		keys = append(keys, k)
	}
	sort.Strings(keys)
	for _, k := range keys {
		fs := strings.Split(k, "*")
		for i, f := range fs {
			app, ok := symApps[f]
			if !ok || app.fn != "atan2" || len(app.args) != 2 || seen[f] {
				continue
			}
			scaled := false
			for j, g := range fs {
				if j != i && followsParallels(g, 0) {
					scaled = true
				}
			}
			if scaled {
				seen[f] = true
				out = append(out, coneAngle{f, app.args[0], app.args[1]})
			}
		}
	}
	return out, ""
}

// followsParallels: a factor mentions a standard parallel, directly or inside an abbreviated
// application (abbreviations keep the applications they stand for in symWideOf).
func followsParallels(f string, depth int) bool {
	seen := map[string]bool{}
	var in func(s string) bool
	in = func(s string) bool {
		if parallelSym.MatchString(s) {
			return true
		}
		for _, h := range hashSym.FindAllString(s, -1) {
			if seen[h] {
				continue
			}
			seen[h] = true
			if full, ok := symWideOf[h]; ok && in(full) {
				return true
			}
		}
		return false
	}
	return in(f)
}
