package main

// C17 — WKT output is well-formed OGC text that parses back.
//
// R1 grammar: the token language of wkt.Encode, extracted by abstract
//    interpretation of the appender functions with every loop unrolled for
//    1, 2 and 3 members per nesting level (first / middle / last all occur),
//    is accepted by a recogniser of the OGC BNF and lists every coordinate
//    once, in storage order, X before Y.
// R2 float formatting is shortest round-trip.   R3 support table.

import (
	"fmt"
	"go/ast"
	"go/constant"
	"go/token"
	"go/types"
	"strings"
)

func init() { register("C17", false, checkC17) }

var wktKeyword = map[string]string{"Point": "POINT", "LineString": "LINESTRING", "Polygon": "POLYGON", "MultiLineString": "MULTILINESTRING", "MultiPolygon": "MULTIPOLYGON"}
var wktDepth = map[string]int{"Point": 0, "LineString": 1, "Polygon": 2, "MultiLineString": 2, "MultiPolygon": 3}

type wtok struct {
	lit byte   // literal character, or 0
	num string // "X@[1][2]" for a formatted coordinate
}

type wref struct {
	path  string // "[1][2]" index path below the geometry
	depth int
}

type wktInterp struct {
	c      *Ctx
	info   *types.Info
	counts []int // members per nesting level
	undec  string
	steps  int
}

type wframe struct {
	it   *wktInterp
	vars map[types.Object]interface{} // []wtok | wref | int
	ret  []wtok
	done bool
}

func (it *wktInterp) fail(format string, a ...interface{}) {
	if it.undec == "" {
		it.undec = fmt.Sprintf(format, a...)
	}
}

func (it *wktInterp) call(fn *types.Func, args []interface{}, depth int) []wtok {
	fd := it.c.P.Decl(fn)
	if fd == nil || depth > 8 {
		it.fail("cannot follow %s", fn.Name())
		return nil
	}
	fr := &wframe{it: it, vars: map[types.Object]interface{}{}}
	ps := paramVars(it.info, fd.Type)
	if len(ps) != len(args) {
		it.fail("arity mismatch calling %s", fn.Name())
		return nil
	}
	for i, p := range ps {
		if p != nil {
			fr.vars[p] = args[i]
		}
	}
	fr.block(fd.Body.List, depth)
	if !fr.done {
		it.fail("%s does not return its buffer on every path", fn.Name())
	}
	return fr.ret
}

func (fr *wframe) block(list []ast.Stmt, depth int) {
	for _, st := range list {
		if fr.done || fr.it.undec != "" {
			return
		}
		fr.stmt(st, depth)
	}
}

func (fr *wframe) intVal(e ast.Expr) (int, bool) {
	e = unparen(e)
	if k, ok := constInt(fr.it.info, e); ok {
		return int(k), true
	}
	switch x := e.(type) {
	case *ast.Ident:
		if o := objOf(fr.it.info, x); o != nil {
			if v, ok := fr.vars[o].(int); ok {
				return v, true
			}
		}
	case *ast.CallExpr:
		if la := lenArg(fr.it.info, x); la != nil {
			if r, ok := fr.ref(la); ok {
				if r.depth < len(fr.it.counts) {
					return fr.it.counts[r.depth], true
				}
			}
		}
	case *ast.BinaryExpr:
		l, ok1 := fr.intVal(x.X)
		r, ok2 := fr.intVal(x.Y)
		if ok1 && ok2 {
			switch x.Op {
			case token.ADD:
				return l + r, true
			case token.SUB:
				return l - r, true
			}
		}
	}
	return 0, false
}

func (fr *wframe) boolVal(e ast.Expr) (bool, bool) {
	e = unparen(e)
	switch x := e.(type) {
	case *ast.UnaryExpr:
		if x.Op == token.NOT {
			v, ok := fr.boolVal(x.X)
			return !v, ok
		}
	case *ast.BinaryExpr:
		switch x.Op {
		case token.LAND, token.LOR:
			l, ok1 := fr.boolVal(x.X)
			r, ok2 := fr.boolVal(x.Y)
			if ok1 && ok2 {
				if x.Op == token.LAND {
					return l && r, true
				}
				return l || r, true
			}
			return false, false
		}
		l, ok1 := fr.intVal(x.X)
		r, ok2 := fr.intVal(x.Y)
		if !ok1 || !ok2 {
			return false, false
		}
		switch x.Op {
		case token.EQL:
			return l == r, true
		case token.NEQ:
			return l != r, true
		case token.LSS:
			return l < r, true
		case token.LEQ:
			return l <= r, true
		case token.GTR:
			return l > r, true
		case token.GEQ:
			return l >= r, true
		}
	}
	return false, false
}

// ref resolves an expression to a data reference.
func (fr *wframe) ref(e ast.Expr) (wref, bool) {
	e = unparen(e)
	switch x := e.(type) {
	case *ast.Ident:
		if o := objOf(fr.it.info, x); o != nil {
			if r, ok := fr.vars[o].(wref); ok {
				return r, true
			}
		}
	case *ast.UnaryExpr:
		if x.Op == token.AND {
			return fr.ref(x.X)
		}
	case *ast.StarExpr:
		return fr.ref(x.X)
	case *ast.IndexExpr:
		if r, ok := fr.ref(x.X); ok {
			if i, ok := fr.intVal(x.Index); ok {
				return wref{path: fmt.Sprintf("%s[%d]", r.path, i), depth: r.depth + 1}, true
			}
		}
	case *ast.CallExpr:
		// conversion
		if tv, ok := fr.it.info.Types[x.Fun]; ok && tv.IsType() && len(x.Args) == 1 {
			return fr.ref(x.Args[0])
		}
	case *ast.TypeAssertExpr:
		return fr.ref(x.X)
	}
	return wref{}, false
}

// buf evaluates an expression producing the byte buffer.
func (fr *wframe) buf(e ast.Expr, depth int) ([]wtok, bool) {
	e = unparen(e)
	if isNilConst(fr.it.info, e) {
		return nil, true
	}
	switch x := e.(type) {
	case *ast.Ident:
		if o := objOf(fr.it.info, x); o != nil {
			if b, ok := fr.vars[o].([]wtok); ok {
				return b, true
			}
			if _, isSet := fr.vars[o]; !isSet {
				return nil, false
			}
		}
	case *ast.CallExpr:
		info := fr.it.info
		if builtinName(info, x) == "append" && len(x.Args) >= 2 {
			base, ok := fr.buf(x.Args[0], depth)
			if !ok {
				return nil, false
			}
			out := append([]wtok(nil), base...)
			if x.Ellipsis.IsValid() && len(x.Args) == 2 {
				// append(dst, []byte("LIT")...) or append(dst, "LIT"...)
				arg := unparen(x.Args[1])
				if cv, ok := arg.(*ast.CallExpr); ok && len(cv.Args) == 1 {
					arg = unparen(cv.Args[0])
				}
				if s, ok := constString(info, arg); ok {
					for i := 0; i < len(s); i++ {
						out = append(out, wtok{lit: s[i]})
					}
					return out, true
				}
				return nil, false
			}
			for _, a := range x.Args[1:] {
				v := constOf(info, a)
				if v == nil {
					return nil, false
				}
				v = constant.ToInt(v)
				k, ok := constant.Int64Val(v)
				if !ok || k < 0 || k > 127 {
					return nil, false
				}
				out = append(out, wtok{lit: byte(k)})
			}
			return out, true
		}
		f := callee(info, x)
		if f == nil {
			return nil, false
		}
		if (isFuncIn(f, "strconv", "AppendFloat")) && len(x.Args) == 5 {
			base, ok := fr.buf(x.Args[0], depth)
			if !ok {
				return nil, false
			}
			sel, ok := unparen(x.Args[1]).(*ast.SelectorExpr)
			if !ok {
				return nil, false
			}
			r, ok := fr.ref(sel.X)
			if !ok {
				return nil, false
			}
			return append(append([]wtok(nil), base...), wtok{num: sel.Sel.Name + "@" + r.path}), true
		}
		if fr.it.c.P.Decl(f) != nil && len(x.Args) >= 1 {
			var args []interface{}
			for i, a := range x.Args {
				if i == 0 {
					b, ok := fr.buf(a, depth)
					if !ok {
						return nil, false
					}
					args = append(args, b)
					continue
				}
				if r, ok := fr.ref(a); ok {
					args = append(args, r)
				} else if k, ok := fr.intVal(a); ok {
					args = append(args, k)
				} else {
					return nil, false
				}
			}
			out := fr.it.call(f, args, depth+1)
			return out, fr.it.undec == ""
		}
	}
	return nil, false
}

func (fr *wframe) stmt(st ast.Stmt, depth int) {
	it := fr.it
	it.steps++
	switch s := st.(type) {
	case *ast.AssignStmt:
		if len(s.Lhs) != 1 || len(s.Rhs) != 1 || (s.Tok != token.ASSIGN && s.Tok != token.DEFINE) {
			it.fail("statement `%s` not understood", src(s))
			return
		}
		o := objOf(it.info, s.Lhs[0])
		if o == nil {
			it.fail("assignment target `%s` not understood", src(s.Lhs[0]))
			return
		}
		if b, ok := fr.buf(s.Rhs[0], depth); ok {
			fr.vars[o] = b
			return
		}
		if it.undec != "" {
			return
		}
		if r, ok := fr.ref(s.Rhs[0]); ok {
			fr.vars[o] = r
			return
		}
		if k, ok := fr.intVal(s.Rhs[0]); ok {
			fr.vars[o] = k
			return
		}
		it.fail("value `%s` not understood", src(s.Rhs[0]))
	case *ast.ReturnStmt:
		if len(s.Results) != 1 {
			it.fail("unexpected return arity")
			return
		}
		b, ok := fr.buf(s.Results[0], depth)
		if !ok {
			it.fail("returned value `%s` is not the buffer", src(s.Results[0]))
			return
		}
		fr.ret, fr.done = b, true
	case *ast.IfStmt:
		if s.Init != nil {
			fr.stmt(s.Init, depth)
		}
		v, ok := fr.boolVal(s.Cond)
		if !ok {
			it.fail("condition `%s` is not a predicate on the member index", src(s.Cond))
			return
		}
		if v {
			fr.block(s.Body.List, depth)
		} else if s.Else != nil {
			switch e := s.Else.(type) {
			case *ast.BlockStmt:
				fr.block(e.List, depth)
			case *ast.IfStmt:
				fr.stmt(e, depth)
			}
		}
	case *ast.RangeStmt:
		r, ok := fr.ref(s.X)
		if !ok || r.depth >= len(it.counts) {
			it.fail("range over `%s` is not over the geometry's members", src(s.X))
			return
		}
		n := it.counts[r.depth]
		for i := 0; i < n && !fr.done && it.undec == ""; i++ {
			if s.Key != nil {
				if o := objOf(it.info, s.Key); o != nil {
					fr.vars[o] = i
				}
			}
			if s.Value != nil {
				if o := objOf(it.info, s.Value); o != nil {
					fr.vars[o] = wref{path: fmt.Sprintf("%s[%d]", r.path, i), depth: r.depth + 1}
				}
			}
			fr.block(s.Body.List, depth)
		}
	case *ast.ForStmt:
		if s.Init != nil {
			fr.stmt(s.Init, depth)
		}
		for iter := 0; iter < 16 && !fr.done && it.undec == ""; iter++ {
			v, ok := fr.boolVal(s.Cond)
			if !ok {
				it.fail("loop condition `%s` not understood", src(s.Cond))
				return
			}
			if !v {
				return
			}
			fr.block(s.Body.List, depth)
			if post, ok := s.Post.(*ast.IncDecStmt); ok {
				if o := objOf(it.info, post.X); o != nil {
					if k, ok := fr.vars[o].(int); ok {
						if post.Tok == token.INC {
							fr.vars[o] = k + 1
						} else {
							fr.vars[o] = k - 1
						}
						continue
					}
				}
			}
			it.fail("loop post statement not understood")
			return
		}
	case *ast.DeclStmt, *ast.EmptyStmt:
	case *ast.BlockStmt:
		fr.block(s.List, depth)
	default:
		it.fail("statement `%s` not understood", src(st))
	}
}

// ---------------------------------------------------------------- recogniser

type wparser struct {
	toks []wtok
	pos  int
	seq  []string // coordinate references in order of appearance
	err  string
}

func (p *wparser) lit(c byte) bool {
	if p.pos < len(p.toks) && p.toks[p.pos].lit == c && p.toks[p.pos].num == "" {
		p.pos++
		return true
	}
	return false
}

func (p *wparser) expect(c byte, what string) bool {
	if p.lit(c) {
		return true
	}
	if p.err == "" {
		got := "end of text"
		if p.pos < len(p.toks) {
			if p.toks[p.pos].num != "" {
				got = "a number"
			} else {
				got = fmt.Sprintf("%q", string(p.toks[p.pos].lit))
			}
		}
		p.err = fmt.Sprintf("expected %q (%s) at token %d, found %s", string(c), what, p.pos, got)
	}
	return false
}

func (p *wparser) number() (string, bool) {
	if p.pos < len(p.toks) && p.toks[p.pos].num != "" {
		p.pos++
		return p.toks[p.pos-1].num, true
	}
	if p.err == "" {
		p.err = fmt.Sprintf("expected a number at token %d", p.pos)
	}
	return "", false
}

// point := number ' ' number
func (p *wparser) point() bool {
	x, ok := p.number()
	if !ok {
		return false
	}
	if !p.expect(' ', "space between x and y") {
		return false
	}
	y, ok := p.number()
	if !ok {
		return false
	}
	p.seq = append(p.seq, x, y)
	return true
}

// list := '(' item {',' item} ')'
func (p *wparser) list(item func() bool, what string) (int, bool) {
	if !p.expect('(', "opening "+what) {
		return 0, false
	}
	n := 0
	for {
		if !item() {
			return n, false
		}
		n++
		if p.lit(',') {
			continue
		}
		break
	}
	if !p.expect(')', "closing "+what) {
		return n, false
	}
	return n, true
}

func renderToks(ts []wtok) string {
	var b strings.Builder
	for _, t := range ts {
		if t.num != "" {
			b.WriteString("<" + t.num + ">")
		} else {
			b.WriteByte(t.lit)
		}
	}
	return b.String()
}

// parseWKT recognises one geometry of type tn and checks member counts.
func parseWKT(tn string, toks []wtok, counts []int) string {
	p := &wparser{toks: toks}
	kw := wktKeyword[tn]
	for i := 0; i < len(kw); i++ {
		if !p.expect(kw[i], "keyword "+kw) {
			return p.err
		}
	}
	// optional single space between keyword and '('
	p.lit(' ')
	var shape []int
	note := func(level, n int) {
		for len(shape) <= level {
			shape = append(shape, -1)
		}
		if shape[level] == -1 {
			shape[level] = n
		} else if shape[level] != n {
			shape[level] = -2
		}
	}
	pts := func(level int) func() bool {
		return func() bool {
			n, ok := p.list(p.point, "point list")
			note(level, n)
			return ok
		}
	}
	ok := false
	switch tn {
	case "Point":
		ok = p.expect('(', "opening parenthesis") && p.point() && p.expect(')', "closing parenthesis")
	case "LineString":
		ok = pts(0)()
	case "Polygon", "MultiLineString":
		var n int
		n, ok = p.list(pts(1), "ring/line list")
		note(0, n)
	case "MultiPolygon":
		var n int
		n, ok = p.list(func() bool {
			m, ok := p.list(pts(2), "ring list")
			note(1, m)
			return ok
		}, "polygon list")
		note(0, n)
	}
	if !ok {
		return p.err
	}
	if p.pos != len(p.toks) {
		return fmt.Sprintf("trailing text after the geometry at token %d", p.pos)
	}
	for lvl, n := range shape {
		if lvl < len(counts) && n != counts[lvl] {
			return fmt.Sprintf("nesting level %d lists %d members where the geometry has %d", lvl, n, counts[lvl])
		}
	}
	// coordinates: every vertex once, storage order, X then Y
	var want []string
	var gen func(prefix string, level int)
	depth := wktDepth[tn]
	gen = func(prefix string, level int) {
		if level == depth {
			want = append(want, "X@"+prefix, "Y@"+prefix)
			return
		}
		for i := 0; i < counts[level]; i++ {
			gen(fmt.Sprintf("%s[%d]", prefix, i), level+1)
		}
	}
	gen("", 0)
	if strings.Join(p.seq, ",") != strings.Join(want, ",") {
		return fmt.Sprintf("coordinates appear as %v, want %v (each vertex once, storage order, X before Y)", p.seq, want)
	}
	return ""
}

// ---------------------------------------------------------------- check

func checkC17(c *Ctx) {
	c.Rule("C17.R1", "the text emitted for each supported type, with 1, 2 and 3 members at every nesting level, is accepted by the OGC WKT grammar (KEYWORD ( … ), members parenthesised and comma-separated, 'x y' pairs) and lists every coordinate once in storage order")
	c.Rule("C17.R2", "every strconv float formatting in the package uses precision -1, bit size 64 and a format in {e,E,f,g,G} (shortest text that parses back to the same float64)")
	c.Rule("C17.R4", "the text Encode returns is freshly allocated in the call (no package-level buffer, no sync.Pool object), so a text the caller keeps is not overwritten by a later Encode")
	c.Rule("C17.R3", "exactly Point, LineString, MultiLineString, Polygon and MultiPolygon are encoded; every other type reaches the error return")
	c17model(c)
	c.Floor("C17.R1", 5)
	c.Floor("C17.R2", 1)
	checkFreshResult(c, "C17.R4", c.P.Func("encoding/wkt", "Encode"))
	c.Floor("C17.R4", 1)
	c.Floor("C17.R3", 6)
	c.exhaust = false
}
