package main

// C17 — WKT output is well-formed OGC text that parses back.
//
// R1 grammar: the token language of wkt.Encode, extracted by abstract
//    interpretation of the appender functions with every loop unrolled for
//    1, 2 and 3 members per nesting level (first / middle / last all occur),
//    is accepted by a recogniser of the OGC BNF and lists every coordinate
//    once, in storage order, X before Y.
// R2 float formatting is shortest round-trip.   R3 support table.

import (
	"fmt"
	"go/types"
	"strings"
)

func init() { register("C17", false, checkC17) }

var wktKeyword = map[string]string{"Point": "POINT", "LineString": "LINESTRING", "Polygon": "POLYGON", "MultiLineString": "MULTILINESTRING", "MultiPolygon": "MULTIPOLYGON"}
var wktDepth = map[string]int{"Point": 0, "LineString": 1, "Polygon": 2, "MultiLineString": 2, "MultiPolygon": 3}

type wtok struct {
	lit byte   // literal character, or 0
	num string // "X@[1][2]" for a formatted coordinate
}

type wref struct {
	path  string // "[1][2]" index path below the geometry
	depth int
}

type wktInterp struct {
	c      *Ctx
	info   *types.Info
	counts []int // members per nesting level
	undec  string
	steps  int
}

type wframe struct {
	it   *wktInterp
	vars map[types.Object]interface{} // []wtok | wref | int
	ret  []wtok
	done bool
}

// ---------------------------------------------------------------- recogniser

type wparser struct {
	toks []wtok
	pos  int
	seq  []string // coordinate references in order of appearance
	err  string
}

func (p *wparser) lit(c byte) bool {
	if p.pos < len(p.toks) && p.toks[p.pos].lit == c && p.toks[p.pos].num == "" {
		p.pos++
		return true
	}
	return false
}

func (p *wparser) expect(c byte, what string) bool {
	if p.lit(c) {
		return true
	}
	if p.err == "" {
		got := "end of text"
		if p.pos < len(p.toks) {
			if p.toks[p.pos].num != "" {
				got = "a number"
			} else {
				got = fmt.Sprintf("%q", string(p.toks[p.pos].lit))
			}
		}
		p.err = fmt.Sprintf("expected %q (%s) at token %d, found %s", string(c), what, p.pos, got)
	}
	return false
}

func (p *wparser) number() (string, bool) {
	if p.pos < len(p.toks) && p.toks[p.pos].num != "" {
		p.pos++
		return p.toks[p.pos-1].num, true
	}
	if p.err == "" {
		p.err = fmt.Sprintf("expected a number at token %d", p.pos)
	}
	return "", false
}

// point := number ' ' number
func (p *wparser) point() bool {
	x, ok := p.number()
	if !ok {
		return false
	}
	if !p.expect(' ', "space between x and y") {
		return false
	}
	y, ok := p.number()
	if !ok {
		return false
	}
	p.seq = append(p.seq, x, y)
	return true
}

// list := '(' item {',' item} ')'
func (p *wparser) list(item func() bool, what string) (int, bool) {
	if !p.expect('(', "opening "+what) {
		return 0, false
	}
	n := 0
	for {
		if !item() {
			return n, false
		}
		n++
		if p.lit(',') {
			continue
		}
		break
	}
	if !p.expect(')', "closing "+what) {
		return n, false
	}
	return n, true
}

func renderToks(ts []wtok) string {
	var b strings.Builder
	for _, t := range ts {
		if t.num != "" {
			b.WriteString("<" + t.num + ">")
		} else {
			b.WriteByte(t.lit)
		}
	}
	return b.String()
}

// parseWKT recognises one geometry of type tn and checks member counts.
func parseWKT(tn string, toks []wtok, counts []int) string {
	p := &wparser{toks: toks}
	kw := wktKeyword[tn]
	for i := 0; i < len(kw); i++ {
		if !p.expect(kw[i], "keyword "+kw) {
			return p.err
		}
	}
	// optional single space between keyword and '('
	p.lit(' ')
	var shape []int
	note := func(level, n int) {
		for len(shape) <= level {
			shape = append(shape, -1)
		}
		if shape[level] == -1 {
			shape[level] = n
		} else if shape[level] != n {
			shape[level] = -2
		}
	}
	pts := func(level int) func() bool {
		return func() bool {
			n, ok := p.list(p.point, "point list")
			note(level, n)
			return ok
		}
	}
	ok := false
	switch tn {
	case "Point":
		ok = p.expect('(', "opening parenthesis") && p.point() && p.expect(')', "closing parenthesis")
	case "LineString":
		ok = pts(0)()
	case "Polygon", "MultiLineString":
		var n int
		n, ok = p.list(pts(1), "ring/line list")
		note(0, n)
	case "MultiPolygon":
		var n int
		n, ok = p.list(func() bool {
			m, ok := p.list(pts(2), "ring list")
			note(1, m)
			return ok
		}, "polygon list")
		note(0, n)
	}
	if !ok {
		return p.err
	}
	if p.pos != len(p.toks) {
		return fmt.Sprintf("trailing text after the geometry at token %d", p.pos)
	}
	for lvl, n := range shape {
		if lvl < len(counts) && n != counts[lvl] {
			return fmt.Sprintf("nesting level %d lists %d members where the geometry has %d", lvl, n, counts[lvl])
		}
	}
	// coordinates: every vertex once, storage order, X then Y
	var want []string
	var gen func(prefix string, level int)
	depth := wktDepth[tn]
	gen = func(prefix string, level int) {
		if level == depth {
			want = append(want, "X@"+prefix, "Y@"+prefix)
			return
		}
		for i := 0; i < counts[level]; i++ {
			gen(fmt.Sprintf("%s[%d]", prefix, i), level+1)
		}
	}
	gen("", 0)
	if strings.Join(p.seq, ",") != strings.Join(want, ",") {
		return fmt.Sprintf("coordinates appear as %v, want %v (each vertex once, storage order, X before Y)", p.seq, want)
	}
	return ""
}

// ---------------------------------------------------------------- check

func checkC17(c *Ctx) {
	c.Rule("C17.R1", "the text emitted for each supported type, with 1, 2 and 3 members at every nesting level, is accepted by the OGC WKT grammar (KEYWORD ( … ), members parenthesised and comma-separated, 'x y' pairs) and lists every coordinate once in storage order, each as a text that parses back to it — with ordinates known by rank only, and again with every ordinate in each of ten regions of the float64 line (fractions, whole numbers, whole numbers between 2^53 and 2^63, beyond the int64 range, tiny, both zeros, both signs), where a formatter that branches on the value is followed: the digits of an exact integer conversion are accepted, those of a truncated or overflowed one and `0` for negative zero are not")
	c.Rule("C17.R2", "every strconv float formatting in the package uses precision -1, bit size 64 and a format in {e,E,f,g,G} (shortest text that parses back to the same float64)")
	c.Rule("C17.R4", "the text Encode returns is freshly allocated in the call (no package-level buffer, no sync.Pool object), so a text the caller keeps is not overwritten by a later Encode")
	c.Rule("C17.R3", "exactly Point, LineString, MultiLineString, Polygon and MultiPolygon are encoded; every other type reaches the error return")
	c17model(c)
	c.Floor("C17.R1", 5)
	c.Floor("C17.R2", 1)
	checkFreshResult(c, "C17.R4", c.P.Func("encoding/wkt", "Encode"))
	c.Floor("C17.R4", 1)
	c.Floor("C17.R3", 6)
	c.exhaust = false
}
