package main

// Model evaluation of the curve simplifier (C13.R1–R3).
//
// LineString.Simplify is interpreted on curves of 0 to 6 distinct vertices, Polygon.Simplify on
// rings of 0 to 5 (thorough: 6) with a second ring as the other curve.  The two geometric predicates the algorithm consults are replaced by
// oracles: the point-to-segment distance answers "within the tolerance" or "beyond it", the
// simplicity test of a replacing segment answers yes or no; a repeated question gets the same
// answer, and every combination of answers to the questions actually asked is enumerated
// (depth first).  The runs therefore cover every geometry of that many vertices, including
// impossible ones, which only makes the check stricter than needed on the control flow — the
// conclusions below do not depend on geometry:
//
//   R1  every run returns (within a generous step bound);
//   R2  the result is a fresh slice holding an order-preserving subsequence of the input that
//       starts with its first and ends with its last vertex; the input is unchanged;
//   R3  for every pair of consecutive kept vertices the distance of each dropped vertex to the
//       replacing segment was asked and answered "within", and, when vertices were dropped, the
//       replacing segment's simplicity was asked against the kept part, the rest of the curve
//       and the other curves, and answered "simple" each time.

import (
	"fmt"
	"go/token"
	"go/types"
	"math/big"
	"sort"
	"strings"
)

type c13query struct {
	kind    string // "dist" or "simple"
	a, b, k int    // vertex indices (k: the dropped vertex for dist)
	cover   string // for simple: which vertices the paths argument contained
	answer  bool   // dist: beyond tolerance; simple: makes the curve not simple
}

type c13run struct {
	answers  []bool
	used     int
	overflow bool
	memo     map[string]bool
	queries  []c13query
}

func c13model(c *Ctx) {
	m := newClipModel(c)
	it := m.it
	it.maxDepth = 48
	it.maxLoop = 200
	distF := c.P.Func("geom", "distPointToSegment")
	simpleF := c.P.Func("geom", "segMakesNotSimple")
	// the anchors by signature when the names are gone: the deviation measure is a
	// (Point, Point, Point) float64 function, the simplicity test a (Point, Point, paths) bool one
	for _, f := range c.P.RepoFuncs() {
		if c.P.DeclPkg(f) != c.P.Pkg("geom") || c.P.Decl(f) == nil {
			continue
		}
		sig := f.Type().(*types.Signature)
		if sig.Recv() != nil || sig.Params().Len() != 3 || sig.Results().Len() != 1 {
			continue
		}
		p0, p1, p2 := sig.Params().At(0).Type(), sig.Params().At(1).Type(), sig.Params().At(2).Type()
		if !types.Identical(p0, m.ptT) || !types.Identical(p1, m.ptT) {
			continue
		}
		if distF == nil && types.Identical(p2, m.ptT) && isFloat64(sig.Results().At(0).Type()) {
			distF = f
		}
	}
	if simpleF == nil {
		simpleF = c13simplicityByShape(c, m.ptT)
	}
	lsSimplify, _, _ := types.LookupFieldOrMethod(m.lsT, true, c.P.Pkg("geom").Types, "Simplify")
	polySimplify, _, _ := types.LookupFieldOrMethod(m.polyT, true, c.P.Pkg("geom").Types, "Simplify")
	lsF, _ := lsSimplify.(*types.Func)
	pgF, _ := polySimplify.(*types.Func)
	if distF == nil || simpleF == nil || lsF == nil || pgF == nil || c.P.Decl(distF) == nil || c.P.Decl(simpleF) == nil || c.P.Decl(lsF) == nil || c.P.Decl(pgF) == nil {
		c.Unk("C13.R2", "geom#simplify-model", token.NoPos, "LineString.Simplify, Polygon.Simplify, the point-to-segment distance or the simplicity test do not resolve")
		return
	}
	pos := c.P.Decl(lsF).Pos()
	const tol = int64(100000)
	var run *c13run
	simpleFixed := false
	var vertexOf map[int64]int // x rank → index in the curve; other curves get 1000+
	idx := func(v oval) int {
		st, ok := v.(*oStruct)
		if !ok || st == nil {
			return -1
		}
		x, ok := st.fields["X"].(oFloat)
		if !ok {
			return -1
		}
		if i, ok := vertexOf[x.r]; ok {
			return i
		}
		return -1
	}
	tolNote := ""      // a deviation compared with something other than the tolerance
	var constAns *bool // set: every distance question gets this answer (the multi-geometry facet)
	spanFar := false   // set: a deviation is beyond the tolerance exactly when the replacing segment skips two vertices or more
	ask := func(key string) bool {
		if spanFar {
			var k, a, b int
			if n, _ := fmt.Sscanf(key, "dist %d %d %d", &k, &a, &b); n == 3 {
				return b-a >= 3 || a-b >= 3
			}
			return false
		}
		if constAns != nil {
			return *constAns
		}
		if a, ok := run.memo[key]; ok {
			return a
		}
		a := false
		if run.used < len(run.answers) {
			a = run.answers[run.used]
		} else {
			run.overflow = true
		}
		run.used++
		run.memo[key] = a
		return a
	}
	// the deviation measure: any package function (Point, Point, Point) float64 — the distance, or a
	// squared or otherwise monotone variant of it.  Its result is an opaque quantity; what the
	// oracle answers is the comparison the algorithm then makes with a tolerance-derived value.
	isDist := func(f *types.Func) bool {
		if f == distF {
			return true
		}
		sig := f.Type().(*types.Signature)
		if sig.Recv() != nil || sig.Results().Len() != 1 || c.P.DeclPkg(f) != c.P.Pkg("geom") || !isFloat64(sig.Results().At(0).Type()) {
			return false
		}
		// three points in all: three Point parameters, or a Point and a value of two Point fields
		// (a segment), in either order
		n := 0
		for i := 0; i < sig.Params().Len(); i++ {
			t := sig.Params().At(i).Type()
			if types.Identical(t, m.ptT) {
				n++
				continue
			}
			st, ok := t.Underlying().(*types.Struct)
			if !ok || st.NumFields() != 2 || !types.Identical(st.Field(0).Type(), m.ptT) || !types.Identical(st.Field(1).Type(), m.ptT) {
				return false
			}
			n += 2
		}
		return n == 3
	}
	// distPoints: the deviating point and the two ends of the segment, from the arguments of a
	// deviation measure in whichever of the accepted forms
	distPoints := func(args []oval) (oval, oval, oval, bool) {
		var single, pair []oval
		for _, a := range args {
			st, ok := a.(*oStruct)
			if !ok || st == nil {
				return nil, nil, nil, false
			}
			if _, isPt := st.fields["X"]; isPt {
				single = append(single, st)
				continue
			}
			for _, fn := range st.order {
				pair = append(pair, st.fields[fn])
			}
		}
		switch {
		case len(single) == 3 && len(pair) == 0:
			return single[0], single[1], single[2], true
		case len(single) == 1 && len(pair) == 2:
			return single[0], pair[0], pair[1], true
		}
		return nil, nil, nil, false
	}
	it.symbolic = true
	distAtom := func(p poly) string {
		name := ""
		for k := range p {
			for _, f := range strings.Split(k, "*") {
				if strings.HasPrefix(f, "dist_") {
					if name != "" && name != f {
						return ""
					}
					name = f
				}
			}
		}
		return name
	}
	it.cmpOracle = func(op token.Token, a, b poly) (bool, bool) {
		la, lb := distAtom(a), distAtom(b)
		if (la == "") == (lb == "") {
			if la != "" && lb != "" {
				// two deviations compared with each other
				gt := ask("cmp " + la + " " + lb)
				switch op {
				case token.GTR, token.GEQ:
					return gt, true
				case token.LSS, token.LEQ:
					return !gt, true
				case token.EQL:
					return false, true
				case token.NEQ:
					return true, true
				}
			}
			return false, false
		}
		atom, left := la, true
		if la == "" {
			atom, left = lb, false
		}
		// what the deviation is measured against: the tolerance itself (or both sides squared)
		if tolNote == "" {
			d := a.add(b, -1)
			okForm := len(d) == 2
			deg := map[bool]int{}
			for k, cf := range d {
				fs := strings.Split(k, "*")
				isDistTerm, isTolTerm := true, true
				for _, f := range fs {
					if !strings.HasPrefix(f, "dist_") {
						isDistTerm = false
					}
					if f != "tol" {
						isTolTerm = false
					}
				}
				if !(isDistTerm || isTolTerm) || new(big.Rat).Abs(cf).Cmp(big.NewRat(1, 1)) != 0 {
					okForm = false
				}
				deg[isDistTerm] = len(fs)
			}
			if okForm && deg[true] != deg[false] {
				okForm = false
			}
			if !okForm {
				other := b
				if !left {
					other = a
				}
				tolNote = fmt.Sprintf("the deviation %s is compared with %s, not with the tolerance (or both squared)", atom, short(other.canon()))
			}
		}
		var k, x, y int
		fmt.Sscanf(atom, "dist_%d_%d_%d", &k, &x, &y)
		far := ask(fmt.Sprintf("dist %d %d %d", k, x, y))
		run.queries = append(run.queries, c13query{kind: "dist", a: x, b: y, k: k, answer: far})
		big := far == left // is the left operand the larger one?
		switch op {
		case token.GTR, token.GEQ:
			return big, true
		case token.LSS, token.LEQ:
			return !big, true
		case token.EQL:
			return false, true
		case token.NEQ:
			return true, true
		}
		return false, false
	}
	it.stub = func(f *types.Func, recv oval, args []oval) ([]oval, bool) {
		switch {
		case isDist(f):
			pk, pa, pb, ok := distPoints(args)
			if !ok {
				return []oval{oTop{"deviation measure on " + showVal(args[0])}}, true
			}
			k, a, b := idx(pk), idx(pa), idx(pb)
			if k < 0 || a < 0 || b < 0 {
				return []oval{oTop{"distance between points that are not vertices of the input"}}, true
			}
			return []oval{oSym{polyVar(fmt.Sprintf("dist_%d_%d_%d", k, a, b))}}, true
		case f == distF && len(args) == 3:
			k, a, b := idx(args[0]), idx(args[1]), idx(args[2])
			if k < 0 || a < 0 || b < 0 {
				return []oval{oTop{"distance between points that are not vertices of the input"}}, true
			}
			far := ask(fmt.Sprintf("dist %d %d %d", k, a, b))
			run.queries = append(run.queries, c13query{kind: "dist", a: a, b: b, k: k, answer: far})
			if far {
				return []oval{oFloat{tol + 50}}, true
			}
			return []oval{oFloat{tol - 50}}, true
		case f == simpleF && len(args) >= 2:
			// the segment: two points, or a value of two point fields; then the paths: a slice of
			// paths, a variadic list, or single paths
			var ends []oval
			var pathArgs []oval
			for _, av := range args {
				if pp, isPtr := av.(oPtr); isPtr && pp.s != nil {
					av = pp.s // a segment handed over by pointer
				}
				if st, ok := av.(*oStruct); ok && st != nil {
					if _, isPt := st.fields["X"]; isPt && len(ends) < 2 {
						ends = append(ends, st)
						continue
					}
					var pts []oval
					for _, fn := range st.order {
						if q, ok := st.fields[fn].(*oStruct); ok && q != nil {
							if _, isPt := q.fields["X"]; isPt {
								pts = append(pts, q)
							}
						}
					}
					if len(pts) == 2 && len(ends) == 0 {
						ends = pts
						continue
					}
				}
				pathArgs = append(pathArgs, av)
			}
			if len(ends) != 2 {
				return []oval{oTop{"simplicity test on something that is not a segment"}}, true
			}
			a, b := idx(ends[0]), idx(ends[1])
			var cov []string
			var walk func(v oval)
			walk = func(v oval) {
				sl, ok := v.(oSlice)
				if !ok {
					return
				}
				for i := 0; i < sl.length(); i++ {
					el := sl.at(i)
					if st, ok := el.(*oStruct); ok && st != nil {
						if k := idx(st); k >= 0 {
							cov = append(cov, fmt.Sprint(k))
						}
						continue
					}
					walk(el)
				}
			}
			for _, pa := range pathArgs {
				walk(pa)
			}
			sort.Strings(cov)
			key := fmt.Sprintf("simple %d %d [%s]", a, b, strings.Join(cov, " "))
			ans := false
			if !simpleFixed {
				ans = ask(key)
			}
			run.queries = append(run.queries, c13query{kind: "simple", a: a, b: b, cover: " " + strings.Join(cov, " ") + " ", answer: ans})
			return []oval{oBool(ans)}, true
		}
		return nil, false
	}

	type verdictT struct{ bad, unk string }
	verdicts := map[string]*verdictT{}
	var vorder []string
	vd := func(k string) *verdictT {
		if verdicts[k] == nil {
			verdicts[k] = &verdictT{}
			vorder = append(vorder, k)
		}
		return verdicts[k]
	}
	setBad := func(k, format string, a ...interface{}) {
		if v := vd(k); v.bad == "" {
			v.bad = fmt.Sprintf(format, a...)
		}
	}
	const (
		kTerm   = "geom#simplify(terminates)"
		kSub    = "geom#simplify(subsequence)"
		kFresh  = "geom#simplify(fresh-output)"
		kInput  = "geom#simplify(input-unchanged)"
		kDev    = "geom#simplify(dropped-within-tolerance)"
		kSimple = "geom#simplify(shortcut-tested)"
		kFinal  = "geom.simplifyCurve#append:curve[j]"
	)
	for _, k := range []string{kTerm, kSub, kFresh, kInput, kDev, kSimple} {
		vd(k)
	}
	ringT := m.polyT.Underlying().(*types.Slice).Elem()
	maxN := 5
	// beyond maxN the simplicity oracle always answers "simple" and only the distance answers are
	// enumerated: long enough curves to keep several vertices before a shortcut
	restrictedN := 7
	if c.Thorough {
		maxN = 6
	}
	totalRuns := 0
	for _, target := range []string{"LineString", "Polygon"} {
		for n := 0; n <= restrictedN; n++ {
			restricted := n > maxN || (target == "Polygon" && n == 6)
			simpleFixed = restricted
			// depth-first over the answers to the questions actually asked
			stack := [][]bool{{}}
			runs := 0
			for len(stack) > 0 {
				answers := stack[len(stack)-1]
				stack = stack[:len(stack)-1]
				runs++
				if runs > 1500000 {
					vd(kTerm).unk = fmt.Sprintf("more than 1500000 answer combinations for a %s of %d vertices", target, n)
					break
				}
				run = &c13run{answers: answers, memo: map[string]bool{}}
				vertexOf = map[int64]int{}
				var pts []oval
				for i := 0; i < n; i++ {
					x, y := int64(10+20*i), int64(11+20*i)
					vertexOf[x] = i
					pts = append(pts, it.point(m.ptT, x, y))
				}
				var recv oval
				var curve oSlice
				hasOthers := false
				if target == "LineString" {
					curve = m.sliceOf(m.lsT, pts)
					recv = curve
				} else {
					curve = m.sliceOf(ringT, pts)
					// a second ring: the "other curves" of the first
					var other []oval
					for i := 0; i < 2; i++ {
						x := int64(5000 + 20*i)
						vertexOf[x] = 1000 + i
						other = append(other, it.point(m.ptT, x, x+1))
					}
					recv = m.sliceOf(m.polyT, []oval{curve, m.sliceOf(ringT, other)})
					hasOthers = true
				}
				before := deepCopy(curve).(oSlice)
				it.steps = 0
				c.Evals(1)
				res, why := it.Call(map[string]*types.Func{"LineString": lsF, "Polygon": pgF}[target], recv, []oval{oSym{polyVar("tol")}}, 0)
				where := fmt.Sprintf("a %s of %d vertices, answers %s", target, n, showAnswers(run))
				if run.overflow {
					// more questions were asked than answers supplied: extend both ways
					stack = append(stack, append(append([]bool{}, answers...), false), append(append([]bool{}, answers...), true))
					continue
				}
				if why != "" {
					if strings.Contains(why, "does not terminate") || strings.Contains(why, "step") {
						setBad(kTerm, "%s: the scan does not return (%s)", where, why)
					} else if strings.HasPrefix(why, "panic:") {
						setBad(kTerm, "%s: the scan panics (%s)", where, why)
					} else if v := vd(kTerm); v.unk == "" {
						v.unk = where + ": not interpretable: " + why
					}
					continue
				}
				if t, isTop := res[0].(oTop); isTop {
					if strings.Contains(t.why, "does not terminate") {
						setBad(kTerm, "%s: the scan does not return (%s)", where, t.why)
					} else if strings.Contains(t.why, "panic:") {
						setBad(kTerm, "%s: the scan panics (%s)", where, t.why)
					} else if v := vd(kTerm); v.unk == "" {
						v.unk = where + ": not interpretable: " + t.why
					}
					continue
				}
				// the result
				var out oSlice
				ok := false
				r0 := res[0]
				if _, isI := r0.(oIface); !isI {
					r0 = oIface{dyn: r0}
				}
				if iv, isI := r0.(oIface); isI {
					switch d := iv.dyn.(type) {
					case oSlice:
						if target == "LineString" {
							out, ok = d, true
						} else if d.length() >= 1 {
							out, ok = d.at(0).(oSlice)
							if _, isNil := d.at(0).(oNil); isNil && n == 0 {
								out, ok = oSlice{}, true
							}
						} else if n == 0 {
							ok = true
						}
					}
				}
				if !ok && n == 0 {
					// nil, or a nil slice in the interface: nothing was kept
					if eq, isNil := oEqual(res[0], oNil{}); isNil && eq {
						ok = true
					} else if sl, isS := res[0].(oSlice); isS && sl.length() == 0 {
						ok = true
					}
				}
				if !ok {
					if v := vd(kSub); v.unk == "" {
						v.unk = where + ": the result is " + showVal(res[0])
					}
					continue
				}
				var kept []int
				good := true
				for i := 0; i < out.length(); i++ {
					v := idx(out.at(i))
					if v < 0 || v >= 1000 {
						setBad(kSub, "%s: the output contains %s, which is not a vertex of the input curve", where, showVal(out.at(i)))
						good = false
						break
					}
					kept = append(kept, v)
				}
				if !good {
					continue
				}
				for i := 1; i < len(kept); i++ {
					if kept[i] <= kept[i-1] {
						setBad(kSub, "%s: the output vertices %v are not in input order", where, kept)
						good = false
					}
				}
				switch {
				case n == 0 && len(kept) != 0:
					setBad(kSub, "%s: an empty curve gives %v", where, kept)
					good = false
				case n > 0 && (len(kept) == 0 || kept[0] != 0):
					setBad(kSub, "%s: the output %v does not start with the first vertex", where, kept)
					good = false
				case n > 0 && kept[len(kept)-1] != n-1:
					setBad(kSub, "%s: the output %v does not end with the last vertex", where, kept)
					good = false
				}
				if out.arr != nil && out.arr == curve.arr {
					setBad(kFresh, "%s: the output shares its backing array with the input", where)
				}
				for i := 0; i < curve.length(); i++ {
					if eq, ok := oEqual(curve.at(i), before.at(i)); !ok || !eq {
						setBad(kInput, "%s: input vertex %d is overwritten", where, i)
					}
				}
				if !good {
					continue
				}
				// R3: dropped vertices and shortcuts
				for s := 1; s < len(kept); s++ {
					i, j := kept[s-1], kept[s]
					for k := i + 1; k < j; k++ {
						found, far := false, false
						for _, q := range run.queries {
							if q.kind == "dist" && q.k == k && ((q.a == i && q.b == j) || (q.a == j && q.b == i)) {
								found, far = true, q.answer
							}
						}
						switch {
						case !found:
							setBad(kDev, "%s: vertex %d is dropped between kept vertices %d and %d but its distance to that segment was never computed", where, k, i, j)
						case far:
							setBad(kDev, "%s: vertex %d is dropped between kept vertices %d and %d although it is farther than the tolerance from that segment", where, k, i, j)
						}
					}
					if j == i+1 {
						continue
					}
					needKept, needRest := s-1 >= 2 || (s-1 >= 1 && kept[0] != i), n-1-j >= 2
					_ = needKept
					var covKept, covRest, covOther, notSimple bool
					for _, q := range run.queries {
						if q.kind != "simple" || !((q.a == i && q.b == j) || (q.a == j && q.b == i)) {
							continue
						}
						if q.answer {
							notSimple = true
						}
						if strings.Contains(q.cover, " 1000 ") {
							covOther = true
						}
						// kept part: every kept vertex before i
						all := true
						for _, kv := range kept[:s-1] {
							if !strings.Contains(q.cover, fmt.Sprintf(" %d ", kv)) {
								all = false
							}
						}
						if all && s-1 >= 1 {
							covKept = true
						}
						all = true
						for r := j + 1; r <= n-1; r++ {
							if !strings.Contains(q.cover, fmt.Sprintf(" %d ", r)) {
								all = false
							}
						}
						if all && j+1 <= n-1 {
							covRest = true
						}
					}
					key := kSimple
					if j == n-1 {
						key = kFinal // the segment that reaches the last vertex
					}
					switch {
					case notSimple:
						setBad(key, "%s: the segment %d–%d replaces dropped vertices although the simplicity test said it makes the curve not simple", where, i, j)
					case s-1 >= 2 && !covKept:
						setBad(key, "%s: the segment %d–%d replaces dropped vertices but is never tested against the kept output before it", where, i, j)
					case needRest && !covRest:
						setBad(key, "%s: the segment %d–%d replaces dropped vertices but is never tested against the rest of the curve", where, i, j)
					case hasOthers && !covOther:
						setBad(key, "%s: the segment %d–%d replaces dropped vertices but is never tested against the other curves", where, i, j)
					}
				}
			}
			totalRuns += runs
		}
	}
	// curves with a repeated vertex (equal consecutive points): the input must still come back
	// untouched and the scan must return
	for _, n := range []int{3, 4, 5} {
		for dup := 0; dup+1 < n; dup++ {
			for _, far := range []bool{false, true} {
				run = &c13run{memo: map[string]bool{}}
				if far {
					run.answers = []bool{true, true, true, true, true, true, true, true}
				}
				simpleFixed = true
				vertexOf = map[int64]int{}
				var pts []oval
				for i := 0; i < n; i++ {
					src := i
					if i == dup+1 {
						src = dup
					}
					x, y := int64(10+20*src), int64(11+20*src)
					if _, seen := vertexOf[x]; !seen {
						vertexOf[x] = i
					}
					pts = append(pts, it.point(m.ptT, x, y))
				}
				curve := m.sliceOf(m.lsT, pts)
				before := deepCopy(curve).(oSlice)
				c.Evals(1)
				totalRuns++
				res, why := it.Call(lsF, curve, []oval{oSym{polyVar("tol")}}, 0)
				where := fmt.Sprintf("a LineString of %d vertices whose vertex %d repeats vertex %d", n, dup+1, dup)
				if why == "" && len(res) > 0 {
					if t, isTop := res[0].(oTop); isTop {
						why = t.why
					}
				}
				if strings.Contains(why, "does not terminate") || strings.Contains(why, "panic:") {
					setBad(kTerm, "%s: the scan does not return or panics (%s)", where, why)
				}
				for i := 0; i < curve.length(); i++ {
					if eq, ok := oEqual(curve.at(i), before.at(i)); !ok || !eq {
						setBad(kInput, "%s: input vertex %d is overwritten with %s", where, i, showVal(curve.at(i)))
					}
				}
			}
		}
	}
	// ---- C13.R4: the multi-geometries simplify member by member.  With every deviation question
	// answered the same way (all "within tolerance": each curve collapses as far as it can; all
	// "beyond": nothing is dropped) and every shortcut found simple, MultiLineString.Simplify and
	// MultiPolygon.Simplify must return, at index i, what LineString.Simplify / Polygon.Simplify
	// returns for member i, over the full range, in storage the input does not share.
	{
		mlsF := c.P.Method("geom", "MultiLineString", "Simplify")
		mpgF := c.P.Method("geom", "MultiPolygon", "Simplify")
		simpleFixed = true
		seqOf := func(v oval) ([][]int, bool) {
			// a geometry value as the index sequences of its curves
			if iv, ok := v.(oIface); ok {
				v = iv.dyn
			}
			sl, ok := v.(oSlice)
			if !ok {
				return nil, false
			}
			var out [][]int
			var walk func(s oSlice) bool
			walk = func(s oSlice) bool {
				if s.length() == 0 {
					out = append(out, nil)
					return true
				}
				if _, isPt := s.at(0).(*oStruct); isPt {
					var seq []int
					for i := 0; i < s.length(); i++ {
						k := idx(s.at(i))
						if k < 0 {
							return false
						}
						seq = append(seq, k)
					}
					out = append(out, seq)
					return true
				}
				for i := 0; i < s.length(); i++ {
					sub, ok := s.at(i).(oSlice)
					if !ok || !walk(sub) {
						return false
					}
				}
				return true
			}
			return out, walk(sl)
		}
		for _, tcase := range []struct {
			name   string
			multi  *types.Func
			single *types.Func
		}{{"MultiLineString", mlsF, lsF}, {"MultiPolygon", mpgF, pgF}} {
			cons := "geom.(" + tcase.name + ").Simplify#members"
			if tcase.multi == nil || c.P.Decl(tcase.multi) == nil {
				c.Unk("C13.R4", cons, token.NoPos, "API anchor does not resolve")
				continue
			}
			bad, unk := "", ""
			for modeNo, far := range []bool{false, true, false} {
				if bad != "" || unk != "" {
					break
				}
				ans := far
				constAns = &ans
				spanFar = modeNo == 2
				run = &c13run{memo: map[string]bool{}}
				vertexOf = map[int64]int{}
				next := 0
				mkCurve := func(t types.Type, n int) oSlice {
					var pts []oval
					for i := 0; i < n; i++ {
						x := int64(10 + 20*next)
						vertexOf[x] = next
						pts = append(pts, it.point(m.ptT, x, x+1))
						next++
					}
					return m.sliceOf(t, pts)
				}
				var members []oval
				var whole oval
				if tcase.name == "MultiLineString" {
					for _, n := range []int{4, 2, 5, 3} {
						members = append(members, mkCurve(m.lsT, n))
					}
					whole = m.sliceOf(m.mlsT, members)
				} else {
					for _, ns := range [][]int{{5, 4}, {4}, {6, 4, 4}} {
						var rings []oval
						for _, n := range ns {
							rings = append(rings, mkCurve(ringT, n))
						}
						members = append(members, m.sliceOf(m.polyT, rings))
					}
					whole = m.sliceOf(m.mpolyT, members)
				}
				mode := map[bool]string{false: "every deviation within the tolerance", true: "every deviation beyond the tolerance"}[far]
				if spanFar {
					mode = "one vertex may be skipped, two may not"
				}
				var want [][][]int
				for i, mb := range members {
					c.Evals(1)
					res, why := it.Call(tcase.single, deepCopy(mb), []oval{oSym{polyVar("tol")}}, 0)
					if why != "" {
						unk = fmt.Sprintf("member %d alone (%s): not interpretable: %s", i, mode, why)
						break
					}
					seq, ok := seqOf(res[0])
					if !ok {
						unk = fmt.Sprintf("member %d alone (%s): the result is %s", i, mode, showVal(res[0]))
						break
					}
					want = append(want, seq)
				}
				if unk != "" {
					break
				}
				before := deepCopy(whole)
				c.Evals(1)
				asked := len(run.queries)
				// which member each vertex number belongs to
				memberOf := map[int]int{}
				for i, mb := range members {
					seqs, _ := seqOf(mb)
					for _, sq := range seqs {
						for _, k := range sq {
							memberOf[k] = i
						}
					}
				}
				res, why := it.Call(tcase.multi, whole, []oval{oSym{polyVar("tol")}}, 0)
				// independence: the simplicity question about a shortcut inside member i is asked of
				// member i's own curves only — handed a sibling's vertices, the answer (and with it the
				// member's result) would depend on the sibling
				for _, q := range run.queries[asked:] {
					if q.kind != "simple" || bad != "" {
						continue
					}
					mi, ok := memberOf[q.a]
					if !ok {
						continue
					}
					for _, f := range strings.Fields(q.cover) {
						var k int
						fmt.Sscan(f, &k)
						if mj, ok := memberOf[k]; ok && mj != mi {
							bad = fmt.Sprintf("%s.Simplify (%s): the simplicity test of the shortcut %d–%d inside member %d is handed vertex %d of member %d: the member's result depends on its siblings, it is not simplified independently", tcase.name, mode, q.a, q.b, mi, k, mj)
							break
						}
					}
				}
				if bad != "" {
					break
				}
				if why != "" {
					if strings.HasPrefix(why, "panic:") {
						bad = fmt.Sprintf("%s.Simplify panics (%s): %s", tcase.name, mode, why)
					} else {
						unk = fmt.Sprintf("%s.Simplify (%s): not interpretable: %s", tcase.name, mode, why)
					}
					break
				}
				r0 := res[0]
				if iv, ok := r0.(oIface); ok {
					r0 = iv.dyn
				}
				out, ok := r0.(oSlice)
				if !ok {
					unk = fmt.Sprintf("%s.Simplify returns %s", tcase.name, showVal(res[0]))
					break
				}
				if out.length() != len(members) {
					bad = fmt.Sprintf("%s.Simplify of %d members returns %d (%s)", tcase.name, len(members), out.length(), mode)
					break
				}
				for i := 0; i < out.length(); i++ {
					got, ok := seqOf(out.at(i))
					if !ok {
						unk = fmt.Sprintf("member %d of the result is %s", i, showVal(out.at(i)))
						break
					}
					if fmt.Sprint(got) != fmt.Sprint(want[i]) {
						bad = fmt.Sprintf("%s: member %d of %s.Simplify is %v (vertex numbers), member %d simplified on its own is %v", mode, i, tcase.name, got, i, want[i])
						break
					}
				}
				if bad == "" && unk == "" && showVal(whole) != showVal(before) {
					bad = fmt.Sprintf("%s.Simplify changes its receiver (%s)", tcase.name, mode)
				}
				if bad == "" && unk == "" {
					if in, ok := whole.(oSlice); ok && in.arr != nil && out.arr == in.arr {
						bad = fmt.Sprintf("%s.Simplify returns the receiver's own storage", tcase.name)
					}
				}
			}
			constAns, spanFar = nil, false
			report3(c, "C13.R4", cons, c.P.Decl(tcase.multi).Pos(), bad, unk, "member i of the result is member i simplified on its own, over the full range, under both constant answers and with one vertex skippable but not two (where the simplicity test is asked: only about the member's own curves); the receiver is unchanged and not shared")
		}
		simpleFixed = false
	}
	if tolNote != "" {
		setBad(kDev, "%s: vertices further from the replacing segment than the tolerance are dropped, or nearer ones kept", tolNote)
	}
	for _, k := range vorder {
		v := verdicts[k]
		rule := "C13.R2"
		switch k {
		case kTerm:
			rule = "C13.R1"
		case kDev, kSimple, kFinal:
			rule = "C13.R3"
		}
		switch {
		case v.bad != "":
			c.Bad(rule, k, pos, "%s", v.bad)
		case v.unk != "":
			c.Unk(rule, k, pos, "%s", v.unk)
		default:
			c.OK(rule, k, pos, "holds on all %d runs (curves of 0–%d vertices with every combination of predicate answers, up to %d vertices with every combination of distance answers)", totalRuns, maxN, restrictedN)
		}
	}
}

func showAnswers(r *c13run) string {
	var parts []string
	keys := make([]string, 0, len(r.memo))
	for k := range r.memo {
		keys = append(keys, k)
	}
	sort.Strings(keys)
	for _, k := range keys {
		if r.memo[k] {
			parts = append(parts, k)
		}
	}
	if len(parts) == 0 {
		return "(every vertex within tolerance, every shortcut simple)"
	}
	return "(beyond tolerance / not simple for: " + strings.Join(parts, "; ") + ")"
}

// c13simplicityByShape: the simplicity test when its name is gone — a bool function of a segment
// (two points, or a value of two point fields) and of paths (a path, a list of paths, or a
// variadic list); the first by name when several qualify.
func c13simplicityByShape(c *Ctx, ptT types.Type) *types.Func {
	var simpleF *types.Func
	// by shape: a bool function of a segment (two points, or a value of two point fields) and of
	// paths (a path, a list of paths, or a variadic list)
	isPts := func(t types.Type) bool {
		sl, ok := t.Underlying().(*types.Slice)
		return ok && types.Identical(sl.Elem(), ptT)
	}
	isPaths := func(t types.Type) bool {
		if isPts(t) {
			return true
		}
		sl, ok := t.Underlying().(*types.Slice)
		return ok && isPts(sl.Elem())
	}
	isSeg := func(t types.Type) bool {
		st, ok := t.Underlying().(*types.Struct)
		if !ok || st.NumFields() != 2 {
			return false
		}
		return types.Identical(st.Field(0).Type(), ptT) && types.Identical(st.Field(1).Type(), ptT)
	}
	for _, f := range c.P.RepoFuncs() {
		if c.P.DeclPkg(f) != c.P.Pkg("geom") || c.P.Decl(f) == nil {
			continue
		}
		sig := f.Type().(*types.Signature)
		if sig.Recv() != nil || sig.Results().Len() != 1 || sig.Params().Len() < 2 {
			continue
		}
		if rb, ok := sig.Results().At(0).Type().Underlying().(*types.Basic); !ok || rb.Kind() != types.Bool {
			continue
		}
		n := sig.Params().Len()
		rest := 0
		switch {
		case isSeg(sig.Params().At(0).Type()):
			rest = 1
		case n >= 3 && types.Identical(sig.Params().At(0).Type(), ptT) && types.Identical(sig.Params().At(1).Type(), ptT):
			rest = 2
		default:
			continue
		}
		ok := rest < n
		for i := rest; i < n; i++ {
			if !isPaths(sig.Params().At(i).Type()) {
				ok = false
			}
		}
		if ok && (simpleF == nil || c.P.FuncName(f) < c.P.FuncName(simpleF)) {
			simpleF = f
		}
	}
	return simpleF
}
