package main

// C20 — one CRS, three spellings (PROJ.4, OGC WKT, registered name).

import (
	"fmt"
	"go/ast"
	"go/token"
	"go/types"
)

func init() { register("C20", false, checkC20) }

// OGC WKT parameter name ↔ PROJ.4 key (both must set the same SR field)
var c20corr = [][2]string{
	{"standard_parallel_1", "lat_1"},
	{"standard_parallel_2", "lat_2"},
	{"latitude_of_origin", "lat_0"},
	{"latitude_of_center", "lat_0"},
	{"central_parallel", "lat_0"},
	{"central_meridian", "lon_0"},
	{"longitude_of_center", "lonc"},
	{"false_easting", "x_0"},
	{"false_northing", "y_0"},
	{"scale_factor", "k_0"},
	{"azimuth", "alpha"},
}

var c20angular = map[string]bool{"standard_parallel_1": true, "standard_parallel_2": true, "latitude_of_origin": true, "latitude_of_center": true,
	"central_parallel": true, "central_meridian": true, "longitude_of_center": true, "azimuth": true}

// WKT projection name ↔ PROJ.4 short name
var c20proj = [][2]string{
	{"Mercator_1SP", "merc"},
	{"Lambert_Conformal_Conic_2SP", "lcc"},
	{"Albers_Conic_Equal_Area", "aea"},
	{"Equidistant_Conic", "eqdc"},
	{"Transverse_Mercator", "tmerc"},
}

type c20 struct {
	c    *Ctx
	info *types.Info
	p    *pkgT
}

// keySwitchFields: for a switch on a string, the SR float fields assigned per case key, and the RHS.
type keyAssign struct {
	field string
	rhs   ast.Expr
	stmt  *ast.AssignStmt
}

func checkC20(c *Ctx) {
	c.Rule("C20.R1", "model evaluation with symbolic parameters: proj.Parse of an OGC WKT text and of the PROJ.4 text describing the same system (each of the five WKT projection names, an oblique projection for centre/azimuth names, central_parallel, a plain geographic system) stores every parameter in the same SR field: standard_parallel_1↔lat_1, standard_parallel_2↔lat_2, latitude_of_origin/latitude_of_center/central_parallel↔lat_0, central_meridian↔lon_0, longitude_of_center↔lonc, false_easting↔x_0, false_northing↔y_0, scale_factor↔k_0, azimuth↔alpha")
	c.Rule("C20.R2", "model evaluation: angular parameters come out as symbol × deg2rad from either spelling and ratios as the bare symbol; a WKT false origin comes out as symbol × declared linear unit (PROJ.4: the bare symbol, always metres); UNIT's factor reaches SR.ToMeter; SPHEROID[a, 1/f] and +a +rf give identical terms for A, B, Rf, A2, B2, Es, E, Ep2 after DeriveConstants (branches on parameter values follow a stated reference valuation: an ordinary ellipsoid)")
	c.Rule("C20.R3", "model evaluation: the projection name stored by the WKT parser and the one stored by the PROJ.4 parser are registered for the same constructor; every name in the definition registry after start-up is either a definition whose registered reference equals a fresh parse of its text, or an alias bound to the identical *SR of a definition; WGS84 ≡ EPSG:4326 and the web-mercator aliases ≡ EPSG:3857")
	c.Rule("C20.R6", "model evaluation: a text (PROJ.4 with competing keys k/k_0, units/to_meter, ellps/a, datum/towgs84 in either order; a projected WKT) parsed with every ranged-over map walked in insertion order and again in the reverse order gives identical references: the result of a parse does not depend on Go's unspecified map order")
	c.Rule("C20.R7", "model evaluation: a datum shift of three and of seven values written as TOWGS84[…] and as +towgs84=… is stored with one element per value written, in order, and identically from both spellings")
	c.Rule("C20.R5", "model evaluation of SR.Equal on parsed references (reflection described by go/types, ULP comparison of two generic values true exactly for identical terms): true for two parses of one text in both argument orders; false — never a panic — when a float (first or last), a set/unset (NaN) marker, a string, a flag, a datum-shift value, the length of the datum-shift list, a nested pointer's nil-ness or a float behind a nested pointer differs")
	c.Rule("C20.R4", "NewTransform returns the nil (identity) transformer on exactly the paths where Equal is true")
	p := c.P.Pkg("proj")
	if p == nil {
		c.Unk("C20.R1", "proj", token.NoPos, "package not loaded")
		return
	}
	a := &c20{c: c, info: p.TypesInfo, p: p}
	c20model(c)
	a.identity()
	c.Floor("C20.R1", 11)
	c.Floor("C20.R2", 13)
	c.Floor("C20.R3", 10)
	c.Floor("C20.R6", 3)
	c.Floor("C20.R7", 2)
	c.Floor("C20.R5", 8)
	c.Floor("C20.R4", 1)
}

// identity: `return nil, nil` in NewTransform only under Equal(...) true; and every Equal-true path returns nil.
func (a *c20) identity() {
	c := a.c
	nt := c.P.Method("proj", "SR", "NewTransform")
	fd := c.P.Decl(nt)
	if fd == nil {
		c.Unk("C20.R4", "proj.(*SR).NewTransform", token.NoPos, "API anchor does not resolve")
		return
	}
	recv := receiverVar(a.info, fd)
	dest := paramVars(a.info, fd.Type)[0]
	equal := c.P.Method("proj", "SR", "Equal")
	msg := ""
	var pos token.Pos = fd.Pos()
	seenEqualNil := false
	cl := &FactsClient{}
	cl.OnBranch = func(cond ast.Expr, truth bool, s Facts) Facts {
		for _, at := range conjuncts(cond, truth) {
			call, ok := unparen(at.E).(*ast.CallExpr)
			if !ok || callee(a.info, call) != equal || len(call.Args) < 1 {
				continue
			}
			sel, ok := unparen(call.Fun).(*ast.SelectorExpr)
			if !ok {
				continue
			}
			x, y := objOf(a.info, sel.X), objOf(a.info, call.Args[0])
			if (x == recv && y == dest) || (x == dest && y == recv) {
				if at.Truth {
					s["equal"] = true
				} else {
					s["notequal"] = true
				}
			}
		}
		return s
	}
	cl.OnReturn = func(r *ast.ReturnStmt, s Facts) {
		if r == nil || len(r.Results) != 2 {
			return
		}
		nilT := isNilConst(a.info, r.Results[0])
		nilE := isNilConst(a.info, r.Results[1])
		switch {
		case nilT && nilE:
			if !s["equal"] && msg == "" {
				msg, pos = "the identity (nil) transformer is returned on a path where the references were not found Equal", r.Pos()
			}
			if s["equal"] {
				seenEqualNil = true
			}
		case !nilT && s["equal"] && msg == "":
			msg, pos = "a real transformer is returned although the references are Equal", r.Pos()
		}
	}
	fl := &Flow[Facts]{C: cl, Info: a.info}
	fl.Run(fd.Body, Facts{})
	if msg == "" && !seenEqualNil {
		msg = "Equal references do not short-circuit to the nil transformer"
	}
	if msg != "" {
		c.Bad("C20.R4", c.P.FuncName(nt)+"#identity", pos, "%s", msg)
	} else {
		c.OK("C20.R4", c.P.FuncName(nt)+"#identity", fd.Pos(), "nil transformer exactly when Equal")
	}
	_ = fmt.Sprint
}
