package main

// C20 — one CRS, three spellings (PROJ.4, OGC WKT, registered name).

import (
	"fmt"
	"go/ast"
	"go/token"
	"go/types"
	"sort"
	"strings"
)

func init() { register("C20", false, checkC20) }

// OGC WKT parameter name ↔ PROJ.4 key (both must set the same SR field)
var c20corr = [][2]string{
	{"standard_parallel_1", "lat_1"},
	{"standard_parallel_2", "lat_2"},
	{"latitude_of_origin", "lat_0"},
	{"latitude_of_center", "lat_0"},
	{"central_parallel", "lat_0"},
	{"central_meridian", "lon_0"},
	{"longitude_of_center", "lonc"},
	{"false_easting", "x_0"},
	{"false_northing", "y_0"},
	{"scale_factor", "k_0"},
	{"azimuth", "alpha"},
}

var c20angular = map[string]bool{"standard_parallel_1": true, "standard_parallel_2": true, "latitude_of_origin": true, "latitude_of_center": true,
	"central_parallel": true, "central_meridian": true, "longitude_of_center": true, "azimuth": true}

// WKT projection name ↔ PROJ.4 short name
var c20proj = [][2]string{
	{"Mercator_1SP", "merc"},
	{"Lambert_Conformal_Conic_2SP", "lcc"},
	{"Albers_Conic_Equal_Area", "aea"},
	{"Equidistant_Conic", "eqdc"},
	{"Transverse_Mercator", "tmerc"},
}

type c20 struct {
	c    *Ctx
	info *types.Info
	p    *pkgT
}

// keySwitchFields: for a switch on a string, the SR float fields assigned per case key, and the RHS.
type keyAssign struct {
	field string
	rhs   ast.Expr
	stmt  *ast.AssignStmt
}

func (a *c20) keySwitch(sw *ast.SwitchStmt) map[string][]keyAssign {
	out := map[string][]keyAssign{}
	for _, cl := range sw.Body.List {
		cc := cl.(*ast.CaseClause)
		var keys []string
		for _, e := range cc.List {
			if k, ok := constString(a.info, e); ok {
				keys = append(keys, k)
			}
		}
		var assigns []keyAssign
		ast.Inspect(&ast.BlockStmt{List: cc.Body}, func(n ast.Node) bool {
			as, ok := n.(*ast.AssignStmt)
			if !ok {
				return true
			}
			for i, l := range as.Lhs {
				sel, ok := unparen(l).(*ast.SelectorExpr)
				if !ok {
					continue
				}
				s := a.info.Selections[sel]
				if s == nil {
					continue
				}
				v, ok := s.Obj().(*types.Var)
				if !ok || !v.IsField() || !isFloat64(v.Type()) {
					continue
				}
				var rhs ast.Expr
				if len(as.Rhs) == len(as.Lhs) {
					rhs = as.Rhs[i]
				}
				assigns = append(assigns, keyAssign{v.Name(), rhs, as})
			}
			return true
		})
		for _, k := range keys {
			out[k] = assigns
		}
	}
	return out
}

// findKeySwitch: the switch statement with the most case keys from want.
func (a *c20) findKeySwitch(want map[string]bool) (*ast.SwitchStmt, *ast.FuncDecl) {
	var best *ast.SwitchStmt
	var bestFd *ast.FuncDecl
	bestN := 0
	for _, fn := range a.c.P.RepoFuncs() {
		if a.c.P.DeclPkg(fn) != a.p {
			continue
		}
		fd := a.c.P.Decl(fn)
		ast.Inspect(fd.Body, func(n ast.Node) bool {
			sw, ok := n.(*ast.SwitchStmt)
			if !ok || sw.Tag == nil {
				return true
			}
			hits := 0
			for _, cl := range sw.Body.List {
				for _, e := range cl.(*ast.CaseClause).List {
					if k, ok := constString(a.info, e); ok && want[k] {
						hits++
					}
				}
			}
			if hits > bestN {
				best, bestFd, bestN = sw, fd, hits
			}
			return true
		})
	}
	return best, bestFd
}

func checkC20(c *Ctx) {
	c.Rule("C20.R1", "the WKT PARAMETER switch and the PROJ.4 key switch assign the same SR field for corresponding names (standard_parallel_1↔lat_1, …, false_easting↔x_0, scale_factor↔k_0, azimuth↔alpha)")
	c.Rule("C20.R2", "WKT angular parameters are multiplied by deg2rad and linear/scale ones are not; the false origin is multiplied by ToMeter once, after all sections are parsed, and not reassigned afterwards; UNIT stores its factor into ToMeter for projected systems")
	c.Rule("C20.R3", "every WKT projection name (Mercator_1SP, Lambert_Conformal_Conic_2SP, Albers_Conic_Equal_Area, Equidistant_Conic, Transverse_Mercator) is registered for the same constructor as its PROJ.4 short name; alias names in the definition registry are bound to the identical *SR")
	c.Rule("C20.R6", "parameters are applied in textual order: no parser loop that stores into the spatial reference ranges over a map")
	c.Rule("C20.R7", "the datum-shift list is stored with one element per value written (make(len(list)) filled by the parse loop), never truncated or replaced")
	c.Rule("C20.R5", "SR.Equal is total and NaN-aware: float fields are equal exactly when both are NaN or neither is and they agree within the ULP bound; slice fields are indexed only after a length-equality test; pointer fields are followed only after nil-parity and non-nil tests")
	c.Rule("C20.R4", "NewTransform returns the nil (identity) transformer on exactly the paths where Equal is true")
	p := c.P.Pkg("proj")
	if p == nil {
		c.Unk("C20.R1", "proj", token.NoPos, "package not loaded")
		return
	}
	a := &c20{c: c, info: p.TypesInfo, p: p}
	wktKeys, projKeys := map[string]bool{}, map[string]bool{}
	for _, r := range c20corr {
		wktKeys[r[0]] = true
		projKeys[r[1]] = true
	}
	wsw, wfd := a.findKeySwitch(wktKeys)
	psw, _ := a.findKeySwitch(projKeys)
	if wsw == nil || psw == nil {
		c.Unk("C20.R1", "proj#parameter-switches", token.NoPos, "WKT PARAMETER switch or PROJ.4 key switch not found")
		return
	}
	wk, pk := a.keySwitch(wsw), a.keySwitch(psw)
	d2r := p.Types.Scope().Lookup("deg2rad")
	hasD2R := func(e ast.Expr) bool {
		found := false
		if e == nil {
			return false
		}
		ast.Inspect(e, func(n ast.Node) bool {
			if b, ok := n.(*ast.BinaryExpr); ok && b.Op == token.MUL && (objOf(a.info, b.X) == d2r || objOf(a.info, b.Y) == d2r) {
				found = true
			}
			return true
		})
		return found
	}
	for _, r := range c20corr {
		cons := "proj#parameter(" + r[0] + "↔" + r[1] + ")"
		wa, pa := wk[r[0]], pk[r[1]]
		wf, pf := fieldSet(wa), fieldSet(pa)
		switch {
		case len(wa) == 0:
			c.Bad("C20.R1", cons, wsw.Pos(), "the WKT parser has no case for PARAMETER[%q]", r[0])
		case len(pa) == 0:
			c.Bad("C20.R1", cons, psw.Pos(), "the PROJ.4 parser has no case for +%s", r[1])
		case strings.Join(wf, ",") != strings.Join(pf, ","):
			c.Bad("C20.R1", cons, wa[0].stmt.Pos(), "WKT PARAMETER[%q] sets %v but PROJ.4 +%s sets %v: the two spellings of one CRS describe different projections", r[0], wf, r[1], pf)
		default:
			c.OK("C20.R1", cons, wa[0].stmt.Pos(), "both set %v", wf)
		}
		// R2 (angular / linear scaling on the WKT side)
		if len(wa) > 0 {
			ucons := "proj#wkt-unit(" + r[0] + ")"
			scaled := false
			for _, as := range wa {
				if hasD2R(as.rhs) {
					scaled = true
				}
				// field *= deg2rad afterwards
				if as.stmt.Tok == token.MUL_ASSIGN && objOf(a.info, as.stmt.Rhs[0]) == d2r {
					scaled = true
				}
			}
			switch {
			case c20angular[r[0]] && !scaled:
				c.Bad("C20.R2", ucons, wa[0].stmt.Pos(), "WKT PARAMETER[%q] is an angle in degrees but is stored without × deg2rad (PROJ.4 +%s is converted)", r[0], r[1])
			case !c20angular[r[0]] && scaled:
				c.Bad("C20.R2", ucons, wa[0].stmt.Pos(), "WKT PARAMETER[%q] is not an angle but is multiplied by deg2rad", r[0])
			default:
				c.OK("C20.R2", ucons, wa[0].stmt.Pos(), map[bool]string{true: "degrees → radians", false: "stored as given"}[c20angular[r[0]]])
			}
		}
	}
	a.falseOrigin(wfd)
	a.unitFactor()
	a.registry()
	a.identity()
	c.Floor("C20.R1", 11)
	c.Floor("C20.R2", 13)
	c.Floor("C20.R3", 6)
	a.equalTotal()
	a.parseOrderAndShift()
	c.Floor("C20.R6", 1)
	c.Floor("C20.R7", 2)
	c.Floor("C20.R5", 3)
	c.Floor("C20.R4", 1)
}

func fieldSet(as []keyAssign) []string {
	m := map[string]bool{}
	for _, a := range as {
		m[a.field] = true
	}
	var out []string
	for k := range m {
		out = append(out, k)
	}
	sort.Strings(out)
	return out
}

// falseOrigin: the WKT entry point multiplies X0 and Y0 by ToMeter exactly once after parsing.
func (a *c20) falseOrigin(paramFd *ast.FuncDecl) {
	c := a.c
	// the entry point: function (string) (*SR, error) that calls the section parser and is called from Parse
	var entry *ast.FuncDecl
	var entryFn *types.Func
	parse := c.P.Func("proj", "Parse")
	if pfd := c.P.Decl(parse); pfd != nil {
		ast.Inspect(pfd.Body, func(n ast.Node) bool {
			if call, ok := n.(*ast.CallExpr); ok {
				if f := callee(a.info, call); f != nil && c.P.Decl(f) != nil {
					d := c.P.Decl(f)
					found := false
					ast.Inspect(d.Body, func(m ast.Node) bool {
						if as, ok := m.(*ast.AssignStmt); ok && as.Tok == token.MUL_ASSIGN {
							if sel, ok := unparen(as.Rhs[0]).(*ast.SelectorExpr); ok && sel.Sel.Name == "ToMeter" {
								found = true
							}
						}
						return true
					})
					if found {
						entry, entryFn = d, f
					}
				}
			}
			return true
		})
	}
	for _, fld := range []string{"X0", "Y0"} {
		cons := "proj#wkt-false-origin(" + fld + ")"
		if entry == nil {
			c.Bad("C20.R2", cons, token.NoPos, "no WKT entry point scales the false origin by the linear unit: false_easting/false_northing given in feet are used as metres")
			continue
		}
		n := 0
		var afterParse bool
		var parsePos token.Pos
		ast.Inspect(entry.Body, func(m ast.Node) bool {
			if call, ok := m.(*ast.CallExpr); ok && parsePos == token.NoPos {
				if f := callee(a.info, call); f != nil && c.P.Decl(f) != nil && f != entryFn && strings.Contains(strings.ToLower(f.Name()), "wkt") {
					parsePos = call.Pos()
				}
			}
			return true
		})
		ast.Inspect(entry.Body, func(m ast.Node) bool {
			as, ok := m.(*ast.AssignStmt)
			if !ok || len(as.Lhs) != 1 {
				return true
			}
			sel, ok := unparen(as.Lhs[0]).(*ast.SelectorExpr)
			if !ok || sel.Sel.Name != fld {
				return true
			}
			if as.Tok == token.MUL_ASSIGN {
				if rs, ok := unparen(as.Rhs[0]).(*ast.SelectorExpr); ok && rs.Sel.Name == "ToMeter" && sameExpr(a.info, rs.X, sel.X) {
					n++
					afterParse = as.Pos() > parsePos && parsePos != token.NoPos
				}
			}
			return true
		})
		switch {
		case n != 1:
			c.Bad("C20.R2", cons, entry.Pos(), "%s is multiplied by ToMeter %d times in the WKT entry point (want exactly once)", fld, n)
		case !afterParse:
			c.Bad("C20.R2", cons, entry.Pos(), "%s is scaled by ToMeter before the sections (and hence the UNIT clause) have been parsed", fld)
		default:
			c.OK("C20.R2", cons, entry.Pos(), "%s × ToMeter once, after parsing", fld)
		}
	}
}

// unitFactor: the UNIT handler stores the conversion factor into ToMeter for projected systems.
func (a *c20) unitFactor() {
	c := a.c
	cons := "proj#wkt-unit-factor"
	for _, fn := range c.P.RepoFuncs() {
		if c.P.DeclPkg(fn) != a.p {
			continue
		}
		fd := c.P.Decl(fn)
		var stores []*ast.AssignStmt
		ast.Inspect(fd.Body, func(n ast.Node) bool {
			if as, ok := n.(*ast.AssignStmt); ok && len(as.Lhs) == 1 && as.Tok == token.ASSIGN {
				if sel, ok := unparen(as.Lhs[0]).(*ast.SelectorExpr); ok && sel.Sel.Name == "ToMeter" {
					stores = append(stores, as)
				}
			}
			return true
		})
		if len(stores) < 2 || !strings.Contains(strings.ToLower(fn.Name()), "unit") {
			continue
		}
		// one branch (geographic) scales by A, the other stores the factor itself
		plain := false
		sc := newFnScope(a.info, fd.Body)
		for _, as := range stores {
			if o := objOf(a.info, as.Rhs[0]); o != nil {
				if d := sc.singleDef(o); d != nil {
					if call, ok := unparen(d).(*ast.CallExpr); ok && isFuncIn(callee(a.info, call), "strconv", "ParseFloat") {
						plain = true
					}
				}
			}
		}
		if plain {
			c.OK("C20.R2", cons, fd.Pos(), "projected systems: ToMeter = the UNIT conversion factor as parsed")
		} else {
			c.Bad("C20.R2", cons, fd.Pos(), "the UNIT clause of a projected system does not store its conversion factor unchanged into ToMeter")
		}
		return
	}
	c.Unk("C20.R2", cons, token.NoPos, "UNIT handler not found")
}

func (a *c20) registry() {
	c := a.c
	reg := projRegistry(c)
	for _, r := range c20proj {
		cons := "proj#projection-name(" + r[0] + "↔" + r[1] + ")"
		w, p := reg.names[strings.ToLower(r[0])], reg.names[r[1]]
		switch {
		case w == nil:
			c.Bad("C20.R3", cons, token.NoPos, "WKT projection name %q is not registered", r[0])
		case p == nil:
			c.Bad("C20.R3", cons, token.NoPos, "PROJ.4 projection name %q is not registered", r[1])
		case w != p:
			c.Bad("C20.R3", cons, c.P.Decl(w).Pos(), "WKT name %q is registered for %s but PROJ.4 name %q for %s", r[0], w.Name(), r[1], p.Name())
		default:
			c.OK("C20.R3", cons, c.P.Decl(w).Pos(), "both → %s", w.Name())
		}
	}
	// aliases: defs[alias] = defs[name] in init
	n := 0
	for _, f := range a.p.Syntax {
		for _, d := range f.Decls {
			fd, ok := d.(*ast.FuncDecl)
			if !ok || fd.Name.Name != "init" || fd.Body == nil {
				continue
			}
			ast.Inspect(fd.Body, func(nd ast.Node) bool {
				as, ok := nd.(*ast.AssignStmt)
				if !ok || len(as.Lhs) != 1 || len(as.Rhs) != 1 {
					return true
				}
				lx, ok := unparen(as.Lhs[0]).(*ast.IndexExpr)
				if !ok {
					return true
				}
				if _, isMap := a.info.TypeOf(lx.X).Underlying().(*types.Map); !isMap {
					return true
				}
				alias, ok := constString(a.info, lx.Index)
				if !ok {
					return true
				}
				n++
				cons := "proj#alias(" + alias + ")"
				rx, ok := unparen(as.Rhs[0]).(*ast.IndexExpr)
				if ok && sameExpr(a.info, rx.X, lx.X) {
					if target, ok := constString(a.info, rx.Index); ok {
						c.OK("C20.R3", cons, as.Pos(), "bound to the identical *SR of %q", target)
						return true
					}
				}
				c.Bad("C20.R3", cons, as.Pos(), "alias %q is bound to `%s`, not to the registered *SR of another name: it would not denote the same reference", alias, src(as.Rhs[0]))
				return true
			})
		}
	}
	if n == 0 {
		c.Unk("C20.R3", "proj#aliases", token.NoPos, "no alias registrations found")
	}
}

// identity: `return nil, nil` in NewTransform only under Equal(...) true; and every Equal-true path returns nil.
func (a *c20) identity() {
	c := a.c
	nt := c.P.Method("proj", "SR", "NewTransform")
	fd := c.P.Decl(nt)
	if fd == nil {
		c.Unk("C20.R4", "proj.(*SR).NewTransform", token.NoPos, "API anchor does not resolve")
		return
	}
	recv := receiverVar(a.info, fd)
	dest := paramVars(a.info, fd.Type)[0]
	equal := c.P.Method("proj", "SR", "Equal")
	msg := ""
	var pos token.Pos = fd.Pos()
	seenEqualNil := false
	cl := &FactsClient{}
	cl.OnBranch = func(cond ast.Expr, truth bool, s Facts) Facts {
		for _, at := range conjuncts(cond, truth) {
			call, ok := unparen(at.E).(*ast.CallExpr)
			if !ok || callee(a.info, call) != equal || len(call.Args) < 1 {
				continue
			}
			sel, ok := unparen(call.Fun).(*ast.SelectorExpr)
			if !ok {
				continue
			}
			x, y := objOf(a.info, sel.X), objOf(a.info, call.Args[0])
			if (x == recv && y == dest) || (x == dest && y == recv) {
				if at.Truth {
					s["equal"] = true
				} else {
					s["notequal"] = true
				}
			}
		}
		return s
	}
	cl.OnReturn = func(r *ast.ReturnStmt, s Facts) {
		if r == nil || len(r.Results) != 2 {
			return
		}
		nilT := isNilConst(a.info, r.Results[0])
		nilE := isNilConst(a.info, r.Results[1])
		switch {
		case nilT && nilE:
			if !s["equal"] && msg == "" {
				msg, pos = "the identity (nil) transformer is returned on a path where the references were not found Equal", r.Pos()
			}
			if s["equal"] {
				seenEqualNil = true
			}
		case !nilT && s["equal"] && msg == "":
			msg, pos = "a real transformer is returned although the references are Equal", r.Pos()
		}
	}
	fl := &Flow[Facts]{C: cl, Info: a.info}
	fl.Run(fd.Body, Facts{})
	if msg == "" && !seenEqualNil {
		msg = "Equal references do not short-circuit to the nil transformer"
	}
	if msg != "" {
		c.Bad("C20.R4", c.P.FuncName(nt)+"#identity", pos, "%s", msg)
	} else {
		c.OK("C20.R4", c.P.FuncName(nt)+"#identity", fd.Pos(), "nil transformer exactly when Equal")
	}
	_ = fmt.Sprint
}
