package main

// C20 — one CRS, three spellings (PROJ.4, OGC WKT, registered name).

import (
	"fmt"
	"go/ast"
	"go/token"
	"go/types"
	"strings"
)

func init() { register("C20", false, checkC20) }

// OGC WKT parameter name ↔ PROJ.4 key (both must set the same SR field)
var c20corr = [][2]string{
	{"standard_parallel_1", "lat_1"},
	{"standard_parallel_2", "lat_2"},
	{"latitude_of_origin", "lat_0"},
	{"latitude_of_center", "lat_0"},
	{"central_parallel", "lat_0"},
	{"central_meridian", "lon_0"},
	{"longitude_of_center", "lonc"},
	{"false_easting", "x_0"},
	{"false_northing", "y_0"},
	{"scale_factor", "k_0"},
	{"azimuth", "alpha"},
}

var c20angular = map[string]bool{"standard_parallel_1": true, "standard_parallel_2": true, "latitude_of_origin": true, "latitude_of_center": true,
	"central_parallel": true, "central_meridian": true, "longitude_of_center": true, "azimuth": true}

// WKT projection name ↔ PROJ.4 short name
var c20proj = [][2]string{
	{"Mercator_1SP", "merc"},
	{"Lambert_Conformal_Conic_2SP", "lcc"},
	{"Albers_Conic_Equal_Area", "aea"},
	{"Equidistant_Conic", "eqdc"},
	{"Transverse_Mercator", "tmerc"},
}

type c20 struct {
	c    *Ctx
	info *types.Info
	p    *pkgT
}

// keySwitchFields: for a switch on a string, the SR float fields assigned per case key, and the RHS.
type keyAssign struct {
	field string
	rhs   ast.Expr
	stmt  *ast.AssignStmt
}

func checkC20(c *Ctx) {
	c.Rule("C20.R1", "model evaluation with symbolic parameters: proj.Parse of an OGC WKT text and of the PROJ.4 text describing the same system (each of the five WKT projection names, an oblique projection for centre/azimuth names, central_parallel, a plain geographic system) stores every parameter in the same SR field: standard_parallel_1↔lat_1, standard_parallel_2↔lat_2, latitude_of_origin/latitude_of_center/central_parallel↔lat_0, central_meridian↔lon_0, longitude_of_center↔lonc, false_easting↔x_0, false_northing↔y_0, scale_factor↔k_0, azimuth↔alpha")
	c.Rule("C20.R2", "model evaluation: angular parameters come out as symbol × deg2rad from either spelling and ratios as the bare symbol; a WKT false origin comes out as symbol × declared linear unit (PROJ.4: the bare symbol, always metres); UNIT's factor reaches SR.ToMeter; SPHEROID[a, 1/f] and +a +rf give identical terms for A, B, Rf, A2, B2, Es, E, Ep2 after DeriveConstants (branches on parameter values follow a stated reference valuation: an ordinary ellipsoid)")
	c.Rule("C20.R3", "model evaluation: the projection name stored by the WKT parser and the one stored by the PROJ.4 parser are registered for the same constructor; every name in the definition registry after start-up is either a definition whose registered reference equals a fresh parse of its text, or an alias bound to the identical *SR of a definition; WGS84 ≡ EPSG:4326 and the web-mercator aliases ≡ EPSG:3857")
	c.Rule("C20.R6", "model evaluation: a text (PROJ.4 with competing keys k/k_0, units/to_meter, ellps/a, datum/towgs84 in either order; a projected WKT) parsed with every ranged-over map walked in insertion order and again in the reverse order gives identical references: the result of a parse does not depend on Go's unspecified map order")
	c.Rule("C20.R7", "model evaluation: a datum shift of three and of seven values written as TOWGS84[…] and as +towgs84=… is stored with one element per value written, in order, and identically from both spellings")
	c.Rule("C20.R5", "model evaluation of SR.Equal on parsed references (reflection described by go/types, ULP comparison of two generic values true exactly for identical terms): true for two parses of one text in both argument orders; false — never a panic — when a float (first or last), a set/unset (NaN) marker, a string, a flag, a datum-shift value, the length of the datum-shift list, a nested pointer's nil-ness or a float behind a nested pointer differs")
	c.Rule("C20.R4", "model evaluation with SR.Equal as an oracle: NewTransform between parsed references returns the nil (identity) transformer and no error exactly when Equal, asked about the source and the destination, answers true")
	p := c.P.Pkg("proj")
	if p == nil {
		c.Unk("C20.R1", "proj", token.NoPos, "package not loaded")
		return
	}
	a := &c20{c: c, info: p.TypesInfo, p: p}
	c20model(c)
	a.identity()
	c.Floor("C20.R1", 11)
	c.Floor("C20.R2", 13)
	c.Floor("C20.R3", 10)
	c.Floor("C20.R6", 3)
	c.Floor("C20.R7", 2)
	c.Floor("C20.R5", 8)
	c.Floor("C20.R4", 1)
}

// identity: `return nil, nil` in NewTransform only under Equal(...) true; and every Equal-true path returns nil.
func (a *c20) identity() {
	c := a.c
	nt := c.P.Method("proj", "SR", "NewTransform")
	equal := c.P.Method("proj", "SR", "Equal")
	if c.P.Decl(nt) == nil || c.P.Decl(equal) == nil {
		c.Unk("C20.R4", "proj.(*SR).NewTransform", token.NoPos, "API anchors (NewTransform, Equal) do not resolve")
		return
	}
	cons, pos := c.P.FuncName(nt)+"#identity", c.P.Decl(nt).Pos()
	m, parse := newC20m(c)
	if m == nil {
		c.Unk("C20.R4", cons, pos, "proj.Parse does not resolve")
		return
	}
	// Equal is an oracle here (what it decides is C20.R5's matter): NewTransform is interpreted on
	// pairs of parsed references with Equal answering true and false, and must return the nil
	// transformer exactly when the answer was true — asked about these two references
	texts := []string{
		"+proj=longlat +a=P7 +rf=P8 +no_defs",
		"+proj=merc +lon_0=P4 +k_0=P13 +x_0=P5 +y_0=P6 +a=P7 +rf=P8 +no_defs",
		"+proj=lcc +lat_1=P1 +lat_2=P2 +lat_0=P3 +lon_0=P4 +x_0=P5 +y_0=P6 +a=P7 +rf=P8 +towgs84=P9,P10,P11 +no_defs",
	}
	var refs []*oStruct
	for _, t := range texts {
		sr, why := m.run(parse, t)
		if why != "" {
			c.Unk("C20.R4", cons, pos, "a reference text is not interpretable: %s", why)
			return
		}
		refs = append(refs, sr)
	}
	inner := m.it.stub
	answer := false
	var askedOf [][2]oval
	m.it.stub = func(f *types.Func, recv oval, args []oval) ([]oval, bool) {
		if f == equal && len(args) >= 1 {
			askedOf = append(askedOf, [2]oval{recv, args[0]})
			return []oval{oBool(answer)}, true
		}
		return inner(f, recv, args)
	}
	defer func() { m.it.stub = inner }()
	bad, unk := "", ""
	runs := 0
	for i, sa := range refs {
		for k, sb := range refs {
			for _, ans := range []bool{true, false} {
				if bad != "" || unk != "" {
					break
				}
				answer, askedOf = ans, nil
				runs++
				res, why := m.it.Call(nt, oPtr{sa}, []oval{oPtr{sb}}, 0)
				what := fmt.Sprintf("NewTransform from reference %d to reference %d with Equal answering %v", i+1, k+1, ans)
				switch {
				case strings.HasPrefix(why, "panic:"):
					bad = what + " panics: " + why
				case why != "" || len(res) != 2:
					unk = what + " is not interpretable: " + why
				default:
					errNil, okE := oEqual(res[1], oNil{})
					tNil, okT := oEqual(res[0], oNil{})
					if !okE || !okT {
						unk = fmt.Sprintf("%s returns (%s, %s)", what, showVal(res[0]), showVal(res[1]))
						break
					}
					about := false
					for _, q := range askedOf {
						about = about || (sameCell(q[0], oPtr{sa}) && sameCell(q[1], oPtr{sb})) || (sameCell(q[0], oPtr{sb}) && sameCell(q[1], oPtr{sa}))
					}
					switch {
					case ans && !(tNil && errNil) && about:
						bad = "a real transformer (or an error) is returned although the two references are Equal: the identity must be the nil transformer"
					case ans && !(tNil && errNil):
						bad = "Equal is not asked about the source and the destination, so equal references do not short-circuit to the nil transformer"
					case !ans && tNil && errNil:
						bad = "the identity (nil) transformer is returned for references that Equal does not hold equal"
					case !ans && !errNil:
						bad = what + " returns an error for two valid references"
					}
				}
			}
		}
	}
	c.Evals(runs)
	report3(c, "C20.R4", cons, pos, bad, unk, fmt.Sprintf("nil transformer exactly when Equal holds of the two references (%d runs over three references with Equal as an oracle)", runs))
}
