package main

// C03 — area, centroid, length, distance.
//
// R1 segment coverage of every fold over consecutive vertices (cycle for the
//    shoelace sums, open chain for Length/Distance/centroid loops) and the
//    closing term of a cyclic sum is the loop's summand at (last, first).
// R2 orientation parity (a small type system: zero/even/odd/mixed under ring
//    reversal) of Area and Centroid results.
// R3 aggregation over members (full range; + from 0, min from +Inf).

import (
	"go/types"
	"math/big"
	"sort"
	"strings"
)

func init() { register("C03", false, checkC03) }

func checkC03(c *Ctx) {
	c.Rule("C03.R1", "model evaluation with symbolic coordinates: Polygon.Area (geom) equals, as a polynomial identity in the vertex coordinates, the shoelace area of the shells minus the holes for a triangle, a pentagon and a shell with one and two holes under every per-ring reversal, start vertex and closed/unclosed spelling; op.Area the same for holes wound against their shell and all rings reversed together; LineString.Length / op.Length equal the sum of segment lengths and LineString.Distance the least point-to-segment distance over all consecutive vertex pairs (comparisons between computed values follow a stated reference figure)")
	c.Rule("C03.R2", "model evaluation: Polygon.Centroid and op.Centroid of closed rings equal, as rational functions of the coordinates, the area-weighted mean of the ring centroids for every start vertex and with all rings reversed together; MultiPolygon.Centroid (one member with a hole, two members with holes) equals the mean weighted by |area| with holes negative under reversal of any single ring")
	c.Rule("C03.R3", "model evaluation: MultiPolygon.Area and op.Area of a multi-polygon equal the sum of the members' areas whatever the winding of each member; MultiLineString.Length / op.Length the sum over all lines; MultiLineString.Distance the least distance over all lines in either order")
	c.Rule("C03.R5", "axis discipline of the coordinate predicates the measures rely on (hole detection by box and point-in-ring tests, on-segment pre-tests): no comparison relates an X ordinate to a Y ordinate")
	c.Rule("C03.R4", "point-to-segment distance: at the foot point S + b·(E−S) the projection parameter satisfies 0 ≤ b ≤ 1 on every path (otherwise the end points are returned), and the division producing b has a non-zero divisor (zero-length segments cannot yield NaN)")
	c03model(c)
	segDistModel(c, "C03.R4")
	checkAxisDiscipline(c, "C03.R5", "geom", "op")
	premiseBounds(c, "C03.R6", "Area decides what is a hole with a pre-filter on the rings' boxes")
	c.Floor("C03.R6", 16)
	c.Floor("C03.R5", 2)
	c.Floor("C03.R4", 1)
	c.Floor("C03.R1", 8)
	c.Floor("C03.R2", 9)
	c.Floor("C03.R3", 3)
}

type poly map[string]*big.Rat // monomial "px*qy" (sorted factors) → coefficient

func polyConst(r *big.Rat) poly {
	if r.Sign() == 0 {
		return poly{}
	}
	return poly{"": r}
}
func polyVar(v string) poly { return poly{v: big.NewRat(1, 1)} }
func (p poly) add(q poly, sign int64) poly {
	out := poly{}
	for k, v := range p {
		out[k] = new(big.Rat).Set(v)
	}
	for k, v := range q {
		t := new(big.Rat).Mul(v, big.NewRat(sign, 1))
		if o, ok := out[k]; ok {
			o.Add(o, t)
		} else {
			out[k] = t
		}
	}
	for k, v := range out {
		if v.Sign() == 0 {
			delete(out, k)
		}
	}
	return out
}
func (p poly) mul(q poly) poly {
	out := poly{}
	for k1, v1 := range p {
		for k2, v2 := range q {
			var fs []string
			if k1 != "" {
				fs = append(fs, strings.Split(k1, "*")...)
			}
			if k2 != "" {
				fs = append(fs, strings.Split(k2, "*")...)
			}
			sort.Strings(fs)
			k := strings.Join(fs, "*")
			t := new(big.Rat).Mul(v1, v2)
			if o, ok := out[k]; ok {
				o.Add(o, t)
			} else {
				out[k] = t
			}
		}
	}
	for k, v := range out {
		if v.Sign() == 0 {
			delete(out, k)
		}
	}
	return out
}
func (p poly) equal(q poly) bool { return len(p.add(q, -1)) == 0 }

func isFloatT(t types.Type) bool {
	if t == nil {
		return false
	}
	b, ok := t.Underlying().(*types.Basic)
	return ok && b.Info()&types.IsFloat != 0
}
