package main

// C03 — area, centroid, length, distance.
//
// R1 segment coverage of every fold over consecutive vertices (cycle for the
//    shoelace sums, open chain for Length/Distance/centroid loops) and the
//    closing term of a cyclic sum is the loop's summand at (last, first).
// R2 orientation parity (a small type system: zero/even/odd/mixed under ring
//    reversal) of Area and Centroid results.
// R3 aggregation over members (full range; + from 0, min from +Inf).

import (
	"fmt"
	"go/ast"
	"go/constant"
	"go/token"
	"go/types"
	"math/big"
	"sort"
	"strings"
)

func init() { register("C03", false, checkC03) }

type c03 struct {
	c          *Ctx
	ptT        types.Type
	summ       map[*types.Func]parity
	busy       map[*types.Func]bool
	summ2      map[sumKey]parity
	busy2      map[sumKey]bool
	assume     map[sumKey]parity
	usedAssume map[sumKey]bool
}

func checkC03(c *Ctx) {
	c.Rule("C03.R1", "every fold over consecutive vertices visits the right pair set: shoelace sums the full cycle (chain 0..len-2 plus a closing term that is the loop's own summand at (last, first)) behind a short-ring guard; Length/Distance/centroid loops the open chain 0..len-2")
	c.Rule("C03.R2", "orientation parity: Area results are even (unchanged by reversing rings); Polygon.Centroid/op.Centroid coordinates are even under reversal of all rings; MultiPolygon.Centroid coordinates are even under reversal of any single ring")
	c.Rule("C03.R3", "MultiPolygon.Area, MultiLineString.Length/Distance fold every member (full range, no skip); Length adds from 0, Distance takes min from +Inf")
	c.Rule("C03.R5", "axis discipline of the coordinate predicates the measures rely on (hole detection by box and point-in-ring tests, on-segment pre-tests): no comparison relates an X ordinate to a Y ordinate")
	c.Rule("C03.R4", "point-to-segment distance: at the foot point S + b·(E−S) the projection parameter satisfies 0 ≤ b ≤ 1 on every path (otherwise the end points are returned), and the division producing b has a non-zero divisor (zero-length segments cannot yield NaN)")
	a := &c03{c: c, ptT: c.P.NamedType("geom", "Point"), summ: map[*types.Func]parity{}, busy: map[*types.Func]bool{}, summ2: map[sumKey]parity{}, busy2: map[sumKey]bool{}, assume: map[sumKey]parity{}, usedAssume: map[sumKey]bool{}}
	a.r1()
	a.r2()
	a.r3()
	checkSegmentDistance(c, "C03.R4")
	checkAxisDiscipline(c, "C03.R5", "geom", "op")
	c.Floor("C03.R5", 2)
	c.Floor("C03.R4", 2)
	c.Floor("C03.R1", 8)
	c.Floor("C03.R2", 5)
	c.Floor("C03.R3", 3)
}

func (a *c03) isPointSlice(t types.Type) bool {
	s, ok := t.Underlying().(*types.Slice)
	return ok && types.Identical(s.Elem(), a.ptT)
}

// reachable repo functions (static callees) from a root, depth-limited.
func (a *c03) reach(root *types.Func, depth int) []*types.Func {
	seen := map[*types.Func]bool{}
	var order []*types.Func
	var visit func(f *types.Func, d int)
	visit = func(f *types.Func, d int) {
		if f == nil || seen[f] || a.c.P.Decl(f) == nil || d > depth {
			return
		}
		seen[f] = true
		order = append(order, f)
		info := a.c.P.InfoOf(f)
		ast.Inspect(a.c.P.Decl(f).Body, func(n ast.Node) bool {
			if call, ok := n.(*ast.CallExpr); ok {
				visit(callee(info, call), d+1)
			}
			return true
		})
	}
	visit(root, 0)
	return order
}

// vertexFold describes one fold over consecutive vertices of V inside fn.
type vertexFold struct {
	fn    *types.Func
	v     types.Object
	fams  []segFamily
	loop  *Loop
	first token.Pos
	bad   string
}

// folds finds, in fn, every counting loop whose body combines V[i+c] and V[i+c+1]
// for a []Point variable V, plus closing terms V[len-1], V[0] outside loops.
func (a *c03) folds(fn *types.Func) []*vertexFold {
	fd := a.c.P.Decl(fn)
	info := a.c.P.InfoOf(fn)
	sc := newFnScope(info, fd.Body)
	type key struct {
		v types.Object
	}
	byV := map[types.Object]*vertexFold{}
	var order []types.Object
	type acc struct {
		loop *Loop
		offs map[int64]bool
	}
	perLoop := map[types.Object]map[*Loop]*acc{}
	// closing terms: statements outside V-indexed loops mentioning both V[len-1] and V[0]
	var visitStmt func(st ast.Stmt)
	noteAccess := func(ix *ast.IndexExpr) {
		v := objOf(info, ix.X)
		if v == nil || !a.isPointSlice(v.Type()) {
			return
		}
		loops, _ := loopsAround(sc, fd.Body, ix)
		for i := len(loops) - 1; i >= 0; i-- {
			l := loops[i]
			if off, ok := sc.idxOffset(ix.Index, l.Idx); ok {
				if perLoop[v] == nil {
					perLoop[v] = map[*Loop]*acc{}
				}
				// loops are re-created by loopsAround: key by statement
				var found *acc
				for kl, ac := range perLoop[v] {
					if kl.Stmt == l.Stmt {
						found = ac
					}
				}
				if found == nil {
					found = &acc{loop: l, offs: map[int64]bool{}}
					perLoop[v][l] = found
				}
				found.offs[off] = true
				return
			}
		}
	}
	ast.Inspect(fd.Body, func(n ast.Node) bool {
		if ix, ok := n.(*ast.IndexExpr); ok {
			noteAccess(ix)
		}
		return true
	})
	_ = visitStmt
	for v, m := range perLoop {
		for _, ac := range m {
			if len(ac.offs) < 2 {
				continue
			}
			if !a.hasFloatAccumulator(info, ac.loop) {
				continue // a search/classification loop, not a fold (C02 covers those)
			}
			vf := byV[v]
			if vf == nil {
				vf = &vertexFold{fn: fn, v: v, first: ac.loop.Stmt.Pos()}
				byV[v] = vf
				order = append(order, v)
			}
			var offs []int64
			for o := range ac.offs {
				offs = append(offs, o)
			}
			sort.Slice(offs, func(i, j int) bool { return offs[i] < offs[j] })
			if len(offs) != 2 || offs[1] != offs[0]+1 {
				vf.bad = fmt.Sprintf("loop combines vertices at offsets %v, not two consecutive ones", offs)
				continue
			}
			l := ac.loop
			if !l.Lo.ok || !l.Hi.ok {
				vf.bad = "loop bounds not affine"
				continue
			}
			brk, cont, _ := earlyExits(l.Body)
			if len(brk)+len(cont) > 0 {
				// allowed only when the function is not a fold (e.g. search loops); flagged by caller if it matters
				vf.bad = "fold loop has break/continue"
			}
			vf.loop = l
			vf.fams = append(vf.fams, segFamily{A: l.Lo.plus(offs[0]), B: l.Hi.plus(offs[0]), Node: l.Stmt})
		}
	}
	// closing terms
	for _, v := range order {
		vf := byV[v]
		ast.Inspect(fd.Body, func(n ast.Node) bool {
			var rhs []ast.Expr
			switch s := n.(type) {
			case *ast.AssignStmt:
				rhs = s.Rhs
			case *ast.ValueSpec:
				rhs = s.Values
			case *ast.IfStmt:
				// calls like f(pt, V[len-1], V[0]) in a condition
				if call, ok := unparen(s.Cond).(*ast.CallExpr); ok {
					rhs = []ast.Expr{call}
				}
			default:
				return true
			}
			for _, r := range rhs {
				last, first := false, false
				inLoop := false
				ast.Inspect(r, func(m ast.Node) bool {
					ix, ok := m.(*ast.IndexExpr)
					if !ok || objOf(info, ix.X) != v {
						return true
					}
					af := sc.aff(ix.Index)
					if af.ok && af.Of != nil && af.K == -1 && objOf(info, af.Of) == v {
						last = true
					} else if af.ok && af.Of == nil && af.K == 0 {
						first = true
					} else {
						inLoop = true
					}
					return true
				})
				if last && first && !inLoop {
					// not a comparison like r[len-1] != r[0]
					if b, ok := unparen(r).(*ast.BinaryExpr); ok && (b.Op == token.NEQ || b.Op == token.EQL) {
						continue
					}
					vf.fams = append(vf.fams, segFamily{Wrap: true, Node: r})
				}
			}
			return true
		})
	}
	var out []*vertexFold
	sort.Slice(order, func(i, j int) bool { return order[i].Pos() < order[j].Pos() })
	for _, v := range order {
		out = append(out, byV[v])
	}
	return out
}

// hasFloatAccumulator: the loop body updates a float variable from its own value
// (x += …, x -= …, x = math.Min(x, …)).
func (a *c03) hasFloatAccumulator(info *types.Info, l *Loop) bool {
	found := false
	ast.Inspect(l.Body, func(n ast.Node) bool {
		as, ok := n.(*ast.AssignStmt)
		if !ok || len(as.Lhs) != 1 {
			return true
		}
		o := objOf(info, as.Lhs[0])
		if o == nil || !isFloatT(o.Type()) {
			return true
		}
		switch as.Tok {
		case token.ADD_ASSIGN, token.SUB_ASSIGN:
			found = true
		case token.ASSIGN:
			if len(as.Rhs) == 1 && mentions(info, as.Rhs[0], o) {
				found = true
			}
		}
		return true
	})
	return found
}

// shortGuard: the function returns before indexing V when len(V) is 0.
func (a *c03) shortGuard(fn *types.Func, v types.Object) bool {
	fd := a.c.P.Decl(fn)
	info := a.c.P.InfoOf(fn)
	for _, st := range fd.Body.List {
		is, ok := st.(*ast.IfStmt)
		if ok {
			if b, ok := unparen(is.Cond).(*ast.BinaryExpr); ok {
				la := lenArg(info, b.X)
				k, kok := constInt(info, b.Y)
				if la != nil && kok && objOf(info, la) == v {
					empty := (b.Op == token.LSS && k >= 1) || (b.Op == token.LEQ && k >= 0) || (b.Op == token.EQL && k == 0)
					if empty && len(is.Body.List) > 0 {
						if _, isRet := is.Body.List[len(is.Body.List)-1].(*ast.ReturnStmt); isRet {
							return true
						}
					}
				}
			}
		}
		// any indexing of v before the guard?
		idx := false
		ast.Inspect(st, func(n ast.Node) bool {
			if ix, ok := n.(*ast.IndexExpr); ok && objOf(info, ix.X) == v {
				idx = true
			}
			return true
		})
		if idx {
			return false
		}
	}
	return false
}

func (a *c03) r1() {
	c := a.c
	type root struct {
		f    *types.Func
		kind string // "cycle" (area), "chain" (length/distance), "centroid"
	}
	var roots []root
	add := func(f *types.Func, kind, label string) {
		if f == nil || c.P.Decl(f) == nil {
			c.Unk("C03.R1", label, token.NoPos, "API anchor does not resolve")
			return
		}
		roots = append(roots, root{f, kind})
	}
	add(c.P.Method("geom", "Polygon", "Area"), "cycle", "geom.(Polygon).Area")
	add(c.P.Func("op", "Area"), "cycle", "op.Area")
	add(c.P.Method("geom", "LineString", "Length"), "chain", "geom.(LineString).Length")
	add(c.P.Method("geom", "LineString", "Distance"), "chain", "geom.(LineString).Distance")
	add(c.P.Func("op", "Length"), "chain", "op.Length")
	add(c.P.Method("geom", "Polygon", "Centroid"), "centroid", "geom.(Polygon).Centroid")
	add(c.P.Method("geom", "MultiPolygon", "Centroid"), "centroid", "geom.(MultiPolygon).Centroid")
	add(c.P.Func("op", "Centroid"), "centroid", "op.Centroid")
	done := map[string]bool{}
	for _, r := range roots {
		found := 0
		for _, f := range a.reach(r.f, 2) {
			for _, vf := range a.folds(f) {
				found++
				cons := c.P.FuncName(f) + "#" + vf.v.Name()
				if done[cons] {
					continue
				}
				done[cons] = true
				info := c.P.InfoOf(f)
				vExpr := ast.Expr(&ast.Ident{Name: vf.v.Name()})
				_ = vExpr
				if vf.bad != "" {
					c.Bad("C03.R1", cons, vf.first, "%s", vf.bad)
					continue
				}
				msg := ""
				// chain coverage
				n := 0
				for _, fam := range vf.fams {
					if fam.Wrap {
						continue
					}
					n++
					if !(fam.A.ok && fam.A.Of == nil && fam.A.K == 0) {
						msg = "first segment visited starts at vertex " + fam.A.String() + ", not 0"
					} else if !(fam.B.ok && fam.B.Of != nil && fam.B.K == -1 && objOf(info, fam.B.Of) == vf.v) {
						msg = "segments visited end at " + fam.B.String() + ", want len-1 (segments 0..len-2): a segment is dropped or indexed past the end"
					}
				}
				if n > 1 && msg == "" {
					// several loops over the same pairs are fine when they feed different accumulators (cx, cy)
				}
				wraps := hasWrap(vf.fams)
				kind := r.kind
				// a function that has a closing term is a cyclic sum whatever reaches it
				if msg == "" {
					switch {
					case kind == "cycle" && wraps == 0:
						msg = "shoelace sum has no closing term (last vertex → first vertex): the area depends on where the ring starts and on whether the closing vertex is repeated"
					case kind == "chain" && wraps > 0:
						msg = "an open line must not be closed: segment (last, first) is added"
					}
				}
				if msg == "" && wraps > 0 {
					if !a.shortGuard(f, vf.v) {
						msg = "vertices are indexed before a len(" + vf.v.Name() + ")==0 guard: an empty ring panics"
					} else if m := a.closingMatchesLoop(f, vf); m != "" {
						msg = m
					}
				}
				if msg != "" {
					c.Bad("C03.R1", cons, vf.first, "%s", msg)
				} else {
					desc := "open chain 0..len-2"
					if wraps > 0 {
						desc = "full cycle (chain + closing term equal to the loop summand at (last, first)), guarded for empty rings"
					}
					c.OK("C03.R1", cons, vf.first, "%s", desc)
				}
			}
		}
		if found == 0 {
			c.Bad("C03.R1", c.P.FuncName(r.f), c.P.Decl(r.f).Pos(), "no fold over consecutive vertices is reachable from this API")
		}
	}
}

// ---------------------------------------------------------------- polynomials

type poly map[string]*big.Rat // monomial "px*qy" (sorted factors) → coefficient

func polyConst(r *big.Rat) poly {
	if r.Sign() == 0 {
		return poly{}
	}
	return poly{"": r}
}
func polyVar(v string) poly { return poly{v: big.NewRat(1, 1)} }
func (p poly) add(q poly, sign int64) poly {
	out := poly{}
	for k, v := range p {
		out[k] = new(big.Rat).Set(v)
	}
	for k, v := range q {
		t := new(big.Rat).Mul(v, big.NewRat(sign, 1))
		if o, ok := out[k]; ok {
			o.Add(o, t)
		} else {
			out[k] = t
		}
	}
	for k, v := range out {
		if v.Sign() == 0 {
			delete(out, k)
		}
	}
	return out
}
func (p poly) mul(q poly) poly {
	out := poly{}
	for k1, v1 := range p {
		for k2, v2 := range q {
			var fs []string
			if k1 != "" {
				fs = append(fs, strings.Split(k1, "*")...)
			}
			if k2 != "" {
				fs = append(fs, strings.Split(k2, "*")...)
			}
			sort.Strings(fs)
			k := strings.Join(fs, "*")
			t := new(big.Rat).Mul(v1, v2)
			if o, ok := out[k]; ok {
				o.Add(o, t)
			} else {
				out[k] = t
			}
		}
	}
	for k, v := range out {
		if v.Sign() == 0 {
			delete(out, k)
		}
	}
	return out
}
func (p poly) equal(q poly) bool { return len(p.add(q, -1)) == 0 }
func (p poly) swap() poly {
	out := poly{}
	for k, v := range p {
		fs := strings.Split(k, "*")
		for i, f := range fs {
			switch {
			case strings.HasPrefix(f, "p"):
				fs[i] = "q" + f[1:]
			case strings.HasPrefix(f, "q"):
				fs[i] = "p" + f[1:]
			}
		}
		sort.Strings(fs)
		out[strings.Join(fs, "*")] = new(big.Rat).Set(v)
	}
	return out
}

// toPoly expands e; vertex(e) maps a vertex reference expression to "p"/"q".
func toPoly(info *types.Info, e ast.Expr, vertex func(ast.Expr) string) poly {
	e = unparen(e)
	if tv, ok := info.Types[e]; ok && tv.Value != nil {
		if r, ok := constRat(tv.Value); ok {
			return polyConst(r)
		}
		return nil
	}
	switch x := e.(type) {
	case *ast.SelectorExpr:
		if v := vertex(x.X); v != "" && (x.Sel.Name == "X" || x.Sel.Name == "Y") {
			return polyVar(v + strings.ToLower(x.Sel.Name))
		}
	case *ast.UnaryExpr:
		if x.Op == token.SUB {
			if p := toPoly(info, x.X, vertex); p != nil {
				return poly{}.add(p, -1)
			}
		}
		if x.Op == token.ADD {
			return toPoly(info, x.X, vertex)
		}
	case *ast.BinaryExpr:
		l, r := toPoly(info, x.X, vertex), toPoly(info, x.Y, vertex)
		if l == nil || r == nil {
			return nil
		}
		switch x.Op {
		case token.ADD:
			return l.add(r, 1)
		case token.SUB:
			return l.add(r, -1)
		case token.MUL:
			return l.mul(r)
		case token.QUO:
			if len(r) == 1 {
				if c, ok := r[""]; ok && c.Sign() != 0 {
					return l.mul(polyConst(new(big.Rat).Inv(c)))
				}
			}
		}
	}
	return nil
}

func constRat(v constant.Value) (*big.Rat, bool) {
	switch v.Kind() {
	case constant.Int, constant.Float:
		r, ok := new(big.Rat).SetString(v.ExactString())
		return r, ok
	}
	return nil, false
}

// summandPoly extracts the polynomial of an expression over two vertices of v:
// lo/hi identify which index expressions are p (first) and q (second).
func (a *c03) summandPoly(info *types.Info, sc *fnScope, e ast.Expr, v types.Object, isP, isQ func(ast.Expr) bool) poly {
	return toPoly(info, e, func(x ast.Expr) string {
		ix, ok := unparen(x).(*ast.IndexExpr)
		if !ok || objOf(info, ix.X) != v {
			return ""
		}
		if isP(ix.Index) {
			return "p"
		}
		if isQ(ix.Index) {
			return "q"
		}
		return ""
	})
}

// loopSummands returns, per accumulator variable, the polynomial added in the fold loop.
func (a *c03) loopSummands(info *types.Info, sc *fnScope, l *Loop, v types.Object) map[types.Object]poly {
	out := map[types.Object]poly{}
	// offsets used
	offs := map[int64]bool{}
	ast.Inspect(l.Body, func(n ast.Node) bool {
		if ix, ok := n.(*ast.IndexExpr); ok && objOf(info, ix.X) == v {
			if o, ok := sc.idxOffset(ix.Index, l.Idx); ok {
				offs[o] = true
			}
		}
		return true
	})
	var lo int64 = 1 << 30
	for o := range offs {
		if o < lo {
			lo = o
		}
	}
	isP := func(e ast.Expr) bool { o, ok := sc.idxOffset(e, l.Idx); return ok && o == lo }
	isQ := func(e ast.Expr) bool { o, ok := sc.idxOffset(e, l.Idx); return ok && o == lo+1 }
	for _, st := range l.Body.List {
		as, ok := st.(*ast.AssignStmt)
		if !ok || len(as.Lhs) != 1 || len(as.Rhs) != 1 {
			continue
		}
		accv := objOf(info, as.Lhs[0])
		if accv == nil {
			continue
		}
		var p poly
		switch as.Tok {
		case token.ADD_ASSIGN:
			p = a.summandPoly(info, sc, as.Rhs[0], v, isP, isQ)
		case token.SUB_ASSIGN:
			if q := a.summandPoly(info, sc, as.Rhs[0], v, isP, isQ); q != nil {
				p = poly{}.add(q, -1)
			}
		default:
			continue
		}
		if p != nil {
			out[accv] = p
		}
	}
	return out
}

// closingMatchesLoop: the closing term assigned to accumulator S equals the
// loop summand of S instantiated at (p=V[len-1], q=V[0]).
func (a *c03) closingMatchesLoop(fn *types.Func, vf *vertexFold) string {
	info := a.c.P.InfoOf(fn)
	fd := a.c.P.Decl(fn)
	sc := newFnScope(info, fd.Body)
	if vf.loop == nil {
		return ""
	}
	sums := a.loopSummands(info, sc, vf.loop, vf.v)
	isLast := func(e ast.Expr) bool {
		af := sc.aff(e)
		return af.ok && af.Of != nil && af.K == -1 && objOf(info, af.Of) == vf.v
	}
	isFirst := func(e ast.Expr) bool { af := sc.aff(e); return af.ok && af.Of == nil && af.K == 0 }
	checked := 0
	msg := ""
	ast.Inspect(fd.Body, func(n ast.Node) bool {
		as, ok := n.(*ast.AssignStmt)
		if !ok || len(as.Lhs) != 1 || len(as.Rhs) != 1 {
			return true
		}
		isWrap := false
		for _, fam := range vf.fams {
			if fam.Wrap && fam.Node == ast.Node(as.Rhs[0]) {
				isWrap = true
			}
		}
		if !isWrap {
			return true
		}
		accv := objOf(info, as.Lhs[0])
		lp, ok := sums[accv]
		if !ok {
			msg = "closing term is assigned to `" + src(as.Lhs[0]) + "`, which the loop does not accumulate into"
			return true
		}
		wp := a.summandPoly(info, sc, as.Rhs[0], vf.v, isLast, isFirst)
		if wp == nil {
			msg = "closing term `" + src(as.Rhs[0]) + "` is not a polynomial in the two vertices"
			return true
		}
		if as.Tok == token.SUB_ASSIGN {
			wp = poly{}.add(wp, -1)
		}
		checked++
		if !wp.equal(lp) {
			msg = "closing term `" + src(as.Rhs[0]) + "` is not the loop's summand evaluated at (last vertex, first vertex): the closing segment contributes with the wrong sign or formula"
		}
		return true
	})
	if msg == "" && checked == 0 {
		return "closing term not recognised as an assignment to the accumulator"
	}
	return msg
}

// ---------------------------------------------------------------- R2 parity

type parity int8

const (
	pUnset parity = iota
	pZero
	pEven
	pOdd
	pMixed
	pEither // even on some paths, odd on others (a join, not arithmetic)
)

func (p parity) String() string {
	return [...]string{"unset", "zero", "even", "odd", "mixed", "even-or-odd"}[p]
}

func parAdd(a, b parity) parity {
	switch {
	case a == pUnset || b == pUnset:
		if a == pUnset {
			return b
		}
		return a
	case a == pZero:
		return b
	case b == pZero:
		return a
	case a == pMixed || b == pMixed || a == pEither || b == pEither:
		return pMixed
	case a == b:
		return a
	}
	return pMixed
}

func parMul(a, b parity) parity {
	switch {
	case a == pZero || b == pZero:
		return pZero
	case a == pMixed || b == pMixed || a == pUnset || b == pUnset:
		return pMixed
	case a == pEither || b == pEither:
		return pEither
	case a == b:
		return pEven
	}
	return pOdd
}

func parJoin(a, b parity) parity {
	switch {
	case a == b:
		return a
	case a == pUnset:
		return b
	case b == pUnset:
		return a
	case a == pZero:
		return b
	case b == pZero:
		return a
	case a == pMixed || b == pMixed:
		return pMixed
	}
	return pEither
}

type parState map[types.Object]parity

type parClient struct {
	a        *c03
	info     *types.Info
	fn       *types.Func
	sc       *fnScope
	body     ast.Node
	perRing  bool
	ringLoop *ast.RangeStmt // in perRing mode: the loop over rings
	results  []parity       // joined parity per result (fields joined for Point results)
	notes    []string
}

func (c *parClient) Copy(s parState) parState {
	o := parState{}
	for k, v := range s {
		o[k] = v
	}
	return o
}
func (c *parClient) Join(x, y parState) parState {
	o := parState{}
	for k, v := range x {
		o[k] = parJoin(v, y[k])
	}
	for k, v := range y {
		if _, ok := x[k]; !ok {
			o[k] = v
		}
	}
	return o
}
func (c *parClient) Equal(x, y parState) bool {
	if len(x) != len(y) {
		return false
	}
	for k, v := range x {
		if y[k] != v {
			return false
		}
	}
	return true
}
func (c *parClient) Branch(cond ast.Expr, truth bool, s parState) parState { return s }
func (c *parClient) TypeCase(sw *ast.TypeSwitchStmt, cc *ast.CaseClause, s parState) parState {
	return s
}

func isFloatT(t types.Type) bool {
	if t == nil {
		return false
	}
	b, ok := t.Underlying().(*types.Basic)
	return ok && b.Info()&types.IsFloat != 0
}

// crossRing: in perRing mode, is v declared outside the ring loop?
func (c *parClient) crossRing(v types.Object, at ast.Node) bool {
	if !c.perRing || c.ringLoop == nil {
		return false
	}
	if !(c.ringLoop.Body.Pos() <= at.Pos() && at.End() <= c.ringLoop.Body.End()) {
		return false // the accumulation is not inside the loop over rings
	}
	return !(c.ringLoop.Body.Pos() <= v.Pos() && v.Pos() <= c.ringLoop.Body.End())
}

func (c *parClient) expr(e ast.Expr, s parState) parity {
	e = unparen(e)
	if tv, ok := c.info.Types[e]; ok && tv.Value != nil {
		if r, ok := constRat(tv.Value); ok && r.Sign() == 0 {
			return pZero
		}
		return pEven
	}
	switch x := e.(type) {
	case *ast.Ident:
		if o := objOf(c.info, x); o != nil {
			if p, ok := s[o]; ok && p != pUnset {
				return p
			}
		}
		return pEven
	case *ast.UnaryExpr:
		return c.expr(x.X, s)
	case *ast.BinaryExpr:
		switch x.Op {
		case token.ADD, token.SUB:
			return parAdd(c.expr(x.X, s), c.expr(x.Y, s))
		case token.MUL, token.QUO:
			return parMul(c.expr(x.X, s), c.expr(x.Y, s))
		}
		return pEven
	case *ast.CallExpr:
		f := callee(c.info, x)
		if isFuncIn(f, "math", "Abs") && len(x.Args) == 1 {
			p := c.expr(x.Args[0], s)
			if p == pOdd || p == pEither {
				return pEven
			}
			return p
		}
		if f != nil && c.a.c.P.Decl(f) != nil {
			return c.a.summary(f, c.perRing)
		}
		// pure function of its arguments
		p := pEven
		for _, arg := range x.Args {
			if isFloatT(c.info.TypeOf(arg)) {
				if q := c.expr(arg, s); q == pOdd || q == pMixed {
					p = pMixed
				}
			}
		}
		return p
	case *ast.SelectorExpr:
		// raw coordinate of a vertex outside a recognised summand
		if _, ok := unparen(x.X).(*ast.IndexExpr); ok {
			return pMixed
		}
		if o := objOf(c.info, x.X); o != nil {
			if p, ok := s[o]; ok {
				return p
			}
		}
		return pEven
	case *ast.CompositeLit:
		p := pUnset
		for _, el := range x.Elts {
			v := el
			if kv, ok := el.(*ast.KeyValueExpr); ok {
				v = kv.Value
			}
			p = parJoin(p, c.expr(v, s))
		}
		if p == pUnset {
			return pZero
		}
		return p
	}
	return pEven
}

// memberLoop: st lies in a loop that ranges over member geometries (elements that are
// polygons, line strings or Geom values — not the rings of one polygon, whose signed
// sum is meaningful) and the accumulator o is declared outside that loop.
func (c *parClient) memberLoop(st ast.Node, o types.Object) string {
	for _, anc := range enclosing(c.body, st) {
		rs, ok := anc.(*ast.RangeStmt)
		if !ok {
			continue
		}
		if rs.Body.Pos() <= o.Pos() && o.Pos() <= rs.Body.End() {
			continue
		}
		t := c.info.TypeOf(rs.X)
		if t == nil {
			continue
		}
		var elem types.Type
		switch u := t.Underlying().(type) {
		case *types.Slice:
			elem = u.Elem()
		case *types.Array:
			elem = u.Elem()
		}
		if elem == nil {
			continue
		}
		if n := named(elem); n != nil && n.Obj().Pkg() != nil && n.Obj().Pkg().Path() == modPath {
			switch n.Obj().Name() {
			case "Polygon", "MultiPolygon", "Geom", "Polygonal", "GeometryCollection":
				return "members of " + types.TypeString(t, func(p *types.Package) string { return p.Name() })
			}
		}
	}
	return ""
}

// summandParity: the polynomial parity of a fold step over consecutive vertices.
func (c *parClient) summandParity(l *Loop, v types.Object, e ast.Expr) (parity, bool) {
	offs := map[int64]bool{}
	ast.Inspect(e, func(n ast.Node) bool {
		if ix, ok := n.(*ast.IndexExpr); ok && objOf(c.info, ix.X) == v {
			if o, ok := c.sc.idxOffset(ix.Index, l.Idx); ok {
				offs[o] = true
			}
		}
		return true
	})
	if len(offs) != 2 {
		return pMixed, false
	}
	var lo int64 = 1 << 30
	for o := range offs {
		if o < lo {
			lo = o
		}
	}
	isP := func(x ast.Expr) bool { o, ok := c.sc.idxOffset(x, l.Idx); return ok && o == lo }
	isQ := func(x ast.Expr) bool { o, ok := c.sc.idxOffset(x, l.Idx); return ok && o == lo+1 }
	p := c.a.summandPoly(c.info, c.sc, e, v, isP, isQ)
	if p == nil {
		return pMixed, false
	}
	sw := p.swap()
	switch {
	case len(p) == 0:
		return pZero, true
	case sw.equal(p):
		return pEven, true
	case sw.equal(poly{}.add(p, -1)):
		return pOdd, true
	}
	return pMixed, true
}

// vertexListIn: the []Point variable indexed in e with a loop offset, and its loop.
func (c *parClient) vertexUse(e ast.Expr) (types.Object, *Loop) {
	var v types.Object
	var loop *Loop
	ast.Inspect(e, func(n ast.Node) bool {
		ix, ok := n.(*ast.IndexExpr)
		if !ok {
			return true
		}
		o := objOf(c.info, ix.X)
		if o == nil || !c.a.isPointSlice(o.Type()) {
			return true
		}
		loops, _ := loopsAround(c.sc, c.body, ix)
		for i := len(loops) - 1; i >= 0; i-- {
			if _, ok := c.sc.idxOffset(ix.Index, loops[i].Idx); ok {
				v, loop = o, loops[i]
				return false
			}
		}
		v = o
		return true
	})
	return v, loop
}

func (c *parClient) rhsParity(e ast.Expr, s parState) parity {
	if v, l := c.vertexUse(e); v != nil {
		if l != nil {
			if p, ok := c.summandParity(l, v, e); ok {
				return p
			}
			return pMixed
		}
		// closing term V[len-1], V[0]: same polynomial test with p=last, q=first
		isLast := func(x ast.Expr) bool {
			af := c.sc.aff(x)
			return af.ok && af.Of != nil && af.K == -1 && objOf(c.info, af.Of) == v
		}
		isFirst := func(x ast.Expr) bool { af := c.sc.aff(x); return af.ok && af.Of == nil && af.K == 0 }
		if p := c.a.summandPoly(c.info, c.sc, e, v, isLast, isFirst); p != nil {
			sw := p.swap()
			switch {
			case sw.equal(p):
				return pEven
			case sw.equal(poly{}.add(p, -1)):
				return pOdd
			}
		}
		return pMixed
	}
	return c.expr(e, s)
}

func (c *parClient) Stmt(n ast.Node, s parState) parState {
	switch st := n.(type) {
	case *ast.AssignStmt:
		if len(st.Lhs) != len(st.Rhs) {
			// tuple call: results even unless summarised otherwise
			for _, l := range st.Lhs {
				if o := objOf(c.info, l); o != nil && isFloatT(o.Type()) {
					s[o] = pEven
				}
			}
			return s
		}
		for i, l := range st.Lhs {
			o := objOf(c.info, l)
			if o == nil {
				continue
			}
			t := o.Type()
			if !isFloatT(t) && !types.Identical(t, c.a.ptT) {
				continue
			}
			r := c.rhsParity(st.Rhs[i], s)
			switch st.Tok {
			case token.DEFINE, token.ASSIGN:
				s[o] = r
			case token.ADD_ASSIGN, token.SUB_ASSIGN:
				if ml := c.memberLoop(st, o); ml != "" && (r == pOdd || r == pMixed || r == pEither) {
					s[o] = pMixed
					c.notes = append(c.notes, fmt.Sprintf("`%s` adds a value that changes sign with the winding of one member (%s) into `%s`, which accumulates across the %s: members wound in opposite directions cancel", src(st), r, o.Name(), ml))
				} else if c.crossRing(o, st) && (r == pOdd || r == pMixed) {
					s[o] = pMixed
					c.notes = append(c.notes, fmt.Sprintf("`%s` adds a value that changes sign with the winding of the current ring (%s) into `%s`, which accumulates across rings", src(st), r, o.Name()))
				} else {
					s[o] = parAdd(s[o], r)
				}
			case token.MUL_ASSIGN, token.QUO_ASSIGN:
				s[o] = parMul(s[o], r)
			}
		}
	case *ast.DeclStmt:
		if gd, ok := st.Decl.(*ast.GenDecl); ok {
			for _, sp := range gd.Specs {
				if vs, ok := sp.(*ast.ValueSpec); ok {
					for i, nm := range vs.Names {
						o := c.info.Defs[nm]
						if o == nil || !isFloatT(o.Type()) {
							continue
						}
						if i < len(vs.Values) {
							s[o] = c.rhsParity(vs.Values[i], s)
						} else {
							s[o] = pZero
						}
					}
				}
			}
		}
	}
	return s
}

func (c *parClient) Return(r *ast.ReturnStmt, s parState) {
	if r == nil {
		return
	}
	for i, e := range r.Results {
		t := c.info.TypeOf(e)
		if !isFloatT(t) && !types.Identical(t, c.a.ptT) {
			continue
		}
		for len(c.results) <= i {
			c.results = append(c.results, pUnset)
		}
		c.results[i] = parJoin(c.results[i], c.expr(e, s))
	}
}

// analyse computes the parity of fn's float/Point results.
func (a *c03) analyse(fn *types.Func, perRing bool) *parClient {
	fd := a.c.P.Decl(fn)
	info := a.c.P.InfoOf(fn)
	cl := &parClient{a: a, info: info, fn: fn, sc: newFnScope(info, fd.Body), body: fd.Body, perRing: perRing}
	if perRing {
		ast.Inspect(fd.Body, func(n ast.Node) bool {
			if rs, ok := n.(*ast.RangeStmt); ok && rs.Value != nil {
				if o := objOf(info, rs.Value); o != nil && a.isPointSlice(o.Type()) && cl.ringLoop == nil {
					cl.ringLoop = rs
				}
			}
			return true
		})
	}
	fl := &Flow[parState]{C: cl, Info: info}
	fl.Run(fd.Body, parState{})
	if len(fl.Unsupported) > 0 {
		cl.notes = append(cl.notes, "unsupported control flow")
		cl.results = []parity{pMixed}
	}
	return cl
}

type sumKey struct {
	fn      *types.Func
	perRing bool
}

// summary: parity of fn's float/Point results.  In perRing mode the callee is analysed
// per ring as well (a helper that sums orientation-odd ring quantities is not invariant
// under the reversal of one ring even if it is under the reversal of all).  Recursive
// functions are solved by iteration from "zero" (the recursive call contributes nothing)
// until the assumed and the computed parity agree.
func (a *c03) summary(fn *types.Func, perRing bool) parity {
	fn = fn.Origin()
	key := sumKey{fn, perRing}
	if p, ok := a.summ2[key]; ok {
		return p
	}
	if a.busy2[key] {
		a.usedAssume[key] = true
		if p, ok := a.assume[key]; ok {
			return p
		}
		return pZero
	}
	a.busy2[key] = true
	a.assume[key] = pZero
	p := pUnset
	for iter := 0; iter < 5; iter++ {
		a.usedAssume[key] = false
		cl := a.analyse(fn, perRing)
		p = pUnset
		for _, r := range cl.results {
			p = parJoin(p, r)
		}
		if p == pUnset {
			p = pEven
		}
		if !a.usedAssume[key] || p == a.assume[key] {
			break
		}
		a.assume[key] = p
	}
	a.busy2[key] = false
	a.summ2[key] = p
	return p
}

func (a *c03) r2() {
	c := a.c
	type ob struct {
		f       *types.Func
		label   string
		perRing bool
		what    string
	}
	obs := []ob{
		{c.P.Method("geom", "Polygon", "Area"), "geom.(Polygon).Area", false, "the area"},
		{c.P.Method("geom", "MultiPolygon", "Area"), "geom.(MultiPolygon).Area", false, "the area"},
		{c.P.Func("op", "Area"), "op.Area", false, "the area"},
		{c.P.Method("geom", "Polygon", "Centroid"), "geom.(Polygon).Centroid", false, "the centroid"},
		{c.P.Method("geom", "MultiPolygon", "Centroid"), "geom.(MultiPolygon).Centroid", true, "the centroid"},
		{c.P.Func("op", "Centroid"), "op.Centroid", false, "the centroid"},
	}
	for _, o := range obs {
		if o.f == nil || c.P.Decl(o.f) == nil {
			c.Unk("C03.R2", o.label, token.NoPos, "API anchor does not resolve")
			continue
		}
		cl := a.analyse(o.f, o.perRing)
		p := pUnset
		for _, r := range cl.results {
			p = parJoin(p, r)
		}
		pos := c.P.Decl(o.f).Pos()
		scope := "all rings are reversed together"
		if o.perRing {
			scope = "any single ring is reversed"
		}
		switch p {
		case pEven, pZero:
			c.OK("C03.R2", o.label, pos, "result is even: unchanged when %s", scope)
		case pOdd, pEither:
			c.Bad("C03.R2", o.label, pos, "%s changes sign when %s (result is odd in the ring orientation on some path)", o.what, scope)
		case pMixed:
			extra := ""
			if len(cl.notes) > 0 {
				extra = ": " + cl.notes[0]
			}
			c.Bad("C03.R2", o.label, pos, "%s is not invariant when %s (orientation-odd and orientation-even quantities are combined)%s", o.what, scope, extra)
		default:
			c.Unk("C03.R2", o.label, pos, "no float result analysed")
		}
	}
}

// ---------------------------------------------------------------- R3

func (a *c03) r3() {
	c := a.c
	type agg struct {
		typ, meth string
		kind      string // "sum" | "min"
	}
	for _, g := range []agg{{"MultiPolygon", "Area", "sum"}, {"MultiLineString", "Length", "sum"}, {"MultiLineString", "Distance", "min"}} {
		m := c.P.Method("geom", g.typ, g.meth)
		fd := c.P.Decl(m)
		label := "geom.(" + g.typ + ")." + g.meth
		if fd == nil {
			c.Unk("C03.R3", label, token.NoPos, "API anchor does not resolve")
			continue
		}
		info := c.P.InfoOf(m)
		recv := receiverVar(info, fd)
		sc := newFnScope(info, fd.Body)
		msg := ""
		var acc types.Object
		folded := false
		for _, st := range fd.Body.List {
			switch s := st.(type) {
			case *ast.AssignStmt:
				if len(s.Lhs) == 1 && len(s.Rhs) == 1 && s.Tok == token.DEFINE {
					acc = objOf(info, s.Lhs[0])
					init := unparen(s.Rhs[0])
					if g.kind == "sum" {
						if v := constOf(info, init); v == nil || constant.Sign(v) != 0 {
							msg = "sum does not start at 0"
						}
					} else {
						call, ok := init.(*ast.CallExpr)
						k := int64(0)
						if ok && len(call.Args) == 1 {
							k, _ = constInt(info, call.Args[0])
						}
						if !ok || !isFuncIn(callee(info, call), "math", "Inf") || k <= 0 {
							msg = "minimum does not start at +Inf (an empty or far-away geometry would report a wrong distance)"
						}
					}
				}
			case *ast.RangeStmt, *ast.ForStmt:
				l := sc.loopOf(st)
				if l == nil || !(l.Lo.K == 0 && l.Lo.Of == nil && l.Hi.K == 0 && l.Hi.Of != nil && objOf(info, l.Hi.Of) == recv) {
					msg = "loop does not cover every member"
					continue
				}
				brk, cont, rets := earlyExits(l.Body)
				if len(brk)+len(cont)+len(rets) > 0 {
					msg = "member loop has an early exit"
				}
				// the member's measure: elem.<same method>(args…) possibly via a local
				measured := map[types.Object]bool{}
				isMeasure := func(e ast.Expr) bool {
					e = unparen(e)
					if o := objOf(info, e); o != nil && measured[o] {
						return true
					}
					call, ok := e.(*ast.CallExpr)
					if !ok {
						return false
					}
					sel, ok := unparen(call.Fun).(*ast.SelectorExpr)
					if !ok || sel.Sel.Name != g.meth {
						return false
					}
					x := unparen(sel.X)
					return (l.Val != nil && objOf(info, x) == l.Val) || isRecvElem(info, x, recv, l.Idx)
				}
				for _, bs := range l.Body.List {
					as, ok := bs.(*ast.AssignStmt)
					if !ok || len(as.Lhs) != 1 || len(as.Rhs) != 1 {
						continue
					}
					lhs := objOf(info, as.Lhs[0])
					if lhs != acc {
						if isMeasure(as.Rhs[0]) && lhs != nil {
							measured[lhs] = true
						}
						continue
					}
					if g.kind == "sum" {
						if as.Tok == token.ADD_ASSIGN && isMeasure(as.Rhs[0]) {
							folded = true
						} else {
							msg = "accumulator updated by `" + src(as) + "`, not by adding the member's " + g.meth
						}
					} else {
						call, ok := unparen(as.Rhs[0]).(*ast.CallExpr)
						if ok && isFuncIn(callee(info, call), "math", "Min") && len(call.Args) == 2 &&
							((objOf(info, call.Args[0]) == acc && isMeasure(call.Args[1])) || (objOf(info, call.Args[1]) == acc && isMeasure(call.Args[0]))) {
							folded = true
						} else {
							msg = "accumulator updated by `" + src(as) + "`, not by min with the member's distance"
						}
					}
				}
			case *ast.ReturnStmt:
				if len(s.Results) != 1 {
					msg = "unexpected return"
					continue
				}
				e := unparen(s.Results[0])
				if call, ok := e.(*ast.CallExpr); ok && isFuncIn(callee(info, call), "math", "Abs") && len(call.Args) == 1 {
					e = unparen(call.Args[0])
				}
				if objOf(info, e) != acc || acc == nil {
					msg = "returns `" + src(s.Results[0]) + "`, not the accumulator"
				}
			}
		}
		if msg == "" && !folded {
			msg = "no fold of the members' " + g.meth + " found"
		}
		if msg != "" {
			c.Bad("C03.R3", label, fd.Pos(), "%s", msg)
		} else {
			c.OK("C03.R3", label, fd.Pos(), "%s over all members", g.kind)
		}
	}
}
