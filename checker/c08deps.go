package main

// C08.R1 / R3 / R4 by model evaluation.  Every projection the property names is looked up in the
// registry under its short name, its constructor is run on a reference parsed from symbolic
// parameters, and both members are interpreted: the forward one on a symbolic position (λ, φ),
// the inverse one on a symbolic projected position (X, Y) valued at what the forward member gives.
//
//	R3  the name is registered; the constructor returns two callable members and no error
//	R1  each coordinate the members return mentions an input symbol (a member that returns a
//	    constant, a parameter or the zero value of an unassigned result maps every input to the
//	    same output and cannot be one half of a bijection)
//	R4  the inverse's longitude mentions the central meridian (λ0, or the zone it is derived
//	    from) and its latitude does not
//
// "Mentions" looks through the abbreviations of large sub-terms.

import (
	"fmt"
	"go/token"
	"go/types"
	"os"
	"regexp"
	"strings"
)

type projTermsT struct {
	x, y, lon, lat poly
}

// projTerms interprets both members of a registered projection.
func projTerms(c *Ctx, ctor *types.Func, name string, hemi float64) (*projTermsT, string) {
	return projTermsOf(c, ctor, name, "+proj="+name+" +lat_1=P1 +lat_2=P2 +lat_0=P3 +lon_0=P4 +x_0=P5 +y_0=P6 +k_0=P13 +zone=P40 +a=P7 +rf=P8 +no_defs", hemi, 0)
}

// projTermsOf: the same for a reference given as a full PROJ.4 text.
func projTermsOf(c *Ctx, ctor *types.Func, name, text string, hemi float64, lam float64) (*projTermsT, string) {
	m, parse := newC20m(c)
	if m == nil {
		return nil, "proj.Parse does not resolve"
	}
	m.it.maxLoop = 64
	val := m.it.valuation
	val["p1"], val["p2"], val["p3"], val["p4"] = hemi*33, hemi*45, hemi*39, -96
	val["lam"], val["phi"] = -1.62, hemi*0.72
	val["p40"] = 14
	if name == "utm" {
		val["lam"] = -1.7 // inside zone 14
	}
	if lam != 0 {
		val["lam"] = lam // the reference position's longitude, given by the caller
	}
	symWiden = val
	defer func() { symWiden = nil }()
	symResetEval()
	sr, why := m.run(parse, text)
	if why != "" {
		return nil, why
	}
	c.Evals(3)
	res, why := m.it.Call(ctor, nil, []oval{oPtr{sr}}, 0)
	if why != "" {
		return nil, "the constructor is not interpretable: " + why
	}
	if len(res) < 3 {
		return nil, "!the constructor does not return two members and an error"
	}
	if eq, ok := oEqual(res[2], oNil{}); !ok {
		return nil, "the constructor's error result is " + showVal(res[2])
	} else if !eq {
		return nil, "!the constructor returns an error for ordinary parameters"
	}
	for i, what := range []string{"forward", "inverse"} {
		switch res[i].(type) {
		case oFunc, oBound, oFuncRef, oMethodExpr:
		default:
			return nil, fmt.Sprintf("!the constructor's %s member is %s, not a function", what, showVal(res[i]))
		}
	}
	r, why := m.it.CallValue(res[0], []oval{oSym{polyVar("lam")}, oSym{polyVar("phi")}})
	if why != "" {
		return nil, "forward: " + why
	}
	out := &projTermsT{}
	var ok1, ok2 bool
	out.x, ok1 = symOf(r[0])
	out.y, ok2 = symOf(r[1])
	if !ok1 || !ok2 {
		return nil, "forward returns " + showVal(r[0]) + ", " + showVal(r[1])
	}
	if len(r) > 2 {
		if eq, ok := oEqual(r[2], oNil{}); ok && !eq {
			return nil, "!forward reports an error for an ordinary position"
		}
	}
	vx, okx := symEval(out.x, val)
	vy, oky := symEval(out.y, val)
	if !okx || !oky {
		return nil, "the forward result has no value at the reference position"
	}
	val["X"], val["Y"] = vx, vy
	symResetEval()
	i, why := m.it.CallValue(res[1], []oval{oSym{polyVar("X")}, oSym{polyVar("Y")}})
	if why != "" {
		return nil, "inverse: " + why
	}
	out.lon, ok1 = symOf(i[0])
	out.lat, ok2 = symOf(i[1])
	if !ok1 || !ok2 {
		return nil, "inverse returns " + showVal(i[0]) + ", " + showVal(i[1])
	}
	if len(i) > 2 {
		if eq, ok := oEqual(i[2], oNil{}); ok && !eq {
			return nil, "!inverse reports an error for the position forward produced"
		}
	}
	return out, ""
}

// mentionsSym: the term contains one of the symbols, directly or inside an abbreviated sub-term.
func mentionsSym(p poly, rx *regexp.Regexp) bool {
	seen := map[string]bool{}
	var in func(s string) bool
	in = func(s string) bool {
		if rx.MatchString(s) {
			return true
		}
		for _, h := range hashSym.FindAllString(s, -1) {
			if seen[h] {
				continue
			}
			seen[h] = true
			if full, ok := symWideOf[h]; ok && in(full) {
				return true
			}
		}
		return false
	}
	return in(p.canon())
}

var (
	fwdInputs = regexp.MustCompile(`\b(lam|phi)\b`)
	invInputs = regexp.MustCompile(`\b[XY]\b`)
	meridian  = regexp.MustCompile(`\bp(4|40)\b`)
)

func c08members(c *Ctx) {
	reg := projRegistry(c)
	for _, n := range c08names {
		if only := os.Getenv("C08ONLY"); only != "" && only != n {
			continue
		}
		cons := "proj#registered(" + n + ")"
		ctor := reg.names[n]
		if ctor == nil || c.P.Decl(ctor) == nil {
			c.Bad("C08.R3", cons, token.NoPos, "projection %q is not registered", n)
			continue
		}
		pos := c.P.Decl(ctor).Pos()
		t, why := projTerms(c, ctor, n, +1)
		switch {
		case strings.HasPrefix(why, "!"):
			c.Bad("C08.R3", cons, pos, "%s", why[1:])
			continue
		case why != "":
			c.Unk("C08.R3", cons, pos, "%s", why)
			continue
		}
		c.OK("C08.R3", cons, pos, "%s yields a forward and an inverse member, both interpretable on ordinary parameters", ctor.Name())
		name := c.P.FuncName(ctor)
		// R1
		for _, chk := range []struct {
			role, what string
			p          poly
			rx         *regexp.Regexp
		}{{"forward", "easting", t.x, fwdInputs}, {"forward", "northing", t.y, fwdInputs}, {"inverse", "longitude", t.lon, invInputs}, {"inverse", "latitude", t.lat, invInputs}} {
			k := fmt.Sprintf("%s#%s(%s)", name, chk.role, chk.what)
			if mentionsSym(chk.p, chk.rx) {
				c.OK("C08.R1", k, pos, "depends on the member's input")
			} else {
				c.Bad("C08.R1", k, pos, "the %s the %s member returns is %s: it does not depend on either input coordinate (a constant, a parameter, or the zero value of an unassigned result), so every input maps to the same output, which cannot be one half of a bijection", chk.what, chk.role, short(chk.p.canon()))
			}
		}
		// R4
		if n == "longlat" {
			continue
		}
		k := name + "#inverse(meridian)"
		switch {
		case !mentionsSym(t.lon, meridian):
			c.Bad("C08.R4", k, pos, "the longitude the inverse returns does not depend on the central meridian: the pair is swapped or the longitude is computed from the wrong expression")
		case mentionsSym(t.lat, meridian):
			c.Bad("C08.R4", k, pos, "the latitude the inverse returns depends on the central meridian: these projections are symmetric about it, the latitude cannot depend on lon_0 (results swapped?)")
		default:
			c.OK("C08.R4", k, pos, "longitude depends on the central meridian, latitude does not")
		}
	}
}
