package main

// C05.R4 — the hexadecimal wrapper adds nothing and loses nothing.  Decided by model evaluation
// (the shape of the two functions is not looked at): encoding/hex.Encode and Decode are run by
// the interpreter with the byte stream of the WKB model underneath and the standard library's
// hexadecimal functions described as
//
//	EncodeToString(<bytes of the stream>) = ⟨hex of the stream⟩   (lower case)
//	DecodeString(⟨hex of the stream⟩)     = <bytes of the stream>, nil
//	DecodeString(anything else)           = nil, error
//
// For every model geometry and both byte orders: Encode returns ⟨hex of the stream⟩ with the stream
// being exactly what wkb.Encode produces for the same arguments, and a nil error; Decode of that
// text gives what wkb.Decode gives on the bytes (same geometry, nil error, stream consumed); a text
// that is not hexadecimal gives an error and no panic; a geometry wkb.Encode refuses is refused.

import (
	"encoding/binary"
	"encoding/hex"
	"fmt"
	"go/token"
	"go/types"
	"math"
	"strings"
)

// wkbBytes serialises a stream of items: the float of rank r is written as the number r + 0.5
// (every rank gets a bit pattern of its own, none of them symmetric under byte reversal).
func wkbBytes(items []wkbItem) ([]byte, bool) {
	var out []byte
	for _, it := range items {
		var b []byte
		switch it.kind {
		case "U8":
			out = append(out, byte(it.val))
			continue
		case "U32":
			b = binary.BigEndian.AppendUint32(nil, uint32(it.val))
		case "F64":
			b = binary.BigEndian.AppendUint64(nil, math.Float64bits(float64(it.val)+0.5))
		default:
			return nil, false
		}
		if it.order == "L" {
			for i, j := 0, len(b)-1; i < j; i, j = i+1, j-1 {
				b[i], b[j] = b[j], b[i]
			}
		}
		out = append(out, b...)
	}
	return out, true
}

// totalRule, when not empty, also files the totality of hex.Decode on malformed texts (C07).
func c05hex(c *Ctx, rule, totalRule string) {
	enc, dec := c.P.Func("encoding/hex", "Encode"), c.P.Func("encoding/hex", "Decode")
	wenc, wdec := c.P.Func("encoding/wkb", "Encode"), c.P.Func("encoding/wkb", "Decode")
	if c.P.Decl(enc) == nil || c.P.Decl(dec) == nil || c.P.Decl(wenc) == nil || c.P.Decl(wdec) == nil {
		c.Unk(rule, "encoding/hex", token.NoPos, "API anchors do not resolve")
		return
	}
	w := newWkbModel(c)
	if w.m.ptT == nil || w.mpT == nil || w.gcT == nil {
		c.Unk(rule, "encoding/hex", token.NoPos, "geometry types do not resolve")
		return
	}
	strT := types.Typ[types.String]
	bytesT := types.NewSlice(types.Typ[types.Byte])
	errV := oIface{opaque: &oOpaque{name: "error", isError: true}}
	inner := w.m.it.stub
	pure := &shpModel{errV: errV}
	// the bytes of the message of the current case and their hexadecimal text
	var hexStreamBytes, hexStreamText string
	var hexDecoder bool // a hex.NewDecoder was created: readers over the text are its input
	var notes []string
	var readerOver []string // what the readers of the decode phase were created over
	var hexSink oval        // the writer a hex.NewEncoder was created over
	// while hex.Encode / hex.Decode run, the WKB functions they are expected to delegate to are
	// described rather than interpreted (their own behaviour is C05.R1–R3's matter): wkb.Encode
	// writes the reference stream of its argument, wkb.Decode reads the stream; a wrapper that
	// does not go through them is interpreted down to the stream model instead
	var delegate struct {
		on      bool
		refuse  bool
		encArgs [][]oval
		decArgs []string
		ref     []wkbItem
		decoded oval
	}
	w.m.it.stub = func(f *types.Func, recv oval, args []oval) ([]oval, bool) {
		full := f.FullName()
		switch {
		case delegate.on && f == wenc && len(args) == 2:
			delegate.encArgs = append(delegate.encArgs, args)
			if delegate.refuse {
				return []oval{oSlice{typ: bytesT}, errV}, true
			}
			return []oval{strVal(bytesT, hexStreamBytes), oNil{}}, true
		case delegate.on && f == wdec && len(args) == 1:
			s, ok := strOf(args[0])
			if !ok {
				s = showVal(args[0])
			}
			delegate.decArgs = append(delegate.decArgs, s)
			if s != hexStreamBytes {
				return []oval{oNil{}, errV}, true
			}
			w.pos = len(w.stream)
			return []oval{delegate.decoded, oNil{}}, true
		case full == "encoding/hex.NewEncoder" && len(args) == 1:
			// a writer that puts the hexadecimal text of what it is given into its sink: the stream
			// model records the bytes, the sink is remembered
			hexSink = args[0]
			return []oval{oIface{opaque: &oOpaque{name: "stream", methods: []string{"Read", "Write", "Len"}}}}, true
		case full == "encoding/hex.NewDecoder" && len(args) == 1:
			hexDecoder = true
			return []oval{oIface{opaque: &oOpaque{name: "stream", methods: []string{"Read", "Write", "Len"}}}}, true
		case (full == "(*strings.Builder).String" || full == "(*bytes.Buffer).String" || full == "(*bytes.Buffer).Bytes") && hexSink != nil:
			if same, ok := oEqual(hexSink, recv); ok && same || sameCell(hexSink, recv) {
				// what the encoder was given so far, as text
				raw, ok := wkbBytes(w.written())
				if !ok {
					return []oval{oTop{"hexadecimal text of the incomplete stream " + showItems(w.written())}}, true
				}
				if strings.HasSuffix(full, "Bytes") {
					return []oval{strVal(bytesT, hex.EncodeToString(raw))}, true
				}
				return []oval{strVal(strT, hex.EncodeToString(raw))}, true
			}
		case full == "fmt.Sprintf" && len(args) >= 2:
			if s, ok := strOf(args[0]); ok && s == "%x" {
				if sl, ok := args[1].(oSlice); ok && sl.length() == 1 {
					if b, ok := strOf(elemDyn(sl.at(0))); ok {
						return []oval{strVal(strT, hex.EncodeToString([]byte(b)))}, true
					}
				}
			}
		case full == "strings.NewReader" && len(args) == 1:
			if s, ok := strOf(args[0]); ok {
				readerOver = append(readerOver, "text:"+s)
			} else {
				readerOver = append(readerOver, showVal(args[0]))
			}
			return []oval{oIface{opaque: &oOpaque{name: "stream", methods: []string{"Read", "Write", "Len"}}}}, true
		case (full == "bytes.NewBuffer" || full == "bytes.NewReader") && len(args) == 1:
			if s, ok := strOf(args[0]); ok {
				readerOver = append(readerOver, s)
			} else {
				readerOver = append(readerOver, showVal(args[0]))
			}
		case full == "bytes.NewBufferString" && len(args) == 1:
			if s, ok := strOf(args[0]); ok {
				readerOver = append(readerOver, "text:"+s)
			}
		}
		if res, ok := inner(f, recv, args); ok {
			return res, true
		}
		return pure.hostPure(f, args)
	}
	ord := map[string]oval{"B": oIface{dyn: oExt{"encoding/binary.BigEndian"}}, "L": oIface{dyn: oExt{"encoding/binary.LittleEndian"}}}
	isNil := func(v oval) bool { eq, ok := oEqual(v, oNil{}); return ok && eq }
	type verdict struct{ bad, unk string }
	var ev, dv verdict
	classify := func(v *verdict, what, why string) {
		if strings.HasPrefix(why, "panic:") {
			if v.bad == "" {
				v.bad = what + " panics: " + why
			}
		} else if v.unk == "" {
			v.unk = what + " is not interpretable: " + why
		}
	}
	runs := 0
	for _, g := range w.geoms() {
		for _, o := range []string{"B", "L"} {
			val := w.m.it.ifaceOf(w.value(g))
			// the reference stream of the geometry (what C05.R1 holds wkb.Encode to)
			ref := g.layout(o, func(int) string { return o }, 0)
			raw, _ := wkbBytes(ref)
			hexStreamBytes, hexStreamText = string(raw), hex.EncodeToString(raw)
			// ---- Encode
			if ev.bad == "" && ev.unk == "" {
				w.reset(nil)
				notes = nil
				hexSink = nil
				delegate.on, delegate.refuse, delegate.ref, delegate.encArgs = true, false, ref, nil
				res, why := w.m.it.Call(enc, nil, []oval{val, ord[o]}, 0)
				delegate.on = false
				runs++
				what := fmt.Sprintf("hex.Encode(%s, order %s)", g.tn, o)
				for _, a := range delegate.encArgs {
					if !sameGeomValue(a[0], val) {
						ev.bad = fmt.Sprintf("%s hands wkb.Encode the geometry %s, not its argument", what, showVal(a[0]))
					} else if orderName(a[1]) != orderName(ord[o]) {
						ev.bad = fmt.Sprintf("%s hands wkb.Encode the byte order %s, not the requested one", what, orderName(a[1]))
					}
				}
				switch {
				case ev.bad != "":
				case why != "":
					classify(&ev, what, why)
				case !isNil(res[1]):
					ev.bad = what + " returns an error for a geometry wkb.Encode accepts"
				default:
					s, ok := strOf(res[0])
					switch {
					case !ok:
						ev.unk = what + " returns " + showVal(res[0])
					case s != hexStreamText && len(notes) > 0:
						ev.bad = what + ": " + notes[0]
					case s != hexStreamText:
						ev.bad = fmt.Sprintf("%s returns %q, not the lower-case hexadecimal text %q of the WKB bytes", what, s, hexStreamText)
					}
				}
			}
			// ---- Decode
			if dv.bad == "" && dv.unk == "" {
				want := []oval{val}
				w.reset(append([]wkbItem{}, ref...))
				readerOver, hexDecoder = nil, false
				delegate.on, delegate.decoded, delegate.decArgs = true, want[0], nil
				got, why := w.m.it.Call(dec, nil, []oval{strVal(strT, hexStreamText)}, 0)
				delegate.on = false
				runs++
				what := fmt.Sprintf("hex.Decode of the text of a %s in order %s", g.tn, o)
				for _, a := range delegate.decArgs {
					if a != hexStreamBytes {
						dv.bad = fmt.Sprintf("%s hands wkb.Decode the bytes %x, not the bytes %x the text stands for", what, a, hexStreamBytes)
					}
				}
				switch {
				case dv.bad != "":
				case why != "":
					classify(&dv, what, why)
				case !isNil(got[1]):
					dv.bad = what + " fails although the text is the hexadecimal form of a well-formed message"
				case w.pos != len(w.stream):
					dv.bad = fmt.Sprintf("%s leaves %d of %d items unread", what, len(w.stream)-w.pos, len(w.stream))
				case !sameGeomValue(got[0], want[0]):
					dv.bad = fmt.Sprintf("%s returns %s, not the geometry the bytes decode to", what, showVal(got[0]))
				default:
					for _, over := range readerOver {
						if over != hexStreamBytes && !(hexDecoder && (over == hexStreamText || over == "text:"+hexStreamText)) {
							dv.bad = fmt.Sprintf("%s reads from %q, not from the bytes the text stands for", what, over)
						}
					}
				}
			}
		}
	}
	// a text that is not hexadecimal
	if dv.bad == "" && dv.unk == "" {
		w.reset(nil)
		delegate.on, delegate.decoded, delegate.decArgs = true, oNil{}, nil
		got, why := w.m.it.Call(dec, nil, []oval{strVal(strT, "<not hexadecimal>")}, 0)
		delegate.on = false
		runs++
		switch {
		case why != "":
			classify(&dv, "hex.Decode of a text that is not hexadecimal", why)
		case isNil(got[1]):
			dv.bad = "hex.Decode of a text that is not hexadecimal returns " + showVal(got[0]) + " and no error"
		}
	}
	// a geometry the WKB writer refuses
	if ev.bad == "" && ev.unk == "" {
		g := w.geoms()[0]
		val := w.m.it.ifaceOf(w.value(g))
		w.reset(nil)
		delegate.on, delegate.refuse, delegate.encArgs = true, true, nil
		res, why := w.m.it.Call(enc, nil, []oval{val, ord["L"]}, 0)
		delegate.on, delegate.refuse = false, false
		runs++
		switch {
		case len(delegate.encArgs) == 0:
			// the wrapper does not delegate to wkb.Encode: nothing to refuse at that level
		case why != "":
			classify(&ev, "hex.Encode when wkb.Encode returns an error", why)
		case isNil(res[1]):
			text, _ := strOf(res[0])
			ev.bad = fmt.Sprintf("hex.Encode returns %q and no error when wkb.Encode returns an error", text)
		}
	}
	// malformed texts: nothing panics; a text whose bytes are not a message gives an error
	if totalRule != "" {
		var tv verdict
		g := w.geoms()[0]
		ref := g.layout("L", func(int) string { return "L" }, 0)
		raw, _ := wkbBytes(ref)
		hexStreamBytes, hexStreamText = string(raw), hex.EncodeToString(raw)
		texts := []string{"", "0", "1", "z", "\\", "x", "\\x", "0g", "g0", "zz", "0z0", "\\x0", " ", "  ", "0 ", "\n", "\x00", "\x00\x00", "00", "01", "0101", strings.ToUpper(hexStreamText)}
		for k := 0; k < len(hexStreamText); k++ {
			texts = append(texts, hexStreamText[:k])
		}
		texts = append(texts, hexStreamText+"0", hexStreamText+"00", hexStreamText+"zz")
		n := 0
		for _, t := range texts {
			if tv.bad != "" || tv.unk != "" {
				break
			}
			w.reset(nil)
			delegate.on, delegate.decoded, delegate.decArgs = true, w.m.it.ifaceOf(w.value(g)), nil
			got, why := w.m.it.Call(dec, nil, []oval{strVal(strT, t)}, 0)
			delegate.on = false
			runs++
			n++
			what := fmt.Sprintf("hex.Decode(%q)", t)
			valid := false
			if b, err := hex.DecodeString(t); err == nil && string(b) == hexStreamBytes {
				valid = true
			}
			switch {
			case why != "":
				classify(&tv, what, why)
			case len(got) != 2:
				tv.unk = what + " returns " + fmt.Sprint(len(got)) + " values"
			case valid:
				// the text of a message in the other letter case: either answer is a geometry or an error
			case isNil(got[1]):
				if _, isTop := got[1].(oTop); isTop {
					tv.unk = what + " returns the error " + showVal(got[1])
				} else {
					tv.bad = what + " returns " + showVal(got[0]) + " and no error although the text is not the hexadecimal form of a message"
				}
			default:
				if eq, ok := oEqual(got[1], oNil{}); !ok {
					_ = eq
					tv.unk = what + " returns the error " + showVal(got[1])
				}
			}
		}
		report3(c, totalRule, "encoding/hex.Decode#malformed", c.P.Decl(dec).Pos(), tv.bad, tv.unk, fmt.Sprintf("%d malformed texts (empty, one character, not hexadecimal, odd length, every truncation of the text of a Point message, trailing characters): an error each time, no panic", n))
	}
	c.Evals(runs)
	report3(c, rule, "encoding/hex.Encode", c.P.Decl(enc).Pos(), ev.bad, ev.unk, "the lower-case hexadecimal text of exactly wkb.Encode's stream, for every model geometry in both byte orders; an error where wkb.Encode gives one")
	report3(c, rule, "encoding/hex.Decode", c.P.Decl(dec).Pos(), dv.bad, dv.unk, "wkb.Decode's result on the bytes DecodeString returns, for every model message in both byte orders; an error and no panic for a text that is not hexadecimal")
}

// elemDyn unwraps an interface-typed element of a variadic argument list.
func elemDyn(v oval) oval {
	if iv, ok := v.(oIface); ok && iv.dyn != nil {
		return iv.dyn
	}
	return v
}

// sameCell: two pointers to the same variable or structure.
func sameCell(a, b oval) bool {
	if ia, ok := a.(oIface); ok {
		a = ia.dyn
	}
	if ib, ok := b.(oIface); ok {
		b = ib.dyn
	}
	switch x := a.(type) {
	case oPtr:
		y, ok := b.(oPtr)
		return ok && x.s != nil && x.s == y.s
	case oRef:
		y, ok := b.(oRef)
		return ok && (x.cell != nil && x.cell == y.cell || x.st != nil && x.st == y.st && x.field == y.field)
	}
	return false
}
