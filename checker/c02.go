package main

// C02 — Within classifies points against polygons (inside/outside/on edge).
//
// R1 segment coverage of the per-polygon classifier, R2 even-odd combination,
// R3 conservative (closed) bounding-box pre-filter, R4 vertex-wise receivers,
// R5 definite early exits of the two segment predicates agree with order-level
// geometry (abstract interpretation over the order domain, ⊤ allowed after the
// order-only prefix).

import (
	"fmt"
	"go/ast"
	"go/token"
	"go/types"
)

func init() { register("C02", false, checkC02) }

type c02 struct {
	c        *Ctx
	info     *types.Info
	ptT      types.Type
	wsT      types.Type
	outside  types.Object
	inside   types.Object
	onEdge   types.Object
	polyal   *types.Func // pointInPolygonal-like: (Point, Polygonal) WithinStatus
	classify *types.Func // pointInPolygon-like: (Point, Polygon, []*Bounds) WithinStatus
	onSeg    *types.Func
	ray      *types.Func
}

func checkC02(c *Ctx) {
	c.Rule("C02.R1", "model evaluation of Point.Within with the two segment predicates — the package's (Point, Point, Point) bool functions — replaced by oracles: with every answer false, each predicate is asked about every segment of every ring exactly once, the closing pair (last, first) included, for polygons and multi-polygons of several rings, open and closed, and for rings whose box the point only touches")
	c.Rule("C02.R2", "model evaluation, same model: one predicate answers 'on the segment' (OnEdge at once, whatever crossings are reported elsewhere), the other counts crossings, and the result is Inside exactly for an odd number of crossings summed over all rings and member polygons")
	c.Rule("C02.R3", "model evaluation, same model: a ring is never skipped when the point is inside or on its box — with the query point on the left or top border of a ring's box, or inside it only thanks to the last vertex of an unclosed ring, every segment is asked and the result is that of the full scan")
	c.Rule("C02.R4", "model evaluation of MultiPoint/LineString/MultiLineString/Polygon.Within with the per-vertex classification replaced by an oracle: Outside exactly when some vertex or member is classified Outside, every vertex and member consulted, the fall-through result not Outside")
	c.Rule("C02.R5", "whenever a segment predicate returns a definite value using comparisons alone, that value is the one order-level geometry dictates (all orderings of {p,a,b} per axis, exhaustive)")
	a := &c02{c: c, info: c.P.Pkg("geom").TypesInfo}
	if !a.anchors() {
		return
	}
	c02model(c, a)
	a.r5exits()
	premiseBounds(c, "C02.R6", "a ring is skipped when its box, built with these operations, does not overlap the point's")
	c.Floor("C02.R6", 16)
	c.Floor("C02.R1", 1)
	c.Floor("C02.R2", 1)
	c.Floor("C02.R3", 1)
	c.Floor("C02.R4", 4)
	c.Floor("C02.R5", 2)
}

func (a *c02) anchors() bool {
	c := a.c
	a.ptT = c.P.NamedType("geom", "Point")
	ws := c.P.NamedType("geom", "WithinStatus")
	if a.ptT == nil || ws == nil {
		c.Unk("C02.R1", "geom.Point/WithinStatus", token.NoPos, "type anchors do not resolve")
		return false
	}
	a.wsT = ws
	sc := c.P.Pkg("geom").Types.Scope()
	a.outside, a.inside, a.onEdge = sc.Lookup("Outside"), sc.Lookup("Inside"), sc.Lookup("OnEdge")
	if a.outside == nil || a.inside == nil || a.onEdge == nil {
		c.Unk("C02.R1", "geom.Outside/Inside/OnEdge", token.NoPos, "constants do not resolve")
		return false
	}
	m := c.P.Method("geom", "Point", "Within")
	fd := c.P.Decl(m)
	if fd == nil {
		c.Unk("C02.R1", "geom.(Point).Within", token.NoPos, "API anchor does not resolve")
		return false
	}
	// Point.Within hands the point and the polygonal argument to a classifier: a function without a
	// receiver taking (Point, <interface>) and returning a WithinStatus, reached directly or through
	// forwarding helpers
	isClassifier := func(f *types.Func) bool {
		sig := f.Type().(*types.Signature)
		if sig.Recv() != nil || sig.Params().Len() != 2 || sig.Results().Len() != 1 {
			return false
		}
		_, iface := sig.Params().At(1).Type().Underlying().(*types.Interface)
		return iface && types.Identical(sig.Params().At(0).Type(), a.ptT) && types.Identical(sig.Results().At(0).Type(), a.wsT)
	}
	seen := map[*types.Func]bool{m: true}
	frontier := []*types.Func{m}
	for depth := 0; depth < 4 && a.polyal == nil && len(frontier) > 0; depth++ {
		var next []*types.Func
		for _, g := range frontier {
			gd := c.P.Decl(g)
			if gd == nil || gd.Body == nil {
				continue
			}
			ast.Inspect(gd.Body, func(n ast.Node) bool {
				if call, ok := n.(*ast.CallExpr); ok {
					if f := callee(c.P.InfoOf(g), call); f != nil && c.P.Decl(f) != nil && !seen[f] {
						seen[f] = true
						if isClassifier(f) && a.polyal == nil {
							a.polyal = f
						}
						next = append(next, f)
					}
				}
				return true
			})
		}
		frontier = next
	}
	if a.polyal == nil {
		// the older form of the anchor: whatever two-argument repository function Within calls
		ast.Inspect(fd.Body, func(n ast.Node) bool {
			if call, ok := n.(*ast.CallExpr); ok && len(call.Args) == 2 {
				if f := callee(a.info, call); f != nil && c.P.Decl(f) != nil {
					a.polyal = f
				}
			}
			return true
		})
	}
	if a.polyal == nil {
		c.Unk("C02.R1", "geom.(Point).Within", fd.Pos(), "does not delegate to a (Point, Polygonal) classifier")
		return false
	}
	// the per-polygon classifier: callee with 3 params (Point, Polygon, …) returning WithinStatus
	ast.Inspect(c.P.Decl(a.polyal).Body, func(n ast.Node) bool {
		if call, ok := n.(*ast.CallExpr); ok && len(call.Args) == 3 {
			if f := callee(a.info, call); f != nil && c.P.Decl(f) != nil {
				sig := f.Type().(*types.Signature)
				if sig.Results().Len() == 1 && types.Identical(sig.Results().At(0).Type(), a.wsT) {
					a.classify = f
				}
			}
		}
		return true
	})
	return true
}

// isSegPred: repo function (Point, Point, Point) bool.
func (a *c02) isSegPred(f *types.Func) bool {
	if f == nil || a.c.P.Decl(f) == nil {
		return false
	}
	sig := f.Type().(*types.Signature)
	if sig.Recv() != nil || sig.Params().Len() != 3 || sig.Results().Len() != 1 {
		return false
	}
	for i := 0; i < 3; i++ {
		if !types.Identical(sig.Params().At(i).Type(), a.ptT) {
			return false
		}
	}
	b, ok := sig.Results().At(0).Type().Underlying().(*types.Basic)
	return ok && b.Kind() == types.Bool
}

func containsNode(root ast.Node, n ast.Node) bool {
	found := false
	ast.Inspect(root, func(m ast.Node) bool {
		if m == n {
			found = true
		}
		return !found
	})
	return found
}

var c02invertMemo = map[*types.Func]string{}

func constInt64Obj(o types.Object) (int64, bool) {
	cst, ok := o.(*types.Const)
	if !ok {
		return 0, false
	}
	return constInt64(cst)
}

// ---------------------------------------------------------------- R2 polygonal

var c02rbMemo = map[*types.Func]string{}

// ---------------------------------------------------------------- R3

// ---------------------------------------------------------------- R4

// ---------------------------------------------------------------- R5

type tri int

const (
	triUnknown tri = iota
	triTrue
	triFalse
	triDontCare
)

func (a *c02) r5exits() {
	c := a.c
	if a.onSeg == nil || a.ray == nil {
		c.Unk("C02.R5", "segment-predicates", token.NoPos, "the on-segment and ray predicates were not identified by R1")
		return
	}
	it := &oInterp{p: c.P, maxDepth: 4}
	ords := weakOrderings(3) // p, a, b per axis
	pt := a.ptT
	// try evaluates one convention; returns "" when every definite answer agrees
	try := func(f *types.Func, truth func(px, py, ax, ay, bx, by int64) tri, what string) (msg string, definite, n int) {
		for _, ox := range ords {
			for _, oy := range ords {
				n++
				res, why := it.Call(f, nil, []oval{it.point(pt, ox[0], oy[0]), it.point(pt, ox[1], oy[1]), it.point(pt, ox[2], oy[2])}, 0)
				if why != "" || len(res) != 1 {
					continue // ⊤: arithmetic decides; no claim at order level
				}
				got, ok := res[0].(oBool)
				if !ok {
					continue
				}
				definite++
				want := truth(ox[0], oy[0], ox[1], oy[1], ox[2], oy[2])
				switch {
				case want == triDontCare:
				case want == triUnknown:
					return fmt.Sprintf("ordering p=(r%d,r%d) a=(r%d,r%d) b=(r%d,r%d): returns %v using comparisons alone, but %s is not determined by the ordering (both answers occur for points in this class)", ox[0], oy[0], ox[1], oy[1], ox[2], oy[2], bool(got), what), definite, n
				case (want == triTrue) != bool(got):
					return fmt.Sprintf("ordering p=(r%d,r%d) a=(r%d,r%d) b=(r%d,r%d): returns %v, order-level geometry says %v (%s)", ox[0], oy[0], ox[1], oy[1], ox[2], oy[2], bool(got), want == triTrue, what), definite, n
				}
			}
		}
		return "", definite, n
	}
	run := func(f *types.Func, what string, truths ...func(px, py, ax, ay, bx, by int64) tri) {
		name, pos := c.P.FuncName(f), c.P.Decl(f).Pos()
		first := ""
		for _, truth := range truths {
			msg, definite, n := try(f, truth, what)
			c.Evals(n)
			if msg == "" {
				if definite == 0 {
					c.Unk("C02.R5", name, pos, "no ordering is decided by comparisons alone: the order-only prefix this rule checks is gone")
				} else {
					c.OK("C02.R5", name, pos, "%d of %d orderings are decided by comparisons alone, all in agreement with order-level geometry", definite, n)
				}
				return
			}
			if first == "" {
				first = msg
			}
		}
		c.Bad("C02.R5", name, pos, "%s", first)
	}
	run(a.onSeg, "whether the point lies on the segment", func(px, py, ax, ay, bx, by int64) tri {
		if px < min64(ax, bx) || px > max64(ax, bx) || py < min64(ay, by) || py > max64(ay, by) {
			return triFalse
		}
		if (px == ax && py == ay) || (px == bx && py == by) {
			return triTrue
		}
		if ax == bx { // vertical, p within the Y range
			if px == ax {
				return triTrue
			}
			return triFalse
		}
		if ay == by {
			if py == ay {
				return triTrue
			}
			return triFalse
		}
		return triUnknown
	})
	// both perturbation conventions give a correct even-odd count; the predicate
	// must agree with one of them on every ordering it decides
	rayTruth := func(dir int64) func(px, py, ax, ay, bx, by int64) tri {
		return func(px, py, ax, ay, bx, by int64) tri {
			loY, hiY := min64(ay, by), max64(ay, by)
			if py == loY || py == hiY {
				py += dir // the point is treated as slightly above (below) a vertex it is level with
			}
			if py < loY || py > hiY {
				return triFalse
			}
			mn, mx := min64(ax, bx), max64(ax, bx)
			switch {
			case px < mn:
				return triTrue
			case px > mx:
				return triFalse
			case ax == bx:
				return triDontCare // on a vertical segment: OnEdge is decided before the ray test
			case px == mx:
				return triFalse
			case px == mn:
				return triTrue
			}
			return triUnknown
		}
	}
	run(a.ray, "whether a rightward ray from the (nudged) point crosses the segment", rayTruth(1), rayTruth(-1))
}
