package main

// C02 — Within classifies points against polygons (inside/outside/on edge).
//
// R1 segment coverage of the per-polygon classifier, R2 even-odd combination,
// R3 conservative (closed) bounding-box pre-filter, R4 vertex-wise receivers,
// R5 definite early exits of the two segment predicates agree with order-level
// geometry (abstract interpretation over the order domain, ⊤ allowed after the
// order-only prefix).

import (
	"fmt"
	"go/ast"
	"go/token"
	"go/types"
)

func init() { register("C02", false, checkC02) }

type c02 struct {
	c        *Ctx
	info     *types.Info
	ptT      types.Type
	wsT      types.Type
	outside  types.Object
	inside   types.Object
	onEdge   types.Object
	polyal   *types.Func // pointInPolygonal-like: (Point, Polygonal) WithinStatus
	classify *types.Func // pointInPolygon-like: (Point, Polygon, []*Bounds) WithinStatus
	onSeg    *types.Func
	ray      *types.Func
}

func checkC02(c *Ctx) {
	c.Rule("C02.R1", "for every ring the on-segment test and the ray test each see exactly the closed ring: pairs (k-1,k) for 1≤k<len plus the closing pair (len-1,0)")
	c.Rule("C02.R2", "OnEdge from any ring or member polygon is returned at once; every crossing toggles the status (even-odd) across rings and member polygons; rings are skipped only for len<3 or by the box pre-filter")
	c.Rule("C02.R3", "the per-ring pre-filter is the closed box test of the ring's own bounds: a point inside or on the ring's box is never skipped")
	c.Rule("C02.R4", "MultiPoint/LineString/MultiLineString/Polygon.Within visit every vertex/member; Outside is returned exactly when one classifies as Outside; the fall-through result is not Outside")
	c.Rule("C02.R5", "whenever a segment predicate returns a definite value using comparisons alone, that value is the one order-level geometry dictates (all orderings of {p,a,b} per axis, exhaustive)")
	a := &c02{c: c, info: c.P.Pkg("geom").TypesInfo}
	if !a.anchors() {
		return
	}
	c02model(c, a)
	a.r3prefilter()
	a.r5exits()
	c.Floor("C02.R1", 1)
	c.Floor("C02.R2", 1)
	c.Floor("C02.R3", 1)
	c.Floor("C02.R4", 4)
	c.Floor("C02.R5", 2)
}

func (a *c02) anchors() bool {
	c := a.c
	a.ptT = c.P.NamedType("geom", "Point")
	ws := c.P.NamedType("geom", "WithinStatus")
	if a.ptT == nil || ws == nil {
		c.Unk("C02.R1", "geom.Point/WithinStatus", token.NoPos, "type anchors do not resolve")
		return false
	}
	a.wsT = ws
	sc := c.P.Pkg("geom").Types.Scope()
	a.outside, a.inside, a.onEdge = sc.Lookup("Outside"), sc.Lookup("Inside"), sc.Lookup("OnEdge")
	if a.outside == nil || a.inside == nil || a.onEdge == nil {
		c.Unk("C02.R1", "geom.Outside/Inside/OnEdge", token.NoPos, "constants do not resolve")
		return false
	}
	m := c.P.Method("geom", "Point", "Within")
	fd := c.P.Decl(m)
	if fd == nil {
		c.Unk("C02.R1", "geom.(Point).Within", token.NoPos, "API anchor does not resolve")
		return false
	}
	// Point.Within returns f(p, poly)
	ast.Inspect(fd.Body, func(n ast.Node) bool {
		if call, ok := n.(*ast.CallExpr); ok && len(call.Args) == 2 {
			if f := callee(a.info, call); f != nil && c.P.Decl(f) != nil {
				a.polyal = f
			}
		}
		return true
	})
	if a.polyal == nil {
		c.Unk("C02.R1", "geom.(Point).Within", fd.Pos(), "does not delegate to a (Point, Polygonal) classifier")
		return false
	}
	// the per-polygon classifier: callee with 3 params (Point, Polygon, …) returning WithinStatus
	ast.Inspect(c.P.Decl(a.polyal).Body, func(n ast.Node) bool {
		if call, ok := n.(*ast.CallExpr); ok && len(call.Args) == 3 {
			if f := callee(a.info, call); f != nil && c.P.Decl(f) != nil {
				sig := f.Type().(*types.Signature)
				if sig.Results().Len() == 1 && types.Identical(sig.Results().At(0).Type(), a.wsT) {
					a.classify = f
				}
			}
		}
		return true
	})
	if a.classify == nil {
		c.Unk("C02.R1", c.P.FuncName(a.polyal), c.P.Decl(a.polyal).Pos(), "per-polygon classifier not found")
		return false
	}
	return true
}

func (a *c02) isConst(e ast.Expr, o types.Object) bool {
	return objOf(a.info, e) == o
}

// isSegPred: repo function (Point, Point, Point) bool.
func (a *c02) isSegPred(f *types.Func) bool {
	if f == nil || a.c.P.Decl(f) == nil {
		return false
	}
	sig := f.Type().(*types.Signature)
	if sig.Recv() != nil || sig.Params().Len() != 3 || sig.Results().Len() != 1 {
		return false
	}
	for i := 0; i < 3; i++ {
		if !types.Identical(sig.Params().At(i).Type(), a.ptT) {
			return false
		}
	}
	b, ok := sig.Results().At(0).Type().Underlying().(*types.Basic)
	return ok && b.Kind() == types.Bool
}

func (a *c02) r1r2classifier() {
	c := a.c
	fd := c.P.Decl(a.classify)
	name := c.P.FuncName(a.classify)
	params := paramVars(a.info, fd.Type)
	sc := newFnScope(a.info, fd.Body)
	pt, pg := params[0], params[1]
	// the ring loop
	var ringLoop *Loop
	for _, st := range fd.Body.List {
		if l := sc.loopOf(st); l != nil && l.Hi.Of != nil && objOf(a.info, l.Hi.Of) == pg {
			ringLoop = l
		}
	}
	if ringLoop == nil || !sc.fullRange(ringLoop, &ast.Ident{NamePos: token.NoPos, Name: pg.Name()}) && !(ringLoop.Lo.K == 0 && ringLoop.Hi.K == 0) {
		c.Unk("C02.R1", name, fd.Pos(), "loop over all rings of the polygon not found")
		return
	}
	isRing := func(e ast.Expr) bool {
		e = unparen(e)
		if ringLoop.Val != nil && objOf(a.info, e) == ringLoop.Val {
			return true
		}
		if ix, ok := e.(*ast.IndexExpr); ok && objOf(a.info, ix.X) == pg && ringLoop.Idx != nil && objOf(a.info, ix.Index) == ringLoop.Idx {
			return true
		}
		return false
	}
	var ringExpr ast.Expr
	if ringLoop.Val != nil {
		ringExpr = &ast.Ident{Name: ringLoop.Val.Name()}
	}
	// the status variable: named result or returned local
	var status types.Object
	if rv := resultVars(a.info, fd.Type); len(rv) == 1 && rv[0] != nil {
		status = rv[0]
	}
	// classify calls to segment predicates
	type use struct {
		f    *types.Func
		call *ast.CallExpr
		fam  segFamily
	}
	var uses []use
	bad := ""
	var badPos token.Pos
	setBad := func(pos token.Pos, m string) {
		if bad == "" {
			bad, badPos = m, pos
		}
	}
	roles := map[*types.Func]string{}
	r2bad := ""
	var r2pos token.Pos
	setR2 := func(pos token.Pos, m string) {
		if r2bad == "" {
			r2bad, r2pos = m, pos
		}
	}
	ast.Inspect(ringLoop.Body, func(n ast.Node) bool {
		call, ok := n.(*ast.CallExpr)
		if !ok {
			return true
		}
		f := callee(a.info, call)
		if !a.isSegPred(f) {
			return true
		}
		if objOf(a.info, call.Args[0]) != pt {
			setBad(call.Pos(), "segment predicate is not applied to the query point")
			return true
		}
		i1 := elemIndex(a.info, sc, call.Args[1], isRing)
		i2 := elemIndex(a.info, sc, call.Args[2], isRing)
		if i1 == nil || i2 == nil {
			setBad(call.Pos(), "segment endpoints `"+src(call.Args[1])+"`, `"+src(call.Args[2])+"` are not vertices of the current ring")
			return true
		}
		loops, unknown := loopsAround(sc, ringLoop.Body, call)
		if unknown != nil {
			setBad(unknown.Pos(), "segment loop not recognised as a counting loop")
			return true
		}
		vOf := ringExpr
		if vOf == nil {
			vOf = unparen(call.Args[1]).(*ast.IndexExpr).X
		}
		fam, why := pairFamily(a.info, sc, loops, i1, i2, vOf)
		if why != "" {
			setBad(call.Pos(), why)
			return true
		}
		fam.Node = call
		// ancestors: the call must be the whole condition of an if; other enclosing
		// ifs are allowed only for the wrap pair (first != last guard)
		path := enclosing(ringLoop.Body, call)
		var ownIf *ast.IfStmt
		for k := len(path) - 1; k >= 0; k-- {
			if is, ok := path[k].(*ast.IfStmt); ok {
				if ownIf == nil && unparen(is.Cond) == ast.Expr(call) {
					ownIf = is
					continue
				}
				if ownIf != nil && containsNode(is.Body, ownIf) {
					if fam.Wrap && a.isFirstNeLast(is.Cond, isRing, sc) {
						continue
					}
					setBad(is.Pos(), "segment test is conditional on `"+src(is.Cond)+"`: some segments may be skipped")
				} else if ownIf != nil {
					setBad(is.Pos(), "segment test sits in the else-branch of `"+src(is.Cond)+"`")
				}
			}
		}
		if ownIf == nil {
			setBad(call.Pos(), "result of the segment predicate is not tested directly by an if")
			return true
		}
		// role by what the true branch does
		role := ""
		if len(ownIf.Body.List) == 1 && ownIf.Else == nil {
			switch s := ownIf.Body.List[0].(type) {
			case *ast.ReturnStmt:
				if len(s.Results) == 1 && a.isConst(s.Results[0], a.onEdge) {
					role = "onseg"
				}
			case *ast.AssignStmt:
				if len(s.Lhs) == 1 && len(s.Rhs) == 1 && s.Tok == token.ASSIGN {
					if tv := objOf(a.info, s.Lhs[0]); tv != nil && a.isToggle(s.Rhs[0], tv) {
						role = "ray"
						if status == nil {
							status = tv
						} else if status != tv {
							setR2(s.Pos(), "crossings toggle `"+tv.Name()+"`, not the returned status")
						}
					}
				}
			}
		}
		if role == "" {
			setR2(ownIf.Pos(), "true branch of `"+src(call)+"` neither returns OnEdge nor toggles the status exactly once")
			return true
		}
		if prev, ok := roles[f]; ok && prev != role {
			setR2(call.Pos(), "predicate used in two roles")
		}
		roles[f] = role
		uses = append(uses, use{f, call, fam})
		return true
	})
	for f, r := range roles {
		if r == "onseg" {
			a.onSeg = f
		} else {
			a.ray = f
		}
	}
	if bad != "" {
		c.Bad("C02.R1", name, badPos, "%s", bad)
	} else {
		for _, role := range []string{"onseg", "ray"} {
			var fams []segFamily
			for _, u := range uses {
				if roles[u.f] == role {
					fams = append(fams, u.fam)
				}
			}
			cons := name + "#" + role
			if len(fams) == 0 {
				c.Bad("C02.R1", cons, fd.Pos(), "no %s test over the ring's segments", role)
				continue
			}
			vOf := ringExpr
			if vOf == nil {
				vOf = unparen(fams[0].Node.(*ast.CallExpr).Args[1]).(*ast.IndexExpr).X
			}
			if msg := coversChain(a.info, fams, sc.canon(vOf)); msg != "" {
				c.Bad("C02.R1", cons, fams[0].Node.Pos(), "%s", msg)
			} else if hasWrap(fams) != 1 {
				c.Bad("C02.R1", cons, fams[0].Node.Pos(), "the closing segment (last vertex → first vertex) is tested %d times, want once (unclosed rings have an implicit closing segment)", hasWrap(fams))
			} else {
				c.OK("C02.R1", cons, fams[0].Node.Pos(), "closed ring: chain 0..len-2 plus closing pair")
			}
		}
	}
	// R2 (classifier part): skips and final result
	ast.Inspect(ringLoop.Body, func(n ast.Node) bool {
		is, ok := n.(*ast.IfStmt)
		if !ok {
			return true
		}
		hasCont := false
		for _, s := range is.Body.List {
			if b, ok := s.(*ast.BranchStmt); ok && (b.Tok == token.CONTINUE || b.Tok == token.BREAK) {
				hasCont = true
				if b.Tok == token.BREAK {
					setR2(b.Pos(), "break out of the ring loop skips the remaining rings")
				}
			}
		}
		if !hasCont {
			return true
		}
		// allowed: len(ring) < 3 (or <= 2), or the pre-filter (checked by R3)
		if a.isShortRing(is.Cond, isRing, sc) || a.prefilterCall(is.Cond) != nil {
			return true
		}
		setR2(is.Pos(), "ring skipped on `"+src(is.Cond)+"` (only len<3 and the box pre-filter may skip a ring)")
		return true
	})
	// every return: OnEdge const (from onseg) or the status variable
	ast.Inspect(fd.Body, func(n ast.Node) bool {
		if r, ok := n.(*ast.ReturnStmt); ok {
			if len(r.Results) == 0 {
				if rv := resultVars(a.info, fd.Type); len(rv) != 1 || rv[0] != status {
					setR2(r.Pos(), "bare return does not return the toggled status")
				}
				return true
			}
			if len(r.Results) == 1 && (a.isConst(r.Results[0], a.onEdge) || objOf(a.info, r.Results[0]) == status) {
				return true
			}
			setR2(r.Pos(), "returns `"+src(r)+"`, neither OnEdge nor the toggled status")
		}
		return true
	})
	if status != nil {
		// status starts as Outside: named result (zero = Outside, iota 0) or explicit init
		if !a.startsOutside(fd, sc, status) {
			setR2(fd.Pos(), "status `"+status.Name()+"` does not start as Outside")
		}
	} else {
		setR2(fd.Pos(), "no toggled status variable")
	}
	if r2bad != "" {
		c.Bad("C02.R2", name, r2pos, "%s", r2bad)
	} else {
		c.OK("C02.R2", name, fd.Pos(), "OnEdge returned at once, crossings toggle `%s`, rings skipped only when short or outside their box", status.Name())
	}
	// invert(): Outside→Inside, otherwise→Outside
	a.checkInvert()
}

func containsNode(root ast.Node, n ast.Node) bool {
	found := false
	ast.Inspect(root, func(m ast.Node) bool {
		if m == n {
			found = true
		}
		return !found
	})
	return found
}

// isToggle: e is v.invert() (a WithinStatus method) or an inline toggle.
func (a *c02) isToggle(e ast.Expr, v types.Object) bool {
	call, ok := unparen(e).(*ast.CallExpr)
	if !ok || len(call.Args) != 0 {
		return false
	}
	sel, ok := unparen(call.Fun).(*ast.SelectorExpr)
	if !ok || objOf(a.info, sel.X) != v {
		return false
	}
	f := callee(a.info, call)
	if f == nil || a.c.P.Decl(f) == nil {
		return false
	}
	return a.invertOK(f) == ""
}

var c02invertMemo = map[*types.Func]string{}

// invertOK evaluates the toggle method in the order-domain interpreter on the
// three status constants.
func (a *c02) invertOK(f *types.Func) string {
	if r, ok := c02invertMemo[f]; ok {
		return r
	}
	it := &oInterp{p: a.c.P, maxDepth: 2}
	val := func(o types.Object) int64 {
		k, _ := constInt64Obj(o)
		return k
	}
	res := ""
	for _, tc := range []struct{ in, want types.Object }{{a.outside, a.inside}, {a.inside, a.outside}} {
		// the frame needs the package constants: they are folded by go/types, so eval() sees them as oInt
		out, why := it.Call(f, oInt(val(tc.in)), nil, 0)
		a.c.Evals(1)
		if why != "" {
			res = "toggle outside the fragment: " + why
			break
		}
		if got, ok := out[0].(oInt); !ok || int64(got) != val(tc.want) {
			res = fmt.Sprintf("toggle maps %s to %s, want %s", tc.in.Name(), showVal(out[0]), tc.want.Name())
			break
		}
	}
	c02invertMemo[f] = res
	return res
}

func constInt64Obj(o types.Object) (int64, bool) {
	cst, ok := o.(*types.Const)
	if !ok {
		return 0, false
	}
	return constInt64(cst)
}

func (a *c02) checkInvert() {
	m := a.c.P.Method("geom", "WithinStatus", "invert")
	if m == nil {
		return // toggles were verified at their use sites through isToggle
	}
	name := a.c.P.FuncName(m)
	if msg := a.invertOK(m); msg != "" {
		a.c.Bad("C02.R2", name, a.c.P.Decl(m).Pos(), "%s", msg)
	} else {
		a.c.OK("C02.R2", name, a.c.P.Decl(m).Pos(), "Outside↔Inside")
	}
}

// isFirstNeLast: cond establishes ring[len-1] != ring[0].
func (a *c02) isFirstNeLast(cond ast.Expr, isRing func(ast.Expr) bool, sc *fnScope) bool {
	e := unparen(cond)
	neg := false
	if u, ok := e.(*ast.UnaryExpr); ok && u.Op == token.NOT {
		neg = true
		e = unparen(u.X)
	}
	var x, y ast.Expr
	switch v := e.(type) {
	case *ast.CallExpr: // !last.Equals(first)
		sel, ok := unparen(v.Fun).(*ast.SelectorExpr)
		if !ok || !neg || len(v.Args) != 1 || sel.Sel.Name != "Equals" {
			return false
		}
		x, y = sel.X, v.Args[0]
	case *ast.BinaryExpr:
		if v.Op != token.NEQ || neg {
			return false
		}
		x, y = v.X, v.Y
	default:
		return false
	}
	ix, iy := elemIndex(a.info, sc, x, isRing), elemIndex(a.info, sc, y, isRing)
	if ix == nil || iy == nil {
		return false
	}
	ax, ay := sc.aff(ix), sc.aff(iy)
	last := func(f Aff) bool { return f.ok && f.Of != nil && f.K == -1 && isRing(f.Of) }
	first := func(f Aff) bool { return f.ok && f.Of == nil && f.K == 0 }
	return (last(ax) && first(ay)) || (first(ax) && last(ay))
}

// isShortRing: cond is len(ring) < 3 / <= 2 (exactly "fewer than three vertices").
func (a *c02) isShortRing(cond ast.Expr, isRing func(ast.Expr) bool, sc *fnScope) bool {
	b, ok := unparen(cond).(*ast.BinaryExpr)
	if !ok {
		return false
	}
	la := lenArg(a.info, b.X)
	k, kok := constInt(a.info, b.Y)
	if la == nil || !kok || !isRing(la) {
		return false
	}
	return (b.Op == token.LSS && k == 3) || (b.Op == token.LEQ && k == 2)
}

// prefilterCall: cond is !B.Overlaps(box-of-point); returns the call.
func (a *c02) prefilterCall(cond ast.Expr) *ast.CallExpr {
	u, ok := unparen(cond).(*ast.UnaryExpr)
	if !ok || u.Op != token.NOT {
		return nil
	}
	call, ok := unparen(u.X).(*ast.CallExpr)
	if !ok || len(call.Args) != 1 {
		return nil
	}
	f := callee(a.info, call)
	if f == nil || f != a.c.P.Method("geom", "Bounds", "Overlaps") {
		return nil
	}
	return call
}

func (a *c02) startsOutside(fd *ast.FuncDecl, sc *fnScope, status types.Object) bool {
	ov, _ := constInt64Obj(a.outside)
	for _, rv := range resultVars(a.info, fd.Type) {
		if rv == status {
			// zero value; any assignment other than toggles must be Outside
			if ov != 0 {
				return false
			}
		}
	}
	for _, d := range sc.defs[status] {
		if d == nil {
			continue
		}
		if a.isConst(d, a.outside) {
			continue
		}
		if call, ok := unparen(d).(*ast.CallExpr); ok && a.isToggle(call, status) {
			continue
		}
		return false
	}
	return true
}

// ---------------------------------------------------------------- R2 polygonal

func (a *c02) r2polygonal() {
	c := a.c
	fd := c.P.Decl(a.polyal)
	name := c.P.FuncName(a.polyal)
	params := paramVars(a.info, fd.Type)
	sc := newFnScope(a.info, fd.Body)
	pt, pg := params[0], params[1]
	bad := ""
	var pos token.Pos = fd.Pos()
	set := func(p token.Pos, m string) {
		if bad == "" {
			bad, pos = m, p
		}
	}
	var loop *ast.RangeStmt
	for _, st := range fd.Body.List {
		if rs, ok := st.(*ast.RangeStmt); ok {
			// range pg.Polygons()
			if call, ok := unparen(rs.X).(*ast.CallExpr); ok && len(call.Args) == 0 {
				if sel, ok := unparen(call.Fun).(*ast.SelectorExpr); ok && sel.Sel.Name == "Polygons" && objOf(a.info, sel.X) == pg {
					loop = rs
				}
			}
		}
	}
	if loop == nil || loop.Value == nil {
		c.Unk("C02.R2", name, fd.Pos(), "loop over all member polygons (range pg.Polygons()) not found")
		return
	}
	brk, cont, _ := earlyExits(loop.Body)
	if len(brk)+len(cont) > 0 {
		set(loop.Pos(), "member loop has break/continue: a member polygon may be skipped")
	}
	poly := objOf(a.info, loop.Value)
	var status types.Object
	if rv := resultVars(a.info, fd.Type); len(rv) == 1 && rv[0] != nil {
		status = rv[0]
	}
	// temp := classify(pt, poly, bounds-of-poly)
	var temp types.Object
	ast.Inspect(loop.Body, func(n ast.Node) bool {
		as, ok := n.(*ast.AssignStmt)
		if !ok || len(as.Rhs) != 1 || len(as.Lhs) != 1 {
			return true
		}
		call, ok := unparen(as.Rhs[0]).(*ast.CallExpr)
		if !ok || callee(a.info, call) != a.classify {
			return true
		}
		temp = objOf(a.info, as.Lhs[0])
		if objOf(a.info, call.Args[0]) != pt || objOf(a.info, call.Args[1]) != poly {
			set(call.Pos(), "classifier is not applied to (query point, current member polygon)")
		}
		if !a.boundsOf(sc, call.Args[2], poly) {
			set(call.Pos(), "third argument `"+src(call.Args[2])+"` is not the ring bounds of the same polygon")
		}
		return true
	})
	if temp == nil {
		c.Unk("C02.R2", name, fd.Pos(), "classifier call not found in the member loop")
		return
	}
	// walk the loop body with the order-domain idea by hand: three outcomes of temp
	seenEdge, seenToggle := false, false
	ast.Inspect(loop.Body, func(n ast.Node) bool {
		is, ok := n.(*ast.IfStmt)
		if !ok {
			return true
		}
		b, ok := unparen(is.Cond).(*ast.BinaryExpr)
		if !ok || b.Op != token.EQL || objOf(a.info, b.X) != temp {
			return true
		}
		switch {
		case a.isConst(b.Y, a.onEdge):
			if len(is.Body.List) == 1 {
				if r, ok := is.Body.List[0].(*ast.ReturnStmt); ok && len(r.Results) == 1 && (objOf(a.info, r.Results[0]) == temp || a.isConst(r.Results[0], a.onEdge)) {
					seenEdge = true
				}
			}
		case a.isConst(b.Y, a.inside):
			if len(is.Body.List) == 1 {
				if as, ok := is.Body.List[0].(*ast.AssignStmt); ok && len(as.Lhs) == 1 && len(as.Rhs) == 1 {
					tv := objOf(a.info, as.Lhs[0])
					if tv != nil && a.isToggle(as.Rhs[0], tv) {
						if status == nil {
							status = tv
						}
						if tv == status {
							seenToggle = true
						}
					}
				}
			}
		}
		return true
	})
	if !seenEdge {
		set(loop.Pos(), "OnEdge from a member polygon is not returned at once")
	}
	if !seenToggle {
		set(loop.Pos(), "Inside from a member polygon does not toggle the running status (even-odd over members)")
	}
	ast.Inspect(fd.Body, func(n ast.Node) bool {
		if r, ok := n.(*ast.ReturnStmt); ok && len(r.Results) == 1 {
			o := objOf(a.info, r.Results[0])
			if o != status && o != temp && !a.isConst(r.Results[0], a.onEdge) {
				set(r.Pos(), "returns `"+src(r)+"`")
			}
		}
		return true
	})
	if status != nil && !a.startsOutside(fd, sc, status) {
		set(fd.Pos(), "running status does not start as Outside")
	}
	if bad != "" {
		c.Bad("C02.R2", name, pos, "%s", bad)
	} else {
		c.OK("C02.R2", name, fd.Pos(), "all member polygons, OnEdge at once, Inside toggles")
	}
}

// boundsOf: e is poly.ringBounds() (or a local assigned from it) for the given polygon variable.
func (a *c02) boundsOf(sc *fnScope, e ast.Expr, poly types.Object) bool {
	e = unparen(e)
	if o := objOf(a.info, e); o != nil {
		if d := sc.singleDef(o); d != nil {
			e = unparen(d)
		}
	}
	call, ok := e.(*ast.CallExpr)
	if !ok || len(call.Args) != 0 {
		return false
	}
	sel, ok := unparen(call.Fun).(*ast.SelectorExpr)
	if !ok || objOf(a.info, sel.X) != poly {
		return false
	}
	f := callee(a.info, call)
	return f != nil && a.ringBoundsOK(f) == ""
}

var c02rbMemo = map[*types.Func]string{}

// ringBoundsOK: method on Polygon returning []*Bounds with out[i] = bounds of ring i.
func (a *c02) ringBoundsOK(f *types.Func) string {
	if r, ok := c02rbMemo[f]; ok {
		return r
	}
	res := a.ringBounds1(f)
	c02rbMemo[f] = res
	return res
}

func (a *c02) ringBounds1(f *types.Func) string {
	fd := a.c.P.Decl(f)
	if fd == nil {
		return "no source"
	}
	recv := receiverVar(a.info, fd)
	sc := newFnScope(a.info, fd.Body)
	e2 := newC04E2(a.c)
	newBounds := a.c.P.Func("geom", "NewBounds")
	var out types.Object
	okLoop := false
	for _, st := range fd.Body.List {
		switch s := st.(type) {
		case *ast.AssignStmt:
			if call, ok := unparen(s.Rhs[0]).(*ast.CallExpr); ok && builtinName(a.info, call) == "make" && len(call.Args) >= 2 {
				af := sc.aff(call.Args[1])
				if !(af.ok && af.K == 0 && af.Of != nil && objOf(a.info, af.Of) == recv) {
					return "result not allocated with one entry per ring"
				}
				out = objOf(a.info, s.Lhs[0])
			}
		case *ast.RangeStmt, *ast.ForStmt:
			l := sc.loopOf(st)
			if l == nil || !(l.Lo.K == 0 && l.Lo.Of == nil && l.Hi.K == 0 && l.Hi.Of != nil && objOf(a.info, l.Hi.Of) == recv) {
				return "loop does not cover every ring"
			}
			// body: b := NewBounds(); b.join(r); out[i] = b
			var acc types.Object
			joined, stored := false, false
			for _, bs := range l.Body.List {
				switch x := bs.(type) {
				case *ast.AssignStmt:
					if call, ok := unparen(x.Rhs[0]).(*ast.CallExpr); ok && callee(a.info, call) == newBounds {
						acc = objOf(a.info, x.Lhs[0])
					} else if ix, ok := unparen(x.Lhs[0]).(*ast.IndexExpr); ok && objOf(a.info, ix.X) == out && l.Idx != nil && objOf(a.info, ix.Index) == l.Idx && objOf(a.info, x.Rhs[0]) == acc && acc != nil {
						stored = true
					}
				case *ast.ExprStmt:
					if call, ok := unparen(x.X).(*ast.CallExpr); ok && len(call.Args) == 1 {
						if sel, ok := unparen(call.Fun).(*ast.SelectorExpr); ok && objOf(a.info, sel.X) == acc && acc != nil {
							if jf := callee(a.info, call); jf != nil && e2.isJoin(jf) == "" {
								arg := unparen(call.Args[0])
								if (l.Val != nil && objOf(a.info, arg) == l.Val) || isRecvElem(a.info, arg, recv, l.Idx) {
									joined = true
								}
							}
						}
					}
				}
			}
			if !joined || !stored {
				return "loop body does not store the bounds of ring i at index i"
			}
			okLoop = true
		case *ast.ReturnStmt:
			if len(s.Results) != 1 || objOf(a.info, s.Results[0]) != out || !okLoop {
				return "does not return the per-ring bounds"
			}
			return ""
		}
	}
	return "shape not recognised"
}

// ---------------------------------------------------------------- R3

func (a *c02) r3prefilter() {
	c := a.c
	fd := c.P.Decl(a.classify)
	name := c.P.FuncName(a.classify) + "#prefilter"
	params := paramVars(a.info, fd.Type)
	pt, pg, bnds := params[0], params[1], params[2]
	var calls []*ast.CallExpr
	var conds []ast.Expr
	ast.Inspect(fd.Body, func(n ast.Node) bool {
		if is, ok := n.(*ast.IfStmt); ok {
			if call := a.prefilterCall(is.Cond); call != nil {
				calls = append(calls, call)
				conds = append(conds, is.Cond)
			}
		}
		return true
	})
	if len(calls) == 0 {
		// no pre-filter at all is conservative
		c.OK("C02.R3", name, fd.Pos(), "no bounding-box pre-filter: nothing is skipped")
		return
	}
	sc := newFnScope(a.info, fd.Body)
	_ = pg
	for _, call := range calls {
		sel := unparen(call.Fun).(*ast.SelectorExpr)
		// receiver: bounds[i] with i the ring loop index; argument: box of the query point
		okRecv := false
		if ix, ok := unparen(sel.X).(*ast.IndexExpr); ok && objOf(a.info, ix.X) == bnds {
			loops, _ := loopsAround(sc, fd.Body, call)
			for _, l := range loops {
				if l.Idx != nil && objOf(a.info, ix.Index) == l.Idx && l.Hi.Of != nil && objOf(a.info, l.Hi.Of) == pg {
					okRecv = true
				}
			}
		}
		if !okRecv {
			c.Bad("C02.R3", name, call.Pos(), "pre-filter box `%s` is not the bounds entry of the ring being tested", src(sel.X))
			return
		}
		arg := unparen(call.Args[0])
		okArg := false
		if ac, ok := arg.(*ast.CallExpr); ok {
			f := callee(a.info, ac)
			if f == c.P.Func("geom", "NewBoundsPoint") && len(ac.Args) == 1 && objOf(a.info, ac.Args[0]) == pt {
				okArg = true
			}
			if s2, ok := unparen(ac.Fun).(*ast.SelectorExpr); ok && s2.Sel.Name == "Bounds" && objOf(a.info, s2.X) == pt {
				okArg = true
			}
		}
		if !okArg {
			c.Bad("C02.R3", name, call.Pos(), "pre-filter compares the ring box with `%s`, not with the degenerate box of the query point", src(arg))
			return
		}
	}
	// order-level: Overlaps(B, box(p)) ⇔ p in closed B, for every ordering of {B.Min, B.Max, p}
	e := newC04E2(c)
	over := c.P.Method("geom", "Bounds", "Overlaps")
	nbp := c.P.Func("geom", "NewBoundsPoint")
	n := 0
	for _, ox := range weakOrderings(3) {
		if ox[0] > ox[1] {
			continue
		}
		for _, oy := range weakOrderings(3) {
			if oy[0] > oy[1] {
				continue
			}
			n++
			pb, why := e.it.Call(nbp, nil, []oval{e.it.point(e.pt, ox[2], oy[2])}, 0)
			if why != "" {
				c.Unk("C02.R3", name, fd.Pos(), "NewBoundsPoint outside the fragment: %s", why)
				return
			}
			res, why := e.it.Call(over, oPtr{e.mk(oBox{ox[0], oy[0], ox[1], oy[1]})}, []oval{pb[0]}, 0)
			if why != "" {
				c.Unk("C02.R3", name, fd.Pos(), "Overlaps outside the fragment: %s", why)
				return
			}
			in := ox[0] <= ox[2] && ox[2] <= ox[1] && oy[0] <= oy[2] && oy[2] <= oy[1]
			if got, ok := res[0].(oBool); !ok || (in && !bool(got)) {
				c.Bad("C02.R3", name, calls[0].Pos(), "ordering box=[(r%d,r%d)-(r%d,r%d)] p=(r%d,r%d): the point is inside or on the ring's box but the pre-filter skips the ring (OnEdge on an extreme vertex/edge is lost)", ox[0], oy[0], ox[1], oy[1], ox[2], oy[2])
				c.Evals(n)
				return
			}
		}
	}
	c.Evals(n)
	c.OK("C02.R3", name, calls[0].Pos(), "closed-box test of the ring's own bounds; never skips a point in or on the box (%d orderings)", n)
}

// ---------------------------------------------------------------- R4

func (a *c02) r4receivers() {
	c := a.c
	for _, tn := range []string{"MultiPoint", "LineString", "MultiLineString", "Polygon"} {
		m := c.P.Method("geom", tn, "Within")
		fd := c.P.Decl(m)
		if fd == nil {
			c.Unk("C02.R4", "geom."+tn+".Within", token.NoPos, "API anchor does not resolve")
			continue
		}
		name := c.P.FuncName(m)
		recv := receiverVar(a.info, fd)
		params := paramVars(a.info, fd.Type)
		poly := params[0]
		sc := newFnScope(a.info, fd.Body)
		msg := ""
		var pos token.Pos = fd.Pos()
		set := func(p token.Pos, s string) {
			if msg == "" {
				msg, pos = s, p
			}
		}
		seenLoop := false
		for _, st := range fd.Body.List {
			switch s := st.(type) {
			case *ast.IfStmt:
				// reviewed exception table: Polygon.Within returns OnEdge when the operands are deeply equal
				if !seenLoop && tn == "Polygon" && a.isDeepEqualOnEdge(s, recv, poly) {
					continue
				}
				set(s.Pos(), "unexpected early exit `"+src(s.Cond)+"` before the vertex loop")
			case *ast.RangeStmt, *ast.ForStmt:
				l := sc.loopOf(st)
				if l == nil || !(l.Lo.K == 0 && l.Lo.Of == nil && l.Hi.K == 0 && l.Hi.Of != nil && objOf(a.info, l.Hi.Of) == recv) {
					set(st.Pos(), "loop does not cover every member/vertex of the receiver")
					continue
				}
				seenLoop = true
				a.r4body(sc, l, recv, poly, 0, set)
			case *ast.ReturnStmt:
				if !seenLoop {
					set(s.Pos(), "returns before visiting the vertices")
				}
				if len(s.Results) != 1 || a.isConst(s.Results[0], a.outside) {
					set(s.Pos(), "fall-through result must not be Outside")
				} else if !a.isConst(s.Results[0], a.inside) && !a.isConst(s.Results[0], a.onEdge) {
					set(s.Pos(), "fall-through result `"+src(s.Results[0])+"` not recognised")
				}
			default:
				set(st.Pos(), "unexpected statement `"+src(st)+"`")
			}
		}
		if !seenLoop {
			set(fd.Pos(), "no loop over the receiver")
		}
		if msg != "" {
			c.Bad("C02.R4", name, pos, "%s", msg)
		} else {
			c.OK("C02.R4", name, fd.Pos(), "every vertex/member visited; Outside exactly when one is Outside")
		}
	}
}

func (a *c02) isDeepEqualOnEdge(s *ast.IfStmt, recv, poly types.Object) bool {
	call, ok := unparen(s.Cond).(*ast.CallExpr)
	if !ok || len(call.Args) != 2 || !isFuncIn(callee(a.info, call), "reflect", "DeepEqual") {
		return false
	}
	x, y := objOf(a.info, call.Args[0]), objOf(a.info, call.Args[1])
	if !((x == recv && y == poly) || (x == poly && y == recv)) {
		return false
	}
	if len(s.Body.List) != 1 || s.Else != nil {
		return false
	}
	r, ok := s.Body.List[0].(*ast.ReturnStmt)
	return ok && len(r.Results) == 1 && a.isConst(r.Results[0], a.onEdge)
}

// r4body: the loop body is either `if classify(elem, poly) == Outside { return Outside }`
// or a nested full-range loop over the element with such a body.
func (a *c02) r4body(sc *fnScope, l *Loop, recv, poly types.Object, depth int, set func(token.Pos, string)) {
	brk, cont, _ := earlyExits(l.Body)
	if len(brk)+len(cont) > 0 {
		set(l.Stmt.Pos(), "loop has break/continue: some vertices may be skipped")
	}
	isElem := func(e ast.Expr) bool {
		e = unparen(e)
		if l.Val != nil && objOf(a.info, e) == l.Val {
			return true
		}
		if ix, ok := e.(*ast.IndexExpr); ok && l.Idx != nil && objOf(a.info, ix.Index) == l.Idx && l.Hi.Of != nil && sameExpr(a.info, ix.X, l.Hi.Of) {
			return true
		}
		return false
	}
	found := false
	for _, st := range l.Body.List {
		switch s := st.(type) {
		case *ast.IfStmt:
			b, ok := unparen(s.Cond).(*ast.BinaryExpr)
			if !ok || b.Op != token.EQL || !a.isConst(b.Y, a.outside) {
				set(s.Pos(), "unexpected condition `"+src(s.Cond)+"` in the vertex loop")
				continue
			}
			call, ok := unparen(b.X).(*ast.CallExpr)
			if !ok {
				set(s.Pos(), "condition does not classify the current element")
				continue
			}
			f := callee(a.info, call)
			okCall := false
			if f == a.polyal && len(call.Args) == 2 && isElem(call.Args[0]) && objOf(a.info, call.Args[1]) == poly {
				okCall = true
			}
			if sel, isSel := unparen(call.Fun).(*ast.SelectorExpr); isSel && sel.Sel.Name == "Within" && isElem(sel.X) && len(call.Args) == 1 && objOf(a.info, call.Args[0]) == poly {
				okCall = true // member method, itself subject to this rule
			}
			if !okCall {
				set(call.Pos(), "`"+src(call)+"` does not classify the current element against the polygon")
				continue
			}
			if len(s.Body.List) != 1 || s.Else != nil {
				set(s.Pos(), "an Outside vertex must return Outside at once")
				continue
			}
			r, ok := s.Body.List[0].(*ast.ReturnStmt)
			if !ok || len(r.Results) != 1 || !a.isConst(r.Results[0], a.outside) {
				set(s.Pos(), "an Outside vertex must return Outside at once")
				continue
			}
			found = true
		case *ast.RangeStmt, *ast.ForStmt:
			inner := sc.loopOf(st)
			if inner == nil || !(inner.Lo.K == 0 && inner.Lo.Of == nil && inner.Hi.K == 0 && inner.Hi.Of != nil && isElem(inner.Hi.Of)) {
				set(st.Pos(), "inner loop does not cover every vertex of the current member")
				continue
			}
			a.r4body(sc, inner, recv, poly, depth+1, set)
			found = true
		default:
			set(st.Pos(), "unexpected statement `"+src(st)+"` in the vertex loop")
		}
	}
	if !found {
		set(l.Stmt.Pos(), "loop body does not classify the current element")
	}
}

// ---------------------------------------------------------------- R5

type tri int

const (
	triUnknown tri = iota
	triTrue
	triFalse
	triDontCare
)

func (a *c02) r5exits() {
	c := a.c
	if a.onSeg == nil || a.ray == nil {
		c.Unk("C02.R5", "segment-predicates", token.NoPos, "the on-segment and ray predicates were not identified by R1")
		return
	}
	it := &oInterp{p: c.P, maxDepth: 4}
	ords := weakOrderings(3) // p, a, b per axis
	pt := a.ptT
	// try evaluates one convention; returns "" when every definite answer agrees
	try := func(f *types.Func, truth func(px, py, ax, ay, bx, by int64) tri, what string) (msg string, definite, n int) {
		for _, ox := range ords {
			for _, oy := range ords {
				n++
				res, why := it.Call(f, nil, []oval{it.point(pt, ox[0], oy[0]), it.point(pt, ox[1], oy[1]), it.point(pt, ox[2], oy[2])}, 0)
				if why != "" || len(res) != 1 {
					continue // ⊤: arithmetic decides; no claim at order level
				}
				got, ok := res[0].(oBool)
				if !ok {
					continue
				}
				definite++
				want := truth(ox[0], oy[0], ox[1], oy[1], ox[2], oy[2])
				switch {
				case want == triDontCare:
				case want == triUnknown:
					return fmt.Sprintf("ordering p=(r%d,r%d) a=(r%d,r%d) b=(r%d,r%d): returns %v using comparisons alone, but %s is not determined by the ordering (both answers occur for points in this class)", ox[0], oy[0], ox[1], oy[1], ox[2], oy[2], bool(got), what), definite, n
				case (want == triTrue) != bool(got):
					return fmt.Sprintf("ordering p=(r%d,r%d) a=(r%d,r%d) b=(r%d,r%d): returns %v, order-level geometry says %v (%s)", ox[0], oy[0], ox[1], oy[1], ox[2], oy[2], bool(got), want == triTrue, what), definite, n
				}
			}
		}
		return "", definite, n
	}
	run := func(f *types.Func, what string, truths ...func(px, py, ax, ay, bx, by int64) tri) {
		name, pos := c.P.FuncName(f), c.P.Decl(f).Pos()
		first := ""
		for _, truth := range truths {
			msg, definite, n := try(f, truth, what)
			c.Evals(n)
			if msg == "" {
				if definite == 0 {
					c.Unk("C02.R5", name, pos, "no ordering is decided by comparisons alone: the order-only prefix this rule checks is gone")
				} else {
					c.OK("C02.R5", name, pos, "%d of %d orderings are decided by comparisons alone, all in agreement with order-level geometry", definite, n)
				}
				return
			}
			if first == "" {
				first = msg
			}
		}
		c.Bad("C02.R5", name, pos, "%s", first)
	}
	run(a.onSeg, "whether the point lies on the segment", func(px, py, ax, ay, bx, by int64) tri {
		if px < min64(ax, bx) || px > max64(ax, bx) || py < min64(ay, by) || py > max64(ay, by) {
			return triFalse
		}
		if (px == ax && py == ay) || (px == bx && py == by) {
			return triTrue
		}
		if ax == bx { // vertical, p within the Y range
			if px == ax {
				return triTrue
			}
			return triFalse
		}
		if ay == by {
			if py == ay {
				return triTrue
			}
			return triFalse
		}
		return triUnknown
	})
	// both perturbation conventions give a correct even-odd count; the predicate
	// must agree with one of them on every ordering it decides
	rayTruth := func(dir int64) func(px, py, ax, ay, bx, by int64) tri {
		return func(px, py, ax, ay, bx, by int64) tri {
			loY, hiY := min64(ay, by), max64(ay, by)
			if py == loY || py == hiY {
				py += dir // the point is treated as slightly above (below) a vertex it is level with
			}
			if py < loY || py > hiY {
				return triFalse
			}
			mn, mx := min64(ax, bx), max64(ax, bx)
			switch {
			case px < mn:
				return triTrue
			case px > mx:
				return triFalse
			case ax == bx:
				return triDontCare // on a vertical segment: OnEdge is decided before the ray test
			case px == mx:
				return triFalse
			case px == mn:
				return triTrue
			}
			return triUnknown
		}
	}
	run(a.ray, "whether a rightward ray from the (nudged) point crosses the segment", rayTruth(1), rayTruth(-1))
}
