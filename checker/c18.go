package main

// C18 — OSM extraction: referentially closed and schedule independent.
//
// R1 lockset, R2 lock pairing and order, R3 dependency registration demands
// another pass, R4 fixpoint completeness, R5 sibling agreement.

import (
	"fmt"
	"go/ast"
	"go/token"
	"go/types"
	"sort"
	"strings"
)

func init() { register("C18", false, checkC18) }

type c18 struct {
	onLeak             func(key string) // set by R2 while a unit is walked: a lock held on one side of a meet only
	seedBusy, seedMemo map[*types.Func]bool
	c                  *Ctx
	info               *types.Info
	p                  *pkgT
	dataT              *types.Named
	guard              map[*types.Var]*types.Var // map field → mutex field
	maps               []*types.Var
	worker             map[*types.Func]bool // functions reachable from the errgroup.Go closures
	lits               []*ast.FuncLit       // the worker closures
	extract            *types.Func
	funcs              []*types.Func
	flag               *c18flag
	flagDone           bool
}

func checkC18(c *Ctx) {
	c.Rule("C18.R1", "in functions reachable from the worker closures passed to errgroup.Go every read of a guarded map holds that map's mutex at least shared and every write holds it exclusively; the another-pass flag is written only under its mutex inside workers and is not touched by the spawning function between Go and Wait")
	c.Rule("C18.R2", "every lock acquired is released on all exits (explicitly or by defer); the lock acquisition order graph (including acquisitions made by callees while a lock is held) is acyclic")
	c.Rule("C18.R3", "the another-pass result of every per-object function (a process* method of Data taking a keep function and reporting a bool) is turned into a request by each caller: it reaches the caller's own bool result, the condition of the pass loop, or the shared flag — through assignments, ||, if-set-true and helper methods (that the functions register and report what they must is R7's matter)")
	c.Rule("C18.R4", "every store, during a concurrent pass, into a Data field that some KeepFunc defined in the package consults must request another pass (otherwise a keep decision taken before the store is never re-evaluated and the result depends on the schedule)")
	c.Rule("C18.R6", "pass barrier: every iteration of the pass loop joins the workers it started (Wait) before the another-pass flag is read or reset, and inside a worker each object reaches its process function on its type alone (no pass-dependent skipping)")
	p := c.P.Pkg("encoding/osm")
	if p == nil {
		c.Unk("C18.R1", "encoding/osm", token.NoPos, "package not loaded")
		return
	}
	a := &c18{c: c, info: p.TypesInfo, p: p, guard: map[*types.Var]*types.Var{}, worker: map[*types.Func]bool{}}
	a.dataT = c.P.NamedType("encoding/osm", "Data")
	if a.dataT == nil {
		c.Unk("C18.R1", "encoding/osm.Data", token.NoPos, "type anchor does not resolve")
		return
	}
	for _, fn := range c.P.RepoFuncs() {
		if c.P.DeclPkg(fn) == p {
			a.funcs = append(a.funcs, fn)
		}
	}
	a.guards()
	if !a.workers() {
		return
	}
	a.r1()
	a.r2()
	a.r3()
	a.r4()
	a.passBarrier()
	c.Rule("C18.R7", "model evaluation of the sequential semantics on model documents (shared nodes, relations of ways, nodes and relations, a chain three deep, a cycle, a dangling reference) with the package's own KeepTags and KeepAll: Filter returns exactly the selected objects and what they reference, transitively, whichever way maps are walked, is idempotent, and Check accepts the result; the per-object functions driven through the pass protocol in file order, reverse order and an interleaved order reach the same least closed set; the extraction loop itself under one sequential schedule, with the pool sized for 2 processors (1 and 3 in file order); mutexes keep their state (a release of what is not held is fatal)")
	c18model(c, "C18.R7")
	c.Floor("C18.R7", 16)
	c.Floor("C18.R6", 2)
	c.Floor("C18.R1", 3)
	c.Floor("C18.R2", 2)
	c.Floor("C18.R3", 2)
	c.Floor("C18.R4", 1)
}

func isRWMutex(t types.Type) bool {
	return isNamed(t, "sync", "RWMutex") || isNamed(t, "sync", "Mutex")
}

// guards: map field X is guarded by the mutex field whose name is the
// lower-cased singular of X followed by "MX" (Nodes→nodeMX, dependentWays→dependentWayMX).
func (a *c18) guards() {
	st := a.dataT.Underlying().(*types.Struct)
	mx := map[string]*types.Var{}
	for i := 0; i < st.NumFields(); i++ {
		f := st.Field(i)
		if isRWMutex(f.Type()) {
			mx[strings.ToLower(f.Name())] = f
		}
	}
	for i := 0; i < st.NumFields(); i++ {
		f := st.Field(i)
		if _, ok := f.Type().Underlying().(*types.Map); !ok {
			continue
		}
		a.maps = append(a.maps, f)
		key := strings.ToLower(strings.TrimSuffix(f.Name(), "s")) + "mx"
		if m, ok := mx[key]; ok {
			a.guard[f] = m
			a.c.OK("C18.R1", "encoding/osm.Data#guard("+f.Name()+")", f.Pos(), "guarded by %s", m.Name())
		} else {
			a.c.Unk("C18.R1", "encoding/osm.Data#guard("+f.Name()+")", f.Pos(), "no mutex field named after this map (expected %sMX)", strings.TrimSuffix(f.Name(), "s"))
		}
	}
}

// workers: closures passed to (*errgroup.Group).Go, and everything reachable from them.
func (a *c18) workers() bool {
	c := a.c
	for _, fn := range a.funcs {
		fd := c.P.Decl(fn)
		ast.Inspect(fd.Body, func(n ast.Node) bool {
			call, ok := n.(*ast.CallExpr)
			if !ok || len(call.Args) != 1 {
				return true
			}
			f := callee(a.info, call)
			if f == nil || f.Name() != "Go" || f.Pkg() == nil || !strings.HasSuffix(f.Pkg().Path(), "errgroup") {
				return true
			}
			if lit, ok := unparen(call.Args[0]).(*ast.FuncLit); ok {
				a.lits = append(a.lits, lit)
				a.extract = fn
			}
			return true
		})
	}
	if len(a.lits) == 0 {
		c.Unk("C18.R1", "encoding/osm#workers", token.NoPos, "no closure passed to errgroup.Go found")
		return false
	}
	var visit func(n ast.Node)
	seen := map[*types.Func]bool{}
	keepFuncs := a.keepFuncLits()
	visit = func(n ast.Node) {
		ast.Inspect(n, func(m ast.Node) bool {
			call, ok := m.(*ast.CallExpr)
			if !ok {
				return true
			}
			if f := callee(a.info, call); f != nil && c.P.Decl(f) != nil && !seen[f] {
				seen[f] = true
				a.worker[f] = true
				visit(c.P.Decl(f).Body)
			}
			// dynamic call of a KeepFunc value: every keep closure of the package
			if t := a.info.TypeOf(call.Fun); t != nil && isNamed(t, a.p.PkgPath, "KeepFunc") {
				for _, kl := range keepFuncs {
					visit(kl.Body)
				}
			}
			return true
		})
	}
	for _, l := range a.lits {
		visit(l.Body)
	}
	return true
}

// keepFuncLits: function literals returned by package functions whose result type is KeepFunc.
func (a *c18) keepFuncLits() []*ast.FuncLit {
	var out []*ast.FuncLit
	for _, fn := range a.funcs {
		sig := fn.Type().(*types.Signature)
		if sig.Results().Len() != 1 || !isNamed(sig.Results().At(0).Type(), a.p.PkgPath, "KeepFunc") {
			continue
		}
		ast.Inspect(a.c.P.Decl(fn).Body, func(n ast.Node) bool {
			if r, ok := n.(*ast.ReturnStmt); ok && len(r.Results) == 1 {
				if lit, ok := unparen(r.Results[0]).(*ast.FuncLit); ok {
					out = append(out, lit)
				}
			}
			return true
		})
	}
	return out
}

// dataField: if e is X.f with f a field of Data, returns f.
func (a *c18) dataField(e ast.Expr) *types.Var {
	sel, ok := unparen(e).(*ast.SelectorExpr)
	if !ok {
		return nil
	}
	if s := a.info.Selections[sel]; s != nil {
		if v, ok := s.Obj().(*types.Var); ok && v.IsField() && named(s.Recv()) == a.dataT {
			return v
		}
	}
	return nil
}

// lockCall: X.mx.Lock()/RLock()/Unlock()/RUnlock() on a Data mutex field or a local mutex.
func (a *c18) lockCall(call *ast.CallExpr) (key string, op string) {
	sel, ok := unparen(call.Fun).(*ast.SelectorExpr)
	if !ok {
		return "", ""
	}
	switch sel.Sel.Name {
	case "Lock", "RLock", "Unlock", "RUnlock":
	default:
		return "", ""
	}
	if t := a.info.TypeOf(sel.X); t == nil || !isRWMutex(t) {
		return "", ""
	}
	if f := a.dataField(sel.X); f != nil {
		return f.Name(), sel.Sel.Name
	}
	if o := objOf(a.info, sel.X); o != nil {
		return "local:" + o.Name(), sel.Sel.Name
	}
	return src(sel.X), sel.Sel.Name
}

type lockEvent struct {
	pos  token.Pos
	msg  string
	cons string
}

// locksetWalk runs the lockset dataflow over one body; onAccess is called for
// every access to a guarded map with the facts then held.
func (a *c18) locksetWalk(body *ast.BlockStmt, onAccess func(f *types.Var, write bool, pos token.Pos, s Facts), onAcquire func(held []string, key string, pos token.Pos), onExit func(s Facts, pos token.Pos), onCall func(f *types.Func, s Facts, pos token.Pos)) []ast.Node {
	scan := func(n ast.Node, s Facts, writeTargets map[ast.Expr]bool) {
		ast.Inspect(n, func(m ast.Node) bool {
			switch x := m.(type) {
			case *ast.FuncLit:
				return false
			case *ast.IndexExpr:
				if f := a.dataField(x.X); f != nil && a.guard[f] != nil {
					onAccess(f, writeTargets[x], x.Pos(), s)
				}
			case *ast.RangeStmt:
				if f := a.dataField(x.X); f != nil && a.guard[f] != nil {
					onAccess(f, false, x.Pos(), s)
				}
			case *ast.CallExpr:
				if b := builtinName(a.info, x); (b == "delete" || b == "len") && len(x.Args) >= 1 {
					if f := a.dataField(x.Args[0]); f != nil && a.guard[f] != nil {
						onAccess(f, b == "delete", x.Pos(), s)
					}
				}
				if f := callee(a.info, x); f != nil && a.c.P.Decl(f) != nil && onCall != nil {
					onCall(f, s, x.Pos())
				}
			}
			return true
		})
	}
	held := func(s Facts) []string {
		var hs []string
		for k := range s {
			if strings.HasPrefix(k, "W:") || strings.HasPrefix(k, "R:") {
				hs = append(hs, k[2:])
			}
		}
		sort.Strings(hs)
		return hs
	}
	cl := &FactsClient{}
	cl.OnStmt = func(n ast.Node, s Facts) Facts {
		wt := map[ast.Expr]bool{}
		switch st := n.(type) {
		case *ast.AssignStmt:
			for _, l := range st.Lhs {
				if ix, ok := unparen(l).(*ast.IndexExpr); ok {
					wt[ix] = true
				}
			}
		case *ast.IncDecStmt:
			if ix, ok := unparen(st.X).(*ast.IndexExpr); ok {
				wt[ix] = true
			}
		case *ast.RangeStmt:
			// loop header only; the body is walked statement by statement
			if f := a.dataField(st.X); f != nil && a.guard[f] != nil {
				onAccess(f, false, st.X.Pos(), s)
			} else {
				scan(st.X, s, nil)
			}
			return s
		case *ast.DeferStmt:
			if key, op := a.lockCall(st.Call); key != "" && (op == "Unlock" || op == "RUnlock") {
				s["D:"+key] = true // released at function exit
				return s
			}
		case *ast.ExprStmt:
			if call, ok := unparen(st.X).(*ast.CallExpr); ok {
				if key, op := a.lockCall(call); key != "" {
					switch op {
					case "Lock":
						if onAcquire != nil {
							onAcquire(held(s), key, call.Pos())
						}
						s["W:"+key] = true
					case "RLock":
						if onAcquire != nil {
							onAcquire(held(s), key, call.Pos())
						}
						s["R:"+key] = true
					case "Unlock":
						delete(s, "W:"+key)
					case "RUnlock":
						delete(s, "R:"+key)
					}
					return s
				}
			}
		}
		scan(n, s, wt)
		return s
	}
	cl.OnBranch = func(cond ast.Expr, truth bool, s Facts) Facts {
		scan(cond, s, nil)
		return s
	}
	cl.OnReturn = func(r *ast.ReturnStmt, s Facts) {
		pos := body.End()
		if r != nil {
			pos = r.Pos()
			for _, e := range r.Results {
				scan(e, s, nil)
			}
		}
		if onExit != nil {
			onExit(s, pos)
		}
	}
	if a.onLeak != nil {
		// where two paths meet, a lock held on one of them only (and not handed to a deferred
		// release) stays locked on that path: must-hold facts alone forget it at the meet
		cl.OnJoin = func(x, y Facts) Facts {
			for _, pr := range [2][2]Facts{{x, y}, {y, x}} {
				for k := range pr[0] {
					if (strings.HasPrefix(k, "W:") || strings.HasPrefix(k, "R:")) && !pr[1][k] && !pr[0]["D:"+k[2:]] {
						a.onLeak(k[2:])
					}
				}
			}
			return x.Meet(y)
		}
	}
	fl := &Flow[Facts]{C: cl, Info: a.info}
	fl.Run(body, Facts{})
	return fl.Unsupported
}

func (a *c18) r1() {
	c := a.c
	type unit struct {
		name string
		body *ast.BlockStmt
		pos  token.Pos
	}
	var units []unit
	for f := range a.worker {
		units = append(units, unit{c.P.FuncName(f), c.P.Decl(f).Body, c.P.Decl(f).Pos()})
	}
	for i, l := range a.lits {
		units = append(units, unit{fmt.Sprintf("%s$worker%d", c.P.FuncName(a.extract), i+1), l.Body, l.Pos()})
	}
	for i, kl := range a.keepFuncLits() {
		units = append(units, unit{fmt.Sprintf("encoding/osm#keepfunc%d", i+1), kl.Body, kl.Pos()})
	}
	sort.Slice(units, func(i, j int) bool { return units[i].pos < units[j].pos })
	for _, u := range units {
		perField := map[string]string{}
		firstPos := map[string]token.Pos{}
		accesses := map[string]int{}
		unsup := a.locksetWalk(u.body, func(f *types.Var, write bool, pos token.Pos, s Facts) {
			mx := a.guard[f].Name()
			accesses[f.Name()]++
			ok := s["W:"+mx] || (!write && s["R:"+mx])
			if !ok && perField[f.Name()] == "" {
				kind := "read"
				need := "at least a shared lock"
				if write {
					kind, need = "written", "the exclusive lock"
				} else {
					kind = "read"
				}
				perField[f.Name()] = fmt.Sprintf("%s is %s without holding %s on %s, although other workers write it concurrently", f.Name(), kind, need, mx)
				firstPos[f.Name()] = pos
			}
		}, nil, nil, nil)
		if len(unsup) > 0 {
			c.Unk("C18.R1", u.name, unsup[0].Pos(), "unsupported control flow")
			continue
		}
		var fs []string
		for f := range accesses {
			fs = append(fs, f)
		}
		sort.Strings(fs)
		for _, f := range fs {
			cons := u.name + "#" + f
			if msg := perField[f]; msg != "" {
				c.Bad("C18.R1", cons, firstPos[f], "%s", msg)
			} else {
				c.OK("C18.R1", cons, u.pos, "%d accesses, all under the map's mutex", accesses[f])
			}
		}
	}
	a.passFlag()
}

// c18flag: the another-pass flag — either a bool local of the spawning function captured by
// the worker closures, or a bool field of a package type set through a method that worker
// code calls.
type c18flag struct {
	obj     types.Object
	isField bool
	atomic  bool                 // written through sync/atomic (no mutex needed, but then never plainly)
	users   map[*types.Func]bool // field form: package functions that mention the field
}

func (f *c18flag) name() string { return f.obj.Name() }

func (a *c18) findFlag() *c18flag {
	if a.flagDone {
		return a.flag
	}
	a.flagDone = true
	c := a.c
	for _, l := range a.lits {
		ast.Inspect(l.Body, func(n ast.Node) bool {
			if as, ok := n.(*ast.AssignStmt); ok && len(as.Lhs) == 1 && len(as.Rhs) == 1 {
				if v := constOf(a.info, as.Rhs[0]); v != nil && v.String() == "true" {
					if o := objOf(a.info, as.Lhs[0]); o != nil && !(l.Pos() <= o.Pos() && o.Pos() <= l.End()) {
						if _, isSel := unparen(as.Lhs[0]).(*ast.SelectorExpr); !isSel {
							a.flag = &c18flag{obj: o}
						}
					}
				}
			}
			return true
		})
	}
	if a.flag != nil {
		return a.flag
	}
	// atomic form: worker code stores a non-zero constant into a variable or field through sync/atomic
	{
		var bodies []ast.Node
		for _, l := range a.lits {
			bodies = append(bodies, l.Body)
		}
		for _, fn := range a.funcs {
			if a.worker[fn] {
				bodies = append(bodies, c.P.Decl(fn).Body)
			}
		}
		for _, b := range bodies {
			ast.Inspect(b, func(n ast.Node) bool {
				call, ok := n.(*ast.CallExpr)
				if !ok || a.flag != nil {
					return true
				}
				if o := a.atomicTarget(call, true); o != nil {
					fl := &c18flag{obj: o, atomic: true, users: map[*types.Func]bool{}}
					if v, ok := o.(*types.Var); ok && v.IsField() {
						fl.isField = true
					}
					for _, fn := range a.funcs {
						ast.Inspect(c.P.Decl(fn).Body, func(k ast.Node) bool {
							if id, ok := k.(*ast.Ident); ok && a.info.Uses[id] == o {
								fl.users[fn] = true
							}
							return true
						})
					}
					a.flag = fl
				}
				return true
			})
		}
		if a.flag != nil {
			return a.flag
		}
	}
	// field form: worker code calls a zero-argument method whose body stores true into a bool field
	var bodies []ast.Node
	for _, l := range a.lits {
		bodies = append(bodies, l.Body)
	}
	for _, fn := range a.funcs {
		if a.worker[fn] {
			bodies = append(bodies, c.P.Decl(fn).Body)
		}
	}
	var field types.Object
	for _, b := range bodies {
		ast.Inspect(b, func(n ast.Node) bool {
			call, ok := n.(*ast.CallExpr)
			if !ok || len(call.Args) != 0 || field != nil {
				return true
			}
			f := callee(a.info, call)
			if f == nil || c.P.Decl(f) == nil || f.Type().(*types.Signature).Recv() == nil {
				return true
			}
			ast.Inspect(c.P.Decl(f).Body, func(k ast.Node) bool {
				if as, ok := k.(*ast.AssignStmt); ok && len(as.Lhs) == 1 && len(as.Rhs) == 1 {
					if v := constOf(a.info, as.Rhs[0]); v != nil && v.String() == "true" {
						if sel, ok := unparen(as.Lhs[0]).(*ast.SelectorExpr); ok {
							if fv, ok := a.info.Uses[sel.Sel].(*types.Var); ok && fv.IsField() && a.dataField(sel) == nil {
								field = fv
							}
						}
					}
				}
				return true
			})
			return true
		})
	}
	if field == nil {
		return nil
	}
	fl := &c18flag{obj: field, isField: true, users: map[*types.Func]bool{}}
	for _, fn := range a.funcs {
		ast.Inspect(c.P.Decl(fn).Body, func(n ast.Node) bool {
			if id, ok := n.(*ast.Ident); ok && a.info.Uses[id] == field {
				fl.users[fn] = true
			}
			return true
		})
	}
	a.flag = fl
	return fl
}

// touches: n (function literals excluded) reads or writes the flag, directly or through one of
// the flag type's methods.
func (a *c18) touches(fl *c18flag, n ast.Node) (pos token.Pos) {
	if n == nil {
		return token.NoPos
	}
	ast.Inspect(n, func(m ast.Node) bool {
		if pos != token.NoPos {
			return false
		}
		switch x := m.(type) {
		case *ast.FuncLit:
			return false
		case *ast.Ident:
			if o := a.info.Uses[x]; o != nil && o == fl.obj {
				pos = x.Pos()
			}
		case *ast.CallExpr:
			if f := callee(a.info, x); f != nil && fl.users[f] {
				pos = x.Pos()
			}
		}
		return true
	})
	return pos
}

func (a *c18) isGroupCall(n ast.Node, which string) bool {
	found := false
	if n == nil {
		return false
	}
	ast.Inspect(n, func(m ast.Node) bool {
		if _, isLit := m.(*ast.FuncLit); isLit {
			return false
		}
		if call, ok := m.(*ast.CallExpr); ok {
			if f := callee(a.info, call); f != nil && f.Name() == which && f.Pkg() != nil && (strings.HasSuffix(f.Pkg().Path(), "errgroup") || f.Pkg().Path() == "sync") {
				found = true
			}
		}
		return !found
	})
	return found
}

// passFlag: the variable set by workers to request another pass.
func (a *c18) passFlag() {
	c := a.c
	efd := c.P.Decl(a.extract)
	cons := c.P.FuncName(a.extract) + "#pass-flag"
	flag := a.findFlag()
	if flag == nil {
		c.Bad("C18.R1", cons, efd.Pos(), "workers never request another pass")
		return
	}
	msg := ""
	var pos token.Pos = efd.Pos()
	onWrite := func(p token.Pos, held bool) {
		if !held && msg == "" {
			msg = "the another-pass flag `" + flag.name() + "` is written by a worker without holding a mutex: concurrent workers race on it"
			pos = p
		}
	}
	if flag.atomic {
		// every access goes through sync/atomic: a plain read or write anywhere races with the workers
		for _, fn := range a.funcs {
			var atomicArgs []ast.Node
			ast.Inspect(c.P.Decl(fn).Body, func(n ast.Node) bool {
				if call, ok := n.(*ast.CallExpr); ok && a.atomicTarget(call, false) == flag.obj {
					atomicArgs = append(atomicArgs, call)
				}
				return true
			})
			ast.Inspect(c.P.Decl(fn).Body, func(n ast.Node) bool {
				id, ok := n.(*ast.Ident)
				if !ok || a.info.Uses[id] != flag.obj || msg != "" {
					return true
				}
				for _, ac := range atomicArgs {
					if containsNode(ac, id) {
						return true
					}
				}
				msg = "the another-pass flag `" + flag.name() + "` is written through sync/atomic by the workers but accessed plainly here: the plain access races with them"
				pos = id.Pos()
				return true
			})
		}
	} else if flag.isField {
		var us []*types.Func
		for f := range flag.users {
			us = append(us, f)
		}
		sort.Slice(us, func(i, j int) bool { return c.P.PosLess(c.P.Decl(us[i]).Pos(), c.P.Decl(us[j]).Pos()) })
		for _, f := range us {
			// the spawning function's own accesses are judged by the join analysis below, not by
			// the lock set: it touches the flag while no worker runs
			if f == a.extract && !a.worker[f] {
				continue
			}
			a.locksetWalkFlag(c.P.Decl(f).Body, flag.obj, onWrite)
		}
	} else {
		for _, l := range a.lits {
			a.locksetWalkFlag(l.Body, flag.obj, onWrite)
		}
	}
	// spawner: whenever the spawning function touches the flag, no worker it started is still
	// running (every Go is followed by a Wait on the way there)
	waited := false
	ast.Inspect(efd.Body, func(n ast.Node) bool {
		if a.isGroupCall(n, "Wait") {
			waited = true
		}
		return !waited
	})
	if !waited {
		msg = "the spawning function never waits for the workers"
	}
	cl := &FactsClient{}
	check := func(n ast.Node, s Facts) {
		if p := a.touches(flag, n); p != token.NoPos && !s["joined"] && msg == "" {
			msg = "the spawning function touches `" + flag.name() + "` while workers are running (between Go and Wait)"
			pos = p
		}
	}
	cl.OnStmt = func(n ast.Node, s Facts) Facts {
		var scope ast.Node = n
		if rs, isR := n.(*ast.RangeStmt); isR {
			scope = rs.X
		}
		check(scope, s)
		if a.isGroupCall(scope, "Go") {
			delete(s, "joined")
		}
		if a.isGroupCall(scope, "Wait") {
			s["joined"] = true
		}
		return s
	}
	cl.OnBranch = func(cond ast.Expr, truth bool, s Facts) Facts {
		if a.isGroupCall(cond, "Wait") {
			s["joined"] = true
		}
		check(cond, s)
		return s
	}
	cl.OnReturn = func(r *ast.ReturnStmt, s Facts) {
		if r != nil {
			check(r, s)
		}
	}
	a.joinedUnlessErr(cl)
	fl := &Flow[Facts]{C: cl, Info: a.info}
	fl.Run(efd.Body, Facts{"joined": true})
	switch {
	case msg != "":
		c.Bad("C18.R1", cons, pos, "%s", msg)
	case len(fl.Unsupported) > 0:
		c.Unk("C18.R1", cons, fl.Unsupported[0].Pos(), "unsupported control flow in the spawning function")
	default:
		c.OK("C18.R1", cons, efd.Pos(), "`%s` is written only under its mutex in workers and touched by the spawner only with all started workers joined", flag.name())
	}
}

func (a *c18) locksetWalkFlag(body *ast.BlockStmt, flag types.Object, report func(pos token.Pos, held bool)) {
	cl := &FactsClient{}
	cl.OnStmt = func(n ast.Node, s Facts) Facts {
		switch st := n.(type) {
		case *ast.ExprStmt:
			if call, ok := unparen(st.X).(*ast.CallExpr); ok {
				if key, op := a.lockCall(call); key != "" {
					if op == "Lock" {
						s["W:"+key] = true
					} else if op == "Unlock" {
						delete(s, "W:"+key)
					}
				}
			}
		case *ast.AssignStmt:
			for _, l := range st.Lhs {
				lo := objOf(a.info, l)
				if sel, ok := unparen(l).(*ast.SelectorExpr); ok {
					lo = a.info.Uses[sel.Sel]
				}
				if lo == flag {
					held := false
					for k := range s {
						if strings.HasPrefix(k, "W:") {
							held = true
						}
					}
					report(st.Pos(), held)
				}
			}
		}
		return s
	}
	fl := &Flow[Facts]{C: cl, Info: a.info}
	fl.Run(body, Facts{})
}

// ---------------------------------------------------------------- R2

func (a *c18) r2() {
	c := a.c
	// per-function acquires (for the interprocedural order graph)
	acquires := map[*types.Func]map[string]bool{}
	var collect func(f *types.Func, seen map[*types.Func]bool) map[string]bool
	collect = func(f *types.Func, seen map[*types.Func]bool) map[string]bool {
		if r, ok := acquires[f]; ok {
			return r
		}
		if seen[f] {
			return nil
		}
		seen[f] = true
		out := map[string]bool{}
		ast.Inspect(c.P.Decl(f).Body, func(n ast.Node) bool {
			if call, ok := n.(*ast.CallExpr); ok {
				if key, op := a.lockCall(call); key != "" && (op == "Lock" || op == "RLock") {
					out[key] = true
				}
				if g := callee(a.info, call); g != nil && c.P.Decl(g) != nil && g.Pkg() == f.Pkg() {
					for k := range collect(g, seen) {
						out[k] = true
					}
				}
			}
			return true
		})
		acquires[f] = out
		return out
	}
	edges := map[string]map[string]token.Pos{}
	addEdge := func(from, to string, pos token.Pos) {
		if from == to {
			return
		}
		if edges[from] == nil {
			edges[from] = map[string]token.Pos{}
		}
		if _, ok := edges[from][to]; !ok {
			edges[from][to] = pos
		}
	}
	type unit struct {
		name string
		body *ast.BlockStmt
		pos  token.Pos
	}
	var units []unit
	for _, f := range a.funcs {
		has := false
		ast.Inspect(c.P.Decl(f).Body, func(n ast.Node) bool {
			if call, ok := n.(*ast.CallExpr); ok {
				if key, _ := a.lockCall(call); key != "" {
					has = true
				}
			}
			return true
		})
		if has {
			units = append(units, unit{c.P.FuncName(f), c.P.Decl(f).Body, c.P.Decl(f).Pos()})
		}
	}
	sort.Slice(units, func(i, j int) bool { return units[i].pos < units[j].pos })
	for _, u := range units {
		msg := ""
		var mpos token.Pos
		selfDeadlock := ""
		leaked := ""
		a.onLeak = func(key string) {
			if leaked == "" {
				leaked = key
			}
		}
		// closures inside (workers) are analysed as their own units below
		unsup := a.locksetWalk(u.body, func(*types.Var, bool, token.Pos, Facts) {}, func(held []string, key string, pos token.Pos) {
			for _, h := range held {
				if h == key {
					selfDeadlock = key
					mpos = pos
				}
				addEdge(h, key, pos)
			}
		}, func(s Facts, pos token.Pos) {
			for k := range s {
				if (strings.HasPrefix(k, "W:") || strings.HasPrefix(k, "R:")) && !s["D:"+k[2:]] && msg == "" {
					msg = "lock " + k[2:] + " is still held on the path leaving at this point (no Unlock and no deferred Unlock): the next worker blocks forever"
					mpos = pos
				}
			}
		}, func(g *types.Func, s Facts, pos token.Pos) {
			for k := range s {
				if strings.HasPrefix(k, "W:") || strings.HasPrefix(k, "R:") {
					for acq := range collect(g, map[*types.Func]bool{}) {
						addEdge(k[2:], acq, pos)
					}
				}
			}
		})
		a.onLeak = nil
		switch {
		case len(unsup) > 0:
			c.Unk("C18.R2", u.name+"#pairing", unsup[0].Pos(), "unsupported control flow")
		case leaked != "" && msg == "":
			c.Bad("C18.R2", u.name+"#pairing", u.pos, "lock %s is held on one path into a point where paths meet and not on the other, with no deferred release: the path that took it never gives it back, and the next acquisition blocks forever", leaked)
		case selfDeadlock != "":
			c.Bad("C18.R2", u.name+"#pairing", mpos, "lock %s is acquired while already held", selfDeadlock)
		case msg != "":
			c.Bad("C18.R2", u.name+"#pairing", mpos, "%s", msg)
		default:
			c.OK("C18.R2", u.name+"#pairing", u.pos, "every acquire is released on all exits")
		}
	}
	// worker closures
	for i, l := range a.lits {
		name := fmt.Sprintf("%s$worker%d#pairing", c.P.FuncName(a.extract), i+1)
		msg := ""
		var mpos token.Pos
		a.locksetWalk(l.Body, func(*types.Var, bool, token.Pos, Facts) {}, func(held []string, key string, pos token.Pos) {
			for _, h := range held {
				addEdge(h, key, pos)
			}
		}, func(s Facts, pos token.Pos) {
			for k := range s {
				if (strings.HasPrefix(k, "W:") || strings.HasPrefix(k, "R:")) && !s["D:"+k[2:]] && msg == "" {
					msg = "lock " + k[2:] + " is still held when the worker returns"
					mpos = pos
				}
			}
		}, func(g *types.Func, s Facts, pos token.Pos) {
			for k := range s {
				if strings.HasPrefix(k, "W:") || strings.HasPrefix(k, "R:") {
					for acq := range collect(g, map[*types.Func]bool{}) {
						addEdge(k[2:], acq, pos)
					}
				}
			}
		})
		if msg != "" {
			c.Bad("C18.R2", name, mpos, "%s", msg)
		} else {
			c.OK("C18.R2", name, l.Pos(), "every acquire is released on all exits")
		}
	}
	// cycle detection
	var nodes []string
	for k := range edges {
		nodes = append(nodes, k)
	}
	sort.Strings(nodes)
	color := map[string]int{}
	var cyc []string
	var dfs func(n string, path []string) bool
	dfs = func(n string, path []string) bool {
		color[n] = 1
		var tos []string
		for t := range edges[n] {
			tos = append(tos, t)
		}
		sort.Strings(tos)
		for _, t := range tos {
			if color[t] == 1 {
				cyc = append(path, n, t)
				return true
			}
			if color[t] == 0 && dfs(t, append(path, n)) {
				return true
			}
		}
		color[n] = 2
		return false
	}
	for _, n := range nodes {
		if color[n] == 0 && dfs(n, nil) {
			break
		}
	}
	var es []string
	for _, f := range nodes {
		for t := range edges[f] {
			es = append(es, f+"→"+t)
		}
	}
	sort.Strings(es)
	if cyc != nil {
		c.Bad("C18.R2", "encoding/osm#lock-order", edges[cyc[len(cyc)-2]][cyc[len(cyc)-1]], "lock acquisition order has a cycle %s: two workers taking the locks in opposite orders deadlock", strings.Join(cyc, " → "))
	} else {
		c.OK("C18.R2", "encoding/osm#lock-order", token.NoPos, "acyclic: %s", strings.Join(es, ", "))
	}
}

// ---------------------------------------------------------------- R3

func (a *c18) isDependent(f *types.Var) bool { return strings.HasPrefix(f.Name(), "dependent") }

func (a *c18) r3() {
	c := a.c
	n := 0
	producers := map[*types.Func]bool{}
	boolResult := func(fd *ast.FuncDecl, o types.Object) bool {
		for _, r := range resultVars(a.info, fd.Type) {
			if r != nil && r == o {
				return true
			}
		}
		return false
	}
	returnsBool := func(fn *types.Func) bool {
		sig := fn.Type().(*types.Signature)
		if sig.Results().Len() < 1 {
			return false
		}
		b, ok := sig.Results().At(sig.Results().Len() - 1).Type().Underlying().(*types.Basic)
		return ok && b.Kind() == types.Bool
	}
	// (1) the producers of pass requests: the per-object functions — methods of Data that take a
	//     keep function and report a bool.  That each of them registers what it must and reports it
	//     is decided by the pass model (R7), which drives them to the fixpoint in several orders.
	for _, fn := range a.funcs {
		sig := fn.Type().(*types.Signature)
		if sig.Recv() == nil || named(sig.Recv().Type()) != a.dataT || !returnsBool(fn) {
			continue
		}
		takesKeep := false
		for i := 0; i < sig.Params().Len(); i++ {
			if isNamed(sig.Params().At(i).Type(), a.p.PkgPath, "KeepFunc") {
				takesKeep = true
			}
		}
		// the functions the workers and Filter call per object (the ones the pass model drives)
		if takesKeep && a.isPerObject(fn) {
			producers[fn] = true
			n++
		}
	}
	_ = boolResult
	// (2) callers: a true result of a producer is turned into a pass request — by setting a bool (the
	//     caller's own result, which makes the caller a producer in turn, or the pass flag), by
	//     returning the call, or through a method that sets a bool field
	setsFlag := func(body ast.Node, fd *ast.FuncDecl) (sets bool, own bool) {
		ast.Inspect(body, func(m ast.Node) bool {
			switch x := m.(type) {
			case *ast.AssignStmt:
				if len(x.Rhs) == 1 && len(x.Lhs) == 1 {
					if v := constOf(a.info, x.Rhs[0]); v != nil && v.String() == "true" {
						sets = true
						if boolResult(fd, objOf(a.info, x.Lhs[0])) {
							own = true
						}
					}
				}
			case *ast.ReturnStmt:
				if len(x.Results) > 0 {
					if v := constOf(a.info, x.Results[len(x.Results)-1]); v != nil && v.String() == "true" {
						sets, own = true, true
					}
				}
			case *ast.CallExpr:
				if f := callee(a.info, x); f != nil && c.P.Decl(f) != nil && len(x.Args) == 0 {
					ast.Inspect(c.P.Decl(f).Body, func(k ast.Node) bool {
						if as, ok := k.(*ast.AssignStmt); ok && len(as.Rhs) == 1 && len(as.Lhs) == 1 {
							if v := constOf(a.info, as.Rhs[0]); v != nil && v.String() == "true" {
								if _, isSel := unparen(as.Lhs[0]).(*ast.SelectorExpr); isSel {
									sets = true
								}
							}
						}
						return true
					})
				}
			}
			return true
		})
		return
	}
	// which result of a producer carries the request (the bool result; the last one when several)
	boolIdx := func(fn *types.Func) int {
		sig := fn.Type().(*types.Signature)
		idx := -1
		for i := 0; i < sig.Results().Len(); i++ {
			if b, ok := sig.Results().At(i).Type().Underlying().(*types.Basic); ok && b.Kind() == types.Bool {
				idx = i
			}
		}
		return idx
	}
	prodIdx := map[*types.Func]int{}
	for f := range producers {
		prodIdx[f] = boolIdx(f)
	}
	checked := map[*types.Func]bool{}
	for changed := true; changed; {
		changed = false
		var ps []*types.Func
		for f := range producers {
			if !checked[f] {
				ps = append(ps, f)
			}
		}
		sort.Slice(ps, func(i, j int) bool { return c.P.PosLess(c.P.Decl(ps[i]).Pos(), c.P.Decl(ps[j]).Pos()) })
		for _, prod := range ps {
			checked[prod] = true
			calls := 0
			for _, fn := range a.funcs {
				fd := c.P.Decl(fn)
				ast.Inspect(fd.Body, func(nd ast.Node) bool {
					call, ok := nd.(*ast.CallExpr)
					if !ok || callee(a.info, call) != prod {
						return true
					}
					calls++
					cons := fmt.Sprintf("%s#uses(%s)", c.P.FuncName(fn), prod.Name())
					// where the request goes: the caller's own bool result (the caller relays it and is a
					// producer in turn), the condition of a pass loop, or a bool field (the shared flag)
					bf := a.followBool(fd, map[*ast.CallExpr]int{call: prodIdx[prod]}, nil)
					own := -1
					for i := range bf.ownIdx {
						if i == boolIdx(fn) {
							own = i
						}
					}
					// `if prod(…) { … }` directly
					if path := enclosing(fd.Body, call); len(path) >= 2 {
						if is, ok := path[len(path)-2].(*ast.IfStmt); ok && unparen(is.Cond) == ast.Expr(call) {
							if s2, o2 := setsFlag(is.Body, fd); s2 {
								bf.field = true
								if o2 && own < 0 {
									own = boolIdx(fn)
								}
							}
						}
					}
					used := own >= 0 || bf.loopCond || bf.field
					if used {
						if own >= 0 && !producers[fn] {
							producers[fn] = true
							prodIdx[fn] = own
							changed = true
						}
						c.OK("C18.R3", cons, call.Pos(), "the another-pass result is turned into a pass request")
					} else {
						c.Bad("C18.R3", cons, call.Pos(), "the another-pass result of %s is discarded: newly registered dependencies are never fetched", prod.Name())
					}
					return true
				})
			}
			// calls from the worker closures / function literals are inside a.funcs' bodies already
			if calls == 0 {
				c.Unk("C18.R3", "encoding/osm#uses("+prod.Name()+")", token.NoPos, "never called")
			}
		}
	}
	if n == 0 {
		c.Unk("C18.R3", "encoding/osm#producers", token.NoPos, "no per-object function (a process* method of Data taking a keep function and reporting a bool) found")
	}
}

// ---------------------------------------------------------------- R4

func (a *c18) r4() {
	c := a.c
	storeSites := map[string]int{}
	// S: Data map fields read (transitively) by KeepFunc closures
	S := map[*types.Var]bool{}
	seen := map[*types.Func]bool{}
	var visit func(n ast.Node)
	visit = func(n ast.Node) {
		ast.Inspect(n, func(m ast.Node) bool {
			switch x := m.(type) {
			case *ast.IndexExpr:
				if f := a.dataField(x.X); f != nil {
					S[f] = true
				}
			case *ast.CallExpr:
				if g := callee(a.info, x); g != nil && c.P.Decl(g) != nil && !seen[g] && c.P.DeclPkg(g) == a.p {
					seen[g] = true
					visit(c.P.Decl(g).Body)
				}
			}
			return true
		})
	}
	for _, kl := range a.keepFuncLits() {
		visit(kl.Body)
	}
	var names []string
	for f := range S {
		names = append(names, f.Name())
	}
	sort.Strings(names)
	c.Note("C18.R4: Data fields consulted by KeepFuncs: %v", names)
	if len(S) == 0 {
		c.OK("C18.R4", "encoding/osm#keepfunc-reads", token.NoPos, "no KeepFunc consults the sets being built")
		return
	}
	var ws []*types.Func
	for f := range a.worker {
		ws = append(ws, f)
	}
	sort.Slice(ws, func(i, j int) bool { return c.P.PosLess(c.P.Decl(ws[i]).Pos(), c.P.Decl(ws[j]).Pos()) })
	for _, fn := range ws {
		fd := c.P.Decl(fn)
		res := resultVars(a.info, fd.Type)
		ast.Inspect(fd.Body, func(nd ast.Node) bool {
			as, ok := nd.(*ast.AssignStmt)
			if !ok || len(as.Lhs) != 1 {
				return true
			}
			ix, ok := unparen(as.Lhs[0]).(*ast.IndexExpr)
			if !ok {
				return true
			}
			f := a.dataField(ix.X)
			if f == nil || !S[f] || a.isDependent(f) {
				return true
			}
			// keyed by the set stored into, not by the function's name (a known finding stays the
			// same finding when the function is renamed); a second site for the same set gets #2
			storeSites[f.Name()]++
			cons := fmt.Sprintf("encoding/osm#concurrent-store(%s)", f.Name())
			if storeSites[f.Name()] > 1 {
				cons += fmt.Sprintf("#%d", storeSites[f.Name()])
			}
			// on every path from this store to return the bool result must be true: approximate by
			// "a `<result> = true` statement follows the store unconditionally in the same block"
			requested := false
			path := enclosing(fd.Body, as)
			for i := len(path) - 1; i >= 0; i-- {
				blk, ok := path[i].(*ast.BlockStmt)
				if !ok {
					continue
				}
				after := false
				for _, st := range blk.List {
					if containsNode(st, as) {
						after = true
						continue
					}
					if !after {
						continue
					}
					if as2, ok := st.(*ast.AssignStmt); ok && len(as2.Lhs) == 1 && len(as2.Rhs) == 1 {
						if v := constOf(a.info, as2.Rhs[0]); v != nil && v.String() == "true" {
							o := objOf(a.info, as2.Lhs[0])
							for _, r := range res {
								if r != nil && r == o {
									requested = true
								}
							}
						}
					}
				}
			}
			if requested {
				c.OK("C18.R4", cons, as.Pos(), "the store requests another pass")
			} else {
				c.Bad("C18.R4", cons, as.Pos(), "`%s` adds to %s, which a KeepFunc of this package consults (KeepBounds keeps a way/relation only if a member is already kept), but no further pass is requested: an object judged by another worker before this store is dropped for good, so the result depends on goroutine scheduling", src(as), f.Name())
			}
			return true
		})
	}
}

// ---------------------------------------------------------------- R5

// ---------------------------------------------------------------- R6

// passBarrier: (a) the spawner reads / resets the another-pass flag only when no worker can
// still be running: at the end of every iteration of the pass loop the workers started for
// that pass have been joined by Wait (a flow fact, not a source position); (b) inside a
// worker every object is handed to its process function unconditionally — the dispatch is on
// the object's type alone, so that each pass re-examines all three kinds.
func (a *c18) passBarrier() {
	c := a.c
	efd := c.P.Decl(a.extract)
	name := c.P.FuncName(a.extract)
	isGroupCall := a.isGroupCall
	flag := a.findFlag()
	if flag == nil {
		return // reported by passFlag
	}
	// the pass loop: the loop of the spawning function that starts workers and whose continuation
	// depends on the flag (in its condition, or in an exit test inside its body)
	var loop *ast.ForStmt
	ast.Inspect(efd.Body, func(n ast.Node) bool {
		if fs, ok := n.(*ast.ForStmt); ok && loop == nil {
			if fs.Cond != nil && a.touches(flag, fs.Cond) != token.NoPos {
				loop = fs
			} else if fs.Cond == nil && isGroupCall(fs.Body, "Go") && a.touches(flag, fs.Body) != token.NoPos {
				loop = fs
			}
		}
		return true
	})
	cons := name + "#pass-barrier"
	if loop == nil && a.onePassPerCall(flag, cons) {
		// reported there
	} else if loop == nil {
		c.Unk("C18.R6", cons, efd.Pos(), "no loop conditioned on the another-pass flag `%s` found", flag.name())
	} else {
		// workers spawned before the loop keep running across iterations
		spawnedBefore := false
		for _, st := range efd.Body.List {
			if st.End() <= loop.Pos() && isGroupCall(st, "Go") {
				spawnedBefore = true
			}
		}
		ok := true
		cl := &FactsClient{}
		cl.OnStmt = func(n ast.Node, s Facts) Facts {
			var scope ast.Node = n
			if rs, isR := n.(*ast.RangeStmt); isR {
				scope = rs.X
			}
			if isGroupCall(scope, "Go") {
				delete(s, "joined")
			}
			if isGroupCall(scope, "Wait") {
				s["joined"] = true
			}
			return s
		}
		cl.OnBranch = func(cond ast.Expr, truth bool, s Facts) Facts {
			if isGroupCall(cond, "Wait") {
				s["joined"] = true
			}
			return s
		}
		cl.OnReturn = func(r *ast.ReturnStmt, s Facts) {
			if r == nil && !s["joined"] {
				ok = false
			}
		}
		onStmt, onBranch := cl.OnStmt, cl.OnBranch
		cl.OnStmt = func(n ast.Node, s Facts) Facts {
			var scope ast.Node = n
			if rs, isR := n.(*ast.RangeStmt); isR {
				scope = rs.X
			}
			if a.touches(flag, scope) != token.NoPos && !s["joined"] {
				ok = false
			}
			return onStmt(n, s)
		}
		cl.OnBranch = func(cond ast.Expr, truth bool, s Facts) Facts {
			s = onBranch(cond, truth, s)
			if a.touches(flag, cond) != token.NoPos && !s["joined"] {
				ok = false
			}
			return s
		}
		init := Facts{}
		if !spawnedBefore {
			init["joined"] = true
		}
		a.joinedUnlessErr(cl)
		fl := &Flow[Facts]{C: cl, Info: a.info}
		fl.Run(loop.Body, init)
		switch {
		case len(fl.Unsupported) > 0:
			c.Unk("C18.R6", cons, fl.Unsupported[0].Pos(), "unsupported control flow in the pass loop")
		case ok:
			c.OK("C18.R6", cons, loop.Pos(), "every iteration ends after Wait has joined the workers it started: `%s` is read and reset with no worker running", flag.name())
		default:
			c.Unk("C18.R6", cons, loop.Pos(), "an iteration of the pass loop can end — and `%s` be read and reset for the next pass — while workers that may still set it are running (they are not joined by Wait inside the iteration); whether some other hand-shake makes every worker's last store visible first is not decided, and if it does not, a request for another pass is lost and the result is not reference-closed", flag.name())
		}
	}
	// (b) unconditional dispatch
	for i, l := range a.lits {
		dcons := fmt.Sprintf("%s#dispatch", name)
		if i > 0 {
			dcons = fmt.Sprintf("%s#dispatch#%d", name, i+1)
		}
		var guarded *ast.CallExpr
		var guard *ast.IfStmt
		n := 0
		seenBody := map[*types.Func]bool{}
		var scanBody func(body *ast.BlockStmt)
		scanBody = func(body *ast.BlockStmt) {
			ast.Inspect(body, func(m ast.Node) bool {
				call, ok := m.(*ast.CallExpr)
				if !ok {
					return true
				}
				f := callee(a.info, call)
				if f == nil || c.P.Decl(f) == nil {
					return true
				}
				if !a.isPerObject(f) {
					// a helper the worker body was moved into
					if seenBody[f] || !a.reachesProcess(f, map[*types.Func]bool{}) {
						return true
					}
					seenBody[f] = true
					scanBody(c.P.Decl(f).Body)
				} else {
					n++
				}
				for _, anc := range enclosing(body, call) {
					if is, ok := anc.(*ast.IfStmt); ok && !containsNode(is.Cond, call) && (is.Init == nil || !containsNode(is.Init, call)) && guarded == nil {
						guarded, guard = call, is
					}
				}
				return true
			})
		}
		scanBody(l.Body)
		switch {
		case n == 0:
			c.Unk("C18.R6", dcons, l.Pos(), "the worker calls no process function")
		case guarded != nil:
			c.Unk("C18.R6", dcons, guarded.Pos(), "`%s` runs only under `if %s`: objects of that kind are skipped in some passes, so an object registered as needed during such a pass (by any of the registration sites, not only the one that sets this condition) is never stored; completeness of the fixpoint is not established", src(guarded), src(guard.Cond))
		default:
			c.OK("C18.R6", dcons, l.Pos(), "%d process calls, each reached for every object of its type in every pass", n)
		}
	}
}

// onePassPerCall: the spawning function has no pass loop of its own — it runs one pass per call and
// hands the flag to its caller.  Then every successful return (nil error, or no error result) of
// the spawning function must come after Wait has joined the workers, the value returned must be
// the flag, and a caller must loop on it.
func (a *c18) onePassPerCall(flag *c18flag, cons string) bool {
	c := a.c
	efd := c.P.Decl(a.extract)
	if boolIdxOf(a.extract) < 0 {
		return false
	}
	// the flag's value reaches the spawner's bool result
	seed := map[types.Object]bool{flag.obj: true}
	bf := a.followBool(efd, nil, seed)
	if !bf.ownIdx[boolIdxOf(a.extract)] {
		return false
	}
	// a caller loops on that result
	var loopIn *types.Func
	var loop *ast.ForStmt
	for _, fn := range a.funcs {
		fd := c.P.Decl(fn)
		ast.Inspect(fd.Body, func(n ast.Node) bool {
			call, ok := n.(*ast.CallExpr)
			if !ok || callee(a.info, call) != a.extract || loop != nil {
				return true
			}
			cf := a.followBool(fd, map[*ast.CallExpr]int{call: boolIdxOf(a.extract)}, nil)
			if cf.loopCond && cf.loop != nil && cf.loop.Pos() <= call.Pos() && call.End() <= cf.loop.End() {
				loopIn, loop = fn, cf.loop
			}
			return true
		})
	}
	if loop == nil {
		return false
	}
	// joined at every successful return
	ok := true
	var where token.Pos
	cl := &FactsClient{}
	cl.OnStmt = func(n ast.Node, s Facts) Facts {
		var scope ast.Node = n
		if rs, isR := n.(*ast.RangeStmt); isR {
			scope = rs.X
		}
		if a.isGroupCall(scope, "Go") {
			delete(s, "joined")
		}
		if a.isGroupCall(scope, "Wait") {
			s["joined"] = true
		}
		return s
	}
	cl.OnBranch = func(cond ast.Expr, truth bool, s Facts) Facts {
		if a.isGroupCall(cond, "Wait") {
			s["joined"] = true
		}
		return s
	}
	cl.OnReturn = func(r *ast.ReturnStmt, s Facts) {
		if s["joined"] {
			return
		}
		// a return that reports an error ends the extraction; only successful returns hand the
		// flag to the pass loop
		if r != nil && len(r.Results) > 0 {
			last := r.Results[len(r.Results)-1]
			if t := a.info.TypeOf(last); t != nil && types.Identical(t, types.Universe.Lookup("error").Type()) && !isNilConst(a.info, last) {
				return
			}
			if id, isId := unparen(last).(*ast.Ident); isId && id.Name != "nil" {
				if t := a.info.TypeOf(last); t != nil && isErrorType(t) {
					return
				}
			}
		}
		ok = false
		if r != nil {
			where = r.Pos()
		}
	}
	a.joinedUnlessErr(cl)
	fl := &Flow[Facts]{C: cl, Info: a.info}
	fl.Run(efd.Body, Facts{"joined": true})
	switch {
	case len(fl.Unsupported) > 0:
		c.Unk("C18.R6", cons, fl.Unsupported[0].Pos(), "unsupported control flow in the spawning function")
	case ok:
		c.OK("C18.R6", cons, loop.Pos(), "one pass per call of %s: every successful return comes after Wait has joined the workers, the flag `%s` is what it returns, and %s loops on that result", a.extract.Name(), flag.name(), c.P.FuncName(loopIn))
	default:
		c.Unk("C18.R6", cons, where, "%s can return successfully — and hand `%s` to the pass loop — while workers that may still set it are running (they are not joined by Wait before the return); whether some other hand-shake makes every worker's last store visible first is not decided", a.extract.Name(), flag.name())
	}
	return true
}

func boolIdxOf(fn *types.Func) int {
	sig := fn.Type().(*types.Signature)
	idx := -1
	for i := 0; i < sig.Results().Len(); i++ {
		if b, ok := sig.Results().At(i).Type().Underlying().(*types.Basic); ok && b.Kind() == types.Bool {
			idx = i
		}
	}
	return idx
}

// reachesProcess: f (a package function that is not itself a process function) calls one,
// directly or through further helpers.
func (a *c18) reachesProcess(f *types.Func, seen map[*types.Func]bool) bool {
	fd := a.c.P.Decl(f)
	if fd == nil || seen[f] || a.c.P.DeclPkg(f) != a.p {
		return false
	}
	seen[f] = true
	found := false
	ast.Inspect(fd.Body, func(m ast.Node) bool {
		if call, ok := m.(*ast.CallExpr); ok && !found {
			if g := callee(a.info, call); g != nil && a.c.P.Decl(g) != nil {
				if a.isPerObject(g) || a.reachesProcess(g, seen) {
					found = true
				}
			}
		}
		return !found
	})
	return found
}

// isPerObject: a function handling one element of the document — a method of Data that takes a
// keep function and whose first parameter is a pointer to a node, way or relation (of the element
// library or of this package).
func (a *c18) isPerObject(f *types.Func) bool {
	sig, ok := f.Type().(*types.Signature)
	if !ok || sig.Recv() == nil || named(sig.Recv().Type()) != a.dataT || sig.Params().Len() < 2 {
		return false
	}
	pt, ok := sig.Params().At(0).Type().(*types.Pointer)
	if !ok {
		return false
	}
	n := named(pt.Elem())
	if n == nil {
		return false
	}
	switch n.Obj().Name() {
	case "Node", "Way", "Relation":
	default:
		return false
	}
	for i := 1; i < sig.Params().Len(); i++ {
		if isNamed(sig.Params().At(i).Type(), a.p.PkgPath, "KeepFunc") {
			return true
		}
	}
	return false
}

// atomicTarget: the variable or field whose address a sync/atomic call is given (storing only:
// Store*, Add*, Swap*, CompareAndSwap*, Or*, (*atomic.Bool).Store …), or nil.
func (a *c18) atomicTarget(call *ast.CallExpr, storing bool) types.Object {
	f := callee(a.info, call)
	if f == nil || f.Pkg() == nil || f.Pkg().Path() != "sync/atomic" {
		return nil
	}
	isStore := strings.HasPrefix(f.Name(), "Store") || strings.HasPrefix(f.Name(), "Add") || strings.HasPrefix(f.Name(), "Swap") || strings.HasPrefix(f.Name(), "CompareAndSwap") || strings.HasPrefix(f.Name(), "Or")
	if storing && !isStore {
		return nil
	}
	target := func(e ast.Expr) types.Object {
		e = unparen(e)
		if u, ok := e.(*ast.UnaryExpr); ok && u.Op == token.AND {
			e = unparen(u.X)
		}
		if sel, ok := e.(*ast.SelectorExpr); ok {
			return a.info.Uses[sel.Sel]
		}
		return objOf(a.info, e)
	}
	if f.Type().(*types.Signature).Recv() != nil {
		// a method of atomic.Bool / atomic.Int32 …: the receiver is the flag
		if sel, ok := unparen(call.Fun).(*ast.SelectorExpr); ok {
			return target(sel.X)
		}
		return nil
	}
	if len(call.Args) == 0 {
		return nil
	}
	return target(call.Args[0])
}
