package main

// Error-before-use (shared by C07.R3 and C10.R3).
//
// A value returned together with an `error` must not be put to a panicking or
// escaping use — single-result type assertion, dereference, index, method call,
// or return to the caller alongside a nil error — on a path where that error
// has not been tested.  Parking it in a local or in a fresh container is not a
// use.

import (
	"fmt"
	"go/ast"
	"go/token"
	"go/types"
)

type errUse struct {
	Node ast.Node
	Var  types.Object
	Err  types.Object
	Kind string
}

func isErrorType(t types.Type) bool {
	if t == nil {
		return false
	}
	n, ok := types.Unalias(t).(*types.Named)
	return ok && n.Obj().Pkg() == nil && n.Obj().Name() == "error"
}

func isNilConst(info *types.Info, e ast.Expr) bool {
	if id, ok := unparen(e).(*ast.Ident); ok {
		_, isNil := info.Uses[id].(*types.Nil)
		return isNil
	}
	return false
}

// errBeforeUse analyses one function body; returns misuse sites and the number
// of (value, err) pairs tracked.
func errBeforeUse(info *types.Info, body *ast.BlockStmt, ftype *ast.FuncType) (bad []errUse, tracked int, unsupported []ast.Node) {
	key := func(v, e types.Object) string { return fmt.Sprintf("pend:%d:%d", v.Pos(), e.Pos()) }
	type pair struct{ v, e types.Object }
	pairs := map[string]pair{}
	seenBad := map[ast.Node]bool{}
	report := func(n ast.Node, s Facts, v types.Object, kind string) {
		for k, p := range pairs {
			if p.v == v && !s[k] && !seenBad[n] {
				seenBad[n] = true
				bad = append(bad, errUse{n, v, p.e, kind})
			}
		}
	}
	// scan an expression for panicking uses of pending vars
	var scan func(n ast.Node, s Facts)
	scan = func(n ast.Node, s Facts) {
		if n == nil {
			return
		}
		ast.Inspect(n, func(m ast.Node) bool {
			switch m := m.(type) {
			case *ast.FuncLit:
				return false
			case *ast.TypeAssertExpr:
				if m.Type != nil {
					if o := objOf(info, m.X); o != nil {
						report(m, s, o, "type assertion")
					}
				}
			case *ast.StarExpr:
				if o := objOf(info, m.X); o != nil {
					report(m, s, o, "dereference")
				}
			case *ast.IndexExpr:
				if o := objOf(info, m.X); o != nil {
					report(m, s, o, "index")
				}
			case *ast.SliceExpr:
				if o := objOf(info, m.X); o != nil {
					report(m, s, o, "slice")
				}
			case *ast.SelectorExpr:
				if o := objOf(info, m.X); o != nil {
					if sel := info.Selections[m]; sel != nil {
						// method call on interface/pointer, or field through pointer
						if sel.Kind() == types.MethodVal {
							if _, isIface := o.Type().Underlying().(*types.Interface); isIface {
								report(m, s, o, "method call on possibly-nil interface")
							} else if _, isPtr := o.Type().Underlying().(*types.Pointer); isPtr {
								report(m, s, o, "method call on possibly-nil pointer")
							}
						} else if _, isPtr := o.Type().Underlying().(*types.Pointer); isPtr {
							report(m, s, o, "field access through possibly-nil pointer")
						}
					}
				}
			}
			return true
		})
	}
	clearErr := func(s Facts, e types.Object) {
		for k, p := range pairs {
			if p.e == e {
				s[k] = true
			}
		}
	}
	clearVar := func(s Facts, v types.Object) {
		for k, p := range pairs {
			if p.v == v {
				s[k] = true
			}
		}
	}
	// pre-scan for (value, err) pairs produced by calls returning (…, error)
	ast.Inspect(body, func(n ast.Node) bool {
		st, ok := n.(*ast.AssignStmt)
		if !ok || len(st.Rhs) != 1 || len(st.Lhs) < 2 {
			return true
		}
		call, ok := unparen(st.Rhs[0]).(*ast.CallExpr)
		if !ok {
			return true
		}
		tup, ok := info.TypeOf(call).(*types.Tuple)
		if !ok || tup.Len() != len(st.Lhs) || !isErrorType(tup.At(tup.Len()-1).Type()) {
			return true
		}
		eo := objOf(info, st.Lhs[len(st.Lhs)-1])
		if eo == nil {
			return true
		}
		for i := 0; i < len(st.Lhs)-1; i++ {
			vo := objOf(info, st.Lhs[i])
			if vo == nil || vo.Name() == "_" {
				continue
			}
			switch vo.Type().Underlying().(type) {
			case *types.Interface, *types.Pointer, *types.Slice, *types.Map:
				k := key(vo, eo)
				if _, ok := pairs[k]; !ok {
					pairs[k] = pair{vo, eo}
					tracked++
				}
			}
		}
		return true
	})
	init := Facts{}
	for k := range pairs {
		init[k] = true
	}
	cl := &FactsClient{}
	cl.OnStmt = func(n ast.Node, s Facts) Facts {
		switch st := n.(type) {
		case *ast.AssignStmt:
			for _, r := range st.Rhs {
				scan(r, s)
			}
			for _, l := range st.Lhs {
				if _, isIdent := unparen(l).(*ast.Ident); !isIdent {
					scan(l, s)
				}
			}
			// any assigned variable loses its pending status
			for _, l := range st.Lhs {
				if o := objOf(info, l); o != nil {
					clearVar(s, o)
				}
			}
			if len(st.Rhs) == 1 && len(st.Lhs) >= 2 {
				if call, ok := unparen(st.Rhs[0]).(*ast.CallExpr); ok {
					if tup, ok := info.TypeOf(call).(*types.Tuple); ok && tup.Len() == len(st.Lhs) && isErrorType(tup.At(tup.Len()-1).Type()) {
						eo := objOf(info, st.Lhs[len(st.Lhs)-1])
						if eo != nil {
							for i := 0; i < len(st.Lhs)-1; i++ {
								vo := objOf(info, st.Lhs[i])
								if vo == nil || vo.Name() == "_" {
									continue
								}
								switch vo.Type().Underlying().(type) {
								case *types.Interface, *types.Pointer, *types.Slice, *types.Map:
									delete(s, key(vo, eo))
								}
							}
						}
					}
				}
			}
			return s
		case *ast.RangeStmt:
			scan(st.X, s)
			return s
		case *ast.ExprStmt:
			scan(st.X, s)
			return s
		case *ast.DeclStmt, *ast.IncDecStmt, *ast.SendStmt:
			scan(st, s)
			return s
		case *ast.DeferStmt:
			scan(st.Call, s)
			return s
		case *ast.GoStmt:
			scan(st.Call, s)
			return s
		}
		return s
	}
	cl.OnBranch = func(cond ast.Expr, truth bool, s Facts) Facts {
		scan(cond, s)
		for _, at := range conjuncts(cond, truth) {
			if b, ok := unparen(at.E).(*ast.BinaryExpr); ok && (b.Op == token.EQL || b.Op == token.NEQ) {
				var eo types.Object
				if isNilConst(info, b.Y) {
					eo = objOf(info, b.X)
				} else if isNilConst(info, b.X) {
					eo = objOf(info, b.Y)
				}
				if eo != nil && isErrorType(eo.Type()) {
					// either outcome means the error has been tested on this path
					clearErr(s, eo)
				}
			}
		}
		// a disjunction like `err != nil || x` still tests err when it is the first operand
		if b, ok := unparen(cond).(*ast.BinaryExpr); ok && (b.Op == token.LOR || b.Op == token.LAND) {
			if bb, ok := unparen(b.X).(*ast.BinaryExpr); ok && (bb.Op == token.EQL || bb.Op == token.NEQ) {
				var eo types.Object
				if isNilConst(info, bb.Y) {
					eo = objOf(info, bb.X)
				} else if isNilConst(info, bb.X) {
					eo = objOf(info, bb.Y)
				}
				if eo != nil && isErrorType(eo.Type()) {
					if (b.Op == token.LOR && bb.Op == token.NEQ && !truth) || (b.Op == token.LAND && bb.Op == token.EQL && truth) {
						clearErr(s, eo)
					}
				}
			}
		}
		return s
	}
	cl.OnReturn = func(r *ast.ReturnStmt, s Facts) {
		if r == nil {
			return
		}
		for _, e := range r.Results {
			scan(e, s)
		}
		// escaping: returning a pending value alongside a nil error constant
		n := len(r.Results)
		if n >= 2 && isNilConst(info, r.Results[n-1]) {
			for i := 0; i < n-1; i++ {
				if o := objOf(info, r.Results[i]); o != nil {
					report(r, s, o, "returned with a nil error")
				}
			}
		}
	}
	fl := &Flow[Facts]{C: cl, Info: info}
	fl.Run(body, init)
	return bad, tracked, fl.Unsupported
}
