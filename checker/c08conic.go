package main

// C08.R5 — conic projections: the inverse honours the sign of the cone constant.
//
// Family (discovered, not listed): constructors whose inverse closure recovers
// the polar angle with math.Atan2 and divides it by a captured local N of the
// constructor (lon = θ/N + λ0).  N = sin(φ) of the standard parallels is negative
// for southern cones; the forward closure then produces a negative radius, so
// the inverse must mirror the point through the apex before taking the angle:
// θ = atan2(s·x, s·y) with s = +1 when N ≥ 0 (or > 0) and −1 otherwise.  All
// members of the family are held to that form (today: lcc, aea, eqdc — each
// other's siblings); atan2(x, y) with bare coordinates is off by π for N < 0.

import (
	"regexp"
)

var parallelSym = regexp.MustCompile(`\bp[12]\b`)
