package main

// C08.R5 — conic projections: the inverse honours the sign of the cone constant.
//
// Family (discovered, not listed): constructors whose inverse closure recovers
// the polar angle with math.Atan2 and divides it by a captured local N of the
// constructor (lon = θ/N + λ0).  N = sin(φ) of the standard parallels is negative
// for southern cones; the forward closure then produces a negative radius, so
// the inverse must mirror the point through the apex before taking the angle:
// θ = atan2(s·x, s·y) with s = +1 when N ≥ 0 (or > 0) and −1 otherwise.  All
// members of the family are held to that form (today: lcc, aea, eqdc — each
// other's siblings); atan2(x, y) with bare coordinates is off by π for N < 0.

import (
	"go/ast"
	"go/token"
	"go/types"
)

func c08conic(c *Ctx) {
	p := c.P.Pkg("proj")
	info := p.TypesInfo
	reg := projRegistry(c)
	members := 0
	for _, ctor := range reg.ctors {
		fd := c.P.Decl(ctor)
		if fd == nil {
			continue
		}
		rs := resultVars(info, fd.Type)
		if len(rs) < 2 || rs[1] == nil {
			continue
		}
		// the inverse closure literal(s)
		var lits []*ast.FuncLit
		ast.Inspect(fd.Body, func(n ast.Node) bool {
			if as, ok := n.(*ast.AssignStmt); ok {
				for i, l := range as.Lhs {
					if objOf(info, l) == rs[1] && i < len(as.Rhs) {
						if fl, ok := unparen(as.Rhs[i]).(*ast.FuncLit); ok {
							lits = append(lits, fl)
						}
					}
				}
			}
			return true
		})
		for _, lit := range lits {
			sc := newFnScope(info, lit.Body)
			local := func(o types.Object) bool { return o != nil && o.Pos() >= lit.Pos() && o.Pos() <= lit.End() }
			// θ/N with N captured
			var coneN types.Object
			var thetaObj types.Object
			var helperCall *ast.CallExpr
			ast.Inspect(lit.Body, func(n ast.Node) bool {
				b, ok := n.(*ast.BinaryExpr)
				if !ok || b.Op != token.QUO {
					return true
				}
				t, nn := objOf(info, b.X), objOf(info, b.Y)
				if t == nil || nn == nil || !local(t) || local(nn) || !isFloat64(nn.Type()) {
					return true
				}
				if _, isVar := nn.(*types.Var); !isVar || nn.Pkg() == nil || nn.Parent() == nn.Pkg().Scope() {
					return true
				}
				// θ defined by Atan2, directly or inside a helper that returns it
				for _, d := range sc.defs[t] {
					if call, ok := unparen(d).(*ast.CallExpr); ok && d != nil {
						if isFuncIn(callee(info, call), "math", "Atan2") {
							coneN, thetaObj = nn, t
						} else if h := callee(info, call); h != nil && c.P.Decl(h) != nil && callsAtan2(c, info, h) {
							coneN, thetaObj, helperCall = nn, t, call
						}
					}
				}
				return true
			})
			if coneN == nil {
				continue
			}
			members++
			cons := c.P.FuncName(ctor) + "#inverse-cone-sign"
			if helperCall != nil {
				c08conicHelper(c, info, cons, helperCall, coneN)
				continue
			}
			var call *ast.CallExpr
			for _, d := range sc.defs[thetaObj] {
				if cl, ok := unparen(d).(*ast.CallExpr); ok && d != nil && isFuncIn(callee(info, cl), "math", "Atan2") {
					call = cl
				}
			}
			// argument shapes
			var signVars []types.Object
			bare := 0
			for _, arg := range call.Args {
				m, ok := unparen(arg).(*ast.BinaryExpr)
				if ok && m.Op == token.MUL {
					for _, f := range []ast.Expr{m.X, m.Y} {
						if o := objOf(info, f); o != nil && local(o) {
							if isSignVar(info, sc, lit, o, coneN) {
								signVars = append(signVars, o)
							}
						}
					}
					continue
				}
				if o := objOf(info, arg); o != nil {
					bare++
				}
			}
			switch {
			case len(signVars) == 2 && signVars[0] == signVars[1]:
				c.OK("C08.R5", cons, call.Pos(), "θ = atan2(%s·x, %s·y) with %s = ±1 following the sign of the cone constant %s", signVars[0].Name(), signVars[0].Name(), signVars[0].Name(), coneN.Name())
			case bare == 2:
				c.Bad("C08.R5", cons, call.Pos(), "`%s` takes the polar angle of the bare coordinates, but the result is divided by the cone constant %s, which is negative for standard parallels in the southern hemisphere: there the forward closure yields a negative radius, the angle comes back off by π and the longitude by π/%s (the sibling conic projections multiply both arguments by ±1 according to the sign of their constant)", src(call), coneN.Name(), coneN.Name())
			default:
				c.Unk("C08.R5", cons, call.Pos(), "`%s`: arguments are neither both sign-corrected nor both bare coordinates", src(call))
			}
		}
	}
	if members == 0 {
		c.Unk("C08.R5", "proj#conic-family", token.NoPos, "no inverse closure of the form lon = atan2(…)/N + … found")
	}
}

// isSignVar: every definition of o inside the closure is the constant +1 or −1, assigned in
// the two arms of an if/else on the sign of the cone constant (+1 in the N ≥ 0 / N > 0 arm).
func isSignVar(info *types.Info, sc *fnScope, lit *ast.FuncLit, o, coneN types.Object) bool {
	ok := false
	ast.Inspect(lit.Body, func(n ast.Node) bool {
		is, isIf := n.(*ast.IfStmt)
		if !isIf || is.Else == nil {
			return true
		}
		b, isB := unparen(is.Cond).(*ast.BinaryExpr)
		if !isB || objOf(info, b.X) != coneN || !(b.Op == token.GEQ || b.Op == token.GTR) {
			return true
		}
		if v := constOf(info, b.Y); v == nil || v.String() != "0" {
			return true
		}
		els, isBlk := is.Else.(*ast.BlockStmt)
		if !isBlk {
			return true
		}
		val := func(blk *ast.BlockStmt) string {
			out := ""
			for _, st := range blk.List {
				if as, ok := st.(*ast.AssignStmt); ok && len(as.Lhs) == 1 && len(as.Rhs) == 1 && objOf(info, as.Lhs[0]) == o {
					if v := constOf(info, as.Rhs[0]); v != nil {
						out = v.String()
					} else {
						out = "?"
					}
				}
			}
			return out
		}
		if val(is.Body) == "1" && val(els) == "-1" {
			ok = true
		}
		return true
	})
	return ok
}

func callsAtan2(c *Ctx, info *types.Info, h *types.Func) bool {
	found := false
	ast.Inspect(c.P.Decl(h).Body, func(n ast.Node) bool {
		if call, ok := n.(*ast.CallExpr); ok && isFuncIn(callee(info, call), "math", "Atan2") {
			found = true
		}
		return !found
	})
	return found
}

// c08conicHelper: the polar angle is computed in a helper h(…, flag) called with flag = (N ≥ 0) or
// (N > 0); inside, atan2's arguments carry a factor that is +1 when the flag is true and −1 otherwise.
func c08conicHelper(c *Ctx, info *types.Info, cons string, call *ast.CallExpr, coneN types.Object) {
	h := callee(info, call)
	hfd := c.P.Decl(h)
	ps := paramVars(info, hfd.Type)
	// which bool parameter receives the sign test of the cone constant?
	var flag types.Object
	for i, arg := range call.Args {
		b, ok := unparen(arg).(*ast.BinaryExpr)
		if !ok || i >= len(ps) || ps[i] == nil {
			continue
		}
		if objOf(info, b.X) == coneN && (b.Op == token.GEQ || b.Op == token.GTR) {
			if v := constOf(info, b.Y); v != nil && v.String() == "0" {
				flag = ps[i]
			}
		}
	}
	if flag == nil {
		c.Bad("C08.R5", cons, call.Pos(), "`%s` computes the polar angle in a helper that is not told the sign of the cone constant %s: for a negative constant the angle is off by π", src(call), coneN.Name())
		return
	}
	sc := newFnScope(info, hfd.Body)
	var at2 *ast.CallExpr
	ast.Inspect(hfd.Body, func(n ast.Node) bool {
		if cl, ok := n.(*ast.CallExpr); ok && isFuncIn(callee(info, cl), "math", "Atan2") {
			at2 = cl
		}
		return true
	})
	// the sign variable: constant ±1 definitions, −1 exactly where the flag is false
	signOK := func(o types.Object) bool {
		ds := sc.defs[o]
		if len(ds) == 0 {
			return false
		}
		plus, minus := false, false
		okAll := true
		ast.Inspect(hfd.Body, func(n ast.Node) bool {
			as, ok := n.(*ast.AssignStmt)
			if !ok {
				if vs, ok := n.(*ast.ValueSpec); ok {
					for i, nm := range vs.Names {
						if info.Defs[nm] == o && i < len(vs.Values) {
							if v := constOf(info, vs.Values[i]); v != nil && v.String() == "1" {
								plus = true
							}
						}
					}
				}
				return true
			}
			for i, l := range as.Lhs {
				if objOf(info, l) != o || i >= len(as.Rhs) {
					continue
				}
				v := constOf(info, as.Rhs[i])
				if v == nil {
					okAll = false
					continue
				}
				// under which condition on the flag?
				cond := 0 // +1: flag true, -1: flag false, 0: unconditional
				for _, anc := range enclosing(hfd.Body, as) {
					is, ok := anc.(*ast.IfStmt)
					if !ok {
						continue
					}
					inBody := containsNode(is.Body, as)
					e := unparen(is.Cond)
					neg := false
					if u, ok := e.(*ast.UnaryExpr); ok && u.Op == token.NOT {
						e, neg = unparen(u.X), true
					}
					if objOf(info, e) == flag {
						if inBody != neg {
							cond = 1
						} else {
							cond = -1
						}
					}
				}
				switch v.String() {
				case "1":
					if cond == -1 {
						okAll = false
					}
					plus = true
				case "-1":
					if cond != -1 {
						okAll = false
					}
					minus = true
				default:
					okAll = false
				}
			}
			return true
		})
		return okAll && plus && minus
	}
	n := 0
	if at2 != nil {
		for _, arg := range at2.Args {
			if m, ok := unparen(arg).(*ast.BinaryExpr); ok && m.Op == token.MUL {
				for _, f := range []ast.Expr{m.X, m.Y} {
					if o := objOf(info, f); o != nil && signOK(o) {
						n++
					}
				}
			}
		}
	}
	if n == 2 {
		c.OK("C08.R5", cons, call.Pos(), "θ comes from %s, which takes atan2 of coordinates multiplied by ±1 following the flag %s = (%s ≥/> 0)", h.Name(), flag.Name(), coneN.Name())
	} else {
		c.Bad("C08.R5", cons, call.Pos(), "the helper %s takes the polar angle without mirroring the coordinates when the cone constant %s is negative", h.Name(), coneN.Name())
	}
}
