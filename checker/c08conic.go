package main

// C08.R5 — conic projections: the inverse honours the sign of the cone constant.
//
// Family (discovered, not listed): constructors whose inverse closure recovers
// the polar angle with math.Atan2 and divides it by a captured local N of the
// constructor (lon = θ/N + λ0).  N = sin(φ) of the standard parallels is negative
// for southern cones; the forward closure then produces a negative radius, so
// the inverse must mirror the point through the apex before taking the angle:
// θ = atan2(s·x, s·y) with s = +1 when N ≥ 0 (or > 0) and −1 otherwise.  All
// members of the family are held to that form (today: lcc, aea, eqdc — each
// other's siblings); atan2(x, y) with bare coordinates is off by π for N < 0.

import (
	"go/ast"
	"go/token"
	"go/types"
	"regexp"
	"sort"
)

var parallelSym = regexp.MustCompile(`\bp[12]\b`)

// coneFollowsParallels evaluates the constructor on a reference parsed from symbolic parameters
// (standard parallels p1, p2) and reads the captured variable out of the inverse closure's
// environment: does its term mention a standard parallel?  known is false when the model cannot
// tell (the caller then keeps the constructor in the family).
func coneFollowsParallels(c *Ctx, reg *projReg, ctor *types.Func, coneN types.Object) (dep, known bool) {
	var names []string
	for n, f := range reg.names {
		if f == ctor {
			names = append(names, n)
		}
	}
	if len(names) == 0 {
		return false, false
	}
	sort.Strings(names)
	m, parse := newC20m(c)
	if m == nil {
		return false, false
	}
	sr, why := m.run(parse, "+proj="+names[0]+" +lat_1=P1 +lat_2=P2 +lat_0=P3 +lon_0=P4 +x_0=P5 +y_0=P6 +k_0=P13 +a=P7 +rf=P8 +no_defs")
	if why != "" {
		return false, false
	}
	c.Evals(1)
	res, why := m.it.Call(ctor, nil, []oval{oPtr{sr}}, 0)
	if why != "" || len(res) < 2 {
		return false, false
	}
	fn, ok := res[1].(oFunc)
	if !ok || fn.env == nil {
		return false, false
	}
	cell := fn.env.lookup(coneN)
	if cell == nil {
		return false, false
	}
	p, ok := symOf(*cell)
	if !ok {
		return false, false
	}
	return parallelSym.MatchString(p.canon()), true
}

func c08conic(c *Ctx) {
	p := c.P.Pkg("proj")
	info := p.TypesInfo
	reg := projRegistry(c)
	members := 0
	for _, ctor := range reg.ctors {
		fd := c.P.Decl(ctor)
		if fd == nil {
			continue
		}
		rs := resultVars(info, fd.Type)
		if len(rs) < 2 || rs[1] == nil {
			continue
		}
		// the inverse closure literal(s)
		var lits []*ast.FuncLit
		ast.Inspect(fd.Body, func(n ast.Node) bool {
			if as, ok := n.(*ast.AssignStmt); ok {
				for i, l := range as.Lhs {
					if objOf(info, l) == rs[1] && i < len(as.Rhs) {
						if fl, ok := unparen(as.Rhs[i]).(*ast.FuncLit); ok {
							lits = append(lits, fl)
						}
					}
				}
			}
			return true
		})
		for _, lit := range lits {
			sc := newFnScope(info, lit.Body)
			local := func(o types.Object) bool { return o != nil && o.Pos() >= lit.Pos() && o.Pos() <= lit.End() }
			// θ/N with N captured
			var coneN types.Object
			var thetaObj types.Object
			var helperCall *ast.CallExpr
			ast.Inspect(lit.Body, func(n ast.Node) bool {
				b, ok := n.(*ast.BinaryExpr)
				if !ok || b.Op != token.QUO {
					return true
				}
				t, nn := objOf(info, b.X), objOf(info, b.Y)
				if t == nil || nn == nil || !local(t) || local(nn) || !isFloat64(nn.Type()) {
					return true
				}
				if _, isVar := nn.(*types.Var); !isVar || nn.Pkg() == nil || nn.Parent() == nn.Pkg().Scope() {
					return true
				}
				// θ defined by Atan2, directly or inside a helper that returns it
				for _, d := range sc.defs[t] {
					if call, ok := unparen(d).(*ast.CallExpr); ok && d != nil {
						if isFuncIn(callee(info, call), "math", "Atan2") {
							coneN, thetaObj = nn, t
						} else if h := callee(info, call); h != nil && c.P.Decl(h) != nil && callsAtan2(c, info, h) {
							coneN, thetaObj, helperCall = nn, t, call
						}
					}
				}
				return true
			})
			if coneN == nil {
				continue
			}
			// the divisor is a cone constant only if it follows the standard parallels: its term,
			// when the constructor is evaluated on symbolic parameters, mentions them (a captured
			// numeric constant — Krovak's fixed cone — never changes sign)
			if dep, known := coneFollowsParallels(c, reg, ctor, coneN); known && !dep {
				continue
			}
			members++
			cons := c.P.FuncName(ctor) + "#inverse-cone-sign"
			if helperCall != nil {
				c08conicHelper(c, info, cons, helperCall, coneN)
				continue
			}
			var call *ast.CallExpr
			for _, d := range sc.defs[thetaObj] {
				if cl, ok := unparen(d).(*ast.CallExpr); ok && d != nil && isFuncIn(callee(info, cl), "math", "Atan2") {
					call = cl
				}
			}
			// argument shapes
			var signVars []types.Object
			bare := 0
			for _, arg := range call.Args {
				m, ok := unparen(arg).(*ast.BinaryExpr)
				if ok && m.Op == token.MUL {
					for _, f := range []ast.Expr{m.X, m.Y} {
						if o := objOf(info, f); o != nil && local(o) {
							if isSignVar(info, sc, lit, o, coneN, call.Pos()) {
								signVars = append(signVars, o)
							}
						}
					}
					continue
				}
				if o := objOf(info, arg); o != nil {
					bare++
				}
			}
			switch {
			case len(signVars) == 2 && signVars[0] == signVars[1]:
				c.OK("C08.R5", cons, call.Pos(), "θ = atan2(%s·x, %s·y) with %s = ±1 following the sign of the cone constant %s", signVars[0].Name(), signVars[0].Name(), signVars[0].Name(), coneN.Name())
			case bare == 2:
				c.Bad("C08.R5", cons, call.Pos(), "`%s` takes the polar angle of the bare coordinates, but the result is divided by the cone constant %s, which is negative for standard parallels in the southern hemisphere: there the forward closure yields a negative radius, the angle comes back off by π and the longitude by π/%s (the sibling conic projections multiply both arguments by ±1 according to the sign of their constant)", src(call), coneN.Name(), coneN.Name())
			default:
				c.Unk("C08.R5", cons, call.Pos(), "`%s`: arguments are neither both sign-corrected nor both bare coordinates", src(call))
			}
		}
	}
	if members == 0 {
		c.Unk("C08.R5", "proj#conic-family", token.NoPos, "no inverse closure of the form lon = atan2(…)/N + … found")
	}
}

// isSignVar: inside the closure o only ever holds the constants +1 and −1, and after all of its
// definitions it is +1 when the cone constant is positive and −1 when it is negative.  The
// definitions are replayed in source order for the two scenarios N > 0 and N < 0; each may be
// unconditional or sit under (possibly nested, negated, else-side) tests of N against zero.
func isSignVar(info *types.Info, sc *fnScope, lit *ast.FuncLit, o, coneN types.Object, use token.Pos) bool {
	// truth of a condition in scenario sign (+1: N > 0, −1: N < 0); ok=false: not a test of N's sign
	var truth func(e ast.Expr, sign int) (bool, bool)
	truth = func(e ast.Expr, sign int) (bool, bool) {
		e = unparen(e)
		if u, ok := e.(*ast.UnaryExpr); ok && u.Op == token.NOT {
			t, ok := truth(u.X, sign)
			return !t, ok
		}
		b, ok := e.(*ast.BinaryExpr)
		if !ok {
			return false, false
		}
		op := b.Op
		x, y := b.X, b.Y
		if objOf(info, y) == coneN {
			// 0 < N  ≡  N > 0
			x, y = y, x
			op = map[token.Token]token.Token{token.LSS: token.GTR, token.GTR: token.LSS, token.LEQ: token.GEQ, token.GEQ: token.LEQ}[op]
		}
		if objOf(info, x) != coneN {
			return false, false
		}
		if v := constOf(info, y); v == nil || (v.String() != "0" && v.String() != "0.0") {
			return false, false
		}
		switch op {
		case token.GTR, token.GEQ:
			return sign > 0, true
		case token.LSS, token.LEQ:
			return sign < 0, true
		}
		return false, false
	}
	type def struct {
		node ast.Node
		val  string
	}
	var defs []def
	ast.Inspect(lit.Body, func(n ast.Node) bool {
		switch x := n.(type) {
		case *ast.AssignStmt:
			for i, l := range x.Lhs {
				if objOf(info, l) == o {
					v := "?"
					if i < len(x.Rhs) && len(x.Lhs) == len(x.Rhs) && x.Tok != token.ADD_ASSIGN && x.Tok != token.MUL_ASSIGN {
						if cv := constOf(info, x.Rhs[i]); cv != nil {
							v = cv.String()
						}
					}
					defs = append(defs, def{x, v})
				}
			}
		case *ast.ValueSpec:
			for i, nm := range x.Names {
				if info.Defs[nm] == o {
					v := "unset"
					if i < len(x.Values) {
						v = "?"
						if cv := constOf(info, x.Values[i]); cv != nil {
							v = cv.String()
						}
					}
					defs = append(defs, def{x, v})
				}
			}
		}
		return true
	})
	// only what reaches the use: definitions after it (the variable may be reused) do not count
	var before []def
	for _, d := range defs {
		if d.node.Pos() < use {
			before = append(before, d)
		}
	}
	defs = before
	if len(defs) == 0 {
		return false
	}
	final := map[int]string{}
	for _, sign := range []int{1, -1} {
		cur := "unset"
		for _, d := range defs {
			reached := true
			for _, anc := range enclosing(lit.Body, d.node) {
				is, ok := anc.(*ast.IfStmt)
				if !ok {
					if _, isLoop := anc.(*ast.ForStmt); isLoop {
						return false
					}
					continue
				}
				if containsNode(is.Cond, d.node) || (is.Init != nil && containsNode(is.Init, d.node)) {
					continue
				}
				t, ok := truth(is.Cond, sign)
				if !ok {
					return false // set under a condition that is not the sign of the cone constant
				}
				if containsNode(is.Body, d.node) != t {
					reached = false
				}
			}
			if reached {
				cur = d.val
			}
		}
		final[sign] = cur
	}
	one := func(v string) bool { return v == "1" || v == "1.0" }
	minusOne := func(v string) bool { return v == "-1" || v == "-1.0" }
	return one(final[1]) && minusOne(final[-1])
}

func callsAtan2(c *Ctx, info *types.Info, h *types.Func) bool {
	found := false
	ast.Inspect(c.P.Decl(h).Body, func(n ast.Node) bool {
		if call, ok := n.(*ast.CallExpr); ok && isFuncIn(callee(info, call), "math", "Atan2") {
			found = true
		}
		return !found
	})
	return found
}

// c08conicHelper: the polar angle is computed in a helper h(…, flag) called with flag = (N ≥ 0) or
// (N > 0); inside, atan2's arguments carry a factor that is +1 when the flag is true and −1 otherwise.
func c08conicHelper(c *Ctx, info *types.Info, cons string, call *ast.CallExpr, coneN types.Object) {
	h := callee(info, call)
	hfd := c.P.Decl(h)
	ps := paramVars(info, hfd.Type)
	// which bool parameter receives the sign test of the cone constant?
	var flag types.Object
	for i, arg := range call.Args {
		b, ok := unparen(arg).(*ast.BinaryExpr)
		if !ok || i >= len(ps) || ps[i] == nil {
			continue
		}
		if objOf(info, b.X) == coneN && (b.Op == token.GEQ || b.Op == token.GTR) {
			if v := constOf(info, b.Y); v != nil && v.String() == "0" {
				flag = ps[i]
			}
		}
	}
	if flag == nil {
		c.Bad("C08.R5", cons, call.Pos(), "`%s` computes the polar angle in a helper that is not told the sign of the cone constant %s: for a negative constant the angle is off by π", src(call), coneN.Name())
		return
	}
	sc := newFnScope(info, hfd.Body)
	var at2 *ast.CallExpr
	ast.Inspect(hfd.Body, func(n ast.Node) bool {
		if cl, ok := n.(*ast.CallExpr); ok && isFuncIn(callee(info, cl), "math", "Atan2") {
			at2 = cl
		}
		return true
	})
	// the sign variable: constant ±1 definitions, −1 exactly where the flag is false
	signOK := func(o types.Object) bool {
		ds := sc.defs[o]
		if len(ds) == 0 {
			return false
		}
		plus, minus := false, false
		okAll := true
		ast.Inspect(hfd.Body, func(n ast.Node) bool {
			as, ok := n.(*ast.AssignStmt)
			if !ok {
				if vs, ok := n.(*ast.ValueSpec); ok {
					for i, nm := range vs.Names {
						if info.Defs[nm] == o && i < len(vs.Values) {
							if v := constOf(info, vs.Values[i]); v != nil && v.String() == "1" {
								plus = true
							}
						}
					}
				}
				return true
			}
			for i, l := range as.Lhs {
				if objOf(info, l) != o || i >= len(as.Rhs) {
					continue
				}
				v := constOf(info, as.Rhs[i])
				if v == nil {
					okAll = false
					continue
				}
				// under which condition on the flag?
				cond := 0 // +1: flag true, -1: flag false, 0: unconditional
				for _, anc := range enclosing(hfd.Body, as) {
					is, ok := anc.(*ast.IfStmt)
					if !ok {
						continue
					}
					inBody := containsNode(is.Body, as)
					e := unparen(is.Cond)
					neg := false
					if u, ok := e.(*ast.UnaryExpr); ok && u.Op == token.NOT {
						e, neg = unparen(u.X), true
					}
					if objOf(info, e) == flag {
						if inBody != neg {
							cond = 1
						} else {
							cond = -1
						}
					}
				}
				switch v.String() {
				case "1":
					if cond == -1 {
						okAll = false
					}
					plus = true
				case "-1":
					if cond != -1 {
						okAll = false
					}
					minus = true
				default:
					okAll = false
				}
			}
			return true
		})
		return okAll && plus && minus
	}
	n := 0
	if at2 != nil {
		for _, arg := range at2.Args {
			if m, ok := unparen(arg).(*ast.BinaryExpr); ok && m.Op == token.MUL {
				for _, f := range []ast.Expr{m.X, m.Y} {
					if o := objOf(info, f); o != nil && signOK(o) {
						n++
					}
				}
			}
		}
	}
	if n == 2 {
		c.OK("C08.R5", cons, call.Pos(), "θ comes from %s, which takes atan2 of coordinates multiplied by ±1 following the flag %s = (%s ≥/> 0)", h.Name(), flag.Name(), coneN.Name())
	} else {
		c.Bad("C08.R5", cons, call.Pos(), "the helper %s takes the polar angle without mirroring the coordinates when the cone constant %s is negative", h.Name(), coneN.Name())
	}
}
