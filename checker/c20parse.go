package main

// C20.R6 — parameters are applied in the order they are written: no parser of package
// proj ranges over a Go map while storing into the spatial reference (several PROJ.4 keys
// set the same field — units/to_meter, k/k_0, pm/from_greenwich, datum/nadgrids — so a
// random iteration order makes two parses of one text differ).
//
// C20.R7 — the datum shift is stored as written: wherever a parser assigns the
// DatumParams field, the slice has one element per listed value (make(len(list)), filled
// i ↦ i over the full range) and is never re-sliced or replaced afterwards in that case.

import (
	"go/ast"
	"go/token"
	"go/types"
)

func (a *c20) parseOrderAndShift() {
	c := a.c
	info := a.info
	srT := c.P.NamedType("proj", "SR")
	isSRField := func(e ast.Expr) *types.Var {
		sel, ok := unparen(e).(*ast.SelectorExpr)
		if !ok {
			return nil
		}
		sl := info.Selections[sel]
		if sl == nil || sl.Kind() != types.FieldVal {
			return nil
		}
		if named(info.TypeOf(sel.X)) != srT {
			return nil
		}
		v, _ := sl.Obj().(*types.Var)
		return v
	}
	nLoops, nShift := 0, 0
	for _, fn := range c.P.RepoFuncs() {
		if c.P.DeclPkg(fn) != a.p {
			continue
		}
		fd := c.P.Decl(fn)
		sc := newFnScope(info, fd.Body)
		// ---- R6: loops that store into an SR
		ast.Inspect(fd.Body, func(n ast.Node) bool {
			rs, ok := n.(*ast.RangeStmt)
			if !ok {
				return true
			}
			stores := false
			ast.Inspect(rs.Body, func(m ast.Node) bool {
				if as, ok := m.(*ast.AssignStmt); ok {
					for _, l := range as.Lhs {
						if isSRField(l) != nil {
							stores = true
						}
					}
				}
				return true
			})
			if !stores {
				return true
			}
			nLoops++
			cons := c.P.FuncName(fn) + "#parameter-loop"
			if _, isMap := info.TypeOf(rs.X).Underlying().(*types.Map); isMap {
				c.Bad("C20.R6", cons, rs.Pos(), "`for … range %s` applies the parameters in Go's random map order while several keys store into the same field (units/to_meter, k/k_0, pm/from_greenwich, datum/nadgrids): which one wins changes from parse to parse, so the same text does not always give Equal references", src(rs.X))
			} else {
				c.OK("C20.R6", cons, rs.Pos(), "parameters applied in textual order (range over %s)", info.TypeOf(rs.X).String())
			}
			return true
		})
		// ---- R7: stores of the datum-shift list
		ast.Inspect(fd.Body, func(n ast.Node) bool {
			as, ok := n.(*ast.AssignStmt)
			if !ok {
				return true
			}
			for i, l := range as.Lhs {
				f := isSRField(l)
				if f == nil || i >= len(as.Rhs) {
					continue
				}
				if sl, ok := f.Type().Underlying().(*types.Slice); !ok || !isFloat64(sl.Elem()) {
					continue
				}
				nShift++
				cons := c.P.FuncName(fn) + "#shift-list:" + src(l)
				// RHS: make([]float64, len(list)) directly, or a local all of whose definitions are that
				okMake := func(e ast.Expr) (ast.Expr, bool) {
					call, ok := unparen(e).(*ast.CallExpr)
					if !ok || builtinName(info, call) != "make" || len(call.Args) < 2 {
						return nil, false
					}
					la := lenArg(info, call.Args[1])
					return la, la != nil
				}
				rhs := as.Rhs[i]
				var list ast.Expr
				good := false
				why := ""
				if la, ok := okMake(rhs); ok {
					list, good = la, true
				} else if o := objOf(info, rhs); o != nil {
					good = len(sc.defs[o]) > 0
					for _, d := range sc.defs[o] {
						if d == nil {
							good = false
							continue
						}
						if la, ok := okMake(d); ok {
							list = la
						} else {
							good = false
							why = "`" + src(d) + "` replaces the parsed list"
						}
					}
				} else if f.Name() != "" {
					// copies from tables (deriveConstants) are not parser stores: make + loop form required only for parsed text
					if _, isCall := unparen(rhs).(*ast.CallExpr); !isCall {
						why = "`" + src(rhs) + "` is not a fresh list with one element per value"
					}
				}
				if !good {
					if why == "" {
						why = "`" + src(rhs) + "` is not make([]float64, len(<list of values>))"
					}
					c.Bad("C20.R7", cons, as.Pos(), "%s: the stored datum shift no longer has one parameter per value written (a 7-parameter shift whose scale term is dropped differs from the same shift read from WKT TOWGS84 by decimetres)", why)
					continue
				}
				c.OK("C20.R7", cons, as.Pos(), "one element per value of `%s`", src(list))
			}
			return true
		})
	}
	if nLoops == 0 {
		c.Unk("C20.R6", "proj#parameter-loops", token.NoPos, "no loop storing into a spatial reference found")
	}
	if nShift == 0 {
		c.Unk("C20.R7", "proj#shift-lists", token.NoPos, "no store of a datum-shift list found")
	}
}
